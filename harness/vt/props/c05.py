"""C05 — MusicXML scores parse to the notes, key, meter and tempo they declare.

Abstract score (JSON):
  {'parts': [{'midi': [channel, program] | None, 'measures': [[elem, ...], ...]}, ...]}
  elem = ['attr', [item, ...]]      item = ['div', d] | ['key', fifths, mode] | ['time', beats, beat_type]
                                           | ['transpose', chromatic]          (mode 0 absent 1 major 2 minor 3 dorian)
       | ['note', rest, chord, step, alter, octave, dur, voice, type, dots, tup_actual, tup_normal]
       | ['backup', d] | ['forward', d] | ['tempo', 'decimal text']
       | ['harmony', root, kind, [deg, ...], bass, offset]     root, bass = None | [step, alter | None]
                      kind = index into CHORD_KIND_ABBREVIATIONS (dict order), -1 absent, -2 unknown text
                      deg = [value, alter | None, type]  (type 0 add, 1 subtract, 2 alter, 3 invalid text)   offset = None | int
Optional keys (serialisation choices and rare legal shapes, drawn independently by the generator):
  score['fmt'] = {'alter0': emit <alter>0</alter>, 'alter_dec': alters as "1.0", 'omit_voice1': no <voice> for voice 1,
                  'noise': elements the parser must ignore (<print>, <barline>, <clef>, <staves>, <staff>, <stem>,
                  <direction> without <sound>, <sound dynamics> without tempo), 'mxl': container variant 0..3}
  part['midi_form'] = 'full' | 'chan' (only <midi-channel>) | 'prog' (only <midi-program>) | 'nopart' (no <score-part>)
  elem ['raw', xml] = literal XML child (malformed stream only; such cases have no model side)
The harness serialises it to partwise MusicXML (plain .xml and the same bytes inside a .mxl zip), runs the real
musicxml_reader.musicxml_file_to_sequence_proto on both, and compares with the Gallina model (exact rationals).
"""
import fractions
import itertools
import io
import os
import shutil
import tempfile
import zipfile

from vt import coqgen as G

F = fractions.Fraction
ID = 'C05'
USE_VM = False
TYPE_NAMES = ['maxima', 'long', 'breve', 'whole', 'half', 'quarter', 'eighth', '16th', '32nd', '64th',
              '128th', '256th', '512th', '1024th']
STEPS = 'CDEFGAB'
STEP_PC = [0, 2, 4, 5, 7, 9, 11]           # the property's own table (C D E F G A B), not read from the code
MODES = {0: None, 1: 'major', 2: 'minor', 3: 'dorian'}
DIVS = list(range(1, 17)) + [24, 96, 480, 960]
TOL = 1e-9

RULE = ('seeded generator of abstract partwise scores per the quantifier (1-3 parts, 1-6 measures, divisions in '
        '{1..16,24,96,480,960} with an integral beat, meters n/2 n/4 n/8, fifths -7..7 x mode, tempo changes, transposing '
        'parts, second voice via backup, chords, rests, dots, tuplets, pickup / overfull / forward-only measures, every '
        'spelling step x alter -2..2 x octave, <harmony> from the regenerated kind table), serialised to .xml and .mxl and parsed by the real reader; plus a small '
        'malformed stream (one malformation at a random part / measure / position of an otherwise valid score, plus '
        'truncated XML and four broken archives) for the error classes. Serialisation choices (<alter>0</alter>, "1.0", '
        'missing <voice>, ignorable elements, four container layouts) and rare shapes (part without measures, empty / '
        'attributes-only measures, zero-length notes, partial <midi-instrument>, missing <score-part>, meters n/1 and '
        'n/16, voices 3 and 5, meter change in a later part only) are drawn independently. Every document is parsed as '
        '.xml and .mxl under fixed file names in one directory; half of them also with a different document in between, '
        'twice, after editing the returned proto, and through one MusicXMLDocument converted twice. non-trivial = parsed without error with at least two sounding notes; '
        'distinct by canonical abstract score')
ASSUMPTIONS = ['XML / zip parsing (xml.etree, zipfile) is exercised, not modelled; the serialiser emits note children in schema order',
               'implementation times are binary64 and compared with the exact-rational model at relative tolerance 1e-9; '
               'duplicate time/key signatures that differ only by float noise are merged before comparison unless the score is '
               'dyadic (all arithmetic exact), where the lists must agree exactly',
               'tempo in force is read in document order within a part; the velocity / dynamics path is not modelled',
               'minor keys: the key field is the table value of <fifths> (literal "tonic from fifths"), the mode field follows <mode>']
TRUSTED = ['harness/vt/props/c05.py: abstract-score -> MusicXML serialiser and the declarative cursor/key/tempo oracle']


# ------------------------------------------------------------------ regenerated constants
def _probe(score):
    """Parse one abstract score with the real reader (plain .xml in a private temp dir) and return the proto."""
    from note_seq import musicxml_reader
    d = tempfile.mkdtemp(prefix='vt-c05-gen-')
    try:
        path = os.path.join(d, 'probe.xml')
        with open(path, 'w', encoding='utf-8') as f:
            f.write(to_xml(score))
        return musicxml_reader.musicxml_file_to_sequence_proto(path)
    finally:
        shutil.rmtree(d, ignore_errors=True)


def _integral(x, what):
    if isinstance(x, bool) or float(x) != int(x):
        raise TypeError('gen_coq: %s is not integral: %r' % (what, x))
    return int(x)


def _code_kind_table():
    """The code's own kind table when it is reachable as an attribute (class or module level), else None."""
    from note_seq import musicxml_parser
    for owner in (getattr(musicxml_parser, 'ChordSymbol', None), musicxml_parser):
        t = getattr(owner, 'CHORD_KIND_ABBREVIATIONS', None)
        if isinstance(t, dict) and all(isinstance(k, str) for k in t):
            return t
    return None


def _kind_name_list():
    """Names of the supported chord kinds, in the code's own table order when reachable, else the documented list."""
    t = _code_kind_table()
    return list(t) if t is not None else list(KIND_TABLE)


def gen_coq():
    """Every constant / table the model depends on is OBSERVED through the real reader on tiny probe scores (so moving a
    table between a function body, a class and the module is invisible); fail closed only when the behaviour cannot
    be read off (a probe raises, or a value is not of the expected shape)."""
    A = lambda *items: ['attr', [list(i) for i in items]]
    q = lambda **kw: _n(0, 0, 4, 1, **kw)
    # parser-state defaults: a score that declares neither divisions nor tempo nor <midi-instrument>
    ns = _probe({'parts': [{'midi': None, 'measures': [[q()]]}]})
    if len(ns.tempos) != 1 or ns.tempos[0].time != 0 or len(ns.notes) != 1 or ns.notes[0].start_time != 0:
        raise TypeError('gen_coq: default-state probe has unexpected shape')
    init_qpm = _integral(ns.tempos[0].qpm, 'initial qpm')
    secs = F(ns.notes[0].end_time).limit_denominator(10 ** 6)
    if secs <= 0:
        raise TypeError('gen_coq: default-state probe: non-positive note length')
    init_div = _integral(F(60) / init_qpm / secs, 'initial divisions')
    def_chan, def_prog = _integral(ns.notes[0].instrument, 'channel'), _integral(ns.notes[0].program, 'program')
    # tempo="0" falls back to the default tempo
    ns = _probe({'parts': [{'midi': None, 'measures': [[['tempo', '0'], A(['div', 1]), q()]]}]})
    if len(ns.tempos) != 1:
        raise TypeError('gen_coq: tempo-0 probe has unexpected shape')
    default_qpm = _integral(ns.tempos[0].qpm, 'default qpm')
    # fifths -> proto key: one <key> per measure (distinct times), then the extent of the table beyond 7
    lo, hi = -7, 7
    ns = _probe({'parts': [{'midi': None, 'measures': [[A(['div', 1], ['key', f, 1]), q()] for f in range(lo, hi + 1)]}]})
    if len(ns.key_signatures) != hi - lo + 1 or [k.time for k in ns.key_signatures] != sorted(k.time for k in ns.key_signatures):
        raise TypeError('gen_coq: key probe has unexpected shape')
    keys = [int(k.key) for k in ns.key_signatures]
    one_key = lambda f: _probe({'parts': [{'midi': None, 'measures': [[A(['div', 1], ['key', f, 1]), q()]]}]})
    f = hi + 1
    while True:
        try:
            keys.append(int(one_key(f).key_signatures[0].key))
        except IndexError:
            break
        f += 1
        if f > 40:
            raise TypeError('gen_coq: fifths -> key table has no end below 40')
    # ... and it is a sequence indexed by fifths + 7 with Python's negative indices (what the model assumes)
    n = len(keys)
    if int(one_key(-8).key_signatures[0].key) != keys[n - 1]:
        raise TypeError('gen_coq: fifths -> key lookup is not sequence indexing (probe -8)')
    try:
        one_key(-7 - n - 1)
        raise TypeError('gen_coq: fifths -> key lookup is not sequence indexing (probe below the table)')
    except IndexError:
        pass
    # note types -> ratio: one plain note of every type
    ns = _probe({'parts': [{'midi': None, 'measures': [[A(['div', 1])] + [q(ty=i) for i in range(len(TYPE_NAMES))]]}]})
    if len(ns.notes) != len(TYPE_NAMES):
        raise TypeError('gen_coq: note-type probe has unexpected shape')
    ratios = [(int(x.numerator), int(x.denominator)) for x in ns.notes]
    # chord kinds -> abbreviation: figure of "C <kind>" minus the root letter; 'none' gives N.C. whatever the root
    names = _kind_name_list()
    _KINDS['names'] = names
    ns = _probe({'parts': [{'midi': None, 'measures': [
        [A(['div', 1])] + [['harmony', [0, None], i, [], None, None] for i in range(len(names))] + [q()]]}]})
    if len(ns.text_annotations) != len(names):
        raise TypeError('gen_coq: chord-kind probe has unexpected shape')
    abbrevs = []
    for name, ta in zip(names, ns.text_annotations):
        t = str(ta.text)
        if t == 'N.C.':
            abbrevs.append(t)
        elif t.startswith('C'):
            abbrevs.append(t[1:])
        else:
            raise TypeError('gen_coq: chord-kind probe: figure %r for kind %r' % (t, name))
    s = 'From Coq Require Import ZArith List.\nImport ListNotations.\nLocal Open Scope Z_scope.\n\n'
    s += G.defz('DEFAULT_QPM', default_qpm)
    s += G.defz('INIT_QPM', init_qpm)
    s += G.defz('INIT_DIVISIONS', init_div)
    s += G.defz('DEFAULT_MIDI_CHANNEL', def_chan)
    s += G.defz('DEFAULT_MIDI_PROGRAM', def_prog)
    s += G.defzlist('MUSIC_PROTO_KEYS', keys)
    s += 'Definition CHORD_KINDS : list (list Z * list Z) :=\n  [%s].\n' % ';\n   '.join(
        '(%s, %s)' % (G.string(k), G.string(v)) for k, v in zip(names, abbrevs))
    s += 'Definition NOTE_TYPE_RATIOS : list (Z * Z) :=\n  [%s].\n' % '; '.join(
        '(%s, %s)' % (G.z(n_), G.z(d_)) for n_, d_ in ratios)
    _KINDS['defaults'] = (def_chan, def_prog)
    return s


_KINDS = {}


# ------------------------------------------------------------------ serialiser
def _attr_xml(items, fmt=None):
    fmt = fmt or {}
    out = ['<attributes>']
    clef = '<staves>1</staves><clef><sign>G</sign><line>2</line></clef>' if fmt.get('noise') else ''
    for it in items:
        if it[0] == 'transpose' and clef:
            out.append(clef); clef = ''
        if it[0] == 'div':
            out.append('<divisions>%d</divisions>' % it[1])
        elif it[0] == 'key':
            m = MODES[it[2]]
            out.append('<key><fifths>%d</fifths>%s</key>' % (it[1], '<mode>%s</mode>' % m if m else ''))
        elif it[0] == 'time':
            out.append('<time><beats>%d</beats><beat-type>%d</beat-type></time>' % (it[1], it[2]))
        elif it[0] == 'transpose':
            out.append('<transpose><diatonic>0</diatonic><chromatic>%d</chromatic></transpose>' % it[1])
        else:
            raise ValueError(it)
    out.append(clef)
    out.append('</attributes>')
    return ''.join(out)


def _alter_text(alter, fmt):
    if alter == 0 and not fmt.get('alter0'):
        return ''
    return '<alter>%s</alter>' % (('%d.0' % alter) if fmt.get('alter_dec') else ('%d' % alter))


def _elem_xml(e, fmt=None):
    fmt = fmt or {}
    k = e[0]
    if k == 'raw':
        return e[1]
    if k == 'attr':
        return _attr_xml(e[1], fmt)
    if k == 'note':
        _, rest, chord, step, alter, octave, dur, voice, ty, dots, ta, tn = e
        s = '<note>'
        if chord:
            s += '<chord/>'
        if rest:
            s += '<rest/>'
        else:
            stp = STEPS[step] if 0 <= step < 7 else 'H'
            s += '<pitch><step>%s</step>%s<octave>%d</octave></pitch>' % (stp, _alter_text(alter, fmt), octave)
        s += '<duration>%d</duration>' % dur
        if not (voice == 1 and fmt.get('omit_voice1')):
            s += '<voice>%d</voice>' % voice
        s += '<type>%s</type>' % (TYPE_NAMES[ty] if 0 <= ty < len(TYPE_NAMES) else 'semihemidemi')
        s += '<dot/>' * dots
        if ta:
            s += '<time-modification><actual-notes>%d</actual-notes><normal-notes>%d</normal-notes></time-modification>' % (ta, tn)
        if fmt.get('noise'):
            s += '<stem>up</stem><staff>1</staff><notations><articulations><staccato/></articulations></notations>'
        return s + '</note>'
    if k in ('backup', 'forward'):
        return '<%s><duration>%d</duration></%s>' % (k, e[1], k)
    if k == 'harmony':
        _, root, kind, degs, bass, offset = e
        s = '<harmony>'
        if root is not None:
            s += '<root><root-step>%s</root-step>%s</root>' % (
                STEPS[root[0]] if 0 <= root[0] < 7 else 'H', '' if root[1] is None else '<root-alter>%d</root-alter>' % root[1])
        if kind != -1:
            s += '<kind>%s</kind>' % (_kind_names()[kind] if kind >= 0 else 'no-such-kind')
        if bass is not None:
            s += '<bass><bass-step>%s</bass-step>%s</bass>' % (
                STEPS[bass[0]] if 0 <= bass[0] < 7 else 'H', '' if bass[1] is None else '<bass-alter>%d</bass-alter>' % bass[1])
        for v, a, ty in degs:
            s += '<degree><degree-value>%d</degree-value>%s<degree-type>%s</degree-type></degree>' % (
                v, '' if a is None else '<degree-alter>%d</degree-alter>' % a, ['add', 'subtract', 'alter', 'bogus'][ty])
        if offset is not None:
            s += '<offset>%d</offset>' % offset
        return s + '</harmony>'
    if k == 'tempo':
        return '<direction placement="above"><direction-type><words>t</words></direction-type><sound tempo="%s"/></direction>' % e[1]
    raise ValueError(e)


def _kind_names():
    if 'names' not in _KINDS:
        _KINDS['names'] = _kind_name_list()
    return _KINDS['names']


def _code_defaults():
    """(channel, program) the implementation gives a part without MIDI information (for the model side)."""
    if 'defaults' not in _KINDS:
        ns = _probe({'parts': [{'midi': None, 'measures': [[_n(0, 0, 4, 1)]]}]})
        _KINDS['defaults'] = (int(ns.notes[0].instrument), int(ns.notes[0].program))
    return _KINDS['defaults']


def midi_of(p, default=(0, 0)):
    """(channel, program) a part's notes must carry: the <midi-instrument> values when BOTH are given for a listed
    <score-part>, else the documented defaults (channel 0, program 0 = grand piano)."""
    if p.get('midi') and p.get('midi_form', 'full') == 'full':
        return tuple(p['midi'])
    return tuple(default)


def to_xml(score):
    fmt = score.get('fmt') or {}
    out = ['<?xml version="1.0" encoding="UTF-8" standalone="no"?>\n<score-partwise version="3.0">']
    if fmt.get('noise'):
        out.append('<work><work-title>t</work-title></work><identification><creator type="composer">c</creator>'
                   '</identification>')
    out.append('<part-list>')
    for i, p in enumerate(score['parts']):
        form = p.get('midi_form', 'full')
        if form == 'nopart':
            continue
        out.append('<score-part id="P%d"><part-name>part %d</part-name>' % (i + 1, i + 1))
        if p.get('midi'):
            out.append('<midi-instrument id="P%d-I1">' % (i + 1))
            if form in ('full', 'chan'):
                out.append('<midi-channel>%d</midi-channel>' % p['midi'][0])
            if form in ('full', 'prog'):
                out.append('<midi-program>%d</midi-program>' % p['midi'][1])
            out.append('</midi-instrument>')
        out.append('</score-part>')
    out.append('</part-list>')
    for i, p in enumerate(score['parts']):
        out.append('<part id="P%d">' % (i + 1))
        nm = len(p['measures'])
        for j, m in enumerate(p['measures']):
            out.append('<measure number="%d">' % (j + 1))
            if fmt.get('noise'):
                out.append('<print new-system="yes"/>' if j % 2 else
                           '<direction><direction-type><dynamics><f/></dynamics></direction-type>'
                           '<sound dynamics="90"/></direction>')
            out.extend(_elem_xml(e, fmt) for e in m)
            if fmt.get('noise') and j == nm - 1:
                out.append('<barline location="right"><bar-style>light-heavy</bar-style></barline>')
            out.append('</measure>')
        out.append('</part>')
    out.append('</score-partwise>\n')
    return ''.join(out)


MXL_MIME = 'application/vnd.recordare.musicxml+xml'      # the documented media type (MusicXML 3.0 container spec)


def to_mxl_bytes(xml_text, variant=0):
    """variant 0: one rootfile with media-type; 1: no media-type attribute; 2: an extra rootfile of another media type
    listed first, score under a unicode path in a sub-directory; 3: stored (not deflated), extra unrelated member.
    Malformed: 'two-scores', 'missing-score', 'no-container', 'garbage'."""
    if variant == 'garbage':
        return b'PK\x03\x04 this is not a zip archive'
    inner = 'score.xml'
    if variant == 2:
        inner = 'sub dir/m\u00fasica \u4e50.xml'
    root = '<rootfile full-path="%s" media-type="%s"/>' % (inner, MXL_MIME)
    if variant == 1:
        root = '<rootfile full-path="%s"/>' % inner
    if variant == 2:
        root = '<rootfile full-path="cover.png" media-type="image/png"/>' + root
    if variant == 'two-scores':
        root += '<rootfile full-path="other.xml" media-type="%s"/>' % MXL_MIME
    if variant == 'missing-score':
        root = '<rootfile full-path="absent.xml" media-type="%s"/>' % MXL_MIME
    buf = io.BytesIO()
    with zipfile.ZipFile(buf, 'w', zipfile.ZIP_STORED if variant == 3 else zipfile.ZIP_DEFLATED) as z:
        if variant != 'no-container':
            z.writestr('META-INF/container.xml',
                       '<?xml version="1.0" encoding="UTF-8"?><container><rootfiles>%s</rootfiles></container>' % root)
        if variant in (2, 3):
            z.writestr('cover.png', b'\x89PNG not really')
        if variant == 'two-scores':
            z.writestr('other.xml', xml_text)
        z.writestr(inner, xml_text)
    return buf.getvalue()


# ------------------------------------------------------------------ implementation
def _canon_proto(ns):
    tsigs = sorted([[float(t.time), int(t.numerator), int(t.denominator)] for t in ns.time_signatures],
                   key=lambda x: (round(x[0], 6), x[1], x[2]))
    ksigs = sorted([[float(k.time), int(k.key), int(k.mode)] for k in ns.key_signatures],
                   key=lambda x: (round(x[0], 6), x[1], x[2]))
    tempos = [[float(t.time), float(t.qpm)] for t in ns.tempos]
    notes = sorted([[int(n.part), int(n.voice), int(n.instrument), int(n.program), int(n.pitch),
                     float(n.start_time), float(n.end_time), int(n.numerator), int(n.denominator)] for n in ns.notes],
                   key=lambda x: (x[0], x[1], x[4], round(x[5], 6), round(x[6], 6)))
    chords = sorted([[float(t.time), str(t.text), int(t.annotation_type)] for t in ns.text_annotations],
                    key=lambda x: (round(x[0], 6), x[1]))
    return ['OK', tsigs, ksigs, tempos, notes, float(ns.total_time), chords]


_DIR = {}
_LAST = {}
_DECOY = {'parts': [{'midi': [9, 77], 'measures': [
    [['tempo', '47'], ['attr', [['div', 7], ['key', -4, 2], ['time', 5, 8], ['transpose', 5]]],
     ['note', False, False, 1, 1, 2, 7, 3, 4, 1, 3, 2], ['note', False, True, 4, -1, 6, 7, 3, 4, 1, 3, 2],
     ['backup', 3], ['forward', 2], ['note', False, False, 6, 2, 1, 9, 3, 6, 0, 0, 0]],
    [['attr', [['time', 7, 8]]], ['note', False, False, 0, 0, 3, 5, 1, 5, 0, 0, 0]]]}]}


def _workdir():
    """One scratch directory per process (created with tempfile, removed at exit); the SAME two file names are reused for
    every case, so that anything cached per path or kept between documents shows up as a wrong result."""
    if 'd' not in _DIR:
        import atexit
        _DIR['d'] = tempfile.mkdtemp(prefix='vt-c05-')
        atexit.register(shutil.rmtree, _DIR['d'], True)
        with open(os.path.join(_DIR['d'], 'decoy.xml'), 'w', encoding='utf-8') as f:
            f.write(to_xml(_DECOY))
    return _DIR['d']


def _parse(path):
    """-> (canonical result, proto or None)"""
    from note_seq import musicxml_reader
    try:
        ns = musicxml_reader.musicxml_file_to_sequence_proto(path)
    except Exception as e:  # noqa
        return ['EXC', type(e).__name__], None
    return _canon_proto(ns), ns


def _sha(path):
    import hashlib
    with open(path, 'rb') as f:
        return hashlib.sha1(f.read()).hexdigest()


_TRIP = {'n': 0}


def impl(case):
    """Circuit breaker: an implementation that keeps state between documents can grow without bound (every parse
    re-emits all earlier parts); after 8 state/aliasing verdicts the remaining cases are not parsed any more."""
    import time
    if _TRIP['n'] >= 8:
        return ['SKIPPED', 'not parsed: the implementation already gave 8 state-dependent results in this process']
    t0 = time.time()
    out = _impl(case)
    n_expected = sum(1 for p in case['input']['parts'] for m in p['measures'] for e in m if e[0] == 'note')
    if out[0] == 'OK' and len(out[4]) > 4 * n_expected + 50:
        out = ['STATE', 'far-more-notes-than-the-document-has', len(out[4]), n_expected]
    if out[0] in ('STATE', 'MXL-DIFFERS') or time.time() - t0 > 20:
        _TRIP['n'] += 1
    return out


def _impl(case):
    score = case['input']
    xml = to_xml(score)
    fv = case.get('file')                 # malformed-file variants
    if fv == 'xml-truncated':
        xml = xml[:max(40, len(xml) * 2 // 3)]
    d = _workdir()
    px, pm = os.path.join(d, 'score.xml'), os.path.join(d, 'score.mxl')
    with open(px, 'w', encoding='utf-8') as f:
        f.write(xml)
    with open(pm, 'wb') as f:
        f.write(to_mxl_bytes(xml, fv if fv not in (None, 'xml-truncated') else (score.get('fmt') or {}).get('mxl', 0)))
    hx, hm = _sha(px), _sha(pm)
    if fv not in (None, 'xml-truncated'):
        return _parse(pm)[0]              # the archive itself is the malformed input
    a, pa = _parse(px)
    # (iv) the result of the PREVIOUS case, kept alive, must not have changed under this parse
    if _LAST.get('ns') is not None and _canon_proto(_LAST['ns']) != _LAST['canon']:
        return ['STATE', 'result-of-earlier-document-changed-by-a-later-parse']
    deep = int(hx[:2], 16) % 2 == 0
    if deep:
        _parse(os.path.join(d, 'decoy.xml'))        # (ii) a different document in between
    b, pb = _parse(pm)
    if a != b:
        return ['MXL-DIFFERS', a, b]
    if pa is not None and _canon_proto(pa) != a:
        return ['STATE', 'returned-sequence-changed-by-a-later-parse']
    if deep:
        from note_seq import musicxml_parser, musicxml_reader
        if pa is not None:
            # (iii) edit the returned object, then parse the same file again
            del pa.notes[:]; del pa.key_signatures[:]; pa.tempos.add().qpm = 1.0; pa.total_time = -1.0
            if pb is not None and _canon_proto(pb) != a:
                return ['STATE', 'editing-one-result-changed-another']
        a2, _ = _parse(px)                           # (i) same argument twice
        if a2 != a:
            return ['STATE', 'same-file-parsed-twice-differs', a, a2]
        if a[0] == 'OK':
            doc = musicxml_parser.MusicXMLDocument(px)
            c1 = _canon_proto(musicxml_reader.musicxml_to_sequence_proto(doc))
            c2 = _canon_proto(musicxml_reader.musicxml_to_sequence_proto(doc))
            if c1 != a or c2 != a:
                return ['STATE', 'converting-one-parsed-document-twice-differs', c1, c2]
    if _sha(px) != hx or _sha(pm) != hm:
        return ['STATE', 'input-file-modified']
    _LAST['ns'], _LAST['canon'] = pb, (b if pb is not None else None)
    return a


# ------------------------------------------------------------------ model side
def _flat(m):
    """measure elements -> wire tokens (attributes flattened in document order)."""
    out = []
    for e in m:
        k = e[0]
        if k == 'attr':
            for it in e[1]:
                if it[0] == 'div':
                    out.append([5, it[1]])
                elif it[0] == 'key':
                    out.append([6, it[1], it[2]])
                elif it[0] == 'time':
                    out.append([7, it[1], it[2]])
                elif it[0] == 'transpose':
                    out.append([8, it[1]])
        elif k == 'note':
            out.append([9, 1 if e[1] else 0, 1 if e[2] else 0] + [int(x) for x in e[3:]])
        elif k == 'backup':
            out.append([10, e[1]])
        elif k == 'forward':
            out.append([11, e[1]])
        elif k == 'tempo':
            q = F(e[1])
            out.append([12, q.numerator, q.denominator])
        elif k == 'harmony':
            _, root, kind, degs, bass, offset = e
            po = lambda p: [] if p is None else ([p[0]] if p[1] is None else [p[0], p[1]])
            out.append([13, po(root), kind if kind >= -1 else 10 ** 6,
                        [[v, ty] if a is None else [v, ty, a] for v, a, ty in degs], po(bass),
                        [] if offset is None else [offset]])
    return out


def model_input(case):
    from note_seq import musicxml_parser as mp
    if case.get('file') or any(e[0] == 'raw' for p in case['input']['parts'] for m in p['measures'] for e in m):
        return None                       # file-level / literal-XML malformations: oracle only
    parts = []
    for p in case['input']['parts']:
        c, g = midi_of(p, _code_defaults())
        parts.append([c, g, [_flat(m) for m in p['measures']]])
    return [1, parts]


_ERR = {1: 'MusicXMLConversionError', 2: 'AttributeError', 3: 'IndexError'}


def _q(p):
    return float(F(p[0], p[1]))


def model_output(case, out):
    if out and out[0] == -1000:
        return ['EXC', _ERR.get(out[1], 'model-error-%d' % out[1])]
    _, ts, ks, tm, ns, total, ch = out
    tsigs = sorted([[_q(t), n, d] for t, n, d in ts], key=lambda x: (round(x[0], 6), x[1], x[2]))
    ksigs = sorted([[_q(t), k, m] for t, k, m in ks], key=lambda x: (round(x[0], 6), x[1], x[2]))
    tempos = [[_q(t), _q(q)] for t, q in tm]
    notes = sorted([[p, v, i, g, pi, _q(s), _q(e), n, d] for p, v, i, g, pi, s, e, n, d in ns],
                   key=lambda x: (x[0], x[1], x[4], round(x[5], 6), round(x[6], 6)))
    from note_seq.protobuf import music_pb2
    chords = sorted([[_q(t), ''.join(chr(c) for c in f), int(music_pb2.NoteSequence.TextAnnotation.CHORD_SYMBOL)] for t, f in ch],
                    key=lambda x: (round(x[0], 6), x[1]))
    return ['OK', tsigs, ksigs, tempos, notes, _q(total), chords]


def _close(a, b):
    return abs(a - b) <= TOL * max(1.0, abs(a), abs(b))


def _approx(a, b):
    if isinstance(a, float) or isinstance(b, float):
        return isinstance(a, (int, float)) and isinstance(b, (int, float)) and _close(float(a), float(b))
    if isinstance(a, list) and isinstance(b, list):
        return len(a) == len(b) and all(_approx(x, y) for x, y in zip(a, b))
    return a == b


def _merge_noise(sigs):
    """Drop an entry equal to an earlier one up to float noise in its time."""
    out = []
    for s in sigs:
        if not any(s[1:] == o[1:] and _close(s[0], o[0]) for o in out):
            out.append(s)
    return out


def equal(case, a, b):
    if not (isinstance(a, list) and isinstance(b, list) and a and b and a[0] == 'OK' and b[0] == 'OK'):
        return a == b
    if not case.get('exact'):
        a = [a[0], _merge_noise(a[1]), _merge_noise(a[2])] + a[3:]
        b = [b[0], _merge_noise(b[1]), _merge_noise(b[2])] + b[3:]
    return _approx(a, b)


# ------------------------------------------------------------------ the property, evaluated on the implementation
def _tokens_of_part(p):
    """Flatten one part to (measure index, token) in document order, with _repair_empty_measure's effect on the
    measure's length bookkeeping made explicit (a forward-only measure is a whole-measure rest)."""
    out = []
    for mi, m in enumerate(p['measures']):
        for e in m:
            if e[0] == 'raw':
                continue
            if e[0] == 'attr':
                for it in e[1]:
                    out.append((mi, list(it)))
            else:
                out.append((mi, list(e)))
    return out


def _initial_tempo(part):
    """Tempo in force at time 0 of a part: the last mark before anything moves the cursor, else 120."""
    q = F(120)
    for _, t in _tokens_of_part(part):
        if t[0] == 'tempo':
            q = F(t[1]) if F(t[1]) != 0 else F(120)
        elif t[0] in ('note', 'backup', 'forward'):
            break
    return q


def _last_tempo(parts, default):
    q = default
    for p in parts:
        for _, t in _tokens_of_part(p):
            if t[0] == 'tempo':
                q = F(t[1]) if F(t[1]) != 0 else F(120)
    return q


def leak_free(score):
    """The exclusion hypothesis of C05_mxl_cursor (Coq: leak_free): at every later part's opening the parser's tempo
    state equals the tempo in force at time 0 of the first part."""
    ps = score['parts']
    if len(ps) <= 1:
        return True
    q0 = _initial_tempo(ps[0])
    return all(_last_tempo(ps[:k], F(120)) == q0 for k in range(1, len(ps)))


def leak_free_end(score):
    """Coq: leak_free_end — the same at the end of the document (default tempo entry)."""
    ps = score['parts']
    return not ps or _last_tempo(ps, F(120)) == _initial_tempo(ps[0])


def _expected_part(score, k, q0):
    """Declarative cursor arithmetic for part k started at tempo q0: onset of element i is the sum over earlier
    elements j of sign_j * dur_j / divisions-in-force_j * 60 / tempo-in-force_j."""
    toks = _tokens_of_part(score['parts'][k])
    # divisions in force before the part: the most recent <divisions> of the document (every generated part declares its own)
    d = 1
    for p in score['parts'][:k]:
        for _, t in _tokens_of_part(p):
            if t[0] == 'div':
                d = t[1]
    q = q0
    div_at, qpm_at = [], []
    for _, t in toks:
        div_at.append(d)
        qpm_at.append(q)
        if t[0] == 'div':
            d = t[1]
        elif t[0] == 'tempo':
            q = F(t[1]) if F(t[1]) != 0 else F(120)
    def secs(i, dur):
        return F(dur, div_at[i]) * 60 / qpm_at[i]
    delta = []
    for i, (_, t) in enumerate(toks):
        if t[0] == 'note' and not t[2]:
            delta.append(secs(i, t[6]))
        elif t[0] == 'forward':
            delta.append(secs(i, t[1]))
        elif t[0] == 'backup':
            delta.append(-secs(i, t[1]))
        else:
            delta.append(F(0))
    onset = [F(0)] + list(itertools.accumulate(delta))      # onset[i] = sum(delta[:i])
    notes, tempos, keys, times, chords = [], [], [], [], []
    transpose = 0
    head = None                       # (onset, dur) of the chord's first member
    per_measure_key = {}
    for i, (mi, t) in enumerate(toks):
        if t[0] == 'transpose':
            transpose = t[1]
            if mi in per_measure_key:
                per_measure_key[mi][3] += t[1]
                # spelling of the sounding key (only used to tell enharmonic duplicates apart when de-duplicating)
                e = per_measure_key[mi][4] + (-5 * t[1]) % 12
                per_measure_key[mi][4] = e - 12 if e > 6 else e
        elif t[0] == 'key':
            per_measure_key[mi] = [onset[i], t[1], 1 if t[2] == 2 else 0, 0, t[1]]
        elif t[0] == 'time':
            times.append([onset[i], t[1], t[2]])
        elif t[0] == 'tempo':
            tempos.append([onset[i], F(t[1]) if F(t[1]) != 0 else F(120)])
        elif t[0] == 'harmony':
            _, root, kind, degs, bass, offset = t
            chords.append([onset[i] + (secs(i, offset) if offset is not None else 0), _figure(root, kind, degs, bass)])
        elif t[0] == 'note':
            _, rest, chord, step, alter, octave, dur, voice = t[:8]
            if chord and head is not None:
                on, du = head
            else:
                on, du = onset[i], dur
                head = (on, du)
            if not rest:
                pitch = 12 * (octave + 1) + STEP_PC[step] + alter + transpose
                st = max(on, F(0))
                notes.append({'part': k, 'voice': voice, 'pitch': pitch, 'start': st, 'end': st + secs(i, du),
                              'spelling': [step, alter, octave, transpose]})
    for mi in sorted(per_measure_key):
        on, f, mode, chrom, spelled = per_measure_key[mi]
        keys.append([on, (7 * f + chrom) % 12, mode, f, chrom, spelled])
    return {'notes': notes, 'tempos': tempos, 'keys': keys, 'times': times, 'chords': chords, 'end': sum(delta, F(0))}


_ALT = {None: '', -2: 'bb', -1: 'b', 0: '', 1: '#', 2: '##'}
# The documented "supported kind table" (MusicXML kind value -> lead-sheet abbreviation), frozen here so that the oracle's
# expectation does not come from the implementation; a kind the code adds later is accepted as the code spells it.
KIND_TABLE = {
    'major': '', 'minor': 'm', 'augmented': 'aug', 'diminished': 'dim', 'dominant': '7', 'major-seventh': 'maj7',
    'minor-seventh': 'm7', 'diminished-seventh': 'dim7', 'augmented-seventh': 'aug7', 'half-diminished': 'm7b5',
    'major-minor': 'm(maj7)', 'major-sixth': '6', 'minor-sixth': 'm6', 'dominant-ninth': '9', 'major-ninth': 'maj9',
    'minor-ninth': 'm9', 'dominant-11th': '11', 'major-11th': 'maj11', 'minor-11th': 'm11', 'dominant-13th': '13',
    'major-13th': 'maj13', 'minor-13th': 'm13', 'suspended-second': 'sus2', 'suspended-fourth': 'sus', 'pedal': 'ped',
    'power': '5', 'none': 'N.C.', 'dominant-seventh': '7', 'augmented-ninth': 'aug9', 'minor-major': 'm(maj7)',
    '': '', 'min': 'm', 'aug': 'aug', 'dim': 'dim', '7': '7', 'maj7': 'maj7', 'min7': 'm7', 'dim7': 'dim7',
    'm7b5': 'm7b5', 'minMaj7': 'm(maj7)', '6': '6', 'min6': 'm6', 'maj69': '6(add9)', '9': '9', 'maj9': 'maj9',
    'min9': 'm9', 'sus47': 'sus7'}


def _figure(root, kind, degs, bass):
    """Lead-sheet figure of a <harmony>: root ++ kind abbreviation ++ '(degree)'* ++ '/bass' (N.C. for kind none)."""
    from note_seq import musicxml_parser
    if kind == -1:
        k = ''
    else:
        name = _kind_names()[kind]
        k = KIND_TABLE[name] if name in KIND_TABLE else (_code_kind_table() or {}).get(name, '')
    if k == 'N.C.':
        return k
    fig = STEPS[root[0]] + _ALT[root[1]] + k
    for v, a, ty in degs:
        if ty == 0:
            fig += '(%s%s%d)' % ('' if _ALT[a] else 'add', _ALT[a], v)
        elif ty == 1:
            fig += '(no%d)' % v
        else:
            fig += '(%s%d)' % (_ALT[a], v)
    if bass is not None:
        fig += '/' + STEPS[bass[0]] + _ALT[bass[1]]
    return fig


def _measures_complete(score):
    """Every measure is exactly as long as the time signature in force says (voice 1, non-chord notes and rests;
    a forward-only measure counts through the whole-measure rest the parser substitutes) and a beat is a whole
    number of divisions."""
    d, sig = 1, None
    for p in score['parts']:
        for m in p['measures']:
            toks = []
            for e in m:
                toks.extend([list(it) for it in e[1]] if e[0] == 'attr' else [list(e)])
            nnotes = sum(1 for t in toks if t[0] == 'note')
            fw = [t for t in toks if t[0] == 'forward']
            total = 0
            ntime = 0
            for t in toks:
                if t[0] == 'div':
                    d = t[1]
                elif t[0] == 'time':
                    sig = (t[1], t[2]); ntime += 1
                elif t[0] == 'note' and t[7] == 1 and not t[2]:
                    total += t[6]
            if nnotes == 0 and len(fw) == 1:
                total += fw[0][1]
            if sig is None or ntime > 1 or sig[1] <= 0 or (4 * d) % sig[1] != 0 or total * sig[1] != sig[0] * 4 * d:
                return False
    return True


def _dedup(xs):
    out = []
    for x in xs:
        if x not in out:
            out.append(x)
    return out


def _same_times(exp, got):
    """bag comparison of [time, ints...] lists, time within tolerance."""
    got = list(got)
    for e in exp:
        hit = None
        for g in got:
            if list(g[1:]) == [int(v) for v in e[1:]] and _close(float(e[0]), float(g[0])):
                hit = g; break
        if hit is None:
            return False
        got.remove(hit)
    return not got


def _note_mismatch(exp_notes, got_notes):
    exp = sorted(exp_notes, key=lambda n: (n['part'], n['voice'], n['pitch'], n['start'], n['end']))
    got = sorted(got_notes, key=lambda x: (x[0], x[1], x[4], round(x[5], 6), round(x[6], 6)))
    for e, g in zip(exp, got):
        if not (_close(float(e['start']), g[5]) and _close(float(e['end']), g[6])):
            return e, g
    return None


def oracle(case, io):
    _TRIP['n'] = 0        # the engine judges after ALL cases were run: the breaker only guards that bulk phase
    score = case['input']
    if case.get('op') == 'malformed':
        # rejection clause: only the documented error may escape for the documented malformations
        want = case.get('expect')
        if want and io != ['EXC', want]:
            return {'kind': 'malformed-score-not-rejected-as-documented', 'expect': want, 'got': io[:2]}
        return None
    if io[0] == 'MXL-DIFFERS':
        return {'kind': 'mxl-differs-from-xml', 'container_variant': (score.get('fmt') or {}).get('mxl', 0)}
    if io[0] == 'STATE':
        return {'kind': 'result-depends-on-earlier-calls-or-is-aliased', 'what': io[1]}
    if io[0] == 'SKIPPED':
        return {'kind': 'skipped-after-repeated-state-failures', 'what': io[1]}
    if io[0] != 'OK':
        return {'kind': 'well-formed-score-rejected', 'exception': io[1] if len(io) > 1 else '?'}
    _, tsigs, ksigs, tempos, notes, total, chords = io
    parts = score['parts']
    q_first = _initial_tempo(parts[0]) if parts else F(120)
    exp = [_expected_part(score, k, F(120) if k == 0 else q_first) for k in range(len(parts))]
    state = [_expected_part(score, k, _last_tempo(parts[:k], F(120))) for k in range(len(parts))]

    # --- notes: one per pitched <note>; pitch; voice / part / channel / program
    exp_notes = [n for e in exp for n in e['notes']]
    if len(notes) != len(exp_notes):
        return {'kind': 'note-count-wrong', 'expected': len(exp_notes), 'got': len(notes)}
    from note_seq import musicxml_parser as mp
    for k, p in enumerate(parts):
        c, g = midi_of(p)
        for n in notes:
            if n[0] == k and (n[2] != c or n[3] != g):
                return {'kind': 'channel-or-program-wrong', 'part': k, 'expected': [c, g], 'got': n[2:4]}
    got_pp = sorted((n[0], n[4]) for n in notes)
    exp_pp = sorted((n['part'], n['pitch']) for n in exp_notes)
    if got_pp != exp_pp:
        # name the spelling that went wrong
        for e in sorted(exp_notes, key=lambda n: (n['part'], n['pitch'])):
            if (e['part'], e['pitch']) not in got_pp:
                st, al, oc, tr = e['spelling']
                extra = sorted(set(g[1] for g in got_pp if g[0] == e['part']) - set(x[1] for x in exp_pp if x[0] == e['part']))
                return {'kind': 'pitch-wrong', 'step': STEPS[st], 'alter': al, 'octave': oc, 'transpose': tr,
                        'expected': e['pitch'], 'got_unexpected_pitches': extra[:4], 'part': e['part']}
        return {'kind': 'pitch-wrong'}
    if sorted((n[0], n[1], n[4]) for n in notes) != sorted((n['part'], n['voice'], n['pitch']) for n in exp_notes):
        return {'kind': 'voice-wrong', 'expected': sorted(set(n['voice'] for n in exp_notes)),
                'got': sorted(set(n[1] for n in notes))}
    # --- onsets and durations at the tempo in force
    leak = None
    bad = _note_mismatch(exp_notes, notes)
    if bad is not None:
        e, g = bad
        st_notes = [n for s in state for n in s['notes']]
        if e['part'] > 0 and not leak_free(score) and _note_mismatch(st_notes, notes) is None:
            leak = {'kind': 'tempo-state-leaks-across-parts', 'what': 'note-times', 'part': e['part'],
                    'expected': [float(e['start']), float(e['end'])], 'got': [g[5], g[6]]}
        else:
            return {'kind': 'note-time-wrong', 'part': e['part'], 'voice': e['voice'], 'pitch': e['pitch'],
                'expected': [float(e['start']), float(e['end'])], 'got': [g[5], g[6]]}
    # --- tempo marks (the reader reports the first part's), at the times they occur; 120 when there is none
    exp_t = [[t, q] for t, q in exp[0]['tempos']] if parts else []
    if exp_t:
        if not (len(tempos) == len(exp_t) and all(_close(float(a[0]), b[0]) and _close(float(a[1]), b[1])
                                                  for a, b in zip(exp_t, tempos))):
            return {'kind': 'tempo-marks-wrong', 'expected': [[float(a), float(b)] for a, b in exp_t], 'got': tempos}
    else:
        if not (len(tempos) == 1 and _close(tempos[0][0], 0.0) and _close(tempos[0][1], 120.0)):
            if len(tempos) == 1 and _close(tempos[0][0], 0.0) and not leak_free_end(score) and \
                    _close(tempos[0][1], float(_last_tempo(parts, F(120)))):
                leak = leak or {'kind': 'tempo-state-leaks-across-parts', 'what': 'default-tempo', 'part': 0,
                                'expected': [[0.0, 120.0]], 'got': tempos}
            else:
                return {'kind': 'tempo-marks-wrong', 'expected': [[0.0, 120.0]], 'got': tempos}
    # --- key signatures: tonic from <fifths> (sounding key when <transpose> follows in the measure), mode from <mode>
    # (times taken under the parser-state reading so that a tempo leak is reported once, as such)
    exp_k = [x[:3] for x in _dedup([[x[0], x[1], x[2], x[5]] for s in state for x in s['keys']])] or [[F(0), 0, 0]]
    if not case.get('exact'):
        exp_k, ksigs_c = _merge_noise([[float(a), b, c] for a, b, c in exp_k]), _merge_noise(ksigs)
    else:
        ksigs_c = ksigs
    if not _same_times(exp_k, ksigs_c):
        for s in state:
            for on, pc, mode, f, chrom, _sp in s['keys']:
                if not any(_close(float(on), g[0]) and g[1] == pc and g[2] == mode for g in ksigs):
                    near = [g for g in ksigs if _close(float(on), g[0])]
                    if near and all(g[1] == pc for g in near) and mode == 1:
                        return {'kind': 'minor-key-reported-major', 'fifths': f, 'got': near[0][1:]}
                    if near and chrom:
                        return {'kind': 'transposed-key-wrong', 'fifths': f, 'chromatic': chrom,
                                'expected_key': pc, 'got': near[0][1:]}
                    return {'kind': 'key-signature-wrong', 'fifths': f, 'expected': [float(on), pc, mode], 'got': ksigs}
        return {'kind': 'key-signature-wrong', 'expected': [[float(a), b, c] for a, b, c in exp_k], 'got': ksigs}
    # --- declared time signatures at their measure starts, for complete measures
    if _measures_complete(score):
        exp_s = _dedup([[x[0], x[1], x[2]] for s in state for x in s['times']])
        tsigs_c = tsigs
        if not case.get('exact'):
            exp_s, tsigs_c = _merge_noise([[float(a), b, c] for a, b, c in exp_s]), _merge_noise(tsigs)
        if not _same_times(exp_s, tsigs_c):
            return {'kind': 'time-signature-wrong', 'expected': [[float(a), b, c] for a, b, c in exp_s], 'got': tsigs}
    # --- chord symbols (root, kind, degrees, bass) at the times they occur
    from note_seq.protobuf import music_pb2
    exp_c = [[t, f, int(music_pb2.NoteSequence.TextAnnotation.CHORD_SYMBOL)] for s_ in state for t, f in s_['chords']]
    got_c = list(chords)
    for t, f, ty in exp_c:
        hit = next((g for g in got_c if g[1] == f and g[2] == ty and _close(float(t), g[0])), None)
        if hit is None:
            return {'kind': 'chord-symbol-wrong', 'expected': [float(t), f], 'got': chords[:6]}
        got_c.remove(hit)
    if got_c:
        return {'kind': 'chord-symbol-wrong', 'unexpected': got_c[:6]}
    return leak


def nontrivial(case, io):
    return case.get('op') != 'malformed' and io[0] == 'OK' and (len(io[4]) >= 2 or case.get('op', '').startswith('sweep'))


# ------------------------------------------------------------------ generator
def _n(step, alter, octave, dur, voice=1, ty=5, dots=0, ta=0, tn=0, rest=False, chord=False):
    return ['note', bool(rest), bool(chord), step, alter, octave, dur, voice, ty, dots, ta, tn]


# quarters -> (type index, dots, tuplet actual, tuplet normal)
_SHAPES = {F(8): (2, 0, 0, 0), F(4): (3, 0, 0, 0), F(2): (4, 0, 0, 0), F(1): (5, 0, 0, 0), F(1, 2): (6, 0, 0, 0),
           F(1, 4): (7, 0, 0, 0), F(1, 8): (8, 0, 0, 0), F(1, 16): (9, 0, 0, 0),
           F(6): (3, 1, 0, 0), F(3): (4, 1, 0, 0), F(3, 2): (5, 1, 0, 0), F(3, 4): (6, 1, 0, 0), F(3, 8): (7, 1, 0, 0),
           F(7, 2): (4, 2, 0, 0), F(7, 4): (5, 2, 0, 0), F(7, 8): (6, 2, 0, 0),
           F(4, 3): (4, 0, 3, 2), F(2, 3): (5, 0, 3, 2), F(1, 3): (6, 0, 3, 2), F(1, 6): (7, 0, 3, 2),
           F(2, 5): (6, 0, 5, 2), F(1, 5): (7, 0, 5, 4), F(4, 5): (5, 0, 5, 4)}


def _shape(dur, div, rng):
    if rng.random() < 0.15:
        # notated type, dots and tuplet are independent of <duration> in the format: draw them independently
        ta, tn = rng.choice([(0, 0), (0, 0), (3, 2), (5, 4), (7, 8), (2, 3), (6, 4)])
        return (rng.randint(0, len(TYPE_NAMES) - 1), rng.choice([0, 0, 1, 2, 3]), ta, tn)
    s = _SHAPES.get(F(dur, div))
    if s is None:
        return (rng.choice([3, 4, 5, 6, 7]), rng.choice([0, 0, 1]), 0, 0)
    return s


def _split(total, div, rng):
    """random rhythm: positive integers summing to total, favouring notated values."""
    out = []
    left = total
    menu = sorted(set(int(q * div) for q in _SHAPES if (q * div).denominator == 1 and q * div >= 1))
    while left > 0:
        opts = [m for m in menu if m <= left]
        r = rng.random()
        if opts and r < 0.8:
            d = rng.choice(opts[-6:] if rng.random() < 0.5 else opts)
            if div % 3 == 0 and rng.random() < 0.25 and 3 * d <= left and F(d, div) in (F(2, 3), F(1, 3), F(1, 6), F(4, 3)):
                out += [d, d]
                left -= 2 * d
        else:
            d = rng.randint(1, left)
        out.append(d)
        left -= d
    return out


def _pitch(rng):
    r = rng.random()
    if r < 0.12:       # the spellings that cross an octave boundary
        return rng.choice([(0, -1, rng.randint(1, 8)), (6, 1, rng.randint(0, 7)), (0, -2, rng.randint(1, 8)),
                           (6, 2, rng.randint(0, 7)), (3, -1, 4), (2, 1, 4)])
    return (rng.randint(0, 6), rng.choice([0, 0, 0, 1, -1, 2, -2]), rng.randint(0, 9))


def _harmony(rng, div):
    nk = len(_kind_names())
    alt = lambda: rng.choice([None, None, 0, 1, -1, 2, -2])
    kind = rng.choice([-1] + list(range(nk)) * 2)
    degs = []
    for _ in range(rng.choice([0, 0, 0, 1, 1, 2])):
        ty = rng.choice([0, 0, 1, 2])
        a = rng.choice([1, -1, 2, -2]) if ty == 2 else alt()
        degs.append([rng.choice([2, 4, 5, 6, 7, 9, 11, 13]), a, ty])
    bass = [rng.randint(0, 6), alt()] if rng.random() < 0.3 else None
    offset = rng.choice([1, div, 2 * div, -1]) if rng.random() < 0.2 else None
    return ['harmony', [rng.randint(0, 6), alt()], kind, degs, bass, offset]


def _voice(total, div, voice, rng, p_rest=0.15, p_chord=0.25, forwards=False, p_harmony=0.0):
    els = []
    for d in _split(total, div, rng):
        ty, dots, ta, tn = _shape(d, div, rng)
        if rng.random() < p_harmony:
            els.append(_harmony(rng, div))
        if forwards and rng.random() < 0.2:
            els.append(['forward', d]); continue
        if rng.random() < p_rest:
            els.append(_n(0, 0, 0, d, voice, ty, dots, ta, tn, rest=True)); continue
        st, al, oc = _pitch(rng)
        if rng.random() < 0.02:
            # zero-length note (legal): does not move the cursor; a chord on it is zero-length too
            els.append(_n(*_pitch(rng), 0, voice, ty, dots, ta, tn))
            if rng.random() < 0.5:
                els.append(_n(*_pitch(rng), rng.choice([0, d]), voice, ty, dots, ta, tn, chord=True))
        els.append(_n(st, al, oc, d, voice, ty, dots, ta, tn))
        if rng.random() < p_chord:
            for _ in range(rng.randint(1, 2)):
                st2, al2, oc2 = _pitch(rng)
                # Sibelius rule: the written duration of a chord member is occasionally different
                d2 = d if rng.random() < 0.85 else rng.randint(1, max(1, 2 * d))
                els.append(_n(st2, al2, oc2, d2, voice, ty, dots, ta, tn, chord=True))
    return els


_TEMPOS = ['120', '60', '90', '72.5', '100', '144', '48', '132', '200', '80', '66.6', '30', '240', '0', '120.0', '59.94']
_DYADIC_T = ['120', '60', '240', '30', '480', '15']


def _meter(div, rng):
    opts = [(b, bt) for bt in (2, 4, 8) for b in (1, 2, 3, 4, 5, 6, 7, 9, 12) if (4 * div) % bt == 0]
    return rng.choice(opts)


def gen_score(rng, nparts=None, dyadic=False):
    nparts = nparts or rng.choice([1, 1, 1, 2, 2, 3])
    nmeas = rng.randint(1, 6)
    divs_pool = [1, 2, 4, 8, 16] if dyadic else DIVS
    tpool = _DYADIC_T if dyadic else _TEMPOS
    # shared plan: meter and tempo per measure
    div0 = rng.choice(divs_pool)
    meters = []
    cur = None
    for j in range(nmeas):
        if cur is None or rng.random() < 0.25:
            # every part's divisions must give an integral beat: choose meters compatible with all candidate divisions later
            cur = rng.choice([(b, bt) for bt in (2, 4, 8, 2, 4, 8, 2, 4, 8, 1, 16) for b in (1, 2, 3, 4, 5, 6, 7, 9, 12)])
            meters.append((cur, True))
        else:
            meters.append((cur, False))
    scheme = rng.choice(['none', 'start', 'start', 'all-same', 'all-same', 'first-only', 'later-only', 'free']) \
        if nparts > 1 else rng.choice(['none', 'start', 'free', 'free'])
    marks = {}
    if scheme in ('all-same', 'first-only', 'later-only'):
        for j in range(nmeas):
            if (j == 0 and rng.random() < 0.7) or (j > 0 and rng.random() < 0.35):
                marks[j] = rng.choice(tpool)
    parts = []
    for k in range(nparts):
        def ok_div(dv):
            return all((4 * dv) % bt == 0 for ((_, bt), _) in meters)
        cands = [dv for dv in divs_pool if ok_div(dv)]
        div = div0 if ok_div(div0) and rng.random() < 0.6 else rng.choice(cands)
        transposing = rng.random() < 0.3
        lead_sheet = (not transposing) and rng.random() < 0.35
        chrom = rng.choice([-2, -9, -3, 2, -12, 3, -14, 5, -7, 1]) if transposing else 0
        midi = [rng.randint(1, 16), rng.randint(1, 128)] if rng.random() < 0.7 else None
        midi_form = rng.choice(['full'] * 8 + ['chan', 'prog', 'nopart'])
        voice2 = rng.choice([2, 2, 2, 3, 5])
        own_meter = None                      # a meter change that only this (later) part declares
        measures = []
        if rng.random() < 0.03:
            parts.append({'midi': midi, 'midi_form': midi_form, 'measures': []})     # a part without measures
            continue
        for j in range(nmeas):
            (b, bt), declare = meters[j]
            if declare:
                own_meter = None
            if k > 0 and j > 0 and own_meter is None and rng.random() < 0.05:
                own_meter = rng.choice([(bb, tt) for tt in (2, 4, 8) for bb in (2, 3, 5, 6) if (4 * div) % tt == 0] or [(b, bt)])
                declare = True
            if own_meter is not None:
                b, bt = own_meter
            if k > 0 and j == 0 and rng.random() < 0.08:
                declare = None                # a later part that does not repeat the time signature
            els = []
            items = []
            if j == 0 or rng.random() < 0.1:
                if j > 0 and rng.random() < 0.5:
                    div = rng.choice(cands)
                items.append(['div', div])
            if (j == 0 and rng.random() < 0.85) or (j > 0 and rng.random() < 0.2):
                items.append(['key', rng.randint(-7, 7), rng.choice([0, 1, 1, 2, 2, 3])])
            if declare or (j == 0 and declare is not None):
                items.append(['time', b, bt])
            if (j == 0 and transposing) or (j > 0 and transposing and rng.random() < 0.08):
                if j > 0:
                    chrom = rng.choice([-2, -9, 0, 2, -3])
                items.append(['transpose', chrom])
            # tempo before or after the attributes
            tm = None
            if scheme == 'start' and j == 0 and k == 0:
                tm = rng.choice(tpool)
            elif scheme == 'all-same' and j in marks:
                tm = marks[j]
            elif scheme == 'first-only' and j in marks and k == 0:
                tm = marks[j]
            elif scheme == 'later-only' and j in marks and k == nparts - 1:
                tm = marks[j]
            elif scheme == 'free' and rng.random() < 0.3:
                tm = rng.choice(tpool)
            if tm is not None and rng.random() < 0.3:
                els.append(['tempo', tm]); tm = None
            if items:
                els.append(['attr', items])
            if tm is not None:
                els.append(['tempo', tm])
            if (4 * div) % bt:
                # divisions changed under a meter chosen for the old value: re-declare compatible divisions
                div = rng.choice([dv for dv in cands if (4 * dv) % bt == 0] or [bt])
                els.append(['attr', [['div', div]]])
            full = b * 4 * div // bt
            r = rng.random()
            if r < 0.02:
                pass                                            # a measure with nothing but its attributes (or nothing at all)
            elif r < 0.03:
                els.append(['tempo', rng.choice(tpool)] if transposing or rng.random() < 0.5 else _harmony(rng, div))
            elif r < 0.08 and nmeas > 1:
                # forward-only measure (repaired into a whole-measure rest)
                els.append(['forward', full])
            elif r < 0.14:
                # pickup / overfull measure: exercises _fix_time_signature
                n = max(1, full + rng.choice([-1, 1]) * rng.randint(1, max(1, full // 2)))
                els += _voice(n, div, 1, rng)
            else:
                v1 = _voice(full, div, 1, rng, p_harmony=(0.25 if lead_sheet else 0.0))
                if scheme == 'free' and nparts == 1 and len(v1) > 2 and rng.random() < 0.25:
                    v1.insert(rng.randint(1, len(v1) - 1), ['tempo', rng.choice(tpool)])
                    # a mark between a chord's members would separate them from their head: move it before the head
                    i = next(i for i, e in enumerate(v1) if e[0] == 'tempo')
                    while i + 1 < len(v1) and v1[i + 1][0] == 'note' and v1[i + 1][2]:
                        v1[i], v1[i + 1] = v1[i + 1], v1[i]; i += 1
                els += v1
                if rng.random() < 0.3:
                    els.append(['backup', full])
                    els += _voice(full, div, voice2, rng, p_chord=0.1, forwards=True)
            measures.append(els)
        parts.append({'midi': midi, 'midi_form': midi_form, 'measures': measures})
    fmt = {'alter0': rng.random() < 0.3, 'alter_dec': rng.random() < 0.2, 'omit_voice1': rng.random() < 0.3,
           'noise': rng.random() < 0.4, 'mxl': rng.choice([0, 0, 1, 2, 3])}
    return {'parts': parts, 'fmt': fmt}


_RAW_BAD = [
    # (literal XML child, where it may stand)
    ('<attributes><time><beats>3</beats><beat-type>4</beat-type><beats>2</beats><beat-type>8</beat-type></time></attributes>', 'fresh'),
    ('<attributes><time><beats>3+2</beats><beat-type>8</beat-type></time></attributes>', 'fresh'),       # TimeSignatureParseError
    ('<attributes><key><mode>major</mode></key></attributes>', 'any'),                                    # KeyParseError
    ('<note><unpitched><display-step>E</display-step><display-octave>4</display-octave></unpitched>'
     '<duration>1</duration><voice>1</voice><type>quarter</type></note>', 'any'),                         # UnpitchedNoteError
    ('<harmony><root><root-step>C</root-step></root><kind>major</kind><offset>x</offset></harmony>', 'plain'),
    ('<harmony><root><root-step>C</root-step><root-alter>sharp</root-alter></root><kind>major</kind></harmony>', 'plain'),
    ('<harmony><root><root-step>C</root-step></root><kind>major</kind><degree><degree-type>add</degree-type></degree></harmony>', 'plain'),
    ('<harmony><root><root-step>C</root-step></root><kind>major</kind><degree><degree-value>9</degree-value></degree></harmony>', 'plain'),
    ('<harmony><root><root-alter>1</root-alter></root><kind>major</kind></harmony>', 'plain'),          # missing step
]
_FILE_BAD = ['xml-truncated', 'garbage', 'two-scores', 'missing-score', 'no-container']


def _malformed(rng):
    """One malformation in an otherwise valid score, at a random place: any part, any measure, any position — so the
    offending element usually comes AFTER valid ones (and after earlier parts)."""
    base = gen_score(rng)
    if rng.random() < 0.15:
        return {'op': 'malformed', 'file': rng.choice(_FILE_BAD), 'input': gen_score(rng, nparts=1),
                'expect': 'MusicXMLConversionError'}
    ps = [k for k, p in enumerate(base['parts']) if p['measures']]
    if not ps:
        base = gen_score(rng, nparts=1)
        while not base['parts'][0]['measures']:
            base = gen_score(rng, nparts=1)
        ps = [0]
    k = rng.choice(ps)
    ms = base['parts'][k]['measures']
    j = rng.randrange(len(ms))
    m = ms[j]
    # never between a chord member and its head
    slots = [i for i in range(len(m) + 1) if not (i < len(m) and m[i][0] == 'note' and m[i][2])]
    pos = rng.choice(slots)
    has_time = any(e[0] == 'attr' and any(it[0] == 'time' for it in e[1]) for e in m)
    transposing = any(e[0] == 'attr' and any(it[0] == 'transpose' and it[1] for it in e[1])
                      for mm in ms for e in mm)
    kind = rng.choice(['two-times', 'bad-step', 'bad-type', 'harmony', 'harmony', 'raw', 'raw', 'chord-first'])
    expect = 'MusicXMLConversionError'
    if kind == 'harmony':
        bad = rng.choice([
            ['harmony', [0, None], -2, [], None, None],                   # unknown kind
            ['harmony', [0, 3], 0, [], None, None],                       # alter out of range
            ['harmony', [0, None], 0, [[5, None, 2]], None, None],        # alteration by zero semitones
            ['harmony', [0, None], 0, [[5, 1, 3]], None, None],           # invalid degree type
            ['harmony', None, 0, [], None, None],                         # no root
            ['harmony', [0, None], 0, [], [1, -3], None],                 # bass alter out of range
            ['harmony', [0, None], 0, [[5, -3, 0]], None, None],          # degree alter out of range
        ])
        m.insert(pos, bad); mark = bad
    elif kind == 'two-times':
        if not has_time:
            m.insert(0, ['attr', [['time', 4, 4]]]); pos += 1
        first = next(i for i, e in enumerate(m) if e[0] == 'attr' and any(it[0] == 'time' for it in e[1]))
        mark = ['attr', [['time', 3, 4]]]
        m.insert(max(pos, first + 1), mark)
    elif kind == 'bad-step':
        mark = _n(rng.choice([7, 8, 11]), 0, 4, 1)
        m.insert(pos, mark)
    elif kind == 'bad-type':
        mark = _n(0, 0, 4, 1, ty=99)
        m.insert(pos, mark)
    elif kind == 'raw':
        xml, where = rng.choice(_RAW_BAD)
        if where == 'fresh' and has_time:
            # a second <time> would raise MultipleTimeSignatureError first - the same documented family; keep it simple:
            # put the element in a measure of its own
            mark = ['raw', xml]
            ms.insert(j + 1, [mark])
        elif where == 'plain' and transposing:
            mark = ['raw', _RAW_BAD[3][0]]
            m.insert(pos, mark)
        else:
            mark = ['raw', xml]
            m.insert(pos, mark)
    else:
        sc = {'parts': [{'midi': None, 'measures': [[['attr', [['div', 1], ['time', 1, 4]]], _n(0, 0, 4, 1, chord=True)]]}]}
        return {'op': 'malformed', 'input': sc, 'expect': None}
    return {'op': 'malformed', 'input': base, 'expect': expect, 'bad': mark}


_STATS = {}


def _sweeps(tier):
    """Exhaustive small scopes: every spelling, every (fifths, mode, chromatic residue)."""
    A = lambda *items: ['attr', [list(i) for i in items]]
    out = []
    transposes = [0, -2] if tier != 'thorough' else [0, -2, -9, 3, 12, -14]
    for tr in transposes:
        for alter in (-2, -1, 0, 1, 2):
            notes = [_n(st, alter, oc, 1) for oc in range(10) for st in range(7)]
            items = [['div', 1], ['time', 70, 4]] + ([['transpose', tr]] if tr else [])
            out.append({'op': 'sweep-pitch', 'exact': True,
                        'input': {'parts': [{'midi': None, 'measures': [[A(*items)] + notes]}]}})
    chroms = range(-11, 1) if tier != 'thorough' else range(-14, 15)
    modes = (1, 2) if tier != 'thorough' else (0, 1, 2, 3)
    for f in range(-7, 8):
        for mode in modes:
            for c in chroms:
                if tier != 'thorough' and mode == 2 and c % 3:
                    continue
                out.append({'op': 'sweep-key', 'exact': True, 'input': {'parts': [{'midi': None, 'measures': [
                    [A(['div', 1], ['key', f, mode], ['time', 1, 4], ['transpose', c]), _n(0, 0, 4, 1)]]}]}})
            out.append({'op': 'sweep-key', 'exact': True, 'input': {'parts': [{'midi': None, 'measures': [
                [A(['div', 1], ['key', f, mode], ['time', 1, 4]), _n(0, 0, 4, 1)]]}]}})
    return out


def cases(rng, tier, n=None):
    total = n if n is not None else (1000 if tier != 'thorough' else 20000)
    out = _sweeps(tier) if n is None else []
    for i in range(total):
        r = rng.random()
        if r < 0.07:
            out.append(_malformed(rng))
        elif r < 0.25:
            out.append({'op': 'score-dyadic', 'input': gen_score(rng, dyadic=True), 'exact': True})
        else:
            out.append({'op': 'score', 'input': gen_score(rng)})
    import collections
    c = collections.Counter()
    for case in out:
        ps = case['input']['parts']
        c['parts=%d' % len(ps)] += 1
        c['leak_free' if leak_free(case['input']) else 'outside_leak_free'] += 1
        for p in ps:
            for _, t in _tokens_of_part(p):
                c['tok:' + t[0]] += 1
                if t[0] == 'note':
                    c['note:chord'] += bool(t[2]); c['note:rest'] += bool(t[1]); c['note:voice2'] += t[7] == 2
                    c['note:tuplet'] += bool(t[10]); c['note:dotted'] += bool(t[9])
                    c['note:octave-crossing-spelling'] += (t[3], t[4]) in ((0, -1), (0, -2), (6, 1), (6, 2))
                elif t[0] == 'key':
                    c['key:minor'] += t[2] == 2
    _STATS['input_distribution'] = dict(sorted(c.items()))
    return out


def extra_evidence():
    return dict(_STATS)


def corpus():
    A = lambda *items: ['attr', [list(i) for i in items]]
    one = lambda els, midi=None: {'parts': [{'midi': midi, 'measures': [els]}]}
    out = []
    # F11: minor key
    out.append({'op': 'score', 'input': one([A(['div', 1], ['key', 0, 2], ['time', 2, 4]), _n(5, 0, 4, 1), _n(0, 0, 5, 1)])})
    # F12: C-flat-4, B-sharp-3, and every step x alter at octave 4
    out.append({'op': 'score', 'input': one([A(['div', 1], ['time', 2, 4]), _n(0, -1, 4, 1), _n(6, 1, 3, 1)])})
    out.append({'op': 'score', 'exact': True, 'input': one(
        [A(['div', 1], ['time', 35, 4])] + [_n(s, a, 4, 1) for s in range(7) for a in (-2, -1, 0, 1, 2)])})
    # F20: C-sharp major written, sounding a tone lower
    out.append({'op': 'score', 'input': one([A(['div', 1], ['key', 7, 1], ['time', 2, 4], ['transpose', -2]),
                                             _n(0, 0, 4, 1), _n(1, 0, 4, 1)])})
    out.append({'op': 'score', 'input': one([A(['div', 4], ['key', -3, 1], ['time', 4, 4], ['transpose', -9]),
                                             _n(4, 0, 4, 8), _n(4, 0, 4, 8)])})
    # F21: tempo change in part 0, second part without marks
    out.append({'op': 'score', 'exact': True, 'input': {'parts': [
        {'midi': None, 'measures': [[A(['div', 1], ['time', 2, 4]), _n(0, 0, 4, 1), ['tempo', '60'], _n(0, 0, 4, 1)]]},
        {'midi': None, 'measures': [[A(['div', 1], ['time', 2, 4]), _n(2, 0, 4, 1), _n(2, 0, 4, 1)]]}]}})
    # only the later part carries a mark
    out.append({'op': 'score', 'exact': True, 'input': {'parts': [
        {'midi': None, 'measures': [[A(['div', 1], ['time', 2, 4]), _n(0, 0, 4, 1), _n(0, 0, 4, 1)]]},
        {'midi': None, 'measures': [[['tempo', '60'], A(['div', 1], ['time', 2, 4]), _n(2, 0, 4, 1), _n(2, 0, 4, 1)]]}]}})
    # two voices, chord, backup/forward, dotted + triplets, tempo 0 -> default
    out.append({'op': 'score', 'input': one(
        [['tempo', '0'], A(['div', 6], ['key', -2, 1], ['time', 4, 4]),
         _n(0, 0, 4, 9, 1, 5, 1), _n(2, 0, 4, 9, 1, 5, 1, chord=True), _n(4, 0, 4, 3, 1, 6),
         _n(0, 0, 5, 4, 1, 5, 0, 3, 2), _n(1, 0, 5, 4, 1, 5, 0, 3, 2), _n(2, 0, 5, 4, 1, 5, 0, 3, 2),
         ['backup', 24], ['forward', 12], _n(0, 0, 3, 12, 2, 4)], midi=[2, 41])})
    # chord symbols: every documented degree rule, bass, offset, N.C., kind absent
    kn = _kind_names()
    out.append({'op': 'score', 'input': one(
        [A(['div', 2], ['time', 4, 4]),
         ['harmony', [0, 1], kn.index('minor-seventh'), [[9, None, 0], [5, -1, 2], [3, None, 1], [11, 1, 0]], [4, -1], None],
         _n(0, 0, 4, 4, 1, 4),
         ['harmony', None, kn.index('none'), [], None, None], _n(0, 0, 4, 2),
         ['harmony', [6, -2], -1, [], None, 1], _n(0, 0, 4, 2)])})
    out.append({'op': 'malformed', 'expect': 'MusicXMLConversionError', 'input': one(
        [A(['div', 1], ['time', 1, 4], ['transpose', -2]), ['harmony', [0, None], 0, [], None, None], _n(0, 0, 4, 1)])})
    # forward-only measure, pickup measure, no time signature at all, empty score
    out.append({'op': 'score', 'input': {'parts': [{'midi': None, 'measures': [
        [A(['div', 2], ['time', 3, 4]), _n(0, 0, 4, 6, 1, 4, 1)], [['forward', 6]], [_n(0, 0, 4, 2)], [_n(0, 0, 4, 6, 1, 4, 1)]]}]}})
    out.append({'op': 'score', 'input': one([A(['div', 2]), _n(0, 0, 4, 3), _n(0, 0, 4, 2)])})
    out.append({'op': 'score', 'input': {'parts': []}})
    out.append({'op': 'score', 'input': one([A(['div', 1], ['time', 1, 4]), ['backup', 3], _n(0, 0, 4, 1), _n(0, 0, 4, 1)])})
    # audit (C): rare but legal shapes
    q = lambda st, v=1, d=1: _n(st, 0, 4, d, v)
    out.append({'op': 'score', 'exact': True, 'input': {'fmt': {'mxl': 1, 'noise': True}, 'parts': [
        {'midi': [3, 12], 'measures': [[A(['div', 1], ['key', 2, 1], ['time', 2, 4]), q(0), q(1)]]},
        {'midi': [4, 13], 'measures': []},                                              # a part without measures
        {'midi': [5, 14], 'measures': [[A(['div', 1], ['key', 2, 1], ['time', 2, 4]), q(2), q(3)]]}]}})
    out.append({'op': 'score', 'exact': True, 'input': {'fmt': {'mxl': 2, 'alter0': True, 'omit_voice1': True}, 'parts': [
        {'midi': None, 'measures': [[A(['div', 2], ['time', 2, 4]), q(0, 1, 2), q(1, 1, 2)], [], [A(['key', -3, 2])],
                                    [A(['div', 4], ['time', 3, 8]), q(2, 1, 2), q(3, 1, 4)],      # divisions change mid-part
                                    [_n(0, 1, 4, 0), _n(2, 0, 4, 0, chord=True), q(4, 1, 6)]]}]}})  # zero-length chord
    out.append({'op': 'score', 'exact': True, 'input': {'fmt': {'mxl': 3, 'alter_dec': True, 'alter0': True}, 'parts': [
        {'midi': [2, 5], 'midi_form': 'chan', 'measures': [[A(['div', 1], ['key', 0, 1], ['time', 2, 4]), _n(0, 1, 4, 1), q(1)],
                                                            [q(2), q(3)]]},
        {'midi': [7, 9], 'midi_form': 'prog', 'measures': [[A(['div', 1]), q(4), q(5)],          # no <time> of its own
                                                            [A(['key', 5, 2], ['time', 3, 4]), q(6), q(0), q(1)]]},   # key and meter change only here
        {'midi': [8, 10], 'midi_form': 'nopart', 'measures': [[A(['div', 2], ['time', 2, 4]), q(0, 3, 4)],
                                                               [q(1, 3, 2), q(2, 3, 2)]]}]}})       # no voice 1 at all
    # malformed
    out.append({'op': 'malformed', 'expect': 'MusicXMLConversionError',
                'input': one([A(['div', 1], ['time', 4, 4]), A(['time', 3, 4]), _n(0, 0, 4, 1)])})
    for fv in _FILE_BAD:
        out.append({'op': 'malformed', 'file': fv, 'expect': 'MusicXMLConversionError',
                    'input': one([A(['div', 1], ['time', 1, 4]), _n(0, 0, 4, 1)])})
    for xml, _w in _RAW_BAD:
        out.append({'op': 'malformed', 'expect': 'MusicXMLConversionError', 'bad': ['raw', xml], 'input': {'parts': [
            {'midi': None, 'measures': [[A(['div', 1], ['time', 1, 4]), _n(0, 0, 4, 1)]]},
            {'midi': None, 'measures': [[A(['div', 1]), _n(0, 0, 4, 1)], [['raw', xml]]]}]}})
    out.append({'op': 'malformed', 'expect': 'MusicXMLConversionError', 'input': one([A(['div', 1], ['time', 1, 4]), _n(7, 0, 4, 1)])})
    out.append({'op': 'malformed', 'expect': 'MusicXMLConversionError', 'input': one([A(['div', 1], ['time', 1, 4]), _n(0, 0, 4, 1, ty=99)])})
    out.append({'op': 'malformed', 'expect': None, 'input': one([A(['div', 1], ['time', 1, 4]), _n(0, 0, 4, 1, chord=True)])})
    return out


# ------------------------------------------------------------------ shrinking
def shrink(case):
    import copy
    sc = case['input']
    ps = sc['parts']
    def mk(new):
        c = dict(case); c['input'] = new; return c
    if case.get('op') == 'malformed' and not case.get('file'):
        # keep the measure that holds the malformation intact (the first <time> of a doubled one lives there too)
        bad = case.get('bad')
        if bad is None:
            return
        loc = [(k, j) for k, p in enumerate(ps) for j, m in enumerate(p['measures']) if any(e == bad for e in m)]
        if not loc:
            return
        k0, j0 = loc[0]
        for k in range(len(ps) - 1, -1, -1):
            if k != k0 and len(ps) > 1:
                new = copy.deepcopy(sc); del new['parts'][k]; yield mk(new)
        for j in range(len(ps[k0]['measures']) - 1, -1, -1):
            if j != j0:
                new = copy.deepcopy(sc); del new['parts'][k0]['measures'][j]; yield mk(new)
        return
    for k in range(len(ps)):
        if len(ps) > 1:
            yield mk({'parts': ps[:k] + ps[k + 1:]})
    for k, p in enumerate(ps):
        ms = p['measures']
        for j in range(len(ms) - 1, 0, -1):
            new = copy.deepcopy(sc); del new['parts'][k]['measures'][j]; yield mk(new)
        for j, m in enumerate(ms):
            for i in range(len(m) - 1, -1, -1):
                if m[i][0] == 'attr' and any(it[0] == 'div' for it in m[i][1]):
                    continue
                new = copy.deepcopy(sc); del new['parts'][k]['measures'][j][i]; yield mk(new)
            for i, e in enumerate(m):
                if e[0] == 'attr' and len(e[1]) > 1:
                    for t in range(len(e[1])):
                        if e[1][t][0] == 'div':
                            continue
                        new = copy.deepcopy(sc); del new['parts'][k]['measures'][j][i][1][t]; yield mk(new)
        if p.get('midi'):
            new = copy.deepcopy(sc); new['parts'][k]['midi'] = None; yield mk(new)


META = {
    'level_text': ('Theorems about an executable Gallina model of the whole parser state machine (one fold over the '
                   'document-order token stream of an abstract score), for ALL abstract scores: MIDI pitch formula for every '
                   'step / alter / octave / transposition; every onset is the signed sum of the earlier cursor-moving durations '
                   'of its part divided by the divisions in force times 60/tempo in force, chord members share the first '
                   'member\'s onset and duration, each part restarts at 0; key = table(fifths) or the sounding key after '
                   '<transpose>, mode from <mode>; tempo marks at cursor time; declared time signatures at their cursor times '
                   'when every measure is complete. The model is tied to the real reader by a differential run on generated '
                   'scores serialised to .xml and .mxl.'),
    'level_note': ('Trusted: Coq kernel; hand-written model Model/MusicXml.v (tied by correspondence only); the XML serialiser; '
                   'xml.etree / zipfile exercised, not modelled; times exact rationals vs binary64 at 1e-9. Tempo state leaking '
                   'across parts (F21) is kept in the model; the cursor/tempo theorems for multi-part scores carry the '
                   'explicit hypothesis leak_free and have a refuted witness without it. The chord-symbol figure is a model function '
                   '(harmony_figure) tied by correspondence, its time (cursor + offset) is a theorem.'),
}
