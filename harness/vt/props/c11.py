"""C11 — sequence operations never modify their argument and return well-formed sequences.

Two halves (DESIGN.md section 6, C11).

* Provable half (coq/Props/C11.v): for the operations that have a Gallina model
  in this development (shift, stretch, transpose, sustain, trim/extract, ...) the
  theorems `wf_preserved_<op>` state that a well-formed input gives a
  well-formed output; they are corollaries of the models verified and tied to
  the code by the C01/C02/C10/C13/C14 checks, and are re-checked here.
* Runtime half (this module): Python aliasing / protobuf copy semantics are not
  expressible in a pure model without deciding the aliasing question by hand,
  so argument non-mutation (also on the raising paths), call-twice determinism
  and well-formedness of the *real* result are monitored on every generated
  call of every one of the 20 documented operations.

`impl` returns a canonical record of what was observed; `oracle` is the
property statement itself evaluated on that record.
"""
import copy
import random

from vt import nsio

ID = 'C11'
META = {
    'level_text': (
        'Proof (Coq) for the well-formedness half on the modelled operations: wf_preserved_<op> theorems, for ALL '
        'well-formed sequences and all legal arguments, about the Gallina models of shift / stretch / transpose / '
        'sustain / trim / extract / quantize that the C01, C02, C10, C13 and C14 checks tie to the code; '
        'the non-mutation, raise-path and call-twice halves are a runtime monitor over every generated call of all '
        '20 documented operations (partial: monitored, not proved).'),
    'level_note': (
        'PARTIAL. Python aliasing and protobuf copy semantics are outside any pure Gallina model: argument '
        'byte-for-byte non-mutation (including when the operation raises) and same-result-when-called-again are '
        'checked at run time on N generated calls (N in evidence), not proved. Trusted: Coq kernel; the models of the '
        'other properties; protobuf deterministic serialisation as the equality on messages.'),
}
RULE = ('one case = (operation, well-formed NoteSequence with every repeated field populated, arguments incl. arguments '
        'that make the operation raise); non-trivial when the input has notes and at least one other repeated field; '
        'distinct by hash of the canonical case')
ASSUMPTIONS = [
    'SerializeToString(deterministic=True) equality is byte-for-byte equality of messages',
    'time functions passed to adjust_notesequence_times are pure',
]

T = nsio.QUARTER_SEC

OPS = ['trim', 'extract', 'split_hop', 'split_list', 'split_time_changes', 'split_silence', 'shift', 'stretch',
       'transpose', 'quantize_rel', 'quantize_abs', 'sustain', 'concatenate', 'merge', 'repeat', 'expand',
       'remove_redundant', 'adjust', 'rectify', 'extract_many']


def _sl():
    from note_seq import sequences_lib
    try:
        from absl import logging as absl_logging
        absl_logging.set_verbosity(absl_logging.ERROR)
    except Exception:  # noqa
        pass
    return sequences_lib


def _ser(ns):
    return ns.SerializeToString(deterministic=True)


def _timefunc(spec):
    """spec: ['lin', a_num, a_den_log2, b_ticks] -> t*a + b ; ['neg'] ; ['flip', pivot_ticks] ; ['const', c]"""
    kind = spec[0]
    if kind == 'lin':
        a = spec[1] / float(1 << spec[2]); b = nsio.t2f(spec[3])
        return lambda t: t * a + b
    if kind == 'neg':
        return lambda t: t - 1000.0
    if kind == 'flip':
        p = nsio.t2f(spec[1])
        return lambda t: p - t
    if kind == 'const':
        c = nsio.t2f(spec[1])
        return lambda t: c
    if kind == 'pw':   # piecewise: identity up to p, then slope 2
        p = nsio.t2f(spec[1])
        return lambda t: t if t <= p else p + 2 * (t - p)
    raise ValueError(kind)


def _call(op, seqs, args):
    """Run the real operation. seqs: list of protos (the arguments). Returns list of result protos (+ extra ints)."""
    sl = _sl()
    s = seqs[0]
    if op == 'trim':
        return [sl.trim_note_sequence(s, nsio.t2f(args[0]), nsio.t2f(args[1]))], []
    if op == 'extract':
        return [sl.extract_subsequence(s, nsio.t2f(args[0]), nsio.t2f(args[1]))], []
    if op == 'extract_many':
        return list(sl._extract_subsequences(s, [nsio.t2f(t) for t in args[0]])), []
    if op == 'split_hop':
        return list(sl.split_note_sequence(s, nsio.t2f(args[0]), bool(args[1]))), []
    if op == 'split_list':
        return list(sl.split_note_sequence(s, [nsio.t2f(t) for t in args[0]], bool(args[1]))), []
    if op == 'split_time_changes':
        return list(sl.split_note_sequence_on_time_changes(s, bool(args[0]))), []
    if op == 'split_silence':
        return list(sl.split_note_sequence_on_silence(s, nsio.t2f(args[0]))), []
    if op == 'shift':
        return [sl.shift_sequence_times(s, nsio.t2f(args[0]) if args[0] is not None else 0)], []
    if op == 'stretch':
        return [sl.stretch_note_sequence(s, args[0] / float(1 << args[1]))], []
    if op == 'transpose':
        r, d = sl.transpose_note_sequence(s, args[0], min_allowed_pitch=args[1], max_allowed_pitch=args[2],
                                          transpose_chords=bool(args[3]))
        return [r], [int(d)]
    if op == 'quantize_rel':
        return [sl.quantize_note_sequence(s, args[0])], []
    if op == 'quantize_abs':
        return [sl.quantize_note_sequence_absolute(s, args[0])], []
    if op == 'sustain':
        return [sl.apply_sustain_control_changes(s, args[0])], []
    if op == 'concatenate':
        durs = [nsio.t2f(d) for d in args[0]] if args[0] is not None else None
        return [sl.concatenate_sequences(seqs, durs)], []
    if op == 'merge':
        return [sl.merge_sequences(seqs)], []
    if op == 'repeat':
        return [sl.repeat_sequence_to_duration(s, nsio.t2f(args[0]),
                                               nsio.t2f(args[1]) if args[1] else None)], []
    if op == 'expand':
        return [sl.expand_section_groups(s)], []
    if op == 'remove_redundant':
        return [sl.remove_redundant_data(s)], []
    if op == 'adjust':
        r, k = sl.adjust_notesequence_times(s, _timefunc(args[0]),
                                            nsio.t2f(args[1]) if args[1] else None)
        return [r], [int(k)]
    if op == 'rectify':
        r, al = sl.rectify_beats(s, args[0])
        return [r], []
    raise ValueError(op)


def _note_key(n, op=None):
    rest = nsio.note_rest(n)
    if op == 'transpose':
        rest %= 65536          # transposition resets pitch_name (documented)
    return (n.velocity, n.instrument, n.program, bool(n.is_drum), rest)


def _wf_problems(op, ins, outs):
    """Well-formedness of each result, and 'no note has been invented'."""
    probs = []
    in_keys = set()
    in_pitch_keys = set()
    for s in ins:
        for n in s.notes:
            in_keys.add(_note_key(n, op))
            in_pitch_keys.add((n.pitch,) + _note_key(n, op))
    for k, r in enumerate(outs):
        quant = r.quantization_info.steps_per_quarter > 0 or r.quantization_info.steps_per_second > 0
        for n in r.notes:
            if n.end_time < n.start_time:
                probs.append('note-ends-before-start')
            if n.start_time < 0 or n.end_time < 0:
                probs.append('negative-note-time')
            if n.end_time > r.total_time:
                probs.append('total-time-does-not-cover-note')
            if quant:
                if n.quantized_end_step < n.quantized_start_step:
                    probs.append('quantized-note-ends-before-start')
                if n.quantized_start_step < 0:
                    probs.append('negative-quantized-step')
                if n.quantized_end_step > r.total_quantized_steps:
                    probs.append('total-quantized-steps-does-not-cover-note')
            if _note_key(n, op) not in in_keys:
                probs.append('note-invented')
            elif op != 'transpose' and ((n.pitch,) + _note_key(n, op)) not in in_pitch_keys:
                probs.append('note-invented')
        for f in ('tempos', 'time_signatures', 'key_signatures', 'text_annotations', 'control_changes',
                  'pitch_bends', 'section_annotations'):
            for e in getattr(r, f):
                if e.time < 0:
                    probs.append('negative-event-time:' + f)
        if r.total_time < 0:
            probs.append('negative-total-time')
    return sorted(set(probs))


def _build(case):
    return [nsio.to_proto(d) for d in case['input']['seqs']]


def impl(case):
    op = case['op']
    args = case['input']['args']
    seqs = _build(case)
    if case['input'].get('alias'):
        # the same object passed several times (e.g. concatenate([s, s]))
        seqs = [seqs[0]] * len(seqs)
    before = [_ser(s) for s in seqs]
    exc1 = None
    outs1, extra1 = [], []
    try:
        outs1, extra1 = _call(op, seqs, args)
    except Exception as e:  # noqa
        exc1 = type(e).__name__
    mutated = int([_ser(s) for s in seqs] != before)
    # second call on the same (supposedly untouched) objects
    exc2 = None
    outs2, extra2 = [], []
    try:
        outs2, extra2 = _call(op, seqs, args)
    except Exception as e:  # noqa
        exc2 = type(e).__name__
    mutated2 = int([_ser(s) for s in seqs] != before)
    same = int(exc1 == exc2 and extra1 == extra2 and [_ser(r) for r in outs1] == [_ser(r) for r in outs2])
    # results must not alias the argument: editing the result must not change the argument
    alias = 0
    if exc1 is None:
        for r in outs1:
            for s in seqs:
                if r is s:
                    alias = 1
        try:
            for r in outs2:
                for n in r.notes:
                    n.velocity = (n.velocity % 127) + 1
                r.total_time += 1.0
                for t in r.tempos:
                    t.qpm += 1.0
            if [_ser(s) for s in seqs] != before:
                alias = 1
        except Exception:  # noqa
            pass
    fresh = _build(case)
    wfp = _wf_problems(op, fresh, outs1) if exc1 is None else []
    return [exc1 or 'OK', mutated or mutated2, same, alias, wfp, len(outs1)]


def model_input(case):
    return None


def model_output(case, out):
    return out


EXPECTED_EXC = {
    'trim': {'QuantizationStatusError'},
    'extract': {'QuantizationStatusError', 'ValueError'},
    'extract_many': {'QuantizationStatusError', 'ValueError'},
    'split_hop': {'QuantizationStatusError', 'ValueError'},
    'split_list': {'QuantizationStatusError', 'ValueError'},
    'split_time_changes': {'QuantizationStatusError', 'ValueError'},
    'split_silence': {'QuantizationStatusError', 'ValueError'},
    'shift': {'QuantizationStatusError', 'ValueError'},
    'stretch': {'QuantizationStatusError'},
    'transpose': set(),
    'quantize_rel': {'MultipleTempoError', 'MultipleTimeSignatureError', 'BadTimeSignatureError',
                     'NegativeTimeError', 'QuantizationStatusError'},
    'quantize_abs': {'NegativeTimeError', 'QuantizationStatusError'},
    'sustain': {'QuantizationStatusError'},
    'concatenate': {'ValueError', 'QuantizationStatusError'},
    'merge': set(),
    'repeat': {'ValueError', 'QuantizationStatusError', 'ZeroDivisionError'},
    'expand': {'ValueError', 'QuantizationStatusError', 'KeyError'},
    'remove_redundant': set(),
    'adjust': {'InvalidTimeAdjustmentError'},
    'rectify': {'QuantizationStatusError', 'RectifyBeatsError', 'InvalidTimeAdjustmentError'},
}


def oracle(case, io):
    if not isinstance(io, list) or len(io) != 6 or io[0] == 'HARNESS-EXC':
        return {'kind': 'harness-exception', 'detail': str(io)[:300]}
    status, mutated, same, alias, wfp, _ = io
    op = case['op']
    if mutated:
        return {'kind': 'argument-mutated', 'op': op, 'status': status}
    if not same:
        return {'kind': 'second-call-differs', 'op': op, 'status': status}
    if alias:
        return {'kind': 'result-aliases-argument', 'op': op}
    if wfp:
        return {'kind': 'result-not-well-formed', 'op': op, 'problems': wfp, 'first_problem': wfp[0]}
    return None


def nontrivial(case, io):
    d = case['input']['seqs'][0]
    return bool(d.get('notes')) and any(d.get(f) for f in ('tempos', 'tsigs', 'ksigs', 'texts', 'ccs', 'bends', 'sects'))


def _quantized(rng, d):
    d = copy.deepcopy(d)
    if rng.random() < 0.5:
        d['spq'] = 4
    else:
        d['sps'] = 100
    return d


def _wfdesc(rng, **kw):
    d = nsio.gen_desc(rng, wf=True, **kw)
    # well-formed: total_time covers every note (gen_desc guarantees), no negative times
    return d


def _groups(rng, d):
    ids = sorted(set(s[1] for s in d.get('sects', [])))
    if not ids or not d.get('meta'):
        return d
    d = dict(d)
    d['groups'] = [[[rng.choice(ids) for _ in range(rng.randint(1, 2))], rng.randint(1, 2)]
                   for _ in range(rng.randint(1, 2))]
    # expand_section_groups expects annotations in time order and the first at the start
    sects = sorted(d['sects'])
    d['sects'] = sects
    return d


def gen_case(rng, op=None):
    op = op or rng.choice(OPS)
    d = _wfdesc(rng, max_notes=rng.choice([3, 8, 14]), max_events=rng.choice([1, 3]))
    total = d['total']
    raising = rng.random() < 0.2
    seqs = [d]
    alias = False
    if op in ('trim', 'extract'):
        a = rng.randint(0, 12) * T
        b = a + rng.randint(0, 30) * T
        if raising:
            if rng.random() < 0.5:
                seqs = [_quantized(rng, d)]
            else:
                a = total + rng.randint(1, 4) * T; b = a + T
        args = [a, b]
    elif op == 'extract_many':
        ts = sorted(rng.randint(0, 40) * T for _ in range(rng.randint(2, 5)))
        if raising:
            r = rng.random()
            if r < 0.3:
                seqs = [_quantized(rng, d)]
            elif r < 0.6:
                ts = ts[:1]
            else:
                ts = list(reversed(ts)) + [0]
        args = [ts]
    elif op == 'split_hop':
        args = [rng.choice([1, 2, 3, 5, 8]) * T, rng.random() < 0.5]
        if raising:
            seqs = [_quantized(rng, d)]
    elif op == 'split_list':
        ts = sorted(set(rng.randint(0, 40) * T for _ in range(rng.randint(1, 4))))
        args = [ts, rng.random() < 0.5]
        if raising:
            seqs = [_quantized(rng, d)]
    elif op == 'split_time_changes':
        args = [rng.random() < 0.5]
        if raising:
            seqs = [_quantized(rng, d)]
    elif op == 'split_silence':
        args = [rng.choice([1, 2, 4, 12]) * T]
        if raising:
            seqs = [_quantized(rng, d)]
    elif op == 'shift':
        args = [rng.randint(1, 20) * T]
        if raising:
            if rng.random() < 0.5:
                args = [rng.choice([0, -T])]
            else:
                seqs = [_quantized(rng, d)]
    elif op == 'stretch':
        args = [rng.choice([1, 2, 3, 4, 6, 8, 12]), rng.choice([0, 1, 2])]
        if raising:
            seqs = [_quantized(rng, d)]
    elif op == 'transpose':
        args = [rng.randint(-30, 30), rng.choice([0, 21, 40]), rng.choice([127, 108, 80]), rng.random() < 0.7]
    elif op == 'quantize_rel':
        args = [rng.choice([1, 2, 4, 12, 24])]
        if not raising:
            d2 = dict(d)
            d2['tempos'] = d['tempos'][:1]
            d2['tsigs'] = d['tsigs'][:1]
            if d2['tsigs']:
                d2['tsigs'] = [[d2['tsigs'][0][0] if rng.random() < 0.2 else 0, d2['tsigs'][0][1], rng.choice([2, 4, 8])]]
            if d2['tempos'] and rng.random() < 0.8:
                d2['tempos'] = [[0, d2['tempos'][0][1]]]
            seqs = [d2]
        elif rng.random() < 0.3:
            seqs = [_quantized(rng, d)]
    elif op == 'quantize_abs':
        args = [rng.choice([1, 4, 10, 31, 100])]
        if raising:
            seqs = [_quantized(rng, d)]
    elif op == 'sustain':
        args = [rng.choice([64, 64, 64, 66])]
        if raising:
            seqs = [_quantized(rng, d)]
    elif op in ('concatenate', 'merge'):
        k = rng.randint(1, 3)
        seqs = [d] + [_wfdesc(rng, max_notes=5, max_events=2) for _ in range(k - 1)]
        durs = None
        if op == 'concatenate':
            r = rng.random()
            if r < 0.4:
                durs = [s['total'] + rng.randint(0, 3) * T for s in seqs]
            if raising:
                if rng.random() < 0.5:
                    durs = [s['total'] for s in seqs] + [T]
                else:
                    durs = [max(0, s['total'] - T) for s in seqs]
            if rng.random() < 0.2:
                alias = True
        args = [durs]
    elif op == 'repeat':
        dur = rng.randint(1, 60) * T
        sd = rng.choice([None, None, total + rng.randint(0, 3) * T])
        if total == 0 and not sd:
            sd = T
        args = [dur, sd]
    elif op == 'expand':
        seqs = [_groups(rng, d)]
        args = []
    elif op == 'remove_redundant':
        args = []
    elif op == 'adjust':
        spec = rng.choice([['lin', rng.choice([1, 2, 3]), rng.choice([0, 1]), rng.randint(0, 4) * T],
                           ['pw', rng.randint(0, 20) * T], ['const', rng.randint(0, 3) * T]])
        if raising:
            spec = rng.choice([['neg'], ['flip', rng.randint(0, 40) * T]])
        args = [spec, rng.choice([None, None, T // 4])]
    elif op == 'rectify':
        args = [rng.choice([60, 90, 120, 133])]
        if not raising:
            d2 = dict(d)
            d2['texts'] = list(d['texts']) + [[rng.randint(0, 44) * T + rng.choice([0, 0, 1, T // 3]), 0, 'beat', 2]
                                              for _ in range(rng.randint(1, 6))]
            seqs = [d2]
        elif rng.random() < 0.5:
            seqs = [_quantized(rng, d)]
    else:
        raise ValueError(op)
    return {'op': op, 'input': {'seqs': seqs, 'args': args, 'alias': alias}}


def cases(rng, tier, n=None):
    if n is None:
        n = 1200 if tier == 'quick' else 40000
    out = []
    for i in range(n):
        out.append(gen_case(rng, OPS[i % len(OPS)]))
    return out


def corpus():
    rng = random.Random(11)
    out = []
    # drum note after the last non-drum event with a pedal (F2), every op once on a fixed rich sequence
    d = nsio.gen_desc(random.Random(5), max_notes=10, max_events=3)
    for op in OPS:
        c = gen_case(rng, op)
        out.append(c)
    out.append({'op': 'sustain', 'input': {'alias': False, 'args': [64], 'seqs': [{
        'notes': [[60, 100, 0, 4 * T, 0, 0, 0, 0, 0, 0], [36, 100, 8 * T, 12 * T, 0, 0, 1, 0, 0, 0]],
        'ccs': [[T, 0, 64, 127, 0, 0, 0], [6 * T, 0, 64, 0, 0, 0, 0]], 'total': 12 * T, 'meta': 3}]}})
    return out


def shrink(case):
    seqs = case['input']['seqs']
    for i, d in enumerate(seqs):
        for sd in nsio.shrink_desc(d):
            c = copy.deepcopy(case)
            c['input']['seqs'][i] = sd
            yield c
    if len(seqs) > 1 and case['op'] in ('merge',):
        for i in range(len(seqs)):
            c = copy.deepcopy(case)
            del c['input']['seqs'][i]
            yield c
