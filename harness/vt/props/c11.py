"""C11 — sequence operations never modify their argument and return well-formed sequences.

Two halves (DESIGN.md section 6, C11).

* Provable half (coq/Props/C11.v, 50-odd statements): `C11_wf_preserved_<op>` — a well-formed input
  (Model/Wf.v: 0 <= start <= end <= total_time for every note, no negative event time, total_time >= 0)
  and legal arguments give a well-formed result — and `C11_no_invention_<op>` — every returned note is the
  image of an input note under the operation's per-note map — for shift, stretch, remove_redundant_data,
  concatenate, merge, repeat, adjust, rectify, trim, extract, _extract_subsequences, the four splitters,
  transpose, sustain, expand_section_groups, quantize / quantize_absolute.  They are proved about the
  models that the C01/C02/C10/C13/C14 checks tie to the code (imported read-only) plus the small models of
  merge_sequences / expand_section_groups in coq/Model/WfOps.v.
* Model side of the check (coq/Run/C11.v): (1) the Coq predicate `wfb` / `qwfb` is evaluated on the wire
  image of every sequence the REAL operation returned and compared with the Python predicate, so the
  predicate of the theorems is the predicate that is measured; (2) the operation is dispatched to the
  imported model and status, number of results and per result (wf verdict, note count, total_time) are
  compared with the real call.
* Runtime half (this module): Python aliasing / protobuf copy semantics are not expressible in a pure
  model without deciding the aliasing question by hand, so argument non-mutation (also on the raising
  paths), call-twice determinism, non-aliasing and well-formedness / no-invented-note of the *real* result
  are monitored on every generated call of every one of the 20 operations.

`impl` returns a canonical record of what was observed; `oracle` is the property statement itself
evaluated on that record.
"""
import copy
import hashlib
import json
import random
import struct

from vt import nsio

ID = 'C11'
META = {
    'level_text': (
        'Proof (Coq) for the well-formedness and no-invented-note half: C11_wf_preserved_<op> / C11_no_invention_<op>, '
        'for ALL well-formed sequences and all legal arguments, for shift, stretch, remove_redundant_data, '
        'concatenate, merge, repeat, adjust (every time function), rectify, trim, extract, every piece of '
        '_extract_subsequences and of the four splitters, transpose, sustain (no no-overlap hypothesis), '
        'expand_section_groups and both quantizers, about the Gallina models that the C01, C02, C10, C13 and C14 '
        'checks tie to the code (merge / expand: small models of this property, tied here); the Coq predicate is '
        'evaluated on every real result and compared with the monitor\'s. The non-mutation, raise-path, '
        'call-twice and non-aliasing half is a runtime monitor over every generated call of all 20 operations '
        '(partial: monitored, not proved).'),
    'level_note': (
        'PARTIAL. Python aliasing and protobuf copy semantics are outside any pure Gallina model: argument '
        'byte-for-byte non-mutation (including when the operation raises), same-result-when-called-again and '
        'result-does-not-alias-argument are checked at run time on N generated calls (N = evaluations in '
        'evidence), not proved. The well-formedness theorems are about hand-written models: exact-tick '
        'arithmetic (floats only in the quantizers, bit-exact), tied to the code by differential testing here '
        '(status, number of results, wf verdict, note count, total_time) and, field by field, by the C01 / C02 / '
        'C10 / C13 / C14 checks. Trusted: Coq kernel; those models; protobuf deterministic serialisation as the '
        'equality on messages.'),
}
RULE = ('one case = (operation, well-formed NoteSequence with every repeated field populated incl. section groups and '
        'metadata, every parameter at several non-default values, in 20 % of the cases the output of an earlier real '
        'operation as argument, arguments that drive the operation into each of its documented errors; a few '
        'ill-formed inputs only to reach NegativeTimeError); non-trivial when the input has notes and at least one '
        'other repeated field; distinct by hash of the canonical case')
ASSUMPTIONS = [
    'SerializeToString(deterministic=True) equality is byte-for-byte equality of messages',
    'time functions passed to adjust_notesequence_times are pure',
    'generated times are multiples of 2^-40 s below 2^12 s, on which the float arithmetic of the operations is '
    'exact (model side; stretch by k/2 or k/4 and rectify leave the grid: total_time is then not compared)',
    'the well-formedness clause is evaluated only for well-formed arguments (the property\'s hypothesis)',
]
TRUSTED = ['order-preserving float code (struct pack) used to send real results to the Coq predicate']

T = nsio.QUARTER_SEC
CHORDS = nsio.CHORDS

OPS = ['trim', 'extract', 'split_hop', 'split_list', 'split_time_changes', 'split_silence', 'shift', 'stretch',
       'transpose', 'quantize_rel', 'quantize_abs', 'sustain', 'concatenate', 'merge', 'repeat', 'expand',
       'remove_redundant', 'adjust', 'rectify', 'extract_many']


def _sl():
    from note_seq import sequences_lib
    try:
        from absl import logging as absl_logging
        absl_logging.set_verbosity(absl_logging.ERROR)
    except Exception:  # noqa
        pass
    return sequences_lib


def _ser(ns):
    return ns.SerializeToString(deterministic=True)


def _timefunc(spec):
    """spec: ['lin', a_num, a_den_log2, b_ticks] -> t*a + b ; ['neg'] ; ['flip', pivot_ticks] ; ['const', c]"""
    kind = spec[0]
    if kind == 'lin':
        a = spec[1] / float(1 << spec[2]); b = nsio.t2f(spec[3])
        return lambda t: t * a + b
    if kind == 'neg':
        return lambda t: t - 1000.0
    if kind == 'flip':
        p = nsio.t2f(spec[1])
        return lambda t: p - t
    if kind == 'const':
        c = nsio.t2f(spec[1])
        return lambda t: c
    if kind == 'pw':   # piecewise: identity up to p, then slope 2
        p = nsio.t2f(spec[1])
        return lambda t: t if t <= p else p + 2 * (t - p)
    if kind == 'late':  # identity up to p, negative afterwards: only LATE notes / events are rejected,
        p = nsio.t2f(spec[1])   # after the copy has already been worked on
        return lambda t: t if t <= p else -1.0
    raise ValueError(kind)


def _dur(d):
    return 0 if d == '0i' else nsio.t2f(d)


def _dur_ticks(d):
    return 0 if d == '0i' else d


def _concat_expected(protos, durs):
    """What concatenate_sequences is documented to do with these REQUESTED arguments, walking the pieces in
    order: ValueError when the lengths differ or a specified duration is less than the piece's total_time
    (whatever the duration's value or type: 0, 0.0, ...), QuantizationStatusError when a piece that has to be
    shifted is quantized; None = no rejection documented."""
    sl = _sl()
    if durs and len(durs) != len(protos):
        return 'ValueError'
    cur = 0.0
    tot = 0.0
    for i, p in enumerate(protos):
        if durs and _dur(durs[i]) < p.total_time:
            return 'ValueError'
        if cur > 0 and sl.is_quantized_sequence(p):
            return 'QuantizationStatusError'
        if durs:
            cur += _dur(durs[i])
        else:
            if p.total_time != 0:
                tot = cur + p.total_time if cur > 0 else p.total_time
            cur = tot
    return None


def _call(op, seqs, args):
    """Run the real operation. seqs: list of protos (the arguments). Returns list of result protos (+ extra ints)."""
    sl = _sl()
    s = seqs[0] if seqs else None
    if op == 'trim':
        return [sl.trim_note_sequence(s, nsio.t2f(args[0]), nsio.t2f(args[1]))], []
    if op == 'extract':
        pres = args[2] if len(args) > 2 else None
        if pres is None:
            return [sl.extract_subsequence(s, nsio.t2f(args[0]), nsio.t2f(args[1]))], []
        return [sl.extract_subsequence(s, nsio.t2f(args[0]), nsio.t2f(args[1]),
                                       preserve_control_numbers=list(pres))], []
    if op == 'extract_many':
        pres = args[1] if len(args) > 1 else None
        if pres is None:
            return list(sl._extract_subsequences(s, [nsio.t2f(t) for t in args[0]])), []
        return list(sl._extract_subsequences(s, [nsio.t2f(t) for t in args[0]],
                                             preserve_control_numbers=list(pres))), []
    if op == 'split_hop':
        return list(sl.split_note_sequence(s, nsio.t2f(args[0]), bool(args[1]))), []
    if op == 'split_list':
        return list(sl.split_note_sequence(s, [nsio.t2f(t) for t in args[0]], bool(args[1]))), []
    if op == 'split_time_changes':
        return list(sl.split_note_sequence_on_time_changes(s, bool(args[0]))), []
    if op == 'split_silence':
        return list(sl.split_note_sequence_on_silence(s, nsio.t2f(args[0]))), []
    if op == 'shift':
        return [sl.shift_sequence_times(s, nsio.t2f(args[0]) if args[0] is not None else 0)], []
    if op == 'stretch':
        return [sl.stretch_note_sequence(s, args[0] / float(1 << args[1]))], []
    if op == 'transpose':
        r, d = sl.transpose_note_sequence(s, args[0], min_allowed_pitch=args[1], max_allowed_pitch=args[2],
                                          transpose_chords=bool(args[3]))
        return [r], [int(d)]
    if op == 'quantize_rel':
        return [sl.quantize_note_sequence(s, args[0])], []
    if op == 'quantize_abs':
        return [sl.quantize_note_sequence_absolute(s, args[0])], []
    if op == 'sustain':
        return [sl.apply_sustain_control_changes(s, args[0])], []
    if op == 'concatenate':
        # a duration is in ticks; the marker '0i' is the Python int 0 (t2f(0) is the float 0.0)
        durs = [_dur(d) for d in args[0]] if args[0] is not None else None
        return [sl.concatenate_sequences(seqs, durs)], []
    if op == 'merge':
        return [sl.merge_sequences(seqs)], []
    if op == 'repeat':
        return [sl.repeat_sequence_to_duration(s, nsio.t2f(args[0]),
                                               nsio.t2f(args[1]) if args[1] is not None else None)], []
    if op == 'expand':
        return [sl.expand_section_groups(s)], []
    if op == 'remove_redundant':
        return [sl.remove_redundant_data(s)], []
    if op == 'adjust':
        r, k = sl.adjust_notesequence_times(s, _timefunc(args[0]),
                                            nsio.t2f(args[1]) if args[1] is not None else None)
        return [r], [int(k)]
    if op == 'rectify':
        r, al = sl.rectify_beats(s, args[0])
        return [r], []
    raise ValueError(op)


def _note_key(n, op=None):
    rest = nsio.note_rest(n)
    if op == 'transpose':
        rest %= 65536          # transposition resets pitch_name (documented)
    return (n.velocity, n.instrument, n.program, bool(n.is_drum), rest)


def _wf_problems(op, ins, outs):
    """Well-formedness of each result, and 'no note has been invented'."""
    probs = []
    in_keys = set()
    in_pitch_keys = set()
    for s in ins:
        for n in s.notes:
            in_keys.add(_note_key(n, op))
            in_pitch_keys.add((n.pitch,) + _note_key(n, op))
    for k, r in enumerate(outs):
        quant = r.quantization_info.steps_per_quarter > 0 or r.quantization_info.steps_per_second > 0
        for n in r.notes:
            if n.end_time < n.start_time:
                probs.append('note-ends-before-start')
            if n.start_time < 0 or n.end_time < 0:
                probs.append('negative-note-time')
            if n.end_time > r.total_time:
                probs.append('total-time-does-not-cover-note')
            if quant:
                if n.quantized_end_step < n.quantized_start_step:
                    probs.append('quantized-note-ends-before-start')
                if n.quantized_start_step < 0:
                    probs.append('negative-quantized-step')
                if n.quantized_end_step > r.total_quantized_steps:
                    probs.append('total-quantized-steps-does-not-cover-note')
            if _note_key(n, op) not in in_keys:
                probs.append('note-invented')
            elif op != 'transpose' and ((n.pitch,) + _note_key(n, op)) not in in_pitch_keys:
                probs.append('note-invented')
        for f in ('tempos', 'time_signatures', 'key_signatures', 'text_annotations', 'control_changes',
                  'pitch_bends', 'section_annotations'):
            for e in getattr(r, f):
                if e.time < 0:
                    probs.append('negative-event-time:' + f)
        if r.total_time < 0:
            probs.append('negative-total-time')
    return sorted(set(probs))


def _proto(d):
    """nsio.to_proto plus what only this property needs: nested section groups, repeated metadata strings."""
    ns = nsio.to_proto(d)
    if d.get('meta'):
        m = d['meta']
        ns.sequence_metadata.composers.extend(['comp-%d' % (m % 3), 'comp-x', 'comp-%d' % (m % 3)])
        ns.sequence_metadata.genre.extend(['g-%d' % (m % 2), 'g-%d' % (m % 2)])
        for outer_id, inner_ids, inner_times, outer_times in d.get('nest', []):
            g = ns.section_groups.add()
            g.num_times = outer_times
            g.sections.add().section_id = outer_id
            inner = g.sections.add().section_group
            inner.num_times = inner_times
            for i in inner_ids:
                inner.sections.add().section_id = i
    return ns


def _apply_pre(p, pre):
    """Two-step use: the argument is the OUTPUT of an earlier real operation (falls back to the plain
    sequence when that operation raises or returns nothing)."""
    sl = _sl()
    try:
        k = pre[0]
        if k == 'piece':
            ps = sl.split_note_sequence(p, nsio.t2f(pre[1]))
            return ps[pre[2] % len(ps)] if ps else p
        if k == 'extract':
            return sl.extract_subsequence(p, nsio.t2f(pre[1]), nsio.t2f(pre[2]))
        if k == 'trim':
            return sl.trim_note_sequence(p, nsio.t2f(pre[1]), nsio.t2f(pre[2]))
        if k == 'sustain':
            return sl.apply_sustain_control_changes(p)
        if k == 'transpose':
            return sl.transpose_note_sequence(p, pre[1], min_allowed_pitch=40, max_allowed_pitch=80)[0]
        if k == 'shift':
            return sl.shift_sequence_times(p, nsio.t2f(pre[1]))
        if k == 'quantize_abs':
            return sl.quantize_note_sequence_absolute(p, pre[1])
        if k == 'merge':
            return sl.merge_sequences([p, p])
        if k == 'remove_redundant':
            return sl.remove_redundant_data(p)
    except Exception:  # noqa
        return p
    return p


def _build(case):
    ps = [_proto(d) for d in case['input']['seqs']]
    pre = case['input'].get('pre')
    if pre and ps:
        ps[0] = _apply_pre(ps[0], pre)
    return ps


def _edit(r):
    """Edit a returned sequence in every field (aliasing probe)."""
    for n in r.notes:
        n.velocity = (n.velocity % 127) + 1
        n.end_time += 0.5
    r.total_time += 1.0
    for t in r.tempos:
        t.qpm += 1.0
    for f in ('time_signatures', 'key_signatures', 'text_annotations', 'control_changes', 'pitch_bends',
              'section_annotations'):
        for e in getattr(r, f):
            e.time += 0.25
    r.subsequence_info.start_time_offset += 1.0
    r.ticks_per_quarter += 1
    r.sequence_metadata.title += '!'
    for g in r.section_groups:
        g.num_times += 1
    del r.notes[:1]


def impl(case):
    op = case['op']
    args = case['input']['args']
    seqs = _build(case)
    if case['input'].get('alias') and seqs:
        # the same object passed several times (e.g. concatenate([s, s]))
        seqs = [seqs[0]] * len(seqs)
    before = [_ser(s) for s in seqs]
    exc1 = None
    outs1, extra1 = [], []
    try:
        outs1, extra1 = _call(op, seqs, args)
    except Exception as e:  # noqa
        exc1 = type(e).__name__
    mutated = int([_ser(s) for s in seqs] != before)
    # second call on the same (supposedly untouched) objects
    exc2 = None
    outs2, extra2 = [], []
    try:
        outs2, extra2 = _call(op, seqs, args)
    except Exception as e:  # noqa
        exc2 = type(e).__name__
    mutated2 = int([_ser(s) for s in seqs] != before)
    same = int(exc1 == exc2 and extra1 == extra2 and [_ser(r) for r in outs1] == [_ser(r) for r in outs2])
    ser1 = [_ser(r) for r in outs1]
    flags = []
    # results must not alias the argument, each other, or the results of the other call:
    # editing a result must change nothing else
    alias = 0
    if exc1 is None:
        for r in outs1:
            for s in seqs:
                if r is s:
                    alias = 1
        for i, r in enumerate(outs1):
            if any(r is q for q in outs1[:i]) or any(r is q for q in outs2):
                flags.append('results-share-state')
        try:
            if outs2:
                _edit(outs2[0])
                if same and [_ser(r) for r in outs2[1:]] != ser1[1:]:
                    flags.append('results-share-state')
            for r in outs2[1:]:
                _edit(r)
            if [_ser(s) for s in seqs] != before:
                alias = 1
            if [_ser(r) for r in outs1] != ser1:
                flags.append('earlier-result-changed')
        except Exception as e:  # noqa
            flags.append('harness-edit-failed:' + type(e).__name__)
    # a third call, on freshly built arguments (new objects, after the edits above): the result may depend on
    # the argument VALUES only — not on object identity, on earlier calls, or on what was done to earlier results
    fresh3 = _build(case)
    if case['input'].get('alias') and fresh3:
        fresh3 = [fresh3[0]] * len(fresh3)
    exc3 = None
    outs3, extra3 = [], []
    try:
        outs3, extra3 = _call(op, fresh3, args)
    except Exception as e:  # noqa
        exc3 = type(e).__name__
    if not (exc3 == exc1 and extra3 == extra1 and [_ser(r) for r in outs3] == ser1):
        flags.append('fresh-copy-differs')
    if [_ser(r) for r in outs1] != ser1 or [_ser(s) for s in seqs] != before:
        flags.append('earlier-result-changed')
    fresh = _build(case)
    # "given a well-formed input": the well-formedness clause is only claimed for well-formed arguments
    # (the generator emits a few ill-formed ones to reach NegativeTimeError; non-mutation still applies)
    wfp = _wf_problems(op, fresh, outs1) if exc1 is None and all(_py_wfb(x) for x in fresh) else []
    # model side: what Run/C11.v is compared with (the results were edited by the alias probe above:
    # outs1 is untouched, outs2 was edited)
    pred = [[_py_wfb(r), _py_qwfb(r)] for r in outs1]
    obs = [STATUS.get(exc1 or 'OK', exc1),
           [[_py_wfb(r), len(r.notes), _grid_total(r), len(r.control_changes)] for r in outs1],
           [int(x) for x in extra1]]
    _RESULT_WIRE[_case_key(case)] = json.dumps([nsio.to_wire(r, tfun=_fcode, qfun=lambda q: 0) for r in outs1],
                                               separators=(',', ':'))
    return [exc1 or 'OK', mutated or mutated2, same, alias, wfp, len(outs1), [pred, obs], sorted(set(flags))]


# ---------------------------------------------------------------------------
# model side (coq/Run/C11.v)
# ---------------------------------------------------------------------------
STATUS = {'OK': 0, 'ValueError': 1, 'QuantizationStatusError': 2, 'InvalidTimeAdjustmentError': 3,
          'RectifyBeatsError': 4, 'ZeroDivisionError': 5, 'KeyError': 6}
_RESULT_WIRE = {}
_EVENT_FIELDS = ('tempos', 'time_signatures', 'key_signatures', 'text_annotations', 'control_changes',
                 'pitch_bends', 'section_annotations')


def _case_key(case):
    return hashlib.sha1(json.dumps(case, sort_keys=True, default=str).encode()).hexdigest()


def _fcode(x):
    """Order-preserving integer image of a finite double (+0.0 and -0.0 both 0): the Coq predicate only
    compares times with each other and with 0, so it can be evaluated on codes of times that are on no grid."""
    b = struct.unpack('<q', struct.pack('<d', float(x)))[0]
    return b if b >= 0 else -(b & 0x7FFFFFFFFFFFFFFF)


def _py_wfb(r):
    """Model/Wf.v wfb, in Python, on a real NoteSequence (independent of _wf_problems: used only to tie the
    Coq predicate to what is measured)."""
    if r.total_time < 0:
        return 0
    for n in r.notes:
        if not (0 <= n.start_time <= n.end_time <= r.total_time):
            return 0
    for f in _EVENT_FIELDS:
        for e in getattr(r, f):
            if e.time < 0:
                return 0
    return 1


def _py_qwfb(r):
    for n in r.notes:
        if not (0 <= n.quantized_start_step <= n.quantized_end_step <= r.total_quantized_steps):
            return 0
    for c in r.control_changes:
        if c.quantized_step < 0:
            return 0
    for a in r.text_annotations:
        if a.quantized_step < 0:
            return 0
    return 1


def _grid_total(r):
    try:
        return nsio.f2t(r.total_time)
    except nsio.OffGrid:
        return -1


def _flat_ids(ns):
    """sections_to_concat of expand_section_groups, from the section_groups of the argument (list arithmetic;
    the model receives the flattened list)."""
    def in_group(g):
        out = []
        for sec in g.sections:
            f = sec.WhichOneof('section_type')
            if f == 'section_id':
                out.append(sec.section_id)
            elif f == 'section_group':
                out.extend(in_group(sec.section_group))
        return out * g.num_times
    ids = []
    for g in ns.section_groups:
        ids.extend(in_group(g))
    return ids


def _opt_list(x):
    return [] if x is None else [list(x)]


def _model_request(case):
    """The operation dispatched to the imported Gallina model, or None (quantizers: float model, see C01;
    rectify and fractional linear maps: float arithmetic, see C13)."""
    op = case['op']
    args = case['input']['args']
    protos = _build(case)
    if case['input'].get('alias') and protos:
        protos = [protos[0]] * len(protos)
    try:
        ws = [nsio.to_wire(x) for x in protos]
    except nsio.OffGrid:
        return None
    w = ws[0] if ws else None
    if op == 'shift':
        return [10, w, args[0] if args[0] is not None else 0]
    if op == 'stretch':
        return [11, w, args[0], 1 << args[1]]
    if op == 'trim':
        return [12, w, args[0], args[1]]
    if op == 'extract':
        return [13, w, args[0], args[1], _opt_list(args[2] if len(args) > 2 else None)]
    if op == 'extract_many':
        return [14, w, list(args[0]), _opt_list(args[1] if len(args) > 1 else None)]
    if op == 'split_hop':
        return [15, w, args[0], int(bool(args[1]))]
    if op == 'split_list':
        return [16, w, list(args[0]), int(bool(args[1]))]
    if op == 'split_time_changes':
        return [17, w, int(bool(args[0]))]
    if op == 'split_silence':
        return [18, w, args[0]]
    if op == 'transpose':
        if any(a.annotation_type == 1 and a.text not in CHORDS for a in protos[0].text_annotations) and args[3]:
            return None            # ChordSymbolError path: chord grammar is C10's subject
        return [19, w, args[0], args[1], args[2]]
    if op == 'sustain':
        return [20, w, args[0]]
    if op == 'concatenate':
        return [21, ws, [_dur_ticks(x) for x in args[0]] if args[0] else []]
    if op == 'merge':
        return [22, ws]
    if op == 'repeat':
        return [23, w, args[0], [args[1]] if args[1] is not None else []]
    if op == 'remove_redundant':
        return [24, w]
    if op == 'expand':
        has = int(len(protos[0].section_groups) > 0)
        return [25, w, has, _flat_ids(protos[0])]
    if op == 'adjust':
        spec = args[0]
        md = [args[1]] if args[1] is not None else []
        if spec[0] == 'lin':
            if spec[2] != 0:
                return None
            return [26, w, [1, spec[1], spec[3]], md]
        if spec[0] == 'neg':
            return [26, w, [2, 1000 << nsio.TICK_BITS, 0], md]
        if spec[0] == 'flip':
            return [26, w, [3, spec[1], 0], md]
        if spec[0] == 'const':
            return [26, w, [4, spec[1], 0], md]
        if spec[0] == 'pw':
            return [26, w, [5, spec[1], 0], md]
        if spec[0] == 'late':
            return [26, w, [6, spec[1], -(1 << nsio.TICK_BITS)], md]
    return None


def model_input(case):
    key = _case_key(case)
    wires = _RESULT_WIRE.pop(key, None)
    if wires is not None:
        wires = json.loads(wires)
    else:                                  # replay / shrinking: run the real operation again
        try:
            ps = _build(case)
            if case['input'].get('alias') and ps:
                ps = [ps[0]] * len(ps)
            outs, _ = _call(case['op'], ps, case['input']['args'])
        except Exception:  # noqa
            outs = []
        wires = [nsio.to_wire(r, tfun=_fcode, qfun=lambda q: 0) for r in outs]
    reqs = [[1, wires]]
    m = _model_request(case)
    if m is not None:
        reqs.append(m)
    return [99, reqs]


def model_output(case, out):
    pred = [[int(a), int(b)] for a, b in out[0]]
    obs = None
    if len(out) > 1:
        o = out[1]
        if o and o[0] == -1000:
            obs = ['MODEL-ERR', o]
        else:
            obs = [o[0], [[int(x[0]), int(x[1]), int(x[2]), int(x[3])] for x in o[1]], [int(x) for x in o[2]]]
    return [pred, obs]


def equal(case, io, mo):
    """Correspondence: (1) Coq wfb/qwfb on the real results == the Python predicate on them;
    (2) model of the operation: same status, same number of results, per result the same wf verdict,
    note count, number of control changes and total_time (total_time only when the real one is on the grid)."""
    if not isinstance(io, list) or len(io) != 8:
        return False
    pred, obs = io[6]
    if pred != mo[0]:
        return False
    m = mo[1]
    if m is None:
        return True
    if obs[0] != m[0] or len(obs[1]) != len(m[1]):
        return False
    for a, b in zip(obs[1], m[1]):
        if a[0] != b[0] or a[1] != b[1] or a[3] != b[3]:
            return False
        if a[2] != -1 and a[2] != b[2]:
            return False
    if case['op'] in ('transpose', 'adjust') and obs[0] == 0 and obs[2] != m[2]:
        return False
    return True


EXPECTED_EXC = {
    'trim': {'QuantizationStatusError'},
    'extract': {'QuantizationStatusError', 'ValueError'},
    'extract_many': {'QuantizationStatusError', 'ValueError'},
    # hop 0 (np.arange): undocumented but not a C11 matter; C02 models it as ErrZeroHop
    'split_hop': {'QuantizationStatusError', 'ValueError', 'ZeroDivisionError'},
    'split_list': {'QuantizationStatusError', 'ValueError'},
    'split_time_changes': {'QuantizationStatusError', 'ValueError'},
    'split_silence': {'QuantizationStatusError', 'ValueError'},
    'shift': {'QuantizationStatusError', 'ValueError'},
    'stretch': {'QuantizationStatusError'},
    'transpose': {'ChordSymbolError'},
    'quantize_rel': {'MultipleTempoError', 'MultipleTimeSignatureError', 'BadTimeSignatureError',
                     'NegativeTimeError', 'QuantizationStatusError'},
    'quantize_abs': {'NegativeTimeError', 'QuantizationStatusError'},
    'sustain': {'QuantizationStatusError'},
    'concatenate': {'ValueError', 'QuantizationStatusError'},
    'merge': set(),
    'repeat': {'ValueError', 'QuantizationStatusError', 'ZeroDivisionError'},
    'expand': {'ValueError', 'QuantizationStatusError', 'KeyError'},
    'remove_redundant': set(),
    'adjust': {'InvalidTimeAdjustmentError'},
    'rectify': {'QuantizationStatusError', 'RectifyBeatsError', 'InvalidTimeAdjustmentError'},
}


def oracle(case, io):
    if not isinstance(io, list) or len(io) != 8 or io[0] == 'HARNESS-EXC':
        return {'kind': 'harness-exception', 'detail': str(io)[:300]}
    status, mutated, same, alias, wfp, _, _, flags = io
    op = case['op']
    if mutated:
        return {'kind': 'argument-mutated', 'op': op, 'status': status}
    if not same:
        return {'kind': 'second-call-differs', 'op': op, 'status': status}
    if alias:
        return {'kind': 'result-aliases-argument', 'op': op}
    if wfp:
        return {'kind': 'result-not-well-formed', 'op': op, 'problems': wfp, 'first_problem': wfp[0]}
    if flags:
        # results share state with each other / an earlier result changed when a later one was edited /
        # the same call on freshly built equal arguments gives something else ("returns the same result when
        # called again")
        return {'kind': flags[0], 'op': op, 'status': status, 'flags': flags}
    if status != 'OK' and status not in EXPECTED_EXC.get(op, set()):
        return {'kind': 'undocumented-exception-class', 'op': op, 'status': status}
    if op == 'concatenate':
        # documented rejection, derived from the requested arguments only: "ValueError: ... if a specified
        # duration is less than the total_time of the sequence" — for every value of the duration, 0 included
        ps = _build(case)
        if case['input'].get('alias') and ps:
            ps = [ps[0]] * len(ps)
        want = _concat_expected(ps, case['input']['args'][0])
        if want == 'ValueError' and status != 'ValueError':
            return {'kind': 'documented-rejection-missing', 'op': op, 'status': status, 'expected': want,
                    'durations': case['input']['args'][0], 'total_times': [nsio.f2t(x.total_time) for x in ps]}
    return None


def nontrivial(case, io):
    if not case['input']['seqs']:
        return False
    d = case['input']['seqs'][0]
    return bool(d.get('notes')) and any(d.get(f) for f in ('tempos', 'tsigs', 'ksigs', 'texts', 'ccs', 'bends', 'sects'))


def _quantized(rng, d):
    d = copy.deepcopy(d)
    if rng.random() < 0.5:
        d['spq'] = 4
    else:
        d['sps'] = 100
    return d


def _negative(rng, d):
    """Not well-formed on purpose (an event before time 0): drives the quantizers into NegativeTimeError."""
    d = copy.deepcopy(d)
    k = rng.random()
    if k < 0.35 or not d['notes']:
        d['ccs'] = list(d['ccs'])
        d['ccs'].insert(rng.randint(0, len(d['ccs'])), [-rng.randint(1, 4) * T, 0, 64, 0, 0, 0, 0])
    elif k < 0.6:
        d['texts'] = list(d['texts'])             # text annotations are quantized last
        d['texts'].insert(rng.randint(0, len(d['texts'])), [-rng.randint(1, 4) * T, 0, 'C', 1])
    else:
        d['notes'][rng.randrange(len(d['notes']))][2] = -rng.randint(1, 4) * T   # not necessarily the first note
    return d


def _wfdesc(rng, **kw):
    d = nsio.gen_desc(rng, wf=True, **kw)
    # well-formed: total_time covers every note (gen_desc guarantees), no negative times
    return d


def _groups(rng, d, sort=True, unknown_id=False):
    ids = sorted(set(s[1] for s in d.get('sects', [])))
    if not ids or not d.get('meta'):
        return d
    d = dict(d)
    d['groups'] = [[[rng.choice(ids) for _ in range(rng.randint(1, 2))], rng.randint(1, 2)]
                   for _ in range(rng.randint(1, 2))]
    if unknown_id:
        d['groups'][-1][0].append(max(ids) + 1)      # KeyError: a group names a section nobody annotated
    if sort:
        # expand_section_groups expects annotations in time order and the first at the start
        d['sects'] = sorted(d['sects'])
    return d


def _tpoint(rng, d, hi=40):
    """A cut point: on the quarter-second grid, or exactly on / one tick beside a time of the sequence."""
    pool = [n[2] for n in d['notes']] + [n[3] for n in d['notes']] + [e[0] for f in ('tempos', 'tsigs', 'ccs')
                                                                      for e in d.get(f, [])] + [d['total']]
    if pool and rng.random() < 0.4:
        return max(0, rng.choice(pool) + rng.choice([0, 0, -1, 1]))
    return rng.randint(0, hi) * T


PRESERVE = [None, None, [], [64], [66, 67], [7, 64], [64, 66, 67]]
PRE = [['piece', 8 * T, 0], ['piece', 5 * T, 1], ['piece', 3 * T, 2], ['extract', 2 * T, 20 * T], ['trim', T, 18 * T],
       ['sustain'], ['transpose', 0], ['transpose', 7], ['shift', 3 * T], ['quantize_abs', 4], ['merge'],
       ['remove_redundant']]


def gen_case(rng, op=None):
    op = op or rng.choice(OPS)
    d = _wfdesc(rng, max_notes=rng.choice([3, 8, 14]), max_events=rng.choice([1, 3]))
    total = d['total']
    raising = rng.random() < 0.2
    if op != 'expand' and rng.random() < 0.3:
        d = _groups(rng, d, sort=False)          # section groups present in the argument of every operation
    if rng.random() < 0.35:
        # the argument is itself a piece of an earlier extract / split: it carries subsequence_info
        # (a singular sub-message: clearing or rewriting the CALLER's copy is only visible then; seeded C11-3)
        d = dict(d)
        d['sub'] = [rng.randint(0, 20) * T + rng.choice([0, 1]), rng.randint(0, 20) * T]
        if d['sub'] == [0, 0]:
            d['sub'] = [T, 0]
    if d.get('meta') and d.get('sects') and rng.random() < 0.3:
        ids = sorted(set(x[1] for x in d['sects']))
        d = dict(d)                               # a section group nested in a section group, num_times 0..3
        d['nest'] = [[rng.choice(ids), [rng.choice(ids) for _ in range(rng.randint(0, 2))],
                      rng.randint(0, 3), rng.randint(0, 2)]]
        if op == 'expand':
            d['sects'] = sorted(d['sects'])
    seqs = [d]
    alias = False
    pre = None
    if rng.random() < 0.2:
        pre = list(rng.choice(PRE))               # two-step use: the argument is the output of an earlier operation
    if op in ('trim', 'extract'):
        a = _tpoint(rng, d, 12)
        b = a + rng.choice([0, 1, T, rng.randint(0, 30) * T, rng.randint(0, 30) * T])
        if rng.random() < 0.3:
            b = max(a, _tpoint(rng, d))
        if raising:
            r = rng.random()
            if r < 0.4:
                seqs = [_quantized(rng, d)]
            elif r < 0.8:
                a = total + rng.randint(1, 4) * T; b = a + T
            else:
                a, b = b + T, a                   # end before start: "Split times must be sorted"
        args = [a, b] if op == 'trim' else [a, b, rng.choice(PRESERVE)]
    elif op == 'extract_many':
        ts = sorted(_tpoint(rng, d) for _ in range(rng.randint(2, 5)))
        if raising:
            r = rng.random()
            if r < 0.25:
                seqs = [_quantized(rng, d)]
            elif r < 0.45:
                ts = ts[:rng.randint(0, 1)]       # fewer than two split times (incl. the empty list)
            elif r < 0.65:
                ts = list(reversed(ts)) + [0]
            elif r < 0.85 and len(ts) > 2:
                ts[-2], ts[-1] = ts[-1] + T, ts[-2]   # unsorted only at the END of the vector
            else:
                ts = ts[:1] + [total + T, total + 2 * T]   # a LATER piece starts past the end
        args = [ts, rng.choice(PRESERVE)]
    elif op == 'split_hop':
        args = [rng.choice([1, 2, 3, 5, 8]) * T + rng.choice([0, 0, 1, T // 3]), rng.random() < 0.5]
        if rng.random() < 0.1:
            args[0] = total + rng.choice([0, T])   # a hop as long as / longer than the sequence
        if raising:
            seqs = [_quantized(rng, d)]
    elif op == 'split_list':
        ts = [_tpoint(rng, d) for _ in range(rng.randint(0, 4))]      # unsorted, duplicates, empty list: all legal
        args = [ts, rng.random() < 0.5]
        if raising:
            seqs = [_quantized(rng, d)]
    elif op == 'split_time_changes':
        args = [rng.random() < 0.5]
        if raising:
            seqs = [_quantized(rng, d)]
    elif op == 'split_silence':
        args = [rng.choice([0, 1, 1, 2, 4, 12, 12]) * T + rng.choice([0, 0, 1])]
        if raising:
            seqs = [_quantized(rng, d)]
    elif op == 'shift':
        args = [rng.choice([1, rng.randint(1, 20) * T, rng.randint(1, 20) * T + 3])]
        if raising:
            if rng.random() < 0.5:
                args = [rng.choice([0, -T])]
            else:
                seqs = [_quantized(rng, d)]
    elif op == 'stretch':
        args = [rng.choice([1, 2, 3, 4, 6, 8, 12]), rng.choice([0, 1, 2])]
        if raising:
            seqs = [_quantized(rng, d)]
    elif op == 'transpose':
        args = [rng.randint(-30, 30), rng.choice([0, 21, 40]), rng.choice([127, 108, 80]), rng.random() < 0.7]
        if rng.random() < 0.15:
            args[0] = 0        # "only clamp to the range": still deletes notes, resets pitch names, trims total_time
        if rng.random() < 0.15 and d['notes']:
            pz = rng.choice(d['notes'])[0] + args[0]
            args[1], args[2] = rng.choice([(pz, pz), (pz, 127), (0, pz), (pz + 1, 127), (0, pz - 1), (0, 0), (127, 127)])
        if rng.random() < 0.1 and d['notes']:
            d2 = copy.deepcopy(d)                 # pitches at the ends of the MIDI range
            d2['notes'][0][0] = rng.choice([0, 1, 126, 127])
            seqs = [d2]
        if raising and rng.random() < 0.5:
            d2 = dict(seqs[0])                    # ChordSymbolError: a chord symbol outside the grammar, stored
            d2['texts'] = list(d2['texts'])       # first, last or between valid ones
            d2['texts'].insert(rng.randint(0, len(d2['texts'])), [rng.randint(0, 40) * T, 0, 'Zzz#', 1])
            seqs = [d2]
            args[3] = True
    elif op == 'quantize_rel':
        args = [rng.choice([1, 2, 4, 12, 24])]
        if not raising:
            d2 = dict(d)
            d2['tempos'] = d['tempos'][:1]
            d2['tsigs'] = d['tsigs'][:1]
            if d2['tsigs']:
                d2['tsigs'] = [[d2['tsigs'][0][0] if rng.random() < 0.2 else 0, d2['tsigs'][0][1], rng.choice([2, 4, 8])]]
            if d2['tempos'] and rng.random() < 0.8:
                d2['tempos'] = [[0, d2['tempos'][0][1]]]
            seqs = [d2]
        else:
            r = rng.random()
            if r < 0.25:
                seqs = [_quantized(rng, d)]
            elif r < 0.5:                         # BadTimeSignatureError: denominator not a power of two / numerator 0
                d2 = dict(d)
                d2['tempos'] = d['tempos'][:1]
                d2['tsigs'] = [[0, rng.choice([0, 3, 4]), rng.choice([3, 6, 4])]]
                seqs = [d2]
            elif r < 0.7:                         # NegativeTimeError (input outside the quantifier: only the
                seqs = [_negative(rng, d)]        # non-mutation clauses apply)
    elif op == 'quantize_abs':
        args = [rng.choice([1, 4, 10, 31, 100])]
        if raising:
            seqs = [_quantized(rng, d) if rng.random() < 0.5 else _negative(rng, d)]
    elif op == 'sustain':
        args = [rng.choice([64, 64, 64, 66, 67, 7])]
        if raising:
            seqs = [_quantized(rng, d)]
    elif op in ('concatenate', 'merge'):
        k = rng.randint(1, 3)
        seqs = [d] + [_wfdesc(rng, max_notes=5, max_events=2) for _ in range(k - 1)]
        if rng.random() < 0.06:
            seqs = []                             # the empty list of sequences is legal
        for x in seqs[1:]:
            if rng.random() < 0.4:
                x['sub'] = [rng.randint(1, 20) * T, rng.randint(0, 20) * T]
        durs = None
        if op == 'concatenate':
            r = rng.random()
            if r < 0.4:
                durs = [s['total'] + rng.randint(0, 3) * T for s in seqs]
            elif r < 0.5:
                durs = []                         # an explicit empty list instead of None
            if raising and seqs:
                r = rng.random()
                if r < 0.4:
                    durs = [s['total'] for s in seqs] + [T]
                elif r < 0.8:
                    durs = [max(0, s['total'] - T) for s in seqs]
                else:                             # QuantizationStatusError from the shift of a later piece
                    seqs = seqs + [_quantized(rng, _wfdesc(rng, max_notes=3, max_events=1))]
        if op == 'concatenate' and rng.random() < 0.3:
            # explicit durations of every kind at every position: exact 0 as int and as float, too short but not
            # zero, equal, longer — for NON-EMPTY pieces, the piece after the special one ending earlier
            k = rng.randint(1, 3)
            pos = rng.randrange(k)
            seqs = []
            for i in range(k):
                x = _wfdesc(rng, max_notes=5, max_events=2, hi_quarters=(24 if i == pos else 6))
                if not x['notes']:
                    e = rng.randint(1, 24 if i == pos else 6) * T
                    x['notes'] = [[60, 80, 0, e, 0, 0, 0, 0, 0, 0]]
                    x['total'] = max(x['total'], e)
                if i == pos:
                    x['total'] += 8 * T            # longer than whatever follows
                seqs.append(x)
            durs = [s['total'] + rng.choice([0, 0, T, 3 * T]) for s in seqs]
            kind = rng.choice(['0i', '0f', 'short', 'short1', 'equal', 'longer'])
            tot = seqs[pos]['total']
            durs[pos] = {'0i': '0i', '0f': 0, 'short': max(1, tot - rng.randint(1, 4) * T), 'short1': tot - 1,
                         'equal': tot, 'longer': tot + rng.randint(1, 4) * T}[kind]
            pre = None
        if seqs and rng.random() < 0.2:
            alias = True                          # the same object several times (concatenate and merge)
        args = [durs]
    elif op == 'repeat':
        dur = rng.randint(1, 60) * T
        sd = rng.choice([None, None, 0, total + rng.randint(0, 3) * T, total + rng.randint(0, 3) * T + 1])
        if total == 0 and not sd:
            sd = T
        # never more than 8 copies (a sequence a few ticks long repeated to 15 s would ask for 2^38 copies)
        dur = min(dur, 8 * (sd or total))
        if raising:
            r = rng.random()
            if r < 0.3:
                seqs = [_quantized(rng, d)]
            elif r < 0.5:
                dur = rng.choice([0, -T])         # ValueError: nothing to extract
            elif r < 0.7 and total == 0:
                sd = None                         # ZeroDivisionError
            elif r < 0.85 and sd:
                sd = max(T // 2, total // 2)      # ValueError: duration shorter than total_time
                dur = min(dur, 8 * sd)
        args = [dur, sd]
    elif op == 'expand':
        seqs = [_groups(rng, d)]
        if raising:
            r = rng.random()
            if r < 0.3:
                seqs = [_quantized(rng, seqs[0])]
            elif r < 0.6:
                seqs = [_groups(rng, d, unknown_id=True)]
            else:
                seqs = [_groups(rng, d, sort=False)]   # annotations out of time order: ValueError
        args = []
    elif op == 'remove_redundant':
        args = []
    elif op == 'adjust':
        spec = rng.choice([['lin', rng.choice([1, 2, 3]), rng.choice([0, 1]), rng.randint(0, 4) * T],
                           ['pw', rng.randint(0, 20) * T], ['const', rng.randint(0, 3) * T]])
        if raising:
            spec = rng.choice([['neg'], ['flip', rng.randint(0, 40) * T], ['late', rng.randint(0, 40) * T],
                               ['late', _tpoint(rng, d)]])
        args = [spec, rng.choice([None, None, 0, T // 4, 1])]
    elif op == 'rectify':
        args = [rng.choice([60, 90, 120, 133, 1, 97.5])]
        if not raising:
            d2 = dict(d)
            d2['texts'] = list(d['texts']) + [[rng.randint(0, 44) * T + rng.choice([0, 0, 1, T // 3]), 0, 'beat', 2]
                                              for _ in range(rng.randint(1, 6))]
            seqs = [d2]
        elif rng.random() < 0.5:
            seqs = [_quantized(rng, d)]
    else:
        raise ValueError(op)
    inp = {'seqs': seqs, 'args': args, 'alias': alias}
    if pre is not None and seqs:
        inp['pre'] = pre
    return {'op': op, 'input': inp}


def cases(rng, tier, n=None):
    if n is None:
        n = 1200 if tier == 'quick' else 40000
    out = []
    for i in range(n):
        out.append(gen_case(rng, OPS[i % len(OPS)]))
    return out


def corpus():
    rng = random.Random(11)
    out = []
    # drum note after the last non-drum event with a pedal (F2), every op once on a fixed rich sequence
    d = nsio.gen_desc(random.Random(5), max_notes=10, max_events=3)
    for op in OPS:
        c = gen_case(rng, op)
        out.append(c)
    out.append({'op': 'sustain', 'input': {'alias': False, 'args': [64], 'seqs': [{
        'notes': [[60, 100, 0, 4 * T, 0, 0, 0, 0, 0, 0], [36, 100, 8 * T, 12 * T, 0, 0, 1, 0, 0, 0]],
        'ccs': [[T, 0, 64, 127, 0, 0, 0], [6 * T, 0, 64, 0, 0, 0, 0]], 'total': 12 * T, 'meta': 3}]}})
    # tempo / time signature / key events stored OUT of time order (an in-place sort of the caller's fields is
    # only visible on such inputs: seeded change C11-1), through every operation built on _extract_subsequences
    unsorted = {'notes': [[60, 80, 0, 4 * T, 0, 0, 0, 0, 0, 0], [62, 80, 10 * T, 14 * T, 0, 0, 0, 0, 0, 0],
                          [64, 80, 20 * T, 24 * T, 0, 0, 0, 0, 0, 0]],
                'tempos': [[16 * T, 90 << nsio.QPM_BITS], [0, 120 << nsio.QPM_BITS]],
                'tsigs': [[12 * T, 3, 4], [0, 4, 4]], 'ksigs': [[8 * T, 7, 0], [0, 0, 0]],
                'texts': [[4 * T, 0, 'C', 1]], 'ccs': [[2 * T, 0, 64, 127, 0, 0, 0]],
                'sects': [[0, 0], [12 * T, 1]], 'total': 24 * T, 'meta': 5, 'groups': [[[1, 0], 2]]}
    for op, args in (('extract', [4 * T, 22 * T]), ('extract_many', [[0, 8 * T, 24 * T]]),
                     ('split_hop', [8 * T, False]), ('split_list', [[6 * T, 13 * T], True]),
                     ('split_time_changes', [False]), ('split_silence', [T]), ('repeat', [40 * T, None]),
                     ('expand', []), ('remove_redundant', []), ('trim', [T, 20 * T])):
        out.append({'op': op, 'input': {'alias': False, 'args': args, 'seqs': [copy.deepcopy(unsorted)]}})
    # arguments that are pieces of an earlier split (subsequence_info set: seeded change C11-3)
    piece = copy.deepcopy(unsorted); piece['sub'] = [6 * T, 2 * T]
    out.append({'op': 'shift', 'input': {'alias': False, 'args': [3 * T], 'seqs': [copy.deepcopy(piece)]}})
    out.append({'op': 'concatenate', 'input': {'alias': False, 'args': [None],
                                               'seqs': [copy.deepcopy(piece), copy.deepcopy(piece)]}})
    out.append({'op': 'repeat', 'input': {'alias': False, 'args': [40 * T, None], 'seqs': [copy.deepcopy(piece)]}})
    # a drum note that ends after every pitched note (seeded change C11-2), transposed with and without deletions
    drums = {'notes': [[60, 80, 0, 4 * T, 0, 0, 0, 0, 0, 0], [67, 80, 8 * T, 12 * T, 0, 0, 0, 0, 0, 0],
                       [49, 100, 12 * T, 18 * T, 9, 0, 1, 0, 0, 0]],
             'tempos': [[0, 120 << nsio.QPM_BITS]], 'total': 18 * T, 'meta': 7}
    for args in ([2, 0, 127, True], [5, 60, 70, True], [0, 0, 127, False], [40, 0, 90, True]):
        out.append({'op': 'transpose', 'input': {'alias': False, 'args': args, 'seqs': [copy.deepcopy(drums)]}})
    out.append({'op': 'sustain', 'input': {'alias': False, 'args': [64], 'seqs': [copy.deepcopy(drums)]}})
    # amount 0 (seeded change C11-4): a note outside the range, a pitch_name, a trailing rest, a chord symbol
    zero = {'notes': [[30, 80, 0, 4 * T, 0, 0, 0, 0, 0, 65536 * 5], [67, 80, 8 * T, 12 * T, 0, 0, 0, 0, 0, 65536 * 7]],
            'texts': [[0, 0, 'Am', 1]], 'total': 16 * T, 'meta': 11}
    for args in ([0, 40, 127, True], [0, 0, 127, True], [0, 0, 127, False]):
        out.append({'op': 'transpose', 'input': {'alias': False, 'args': args, 'seqs': [copy.deepcopy(zero)]}})
    # merge: a long sequence followed by a shorter one (fixed in /repo 0c555ce); the same object twice
    short = {'notes': [[62, 80, 0, 2 * T, 0, 0, 0, 0, 0, 0]], 'total': 2 * T, 'meta': 8}
    out.append({'op': 'merge', 'input': {'alias': False, 'args': [None], 'seqs': [copy.deepcopy(drums), short]}})
    out.append({'op': 'concatenate', 'input': {'alias': True, 'args': [None],
                                               'seqs': [copy.deepcopy(unsorted), copy.deepcopy(unsorted)]}})
    # an explicit duration of EXACTLY 0 (int and float) for a piece that is not empty, at the first, middle and
    # last position, the next piece ending earlier (seeded change C11-10: truthiness test on the duration)
    def _one(e):
        return {'notes': [[60, 80, 0, e * T, 0, 0, 0, 0, 0, 0]], 'total': e * T, 'meta': 20 + e}
    for tots, ds in (([20, 4], ['0i', 4 * T]), ([20, 4], [0, 4 * T]), ([8, 20, 4], [8 * T, 0, 4 * T]),
                     ([8, 20, 4], [8 * T, '0i', 4 * T]), ([8, 20], [8 * T, 0]), ([8, 20], [8 * T, '0i']),
                     ([20], [0]), ([20, 4], [19 * T, 4 * T]), ([20, 4], [20 * T, 4 * T]), ([20, 4], [21 * T, 0])):
        out.append({'op': 'concatenate', 'input': {'alias': False, 'args': [ds], 'seqs': [_one(e) for e in tots]}})
    # raising paths that the random stream reaches rarely
    out.append({'op': 'repeat', 'input': {'alias': False, 'args': [4 * T, None],
                                          'seqs': [{'tempos': [[0, 120 << nsio.QPM_BITS]], 'total': 0, 'meta': 9}]}})
    bad = copy.deepcopy(unsorted); bad['groups'] = [[[0, 5], 1]]
    out.append({'op': 'expand', 'input': {'alias': False, 'args': [], 'seqs': [bad]}})
    return out


def shrink(case):
    if case['input'].get('pre'):
        c = copy.deepcopy(case)
        del c['input']['pre']
        yield c
    seqs = case['input']['seqs']
    for i, d in enumerate(seqs):
        for sd in nsio.shrink_desc(d):
            c = copy.deepcopy(case)
            c['input']['seqs'][i] = sd
            yield c
    if len(seqs) > 1 and case['op'] in ('merge',):
        for i in range(len(seqs)):
            c = copy.deepcopy(case)
            del c['input']['seqs'][i]
            yield c
