"""C06 — rendering an event sequence to notes (to_sequence), quantizing at the same resolution and
extracting again is the identity on canonical event sequences, at any tempo.

Melody / DrumTrack / ChordProgression / LeadSheet / PianorollSequence / Performance /
MetricPerformance / NotePerformance.
"""
from vt import coqgen as G
from vt import fl

ID = 'C06'
RULE = ('canonical event sequences obtained by running the real extractors on generated quantized sequences '
        '(grid-aligned notes, bar-aligned search/start steps), plus small random edits of them (mostly not '
        'canonical; correspondence only); every case is rendered by the real to_sequence at a drawn tempo '
        '(20..300 qpm: integers, halves, 1-3 decimals, arbitrary doubles) / steps_per_second, re-quantized by the '
        'real quantizer at the same resolution and re-extracted.  Non-trivial = at least two events and a '
        're-extraction that returned events; distinct by canonical input')
ASSUMPTIONS = [
    'time-signature denominators are powers of two (quantize_note_sequence enforces it)',
    'start steps are >= 0 and bar-aligned; steps stay far below 2^31 (the float theorem\'s bound)',
    'the float layer (step -> seconds -> step) is covered by the theorem C06_step_time_roundtrip_* and, on the '
    'implementation, by the rendered+re-quantized steps being compared with the step-level model on every case; '
    'the float model itself is tied to the real to_sequence through the regenerated sample table in Gen/G06.v '
    '(C06_float_model_matches_samples)',
    'Performance: quantized inputs have positive-length notes, no NESTED notes of one pitch (a later-started note of a '
    'pitch ending strictly before an earlier-started one: FIFO note-off pairing cannot represent it, and the round '
    'trip is refuted there), and start times ordered like their start steps',
    'the models follow note_seq after notes/C06-fix-1.diff (ChordProgression.to_sequence honours start_step) and '
    'notes/C06-fix-2.diff (PianorollSequence.to_sequence spans all frames); PR_LEGACY switches the second one',
]
USE_VM = False

# False: the pianoroll model follows note_seq AFTER notes/C06-fix-2.diff (to_sequence: final_step = len(self)), and
# sequences that end in silence are canonical.  True: the code before it (final_step = last index when nothing is
# open); then a canonical pianoroll must end with a non-empty frame.  One switch for model, generator and corpus.
PR_LEGACY = False

SPQS = [1, 2, 3, 4, 6, 8, 12, 24]
SPSS = [10, 31, 100, 250]
TSIGS = [(4, 4)] * 5 + [(3, 4), (6, 8), (2, 2), (5, 4), (7, 8), (12, 8), (2, 4), (3, 8)]
CHORDS = ['C', 'Am', 'G7', 'F#m7b5', 'Bb', 'N.C.', 'Dm', 'E7']
ERR = {1: 'QuantizationStatusError', 2: 'NonIntegerStepsPerBarError', 3: 'PolyphonicMelodyError',
       4: 'BadNoteError', 5: 'CoincidentChordsError', 6: 'BadChordError', 7: 'IndexError', 8: 'ValueError',
       9: 'TooManyTimeShiftStepsError', 10: 'TooManyDurationStepsError', 11: 'ZeroDivisionError'}
OPS = ['melody', 'drums', 'chords', 'leadsheet', 'pianoroll', 'perf', 'metric', 'noteperf']
OPCODE = {'melody': 1, 'drums': 2, 'chords': 3, 'leadsheet': 4, 'pianoroll': 5, 'perf': 6, 'metric': 6, 'noteperf': 7}
RELATIVE = ('melody', 'drums', 'chords', 'leadsheet', 'pianoroll', 'metric')


# ---------------------------------------------------------------- regenerated data
def _sample_rows():
    """Times the REAL to_sequence gives to step n of a sequence starting at s0, as exact (m, e) pairs."""
    from note_seq import melodies_lib, performance_lib
    PE = performance_lib.PerformanceEvent
    rows = []
    qpms = [120.0, 60.0, 97.3, 133.7, 20.0, 300.0, 0.1 + 0.2 + 99.0, 251.0 / 3.0]
    for k, qpm in enumerate(qpms):
        for spq in (1, 3, 4, 24):
            n = [0, 1, 7, 100, 255][(k + spq) % 5]
            s0 = [0, 16, 96, 1 << 20][(k * 3 + spq) % 4]
            m = melodies_lib.Melody([-2] * n + [60], start_step=s0, steps_per_bar=4 * spq, steps_per_quarter=spq)
            t = m.to_sequence(qpm=qpm).notes[0].start_time
            rows.append((0, fl.me(qpm), spq, n, s0, fl.me(t)))
            n2 = [0, 5, 1000003, (1 << 31) - 7][(k + spq) % 4]
            p = performance_lib.MetricPerformance(steps_per_quarter=spq, start_step=s0)
            for ev in ((PE.TIME_SHIFT, n2), (PE.NOTE_ON, 60), (PE.TIME_SHIFT, 1), (PE.NOTE_OFF, 60)):
                p.append(PE(ev[0], ev[1]))
            t = p.to_sequence(qpm=qpm).notes[0].start_time
            rows.append((1, fl.me(qpm), spq, n2, s0, fl.me(t)))
    for k, sps in enumerate([10, 31, 100, 250, 1, 3, 7, 1000]):
        for n2 in (0, 1, 12345, 1 << 30):
            s0 = [0, 31, 1000, 1 << 20][(k + n2) % 4]
            p = performance_lib.Performance(steps_per_second=sps, start_step=s0)
            for ev in ((PE.TIME_SHIFT, n2), (PE.NOTE_ON, 60), (PE.TIME_SHIFT, 1), (PE.NOTE_OFF, 60)):
                p.append(PE(ev[0], ev[1]))
            t = p.to_sequence().notes[0].start_time
            rows.append((2, [0, 0], sps, n2, s0, fl.me(t)))
    # kind 3: steps_per_quarter_to_steps_per_second(spq, qpm) = the float in the time slot
    # kind 4: quantize_to_step(t, sps) = step, with t in the qpm slot and the int sps as resolution
    from note_seq import sequences_lib
    for k, qpm in enumerate(qpms):
        for spq in (1, 3, 4, 12, 24):
            rows.append((3, fl.me(qpm), spq, 0, 0, fl.me(sequences_lib.steps_per_quarter_to_steps_per_second(spq, qpm))))
    for k, sps in enumerate([10, 31, 100, 250]):
        for n in (0, 1, 7, 12345, (1 << 31) - 1):
            for t in ((n + 0.5) / sps, n / sps, (n + 0.49) / sps):
                rows.append((4, fl.me(t), sps, sequences_lib.quantize_to_step(t, sps), 0, [0, 0]))
    return rows


def gen_coq():
    from note_seq import constants, performance_lib, chords_lib
    PE = performance_lib.PerformanceEvent
    s = G.HEADER
    # the constants the reused C07 models read from Gen/G07.v, re-read from /repo under C06 names;
    # Proofs/RenderCommon.v proves they agree with G07 (so a change of a constant breaks this check too)
    consts = [('MELODY_NOTE_OFF', constants.MELODY_NOTE_OFF), ('MELODY_NO_EVENT', constants.MELODY_NO_EVENT),
              ('MIN_MIDI_PITCH', constants.MIN_MIDI_PITCH), ('MAX_MIDI_PITCH', constants.MAX_MIDI_PITCH),
              ('MIN_MIDI_VELOCITY', performance_lib.MIN_MIDI_VELOCITY),
              ('MAX_MIDI_VELOCITY', performance_lib.MAX_MIDI_VELOCITY),
              ('EV_NOTE_ON', PE.NOTE_ON), ('EV_NOTE_OFF', PE.NOTE_OFF), ('EV_TIME_SHIFT', PE.TIME_SHIFT),
              ('EV_VELOCITY', PE.VELOCITY), ('EV_DURATION', PE.DURATION),
              ('CHORD_SYMBOL', int(chords_lib.CHORD_SYMBOL))]
    for k, v in consts:
        s += G.defz('C6_' + k, v)
    s += G.defstring('C6_NO_CHORD', chords_lib.NO_CHORD)
    from note_seq import sequences_lib
    cm, ce = fl.me(sequences_lib.QUANTIZE_CUTOFF)
    s += G.defz('C6_QUANTIZE_CUTOFF_M', cm) + G.defz('C6_QUANTIZE_CUTOFF_E', ce)
    rows = _sample_rows()
    s += ('\n(* (kind, qpm (m, e), resolution, step, start_step, time (m, e)) read from the real to_sequence *)\n'
          'Definition float_samples : list (Z * (Z * Z) * Z * Z * Z * (Z * Z)) :=\n  [')
    s += ';\n   '.join('(%s, (%s, %s), %s, %s, %s, (%s, %s))' % (
        G.z(k), G.z(q[0]), G.z(q[1]), G.z(r), G.z(n), G.z(s0), G.z(t[0]), G.z(t[1]))
        for (k, q, r, n, s0, t) in rows)
    s += '].\n'
    return s


# ---------------------------------------------------------------- building real objects
def _qpm(inp):
    return float.fromhex(inp['qpm'])


def _exc(e):
    return ['EXC', type(e).__name__]


def _mk_melody(events, s0, spb, spq):
    from note_seq import melodies_lib
    m = melodies_lib.Melody([], start_step=s0, steps_per_bar=spb, steps_per_quarter=spq)
    m._events = list(events)          # bypass the constructor's cleaning: to_sequence reads _events
    m._end_step = s0 + len(events)
    return m


def _mk_drums(events, s0, spb, spq):
    from note_seq import drums_lib
    return drums_lib.DrumTrack([frozenset(e) for e in events], start_step=s0, steps_per_bar=spb,
                               steps_per_quarter=spq)


def _mk_chords(events, s0, spb, spq):
    from note_seq import chords_lib
    return chords_lib.ChordProgression(list(events), start_step=s0, steps_per_bar=spb, steps_per_quarter=spq)


def _spb(spq, ts):
    num, den = ts if ts else (4, 4)
    n = spq * 4 * num
    return n // den if n % den == 0 else None


def _empty_abs(sps):
    from note_seq import sequences_lib
    from note_seq.protobuf import music_pb2
    return sequences_lib.quantize_note_sequence_absolute(music_pb2.NoteSequence(), sps)


def _mk_perf(op, inp):
    from note_seq import performance_lib as pl
    p, r = inp['p'], inp['r']
    prog = r.get('obj_program')
    drum = r.get('obj_is_drum')
    if op == 'perf':
        m = pl.Performance(steps_per_second=inp['res'], start_step=inp['start'], num_velocity_bins=p['bins'],
                           max_shift_steps=p['max_shift'], program=prog, is_drum=drum)
    else:
        m = pl.MetricPerformance(steps_per_quarter=inp['res'], start_step=inp['start'],
                                 num_velocity_bins=p['bins'], max_shift_quarters=p['max_shift_quarters'],
                                 program=prog, is_drum=drum)
    for t, v in inp['events']:
        m.append(pl.PerformanceEvent(t, v))
    return m


def _mk_noteperf(inp):
    from note_seq import performance_lib as pl
    PE = pl.PerformanceEvent
    p = inp['p']
    m = pl.NotePerformance(_empty_abs(inp['res']), num_velocity_bins=p['bins'], instrument=0,
                           start_step=inp['start'], max_shift_steps=p['max_shift'],
                           max_duration_steps=p['max_duration'])
    m._program = inp['r'].get('obj_program')
    m._is_drum = inp['r'].get('obj_is_drum')
    m._events = [(PE(PE.TIME_SHIFT, sh), PE(PE.NOTE_ON, q), PE(PE.VELOCITY, b), PE(PE.DURATION, du))
                 for sh, q, b, du in inp['events']]
    return m


def _x(inp):
    return inp.get('x') or {}


def _sigma(op, inp):
    """seconds per step as the documentation defines it (for harness-side arguments given in seconds)"""
    if op in ('perf', 'noteperf'):
        return 1.0 / inp['res']
    return 60.0 / _qpm(inp) / inp['res']


def _shift(op, inp):
    """whole bars by which sequence_start_time moves the rendering (steps)"""
    return _x(inp).get('sst_bars', 0) * (inp.get('spb') or 0)


def build(op, inp):
    """the real event-sequence object holding the case's events"""
    ev, s0, res = inp['events'], inp['start'], inp['res']
    if op == 'melody':
        return _mk_melody(ev, s0, inp['spb'], res)
    if op == 'drums':
        return _mk_drums(ev, s0, inp['spb'], res)
    if op == 'chords':
        return _mk_chords(ev, s0, inp['spb'], res)
    if op == 'leadsheet':
        from note_seq import lead_sheets_lib
        return lead_sheets_lib.LeadSheet(_mk_melody(ev[0], s0, inp['spb'], res), _mk_chords(ev[1], s0, inp['spb'], res))
    if op == 'pianoroll':
        from note_seq import pianoroll_lib
        p = inp['p']
        if _x(inp).get('shift_range'):
            # absolute MIDI pitches plus pitches outside [min_pitch, max_pitch]: the constructor shifts and filters
            lo, hi = p['min_pitch'], p['max_pitch']
            junk = [q for q in (lo - 1, hi + 1, 0, 127) if 0 <= q <= 127 and not lo <= q <= hi]
            evl = [tuple([x + lo for x in e] + junk[:(i % 3)]) for i, e in enumerate(ev)]
            return pianoroll_lib.PianorollSequence(events_list=evl, steps_per_quarter=res, start_step=s0,
                                                   min_pitch=lo, max_pitch=hi, shift_range=True)
        return pianoroll_lib.PianorollSequence(events_list=[tuple(e) for e in ev], steps_per_quarter=res,
                                               start_step=s0, min_pitch=p['min_pitch'], max_pitch=p['max_pitch'])
    if op in ('perf', 'metric'):
        return _mk_perf(op, inp)
    if op == 'noteperf':
        return _mk_noteperf(inp)
    raise ValueError(op)


def _base_sequence(inp, qpm):
    """a base_note_sequence for PianorollSequence.to_sequence: the tempo plus a note the extractor must ignore"""
    from note_seq.protobuf import music_pb2
    b = music_pb2.NoteSequence()
    b.tempos.add().qpm = qpm
    b.ticks_per_quarter = 220
    p = inp['p']
    # (no foreign note for an empty roll: to_sequence asserts that its LAST note ends within total_time, which for a
    # roll of zero steps would be the base sequence's own note -- a configuration outside C06's statement)
    if (p['min_pitch'] > 0 or p['max_pitch'] < 127) and inp['events']:
        n = b.notes.add()
        n.pitch = p['min_pitch'] - 1 if p['min_pitch'] > 0 else p['max_pitch'] + 1
        n.velocity, n.start_time, n.end_time = 90, 0.0, 0.5 * _sigma('pianoroll', inp)
    return b


def to_seq(op, inp, m):
    """the real to_sequence with the case's arguments"""
    r, x = inp['r'], _x(inp)
    kw = {}
    if x.get('sst_bars'):
        kw['sequence_start_time'] = _shift(op, inp) * _sigma(op, inp)
    if op in ('melody', 'drums'):
        return m.to_sequence(velocity=r['velocity'], instrument=r['instrument'], program=r['program'], qpm=_qpm(inp), **kw)
    if op == 'chords':
        return m.to_sequence(qpm=_qpm(inp), **kw)
    if op == 'leadsheet':
        return m.to_sequence(velocity=r['velocity'], instrument=r['instrument'], qpm=_qpm(inp), **kw)
    if op == 'pianoroll':
        if x.get('base'):
            kw['base_note_sequence'] = _base_sequence(inp, _qpm(inp) + (7.0 if x['base'] == 'bad_qpm' else 0.0))
        return m.to_sequence(velocity=r['velocity'], instrument=r['instrument'], program=r['program'], qpm=_qpm(inp), **kw)
    if x.get('mnd') == 'big':
        kw['max_note_duration'] = 1e6
    elif x.get('mnd_steps'):
        kw['max_note_duration'] = (x['mnd_steps'] + 0.25) * _sigma(op, inp)
    if op == 'perf':
        return m.to_sequence(velocity=r['velocity'], instrument=r['instrument'], program=r.get('program'), **kw)
    if op == 'metric':
        return m.to_sequence(velocity=r['velocity'], instrument=r['instrument'], program=r.get('program'),
                             qpm=_qpm(inp), **kw)
    if op == 'noteperf':
        return m.to_sequence(instrument=r['instrument'], program=r.get('program'))
    raise ValueError(op)


def render(op, inp):
    return to_seq(op, inp, build(op, inp))


def quantize(op, inp, seq):
    from note_seq import sequences_lib
    if op in RELATIVE:
        if inp.get('ts'):
            t = seq.time_signatures.add()
            t.numerator, t.denominator, t.time = inp['ts'][0], inp['ts'][1], 0.0
        return sequences_lib.quantize_note_sequence(seq, inp['res'])
    return sequences_lib.quantize_note_sequence_absolute(seq, inp['res'])


def _mel_out(m):
    return ['OK', [int(e) for e in m], m.start_step, m.end_step, m.steps_per_bar, m.steps_per_quarter]


def _ch_out(c):
    return ['OK', [str(e) for e in c], c.start_step, c.end_step, c.steps_per_bar, c.steps_per_quarter]


def extract(op, inp, q):
    """the real extractor on the re-quantized sequence; canonical output"""
    from note_seq import melodies_lib, drums_lib, chords_lib, pianoroll_lib, lead_sheets_lib
    from note_seq import performance_lib as pl
    p, s0 = inp['p'], inp['start']
    dirty = _x(inp).get('reuse')
    try:
        if op in ('melody', 'leadsheet'):
            # 'reuse': extraction into an object that already holds another melody must not depend on it
            m = melodies_lib.Melody([60, -2, -1, 72], start_step=7, steps_per_bar=3, steps_per_quarter=5) if dirty \
                else melodies_lib.Melody()
            m.from_quantized_sequence(q, search_start_step=p['search_start_step'], instrument=p['instrument'],
                                      gap_bars=p['gap_bars'], ignore_polyphonic_notes=p['ignore_polyphonic_notes'],
                                      pad_end=p['pad_end'], filter_drums=p['filter_drums'])
            if op == 'melody':
                return _mel_out(m)
            c = chords_lib.ChordProgression(['F', 'G'], start_step=3, steps_per_bar=5) if dirty \
                else chords_lib.ChordProgression()
            c.from_quantized_sequence(q, m.start_step, m.end_step)
            ls = lead_sheets_lib.LeadSheet(m, c)
            return ['OK', _mel_out(ls.melody)[1:], _ch_out(ls.chords)[1:]]
        if op == 'drums':
            m = drums_lib.DrumTrack([frozenset([36]), frozenset()], start_step=9, steps_per_bar=7) if dirty \
                else drums_lib.DrumTrack()
            m.from_quantized_sequence(q, search_start_step=p['search_start_step'], gap_bars=p['gap_bars'],
                                      pad_end=p['pad_end'], ignore_is_drum=p['ignore_is_drum'])
            return ['OK', [sorted(int(x) for x in e) for e in m], m.start_step, m.end_step, m.steps_per_bar,
                    m.steps_per_quarter]
        if op == 'chords':
            c = chords_lib.ChordProgression(['F', 'G'], start_step=3, steps_per_bar=5) if dirty \
                else chords_lib.ChordProgression()
            c.from_quantized_sequence(q, s0 + _shift(op, inp), p['end_step'] + _shift(op, inp))
            return _ch_out(c)
        if op == 'pianoroll':
            m = pianoroll_lib.PianorollSequence(quantized_sequence=q, start_step=s0, min_pitch=p['min_pitch'],
                                                max_pitch=p['max_pitch'], split_repeats=p['split_repeats'])
            return ['OK', [[int(x) for x in e] for e in m], m.start_step, m.steps_per_quarter]
        if op == 'perf':
            m = pl.Performance(quantized_sequence=q, start_step=s0, num_velocity_bins=p['bins'],
                               max_shift_steps=p['max_shift'], instrument=p['instrument'])
            return ['OK', [[int(e.event_type), int(e.event_value)] for e in m], m.start_step, m.steps_per_second,
                    m.max_shift_steps]
        if op == 'metric':
            m = pl.MetricPerformance(quantized_sequence=q, start_step=s0, num_velocity_bins=p['bins'],
                                     max_shift_quarters=p['max_shift_quarters'], instrument=p['instrument'])
            return ['OK', [[int(e.event_type), int(e.event_value)] for e in m], m.start_step, m.steps_per_quarter,
                    m.max_shift_steps]
        if op == 'noteperf':
            m = pl.NotePerformance(q, num_velocity_bins=p['bins'], instrument=p['instrument'], start_step=s0,
                                   max_shift_steps=p['max_shift'], max_duration_steps=p['max_duration'])
            return ['OK', [[int(t[0].event_value), int(t[1].event_value), int(t[2].event_value),
                            int(t[3].event_value)] for t in m], m.start_step, m.steps_per_second]
    except Exception as e:  # noqa
        return _exc(e)
    raise ValueError(op)


def _snap(op, m):
    if op == 'leadsheet':
        return [list(m.melody), list(m.chords), m.start_step, m.end_step]
    return [list(m), m.start_step]


def impl(case):
    op, inp = case['op'], case['input']
    if op == 'reject':
        return reject_impl(inp)
    state = []
    try:
        m = build(op, inp)
        before = _snap(op, m)
        seq = to_seq(op, inp, m)
        first = seq.SerializeToString(deterministic=True)
        if _snap(op, m) != before:
            state.append('to_sequence-modified-the-event-sequence')
        seq2 = to_seq(op, inp, m)                                  # the same call twice
        if seq2.SerializeToString(deterministic=True) != first:
            state.append('to_sequence-twice-differs')
        del seq2.notes[:]                                          # edit a returned buffer, re-observe the rest
        del seq2.text_annotations[:]
        seq2.total_time = 99.0
        if seq.SerializeToString(deterministic=True) != first or _snap(op, m) != before:
            state.append('returned-sequence-aliased')
        if op in RELATIVE and inp.get('ts'):
            t = seq.time_signatures.add()
            t.numerator, t.denominator, t.time = inp['ts'][0], inp['ts'][1], 0.0
        given = seq.SerializeToString(deterministic=True)
        q = quantize(op, dict(inp, ts=None), seq)
        if seq.SerializeToString(deterministic=True) != given:
            state.append('quantize-modified-its-argument')
    except Exception as e:  # noqa
        return _exc(e)
    notes = sorted([n.pitch, n.velocity, n.quantized_start_step, n.quantized_end_step, n.instrument, n.program,
                    int(n.is_drum)] for n in q.notes)
    texts = sorted([a.quantized_step, [ord(c) for c in a.text]] for a in q.text_annotations
                   if a.annotation_type == 1)
    qbytes = q.SerializeToString(deterministic=True)
    re = extract(op, inp, q)
    if extract(op, inp, q) != re:
        state.append('extraction-twice-differs')
    if q.SerializeToString(deterministic=True) != qbytes:
        state.append('extraction-modified-the-sequence')
    if _snap(op, m) != before:
        state.append('later-calls-modified-the-event-sequence')
    return ['OK', 1 if inp.get('canon') is True else None, notes, texts, q.total_quantized_steps, re, state]


def reject_impl(inp):
    """constructor / argument rejection paths: the documented exception class, exactly"""
    from note_seq import melodies_lib, drums_lib, chords_lib, pianoroll_lib, lead_sheets_lib
    from note_seq import performance_lib as pl
    k = inp['what']
    try:
        if k == 'perf-too-many-bins':
            pl.Performance(steps_per_second=100, num_velocity_bins=128)
        elif k == 'perf-neither':
            pl.Performance()
        elif k == 'metric-both':
            pl.MetricPerformance(quantized_sequence=_empty_abs(100), steps_per_quarter=4)
        elif k == 'melody-event-out-of-range':
            melodies_lib.Melody([60, 128])
        elif k == 'melody-append-out-of-range':
            melodies_lib.Melody([60]).append(-3)
        elif k == 'drums-not-a-frozenset':
            drums_lib.DrumTrack([frozenset([36]), [38]])
        elif k == 'drums-bad-pitch':
            drums_lib.DrumTrack([frozenset([36]), frozenset([128])])
        elif k == 'leadsheet-mismatch':
            lead_sheets_lib.LeadSheet(melodies_lib.Melody([60, -2, -2]), chords_lib.ChordProgression(['C', 'C']))
        elif k == 'leadsheet-start-mismatch':
            lead_sheets_lib.LeadSheet(melodies_lib.Melody([60, -2], start_step=4), chords_lib.ChordProgression(['C', 'C']))
        elif k == 'leadsheet-one-missing':
            lead_sheets_lib.LeadSheet(melodies_lib.Melody([60, -2]), None)
        elif k == 'perf-event-bad-pitch':
            pl.PerformanceEvent(pl.PerformanceEvent.NOTE_ON, 128)
        elif k == 'perf-event-negative-shift':
            pl.PerformanceEvent(pl.PerformanceEvent.TIME_SHIFT, -1)
        elif k == 'perf-event-zero-duration':
            pl.PerformanceEvent(pl.PerformanceEvent.DURATION, 0)
        elif k == 'perf-append-not-an-event':
            pl.Performance(steps_per_second=100).append(60)
        elif k == 'melody-from-absolute-quantized':
            melodies_lib.Melody().from_quantized_sequence(_empty_abs(100))
        elif k == 'perf-from-relative-quantized':
            from note_seq import sequences_lib
            from note_seq.protobuf import music_pb2
            pl.Performance(quantized_sequence=sequences_lib.quantize_note_sequence(music_pb2.NoteSequence(), 4))
        else:
            return ['HARNESS-EXC', 'unknown reject case', k]
    except Exception as e:  # noqa
        return _exc(e)
    return ['OK']


REJECT = {'perf-too-many-bins': 'ValueError', 'perf-neither': 'ValueError', 'metric-both': 'ValueError',
          'melody-event-out-of-range': 'ValueError', 'melody-append-out-of-range': 'ValueError',
          'drums-not-a-frozenset': 'ValueError', 'drums-bad-pitch': 'ValueError',
          'leadsheet-mismatch': 'MelodyChordsMismatchError', 'leadsheet-start-mismatch': 'MelodyChordsMismatchError',
          'leadsheet-one-missing': 'MelodyChordsMismatchError', 'perf-event-bad-pitch': 'ValueError',
          'perf-event-negative-shift': 'ValueError', 'perf-event-zero-duration': 'ValueError',
          'perf-append-not-an-event': 'ValueError', 'melody-from-absolute-quantized': 'QuantizationStatusError',
          'perf-from-relative-quantized': 'QuantizationStatusError'}


# ---------------------------------------------------------------- model
def _opt(x):
    return [] if x is None else [int(x)]


def _render_program(r):
    """to_sequence(program=...): the explicit argument, else the performance's own program, else 0"""
    if r.get('program') is not None:
        return r['program']
    return r.get('obj_program') or 0


def model_input(case):
    op, inp = case['op'], case['input']
    x = _x(inp)
    if op == 'reject' or x.get('sst_bars') or x.get('base') or x.get('mnd_steps'):
        return None            # arguments the step-level model does not have: oracle only
    p, r = inp['p'], inp['r']
    ts = list(inp.get('ts') or (4, 4))
    ev = inp['events']
    if op in ('melody', 'leadsheet'):
        pp = [p['search_start_step'], p['instrument'], p['gap_bars'], p['ignore_polyphonic_notes'], p['pad_end'],
              p['filter_drums']]
        if op == 'melody':
            rr = [r['velocity'], r['instrument'], r['program']]
        else:
            rr = [r['velocity'], r['instrument']]
            ev = [ev[0], [[ord(c) for c in f] for f in ev[1]]]
    elif op == 'drums':
        pp = [p['search_start_step'], p['gap_bars'], p['pad_end'], p['ignore_is_drum']]
        rr = [r['velocity'], r['instrument'], r['program']]
    elif op == 'chords':
        pp = [p['end_step']]
        rr = []
        ev = [[ord(c) for c in f] for f in ev]
    elif op == 'pianoroll':
        pp = [p['min_pitch'], p['max_pitch'], p['split_repeats'], PR_LEGACY]
        rr = [r['velocity'], r['instrument'], r['program']]
    elif op in ('perf', 'metric'):
        ms = p['max_shift'] if op == 'perf' else inp['res'] * p['max_shift_quarters']
        pp = [p['bins'], ms, _opt(p['instrument'])]
        rr = [r['velocity'], r['instrument'], _render_program(r), bool(r.get('obj_is_drum'))]
    elif op == 'noteperf':
        pp = [p['bins'], p['max_shift'], p['max_duration'], _opt(p['instrument'])]
        rr = [r['instrument'], _render_program(r), bool(r.get('obj_is_drum'))]
    else:
        raise ValueError(op)
    return [OPCODE[op], ev, inp['start'], inp['res'], ts, pp, rr]


def _res(m, f):
    if m[0] == -1000:
        return ['EXC', ERR.get(m[1], 'code-%d' % m[1])]
    return ['OK'] + f(m[1])


def _txt(cs):
    return ''.join(chr(c) for c in cs)


def model_output(case, m):
    op, inp = case['op'], case['input']
    canon, notes, texts, qsteps, re_ = m
    notes = sorted(notes)
    texts = sorted(texts)
    if op == 'melody':
        re = _res(re_, lambda r: r)
    elif op == 'drums':
        re = _res(re_, lambda r: [[sorted(set(e)) for e in r[0]]] + r[1:])
    elif op == 'chords':
        re = _res(re_, lambda r: [[_txt(e) for e in r[0]]] + r[1:])
    elif op == 'leadsheet':
        re = _res(re_, lambda r: [r[0], [[_txt(e) for e in r[1][0]]] + r[1][1:]])
    elif op == 'pianoroll':
        re = _res(re_, lambda r: r)
    elif op == 'noteperf':
        re = _res(re_, lambda r: [r, inp['start'], inp['res']])
    elif op in ('perf', 'metric'):
        re = _res(re_, lambda r: [r, inp['start'], inp['res'], _max_shift(op, inp)])
    return ['OK', canon, notes, texts, qsteps, re]


def _max_shift(op, inp):
    """max_shift_steps as REQUESTED: max_shift_steps, or steps_per_quarter * max_shift_quarters"""
    return inp['p']['max_shift'] if op == 'perf' else inp['res'] * inp['p']['max_shift_quarters']


def equal(case, a, b):
    if a[0] != 'OK' or b[0] != 'OK':
        return a == b
    if a[1] is not None and a[1] != b[1]:
        return False          # a sequence canonical by construction must satisfy the model's canonical_T
    return a[2:6] == b[2:6]


# ---------------------------------------------------------------- oracle: the property on the implementation
def original(op, inp):
    ev, s0, res = inp['events'], inp['start'] + _shift(op, inp), inp['res']
    if op == 'melody':
        return ['OK', list(ev), s0 if ev else 0, (s0 if ev else 0) + len(ev)]
    if op == 'drums':
        return ['OK', [sorted(e) for e in ev], s0 if ev else 0, (s0 if ev else 0) + len(ev)]
    if op == 'chords':
        return ['OK', list(ev), s0, s0 + len(ev)]
    if op == 'leadsheet':
        return ['OK', [list(ev[0]), s0, s0 + len(ev[0])], [list(ev[1]), s0, s0 + len(ev[1])]]
    if op in ('perf', 'metric'):
        return ['OK', [list(e) for e in ev], s0, res, _max_shift(op, inp)]
    return ['OK', [list(e) for e in ev], s0, res]


def _got(op, inp, re):
    """project the re-extraction on (events, start step, [end step], resolution)"""
    if re[0] != 'OK':
        return re
    if op in ('melody', 'drums', 'chords'):
        return re[:4], re[5]
    if op == 'leadsheet':
        return ['OK', re[1][:3], re[2][:3]], (re[1][4], re[2][4])
    return re, None


def oracle(case, io):
    op, inp = case['op'], case['input']
    if io and io[0] == 'HARNESS-EXC':
        return {'kind': 'harness-exception', 'detail': io[1:]}
    if op == 'reject':
        want = ['EXC', REJECT[inp['what']]]
        return None if io == want else {'kind': 'documented-rejection-missing', 'what': inp['what'], 'got': io, 'want': want}
    x = _x(inp)
    if x.get('base') == 'bad_qpm':
        return None if io == ['EXC', 'ValueError'] else {'kind': 'pianoroll-base-qpm-mismatch-accepted', 'got': io[:2]}
    if io[0] == 'OK' and io[6]:
        return {'kind': 'state-' + io[6][0], 'op': op, 'all': io[6]}
    v = _oracle_rejections(op, inp, io) or _oracle_render_fields(op, inp, io)
    if v:
        return v
    if x.get('mnd_steps'):
        return _oracle_max_note_duration(op, inp, io)
    if not inp.get('canon'):
        return None
    if io[0] != 'OK':
        return {'kind': op + '-render-or-quantize-raised', 'got': io}
    re = io[5]
    if re[0] != 'OK':
        return {'kind': op + '-re-extraction-raised', 'got': re}
    got, res = _got(op, inp, re)
    want = original(op, inp)
    if op in ('melody', 'drums', 'chords', 'leadsheet'):
        want_res = inp['res'] if op != 'leadsheet' else (inp['res'], inp['res'])
        if res != want_res:
            return {'kind': op + '-resolution-differs', 'got': res, 'want': want_res}
    if got != want:
        d = {'kind': op + '-round-trip-differs', 'start_step': inp['start'],
             'tempo_is_default': inp.get('qpm') == (120.0).hex()}
        g_ev, w_ev = (got[1], want[1]) if op != 'leadsheet' else (got[1][0] + got[2][0], want[1][0] + want[2][0])
        d['same_length'] = len(g_ev) == len(w_ev)
        k = next((i for i, (x, y) in enumerate(zip(g_ev, w_ev)) if x != y), min(len(g_ev), len(w_ev)))
        d['first_difference_at'] = k
        d['got'] = g_ev[max(0, k - 2):k + 3]
        d['want'] = w_ev[max(0, k - 2):k + 3]
        if op == 'leadsheet':
            d['melody_ok'] = got[1] == want[1]
            d['chords_ok'] = got[2] == want[2]
        else:
            d['start_ok'] = got[2] == want[2]
        return d
    return None


def _oracle_rejections(op, inp, io):
    """documented exceptions of the extractors, expected from the REQUESTED arguments"""
    if io[0] != 'OK':
        return None
    re = io[5]
    p = inp['p']
    if op in ('melody', 'drums', 'chords', 'leadsheet') and _spb(inp['res'], inp.get('ts')) is None:
        if re != ['EXC', 'NonIntegerStepsPerBarError']:
            return {'kind': op + '-non-integer-steps-per-bar-not-reported', 'got': re[:2], 'ts': inp.get('ts')}
        return None
    if op == 'chords' and p['end_step'] <= inp['start']:
        if re != ['EXC', 'BadChordError']:
            return {'kind': 'chords-empty-range-not-rejected', 'got': re[:2]}
        return None
    if op == 'noteperf':
        want = None
        for sh, q, b, du in inp['events']:          # per tuple, in order: the shift limit first, then the duration
            if sh > p['max_shift']:
                want = 'TooManyTimeShiftStepsError'; break
            if du > p['max_duration']:
                want = 'TooManyDurationStepsError'; break
        canonical_order = all(e[0] > 0 or i == 0 or inp['events'][i - 1][1] <= e[1] for i, e in enumerate(inp['events']))
        if want and canonical_order and (p['instrument'] is None or p['instrument'] == inp['r']['instrument']) \
                and re != ['EXC', want]:
            return {'kind': 'noteperf-limit-not-reported', 'want': want, 'got': re[:2]}
    return None


def _oracle_render_fields(op, inp, io):
    """every rendered note carries the REQUESTED velocity / instrument / program and the class's is_drum"""
    if io[0] != 'OK' or op == 'chords' or _x(inp).get('base'):
        return None
    r = inp['r']
    if op in ('melody', 'drums', 'pianoroll', 'leadsheet'):
        want = [r['velocity'], r['instrument'], r.get('program', 0), int(op == 'drums')]
    else:
        vel = r['velocity'] if op != 'noteperf' and not inp['p']['bins'] else None
        want = [vel, r['instrument'], _render_program(r), int(bool(r.get('obj_is_drum')))]
    for n in io[2]:
        got = [n[1], n[4], n[5], n[6]]
        if any(w is not None and g != w for g, w in zip(got, want)):
            return {'kind': op + '-rendered-note-fields', 'got': got, 'want_velocity_instrument_program_is_drum': want}
    return None


def _oracle_max_note_duration(op, inp, io):
    """max_note_duration = k steps (+ a quarter step): every rendered note longer than k steps is cut to k"""
    if io[0] != 'OK':
        return {'kind': op + '-render-or-quantize-raised', 'got': io}
    k = _x(inp)['mnd_steps']
    want = sorted([n[0], n[2], min(n[3], n[2] + k)] for n in _x(inp)['notes'])
    got = sorted([n[0], n[2], n[3]] for n in io[2])
    if got != want:
        return {'kind': op + '-max-note-duration-not-honoured', 'k': k,
                'missing': [w for w in want if w not in got][:3], 'extra': [g for g in got if g not in want][:3]}
    return None


def nontrivial(case, io):
    inp = case['input']
    if case['op'] == 'reject':
        return io[0] == 'EXC'
    ev = inp['events']
    n = len(ev[0]) if case['op'] == 'leadsheet' else len(ev)
    return n >= 2 and io[0] == 'OK' and io[5][0] == 'OK'


# ---------------------------------------------------------------- generator
def gen_qpm(rng):
    r = rng.random()
    if r < 0.12:
        return 120.0
    if r < 0.3:
        return float(rng.randint(20, 300))
    if r < 0.4:
        return rng.randint(20, 299) + 0.5
    if r < 0.65:
        return round(rng.uniform(20, 300), rng.choice([1, 2, 3]))
    if r < 0.75:
        return rng.choice([97.3, 133.7, 66.6, 20.0, 300.0, 59.94, 251.0 / 3.0, 100.0 / 3.0])
    return rng.uniform(20, 300)


def _qnote(ns, pitch, vel, qs, qe, instr=0, prog=0, drum=False):
    n = ns.notes.add()
    n.pitch, n.velocity, n.instrument, n.program, n.is_drum = pitch, vel, instr, prog, drum
    n.quantized_start_step, n.quantized_end_step = qs, qe
    n.start_time, n.end_time = qs * 0.0625, qe * 0.0625      # grid-aligned, strictly monotone in the step


def _qseq(spq=None, sps=None, ts=(4, 4)):
    from note_seq.protobuf import music_pb2
    ns = music_pb2.NoteSequence()
    if spq:
        ns.quantization_info.steps_per_quarter = spq
        t = ns.time_signatures.add()
        t.numerator, t.denominator = ts
    else:
        ns.quantization_info.steps_per_second = sps
    ns.tempos.add().qpm = 120.0
    return ns


def _line(rng, spb, start, n_notes, poly=0.1):
    """(pitch, qs, qe) of a mostly monophonic line starting at or after `start`"""
    out = []
    t = start + rng.randint(0, 2 * spb - 1)
    for _ in range(n_notes):
        d = rng.choice([1, 1, 2, 2, 3, 4, spb, rng.randint(1, 2 * spb)])
        p = rng.randint(36, 96) if rng.random() < 0.9 else rng.choice([0, 1, 126, 127])
        out.append((p, t, t + d))
        if rng.random() < poly:
            out.append((rng.randint(36, 96), t, t + rng.randint(1, 4)))
        r = rng.random()
        if r < 0.45:
            t += d                              # abutting
        elif r < 0.6:
            t += rng.randint(1, d)              # the next note cuts this one
        elif r < 0.93:
            t += d + rng.randint(1, spb)        # rest
        else:
            t += d + rng.randint(spb, 3 * spb)  # long rest (may end the melody)
    return out


def _bar_ts(rng, spq):
    while True:
        ts = rng.choice(TSIGS)
        spb = _spb(spq, ts)
        if spb:
            return ts, spb


def _case(op, events, s0, res, qpm, ts, spb, p, r, canon):
    inp = {'events': events, 'start': s0, 'res': res, 'p': p, 'r': r, 'canon': canon}
    if op in RELATIVE:
        inp['qpm'] = float(qpm).hex()
        inp['ts'] = None if (tuple(ts) == (4, 4) and (s0 + res + len(events)) % 2 == 0) else list(ts)
        inp['spb'] = spb
    return {'op': op, 'input': inp}


def gen_mel_params(rng, spb, k):
    return {'search_start_step': k * spb, 'instrument': rng.choice([0, 0, 1, 3]),
            'gap_bars': rng.choice([1, 1, 1, 2, 4]), 'ignore_polyphonic_notes': True,
            'pad_end': rng.random() < 0.5, 'filter_drums': rng.random() < 0.7}


def gen_melody(rng, with_chords=False):
    from note_seq import melodies_lib, chords_lib
    spq = rng.choice(SPQS)
    ts, spb = _bar_ts(rng, spq)
    k = rng.choice([0, 0, 0, 1, 2, 5])
    p = gen_mel_params(rng, spb, k)
    q = _qseq(spq=spq, ts=ts)
    for (pi, qs, qe) in _line(rng, spb, k * spb, rng.randint(0 if rng.random() < 0.05 else 1, 8)):
        _qnote(q, pi, rng.randint(1, 127), qs, qe, instr=p['instrument'])
    if rng.random() < 0.3:
        _qnote(q, 40, 90, rng.randint(0, 3 * spb), 4 * spb, instr=p['instrument'] + 1)
    if rng.random() < 0.2:
        _qnote(q, 38, 90, k * spb, k * spb + 1, instr=p['instrument'], drum=True)
        p['filter_drums'] = True
    m = melodies_lib.Melody()
    m.from_quantized_sequence(q, **p)
    ev = [int(e) for e in m]
    s0 = m.start_step
    r = {'velocity': rng.choice([100, 1, 127, 64]), 'instrument': p['instrument'], 'program': rng.choice([0, 0, 12])}
    if not with_chords:
        return _case('melody', ev, s0, spq, gen_qpm(rng), ts, spb, p, r, True)
    if not ev:
        return None
    for _ in range(rng.randint(0, 5)):
        a = q.text_annotations.add()
        a.annotation_type = 1
        a.text = rng.choice(CHORDS)
        a.quantized_step = rng.randint(0, m.end_step + 2)
        a.time = a.quantized_step * 0.0625
    c = chords_lib.ChordProgression()
    try:
        c.from_quantized_sequence(q, m.start_step, m.end_step)
    except chords_lib.CoincidentChordsError:
        return None
    r = {'velocity': r['velocity'], 'instrument': p['instrument']}
    return _case('leadsheet', [ev, [str(e) for e in c]], s0, spq, gen_qpm(rng), ts, spb, p, r, True)


def gen_drums(rng):
    from note_seq import drums_lib
    spq = rng.choice(SPQS)
    ts, spb = _bar_ts(rng, spq)
    k = rng.choice([0, 0, 0, 1, 2, 5])
    p = {'search_start_step': k * spb, 'gap_bars': rng.choice([1, 1, 1, 2, 4]), 'pad_end': rng.random() < 0.5,
         'ignore_is_drum': rng.random() < 0.3}
    q = _qseq(spq=spq, ts=ts)
    t = k * spb + rng.randint(0, 2 * spb - 1)
    for _ in range(rng.randint(0 if rng.random() < 0.05 else 1, 10)):
        for pi in rng.sample([35, 36, 38, 42, 46, 49, 51, 0, 127], rng.randint(1, 3)):
            _qnote(q, pi, rng.randint(1, 127), t, t + rng.randint(1, 3), instr=9, drum=True)
        t += rng.choice([1, 1, 2, 3, spb // 2 + 1, spb, spb + 1, rng.randint(1, 3 * spb)])
    if rng.random() < 0.3:
        _qnote(q, 60, 90, k * spb, k * spb + 4, instr=0, drum=False)
    m = drums_lib.DrumTrack()
    m.from_quantized_sequence(q, **p)
    ev = [sorted(int(x) for x in e) for e in m]
    r = {'velocity': rng.choice([100, 1, 127]), 'instrument': rng.choice([9, 0]), 'program': 0}
    return _case('drums', ev, m.start_step, spq, gen_qpm(rng), ts, spb, p, r, True)


def gen_chords(rng):
    from note_seq import chords_lib
    spq = rng.choice(SPQS)
    ts, spb = _bar_ts(rng, spq)
    s0 = rng.choice([0, 0, 1, 2, 3, 7]) * spb
    n = rng.choice([1, 2, spb, 2 * spb, rng.randint(1, 4 * spb)])
    q = _qseq(spq=spq, ts=ts)
    used = set()
    for _ in range(rng.randint(0, 6)):
        st = rng.randint(max(0, s0 - spb), s0 + n + 2)
        if st in used:
            continue
        used.add(st)
        a = q.text_annotations.add()
        a.annotation_type = 1
        a.text = rng.choice(CHORDS)
        a.quantized_step = st
        a.time = st * 0.0625
    c = chords_lib.ChordProgression()
    c.from_quantized_sequence(q, s0, s0 + n)
    return _case('chords', [str(e) for e in c], s0, spq, gen_qpm(rng), ts, spb, {'end_step': s0 + n}, {}, True)


def gen_pianoroll(rng):
    from note_seq import pianoroll_lib
    spq = rng.choice(SPQS)
    ts, spb = _bar_ts(rng, spq)
    s0 = rng.choice([0, 0, 0, 1, 2, 4]) * spb
    lo, hi = rng.choice([(21, 108), (21, 108), (0, 127), (40, 90), (60, 60)])
    p = {'min_pitch': lo, 'max_pitch': hi, 'split_repeats': rng.random() < 0.7}
    q = _qseq(spq=spq, ts=ts)
    pitches = rng.sample(range(lo, hi + 1), min(hi - lo + 1, rng.randint(1, 5)))
    end = 0
    for _ in range(rng.randint(0 if rng.random() < 0.05 else 1, 10)):
        qs = s0 + rng.randint(0, 3 * spb)
        qe = qs + rng.choice([1, 1, 2, 3, 4, spb])
        _qnote(q, rng.choice(pitches), 80, qs, qe)
        end = max(end, qe)
    if rng.random() < 0.2:
        _qnote(q, rng.randint(0, 127), 80, max(0, s0 - 3), max(0, s0 - 3) + 2)     # before start_step: ignored
    q.total_quantized_steps = max(end, s0)
    if not PR_LEGACY and rng.random() < 0.35:
        q.total_quantized_steps += rng.choice([1, 1, 2, spb])          # the source ends in silence
    m = pianoroll_lib.PianorollSequence(quantized_sequence=q, start_step=s0, **p)
    ev = [[int(x) for x in e] for e in m]
    r = {'velocity': rng.choice([100, 1]), 'instrument': rng.choice([0, 2]), 'program': rng.choice([0, 5])}
    return _case('pianoroll', ev, s0, spq, gen_qpm(rng), ts, spb, p, r, True)


def _poly_notes(rng, start, unit, n):
    """notes (pitch, vel, qs, qe) without two overlapping notes of one pitch"""
    out = []
    for _ in range(n):
        qs = start + rng.choice([0, rng.randint(0, 4 * unit), rng.randint(0, 40 * unit)])
        qe = qs + rng.choice([1, 1, 2, 3, unit, rng.randint(1, 3 * unit)])
        pi = rng.choice([60, 62, 64, 67, 72, rng.randint(0, 127)])
        if any(k[0] == pi and k[2] < qe and qs < k[3] for k in out):
            continue
        out.append((pi, rng.choice([1, 30, 64, 64, 100, 127, rng.randint(1, 127)]), qs, qe))
    return out


def gen_perf(rng, op):
    from note_seq import performance_lib as pl
    if op == 'perf':
        res = rng.choice(SPSS)
        unit = res // 4 + 1
        q = _qseq(sps=res)
        ts, spb = None, None
        s0 = rng.choice([0, 0, 0, 1, 5, res, 3 * res])
        p = {'bins': rng.choice([0, 1, 2, 8, 32, 127, rng.randint(0, 127)]),
             'max_shift': rng.choice([1, 2, 3, 7, 10, 100, 1000, rng.randint(1, 1000)]),
             'instrument': rng.choice([None, None, 0])}
    else:
        res = rng.choice(SPQS)
        ts, spb = _bar_ts(rng, res)
        unit = res
        q = _qseq(spq=res, ts=ts)
        s0 = rng.choice([0, 0, 0, 1, 2, 4]) * spb
        p = {'bins': rng.choice([0, 1, 2, 8, 32, 127, rng.randint(0, 127)]),
             'max_shift_quarters': rng.choice([1, 2, 4, 4, 8]), 'instrument': rng.choice([None, None, 0])}
    for (pi, v, qs, qe) in _poly_notes(rng, s0, unit, rng.randint(0 if rng.random() < 0.05 else 1, 9)):
        _qnote(q, pi, v, qs, qe)
    if op == 'perf':
        m = pl.Performance(quantized_sequence=q, start_step=s0, num_velocity_bins=p['bins'],
                           max_shift_steps=p['max_shift'], instrument=p['instrument'])
    else:
        m = pl.MetricPerformance(quantized_sequence=q, start_step=s0, num_velocity_bins=p['bins'],
                                 max_shift_quarters=p['max_shift_quarters'], instrument=p['instrument'])
    ev = [[int(e.event_type), int(e.event_value)] for e in m]
    r = {'velocity': rng.choice([100, 64, 1]), 'instrument': 0,
         'obj_program': rng.choice([None, None, 7]), 'obj_is_drum': rng.choice([None, None, True, False])}
    return _case(op, ev, s0, res, gen_qpm(rng), ts or (4, 4), spb, p, r, True)


def gen_noteperf(rng):
    from note_seq import performance_lib as pl
    res = rng.choice(SPSS)
    unit = res // 4 + 1
    q = _qseq(sps=res)
    s0 = rng.choice([0, 0, 0, 1, 5, res])
    p = {'bins': rng.choice([1, 2, 8, 32, 127, rng.randint(1, 127)]), 'max_shift': rng.choice([1000, 1000, 300, 1000]),
         'max_duration': rng.choice([1000, 1000, 500]), 'instrument': rng.choice([None, 0])}
    for (pi, v, qs, qe) in _poly_notes(rng, s0, unit, rng.randint(0 if rng.random() < 0.05 else 1, 9)):
        _qnote(q, pi, v, qs, qe)
    if rng.random() < 0.3 and len(q.notes) > 0:            # two notes of one pitch on one step (allowed here)
        n0 = q.notes[0]
        _qnote(q, n0.pitch, 50, n0.quantized_start_step, n0.quantized_end_step + 2)
    m = pl.NotePerformance(q, num_velocity_bins=p['bins'], instrument=p['instrument'], start_step=s0,
                           max_shift_steps=p['max_shift'], max_duration_steps=p['max_duration'])
    ev = [[int(t[0].event_value), int(t[1].event_value), int(t[2].event_value), int(t[3].event_value)] for t in m]
    r = {'instrument': 0, 'obj_program': rng.choice([None, 7]), 'obj_is_drum': rng.choice([None, True, False])}
    return _case('noteperf', ev, s0, res, 120.0, (4, 4), None, p, r, True)


# ---- structured generators of canonical values, independent of the library's extractors ----
def _fresh_common(rng):
    spq = rng.choice(SPQS)
    ts, spb = _bar_ts(rng, spq)
    return spq, ts, spb


def direct_melody(rng, with_chords=False):
    spq, ts, spb = _fresh_common(rng)
    k = rng.choice([0, 0, 1, 2, 5])
    p = gen_mel_params(rng, spb, k)
    p['ignore_polyphonic_notes'] = rng.random() < 0.5
    G = p['gap_bars'] * spb
    s0 = (k + rng.choice([0, 0, 1, 3])) * spb
    ev = [-2] * rng.randint(0, spb - 1)
    n = rng.randint(1, 7)
    for j in range(n):
        ev.append(rng.randint(0, 127) if rng.random() < 0.15 else rng.randint(36, 96))
        ev += [-2] * rng.choice([0, 0, 1, 2, 3, spb - 1, rng.randint(0, 2 * spb)])
        if j < n - 1 and rng.random() < 0.5 and G >= 2:
            r = min(G - 2, rng.choice([0, 1, G - 2, G - 2, rng.randint(0, G - 2)]))   # rest of r+1 steps < G
            ev += [-1] + [-2] * r
    if p['pad_end']:
        if rng.random() < 0.5:
            ev += [-2] * ((-len(ev)) % spb)                 # sustained up to the bar line
        elif len(ev) % spb != 0:
            j = len(ev)
            ev += [-1] + [-2] * ((-j) % spb - 1)            # NOTE_OFF, then padding
    r = {'velocity': rng.choice([100, 1, 127]), 'instrument': p['instrument'], 'program': rng.choice([0, 12])}
    if not with_chords:
        return _case('melody', ev, s0, spq, gen_qpm(rng), ts, spb, p, r, True)
    ch = []
    cur = rng.choice(CHORDS)
    for _ in ev:
        if rng.random() < 0.2:
            cur = rng.choice(CHORDS)
        ch.append(cur)
    return _case('leadsheet', [ev, ch], s0, spq, gen_qpm(rng), ts, spb, p, {'velocity': r['velocity'],
                                                                            'instrument': p['instrument']}, True)


def direct_drums(rng):
    spq, ts, spb = _fresh_common(rng)
    k = rng.choice([0, 0, 1, 2, 5])
    p = {'search_start_step': k * spb, 'gap_bars': rng.choice([1, 1, 1, 2, 4]), 'pad_end': rng.random() < 0.5,
         'ignore_is_drum': rng.random() < 0.3}
    G = p['gap_bars'] * spb
    s0 = (k + rng.choice([0, 0, 1, 3])) * spb
    ev = [[] for _ in range(rng.randint(0, spb - 1))]
    n = rng.randint(1, 8)
    for j in range(n):
        ev.append(sorted(rng.sample([35, 36, 38, 42, 46, 49, 51, 0, 127], rng.randint(1, 3))))
        if j < n - 1:
            d = min(G - 1, rng.choice([0, 0, 1, 2, G - 1, G - 1, rng.randint(0, G - 1)]))   # d empty steps < G
            ev += [[] for _ in range(d)]
    if p['pad_end']:
        ev += [[] for _ in range((-len(ev)) % spb)]
    r = {'velocity': rng.choice([100, 1, 127]), 'instrument': rng.choice([9, 0]), 'program': 0}
    return _case('drums', ev, s0, spq, gen_qpm(rng), ts, spb, p, r, True)


def direct_chords(rng):
    spq, ts, spb = _fresh_common(rng)
    s0 = rng.choice([0, 0, 1, 2, 3, 7]) * spb
    n = rng.choice([1, 2, spb, 2 * spb, rng.randint(1, 4 * spb)])
    ev = []
    cur = rng.choice(CHORDS)
    for _ in range(n):
        if rng.random() < 0.25:
            cur = rng.choice(CHORDS)
        ev.append(cur)
    return _case('chords', ev, s0, spq, gen_qpm(rng), ts, spb, {'end_step': s0 + n}, {}, True)


def direct_pianoroll(rng):
    spq, ts, spb = _fresh_common(rng)
    s0 = rng.choice([0, 0, 0, 1, 2, 4]) * spb
    lo, hi = rng.choice([(21, 108), (21, 108), (0, 127), (40, 90), (60, 60)])
    p = {'min_pitch': lo, 'max_pitch': hi, 'split_repeats': rng.random() < 0.7}
    w = hi - lo + 1
    pool = rng.sample(range(w), min(w, rng.randint(1, 5)))
    ev = []
    cur = set()
    for _ in range(rng.randint(0 if rng.random() < 0.05 else 1, 3 * spb)):
        for q in pool:
            if rng.random() < 0.3:
                cur ^= {q}
        ev.append(sorted(cur))
    while ev and not ev[-1] and (PR_LEGACY or rng.random() < 0.5):
        ev.pop()
    r = {'velocity': rng.choice([100, 1]), 'instrument': rng.choice([0, 2]), 'program': rng.choice([0, 5])}
    return _case('pianoroll', ev, s0, spq, gen_qpm(rng), ts, spb, p, r, True)


def _vbin(v, nb):
    size = -(-127 // nb)
    return (v - 1) // size + 1


def encode_perf(notes, nb, ms, start):
    """the canonical event list of a set of notes (pitch, vel, qs, qe): an independent statement of the format"""
    srt = sorted(notes, key=lambda n: (n[2], n[0]))
    tev = sorted([(n[2], i, 0) for i, n in enumerate(srt)] + [(n[3], i, 1) for i, n in enumerate(srt)])
    out, cur, vb = [], start, 0
    for step, i, off in tev:
        d = step - cur
        while d > ms:
            out.append([3, ms]); d -= ms
        if d > 0:
            out.append([3, d])
        cur = step
        if nb and not off and _vbin(srt[i][1], nb) != vb:
            vb = _vbin(srt[i][1], nb)
            out.append([4, vb])
        out.append([2 if off else 1, srt[i][0]])
    return out


def _doubled_notes(rng, start, unit, nb):
    """notes in which one pitch sounds twice at once WITHOUT nesting (the earlier-started note ends first or together:
    first-in-first-out pairing of NOTE_OFFs, which is what _to_sequence does, gives the notes back).  Two patterns
    whose mis-pairing is visible after re-extraction: (a) equal start, different velocity bins; (b) different
    starts and a note of another pitch, started between them, ending on the step of the first NOTE_OFF."""
    p = rng.choice([60, 62, 67, rng.randint(0, 127)])
    q = rng.choice([x for x in (64, 65, 72, 48, rng.randint(0, 127)) if x != p])
    s = start + rng.randint(0, 3 * unit)
    out = []
    if nb and rng.random() < 0.5:                                   # (a)
        e1 = s + rng.randint(1, 2 * unit)
        e2 = e1 + rng.choice([0, 1, unit])
        v1, v2 = rng.sample([1, 40, 70, 100, 127], 2)
        while _vbin(v1, nb) == _vbin(v2, nb) and nb > 1:
            v1, v2 = rng.sample(range(1, 128), 2)
        out += [(p, v1, s, e1), (p, v2, s, e2)]
    else:                                                           # (b)
        s2 = s + rng.randint(2, unit + 2)
        sc = rng.randint(s + 1, s2 - 1)
        e1 = s2 + rng.randint(1, unit + 1)
        e2 = e1 + rng.choice([0, 1, 2, unit])
        v = rng.choice([1, 64, 100])
        out += [(p, v, s, e1), (q, rng.choice([v, 30, 127]), sc, e1), (p, rng.choice([v, 90]), s2, e2)]
    last = max(n[3] for n in out)
    for _ in range(rng.randint(0, 4)):                              # unrelated notes of other pitches
        pi = rng.choice([x for x in (50, 55, 76, 79, rng.randint(0, 127)) if x not in (p, q)])
        qs = start + rng.randint(0, last - start + unit)
        qe = qs + rng.randint(1, 2 * unit)
        if any(k[0] == pi and k[2] < qe and qs < k[3] for k in out):
            continue
        out.append((pi, rng.randint(1, 127), qs, qe))
    return out


def direct_perf(rng, op):
    if op == 'perf':
        res = rng.choice(SPSS)
        unit, ts, spb = res // 4 + 1, None, None
        s0 = rng.choice([0, 0, 0, 1, 5, res, 3 * res])
        p = {'bins': rng.choice([0, 1, 2, 8, 32, 127, rng.randint(0, 127)]),
             'max_shift': rng.choice([1, 2, 3, 7, 10, 100, 1000, rng.randint(1, 1000)]),
             'instrument': rng.choice([None, None, 0])}
        ms = p['max_shift']
    else:
        res = rng.choice(SPQS)
        ts, spb = _bar_ts(rng, res)
        unit = res
        s0 = rng.choice([0, 0, 0, 1, 2, 4]) * spb
        p = {'bins': rng.choice([0, 1, 2, 8, 32, 127, rng.randint(0, 127)]),
             'max_shift_quarters': rng.choice([1, 2, 4, 4, 8]), 'instrument': rng.choice([None, None, 0])}
        ms = res * p['max_shift_quarters']
    canon = True
    doubled = rng.random() < 0.3
    if doubled:
        notes = _doubled_notes(rng, s0, unit, p['bins'])        # canonical_perf_w covers them
    else:
        notes = _poly_notes(rng, s0, unit, rng.randint(1, 9))
    ev = encode_perf(notes, p['bins'], ms, s0)
    r = {'velocity': rng.choice([100, 64, 1]), 'instrument': 0,
         'obj_program': rng.choice([None, None, 7]), 'obj_is_drum': rng.choice([None, None, True, False])}
    c = _case(op, ev, s0, res, gen_qpm(rng), ts or (4, 4), spb, p, r, canon)
    if doubled is False and rng.random() < 0.12:
        # max_note_duration of k steps: not an identity case; the oracle computes the cut notes from the request
        c['input']['x'] = {'mnd_steps': rng.choice([1, 2, unit, rng.randint(1, 3 * unit)]), 'notes': [list(n) for n in notes]}
        c['input']['canon'] = None
    return c


def direct_noteperf(rng):
    res = rng.choice(SPSS)
    s0 = rng.choice([0, 0, 0, 1, 5, res])
    p = {'bins': rng.choice([1, 2, 8, 32, 127, rng.randint(1, 127)]), 'max_shift': rng.choice([1000, 300, 50]),
         'max_duration': rng.choice([1000, 500, 20]), 'instrument': rng.choice([None, 0])}
    ev = []
    prev = None
    for _ in range(rng.randint(0 if rng.random() < 0.05 else 1, 9)):
        sh = rng.choice([0, 0, 1, 2, p['max_shift'], rng.randint(0, p['max_shift'])])
        lo = prev if (sh == 0 and prev is not None) else 0
        q = rng.randint(lo, 127)
        top = _vbin(127, p['bins'])
        ev.append([sh, q, rng.randint(1, top), rng.choice([1, 2, p['max_duration'], rng.randint(1, p['max_duration'])])])
        prev = q
    r = {'instrument': 0, 'obj_program': rng.choice([None, 7]), 'obj_is_drum': rng.choice([None, True, False])}
    return _case('noteperf', ev, s0, res, 120.0, (4, 4), None, p, r, True)


def gen_direct(rng, op):
    if op == 'melody':
        return direct_melody(rng)
    if op == 'leadsheet':
        return direct_melody(rng, with_chords=True)
    if op == 'drums':
        return direct_drums(rng)
    if op == 'chords':
        return direct_chords(rng)
    if op == 'pianoroll':
        return direct_pianoroll(rng)
    if op in ('perf', 'metric'):
        return direct_perf(rng, op)
    return direct_noteperf(rng)


def decorate(rng, c):
    """draw the remaining arguments of to_sequence / the constructors / the extractors at non-default values,
    independently of everything else; none of them may change the round trip"""
    op, inp = c['op'], c['input']
    if _x(inp):
        return c
    x = {}
    p, r = inp['p'], inp['r']
    if op in ('melody', 'drums', 'chords', 'leadsheet'):
        n = len(inp['events'][0]) if op == 'leadsheet' else len(inp['events'])
        if n and rng.random() < 0.12:
            x['sst_bars'] = rng.choice([1, 2, 5])               # sequence_start_time = whole bars, in seconds
        if rng.random() < 0.25:
            x['reuse'] = True                                   # extract into an object that already holds events
    if op == 'drums':
        r['program'] = rng.choice([0, 0, 40, 127])
    if op == 'pianoroll':
        if rng.random() < 0.15:
            x['base'] = 'ok'
        if rng.random() < 0.25:
            x['shift_range'] = True
    if op in ('perf', 'metric', 'noteperf'):
        r['instrument'] = rng.choice([0, 0, 3, 15])
        p['instrument'] = rng.choice([None, r['instrument']])
        r['program'] = rng.choice([None, None, 9, 127])
        if op != 'noteperf' and rng.random() < 0.2:
            x['mnd'] = 'big'
    if x:
        inp['x'] = x
    return c


def gen_canonical(rng, op):
    return decorate(rng, _gen_canonical(rng, op))


def _gen_canonical(rng, op):
    if rng.random() < 0.5:
        return gen_direct(rng, op)
    for _ in range(50):
        try:
            if op == 'melody':
                c = gen_melody(rng)
            elif op == 'leadsheet':
                c = gen_melody(rng, with_chords=True)
            elif op == 'drums':
                c = gen_drums(rng)
            elif op == 'chords':
                c = gen_chords(rng)
            elif op == 'pianoroll':
                c = gen_pianoroll(rng)
            elif op in ('perf', 'metric'):
                c = gen_perf(rng, op)
            else:
                c = gen_noteperf(rng)
        except Exception:  # noqa: the extractor refused this draw (e.g. TooManyTimeShiftSteps); draw again
            c = None
        if c is not None:
            return c
    raise RuntimeError('C06 generator: the real extractor failed on 50 consecutive draws for ' + op)


def mutate(rng, case):
    """a small random edit of a canonical case: mostly NOT canonical; correspondence only"""
    import copy
    c = copy.deepcopy(case)
    op, inp = c['op'], c['input']
    inp['canon'] = None
    ev = inp['events']
    tgt = ev[0] if op == 'leadsheet' else ev

    def rand_event():
        if op in ('melody', 'leadsheet'):
            return rng.choice([-2, -2, -1, -1, rng.randint(0, 127)])
        if op == 'drums':
            return sorted(rng.sample([36, 38, 42, 46], rng.randint(0, 2)))
        if op == 'chords':
            return rng.choice(CHORDS)
        if op == 'pianoroll':
            w = inp['p']['max_pitch'] - inp['p']['min_pitch'] + 1
            return sorted(rng.sample(range(w), min(w, rng.randint(0, 2))))
        if op in ('perf', 'metric'):
            ty = rng.choice([1, 2, 3, 3] + ([4] if inp['p']['bins'] else []))
            if ty in (1, 2):
                return [ty, rng.choice([60, 62, 64, rng.randint(0, 127)])]
            if ty == 3:
                ms = inp['p']['max_shift'] if op == 'perf' else inp['res'] * inp['p']['max_shift_quarters']
                return [3, rng.choice([1, ms, rng.randint(1, ms)])]
            return [4, rng.randint(1, max(1, min(127, inp['p']['bins'])))]
        return [rng.choice([0, 0, 1, 3]), rng.choice([60, 64, rng.randint(0, 127)]), rng.randint(1, inp['p']['bins']),
                rng.randint(1, 6)]
    for _ in range(rng.choice([1, 1, 2])):
        k = rng.random()
        if tgt and k < 0.35:
            tgt[rng.randrange(len(tgt))] = rand_event()
        elif tgt and k < 0.6:
            del tgt[rng.randrange(len(tgt))]
        else:
            tgt.insert(rng.randint(0, len(tgt)), rand_event())
    if op == 'leadsheet':                       # keep the LeadSheet constructor's length invariant
        n = len(ev[0])
        ev[1] = (ev[1] + ['N.C.'] * n)[:n]
    if op == 'chords':
        inp['p']['end_step'] = inp['start'] + len(ev) + rng.choice([0, 0, 0, 1, -1])
    if rng.random() < 0.15:
        inp['start'] = max(0, inp['start'] + rng.choice([1, -1, 3]))
    if 'gap_bars' in inp['p'] and rng.random() < 0.1:
        inp['p']['gap_bars'] = 0              # degenerate configuration: outside the canonical claim
    inp.pop('x', None)
    k = rng.random()
    if k < 0.08 and op in ('melody', 'drums', 'chords', 'leadsheet'):
        inp['ts'] = rng.choice([[1, 64], [3, 64]])          # bars of a non-integer number of steps: documented error
    elif k < 0.16 and op in ('melody', 'leadsheet', 'perf', 'metric', 'noteperf'):
        inp['r']['instrument'] = inp['r']['instrument'] + 1  # rendered on another instrument than the one extracted
    elif k < 0.3 and op == 'noteperf' and ev:
        if rng.random() < 0.5:
            inp['p']['max_shift'] = max(0, max(e[0] for e in ev) - rng.choice([0, 1]))
        else:
            inp['p']['max_duration'] = max(1, max(e[3] for e in ev) - rng.choice([0, 1]))
    elif k < 0.22 and op == 'chords':
        inp['p']['end_step'] = inp['start'] - rng.choice([0, 1])   # empty range: BadChordError
    return c


PER_OP = {'quick': 230, 'thorough': 12000}


def cases(rng, tier, n=None):
    per = PER_OP['thorough' if tier == 'thorough' else 'quick']
    if n is not None:
        per = max(0, n // len(OPS))
    out = []
    for op in OPS:
        for i in range(per):
            c = gen_canonical(rng, op)
            out.append(c)
            if i % 3 == 0:
                out.append(mutate(rng, c))
    rng.shuffle(out)            # different classes / configurations interleaved in one process
    return out


def corpus():
    h120, h97, h133 = (120.0).hex(), (97.3).hex(), (133.7).hex()
    mp = {'search_start_step': 0, 'instrument': 0, 'gap_bars': 1, 'ignore_polyphonic_notes': True, 'pad_end': False,
          'filter_drums': True}
    rr = {'velocity': 100, 'instrument': 0, 'program': 0}
    out = []

    def rel(op, ev, s0, spq, qpm, p, r, ts=None, canon=True):
        num, den = ts or (4, 4)
        return {'op': op, 'input': {'events': ev, 'start': s0, 'res': spq, 'qpm': qpm, 'ts': ts,
                                    'spb': spq * 4 * num // den, 'p': p, 'r': r, 'canon': canon}}
    # melody: sustained to the end; NOTE_OFF + padding; later bar; single note; empty
    out.append(rel('melody', [60, -2, -2, -2, 62, -2, -1, -2, 64, -2], 16, 4, h97, dict(mp), dict(rr)))
    out.append(rel('melody', [-2, -2, 60, -2, -1, -2, -2, -2, -2, -2, -2, -2, -2, -2, -2, -2], 32, 4, h133,
                   dict(mp, pad_end=True), dict(rr)))
    out.append(rel('melody', [60], 0, 1, h120, dict(mp), dict(rr)))
    out.append(rel('melody', [], 0, 4, h120, dict(mp), dict(rr)))
    out.append(rel('melody', [60, -2, -1], 0, 4, h120, dict(mp), dict(rr), canon=None))      # trailing NOTE_OFF
    out.append(rel('melody', [60, -2, 62, -2, -2, -2], 12, 4, h97, dict(mp, search_start_step=12), dict(rr), ts=[3, 4]))
    # drums
    dp = {'search_start_step': 0, 'gap_bars': 1, 'pad_end': False, 'ignore_is_drum': False}
    out.append(rel('drums', [[36], [], [38, 42], [], [36]], 16, 4, h133, dict(dp), dict(rr, instrument=9)))
    out.append(rel('drums', [[], [36], [], []], 0, 1, h97, dict(dp, pad_end=True), dict(rr, instrument=9)))
    # chords / lead sheet at a later bar (the ChordProgression.to_sequence start_step defect)
    out.append(rel('chords', ['C', 'C', 'G7', 'G7'], 0, 4, h97, {'end_step': 4}, {}))
    out.append(rel('chords', ['N.C.', 'C', 'C', 'Am'], 16, 4, h120, {'end_step': 20}, {}))
    out.append(rel('leadsheet', [[60, -2, -2, -2, 62, -2, -2, -2], ['C'] * 4 + ['G'] * 4], 16, 4, h120, dict(mp),
                   {'velocity': 100, 'instrument': 0}))
    out.append(rel('leadsheet', [[60, -2, 62, -2], ['N.C.', 'C', 'C', 'Am']], 0, 4, h97, dict(mp),
                   {'velocity': 100, 'instrument': 0}))
    # pianoroll
    pp = {'min_pitch': 21, 'max_pitch': 108, 'split_repeats': True}
    out.append(rel('pianoroll', [[39, 43], [39], [], [39, 43], [43]], 16, 4, h97, dict(pp), dict(rr)))
    out.append(rel('pianoroll', [[0]], 0, 1, h133, dict(pp, min_pitch=60, max_pitch=60), dict(rr)))
    # trailing silence: to_sequence must span all frames (the final_step defect, notes/C06-fix-2.diff)
    out.append(rel('pianoroll', [[1], [], []], 0, 4, h120, dict(pp), dict(rr), canon=None if PR_LEGACY else True))
    out.append(rel('pianoroll', [[]], 16, 4, h97, dict(pp), dict(rr), canon=None if PR_LEGACY else True))
    # performances
    fp = {'bins': 8, 'max_shift': 3, 'instrument': None}
    pr = {'velocity': 100, 'instrument': 0, 'obj_program': None, 'obj_is_drum': None}
    ev = [[4, 7], [1, 60], [3, 3], [3, 1], [2, 60], [4, 2], [1, 60], [1, 64], [3, 3], [3, 3], [3, 1], [2, 60], [2, 64]]
    out.append({'op': 'perf', 'input': {'events': ev, 'start': 31, 'res': 31, 'p': dict(fp), 'r': dict(pr),
                                        'canon': True}})
    # one pitch sounding twice at once, un-nested (NOTE_OFFs pair first-in-first-out): (a) equal start, two bins;
    # (b) different starts + another pitch ending on the step of the first NOTE_OFF
    out.append({'op': 'perf', 'input': {'events': encode_perf([(60, 10, 2, 5), (60, 120, 2, 7)], 8, 100, 0), 'start': 0,
                                        'res': 100, 'p': dict(fp, max_shift=100), 'r': dict(pr), 'canon': True}})
    out.append({'op': 'perf', 'input': {'events': encode_perf([(60, 100, 0, 6), (64, 100, 1, 6), (60, 100, 2, 8)], 0, 100, 0),
                                        'start': 0, 'res': 100, 'p': dict(fp, bins=0, max_shift=100), 'r': dict(pr),
                                        'canon': True}})
    out.append({'op': 'perf', 'input': {'events': [[1, 60], [3, 100], [3, 5], [2, 60]], 'start': 0, 'res': 250,
                                        'p': dict(fp, bins=0, max_shift=100), 'r': dict(pr), 'canon': True}})
    out.append({'op': 'metric', 'input': {'events': [[4, 1], [1, 60], [3, 2], [2, 60]], 'start': 8, 'res': 4,
                                          'qpm': h97, 'ts': None, 'spb': 16,
                                          'p': {'bins': 2, 'max_shift_quarters': 1, 'instrument': None},
                                          'r': dict(pr), 'canon': True}})
    out.append({'op': 'noteperf', 'input': {'events': [[0, 60, 7, 4], [0, 64, 7, 2], [5, 60, 1, 1]], 'start': 10,
                                            'res': 100, 'p': {'bins': 8, 'max_shift': 1000, 'max_duration': 1000,
                                                              'instrument': None},
                                            'r': {'instrument': 0, 'obj_program': None, 'obj_is_drum': None},
                                            'canon': True}})
    # arguments at non-default values (oracle only where the step-level model has no such argument)
    out.append(rel('melody', [60, -2, -2, -2, 62, -2, -1, -2, 64, -2], 16, 4, h97, dict(mp), dict(rr, velocity=1, program=99)))
    out[-1]['input']['x'] = {'sst_bars': 2, 'reuse': True}
    out.append(rel('chords', ['N.C.', 'C', 'C', 'Am'], 16, 4, h133, {'end_step': 20}, {}))
    out[-1]['input']['x'] = {'sst_bars': 1, 'reuse': True}
    out.append(rel('leadsheet', [[60, -2, 62, -2], ['N.C.', 'C', 'C', 'Am']], 32, 4, h97, dict(mp, search_start_step=16),
                   {'velocity': 100, 'instrument': 0}))
    out[-1]['input']['x'] = {'sst_bars': 5}
    out.append(rel('pianoroll', [[39, 43], [39], [], [39, 43], [43]], 16, 4, h97, dict(pp), dict(rr)))
    out[-1]['input']['x'] = {'base': 'ok', 'shift_range': True}
    out.append(rel('pianoroll', [[39, 43], [39]], 0, 4, h97, dict(pp), dict(rr), canon=None))
    out[-1]['input']['x'] = {'base': 'bad_qpm'}
    out.append({'op': 'perf', 'input': {'events': encode_perf([(60, 100, 0, 9), (64, 100, 2, 3)], 0, 100, 0), 'start': 0,
                                        'res': 100, 'p': dict(fp, bins=0, max_shift=100),
                                        'r': dict(pr, instrument=3, program=9), 'canon': None,
                                        'x': {'mnd_steps': 4, 'notes': [[60, 100, 0, 9], [64, 100, 2, 3]]}}})
    out.append({'op': 'metric', 'input': {'events': [[4, 1], [1, 60], [3, 2], [3, 2], [3, 1], [2, 60]], 'start': 8, 'res': 2,
                                          'qpm': h97, 'ts': None, 'spb': 8,
                                          'p': {'bins': 2, 'max_shift_quarters': 1, 'instrument': 3},
                                          'r': dict(pr, instrument=3, program=9), 'canon': True, 'x': {'mnd': 'big'}}})
    out.append({'op': 'noteperf', 'input': {'events': [[0, 60, 7, 4], [9, 64, 7, 2]], 'start': 0, 'res': 100,
                                            'p': {'bins': 8, 'max_shift': 8, 'max_duration': 1000, 'instrument': None},
                                            'r': {'instrument': 0, 'obj_program': None, 'obj_is_drum': None},
                                            'canon': None}})          # the SECOND tuple exceeds the shift limit
    out.append({'op': 'noteperf', 'input': {'events': [[0, 60, 7, 4], [1, 64, 7, 12]], 'start': 0, 'res': 100,
                                            'p': {'bins': 8, 'max_shift': 1000, 'max_duration': 11, 'instrument': None},
                                            'r': {'instrument': 0, 'obj_program': None, 'obj_is_drum': None},
                                            'canon': None}})
    out.append(rel('melody', [60, -2, 62, -2], 0, 1, h120, dict(mp), dict(rr), ts=[3, 8], canon=None))   # 1.5 steps per bar
    out[-1]['input']['spb'] = 4
    for k in sorted(REJECT):
        out.append({'op': 'reject', 'input': {'what': k}})
    return out


META = {
    'level_text': ('Machine-checked theorems (Coq). Step level, closed under the global context, for ALL event lists and '
                   'parameters, for each of the 8 event-sequence types: a boolean predicate canonical_T; canonical_T es '
                   '=> extraction(render(es)) = es with the same start step, end step and resolution; every extractor '
                   'output satisfies canonical_T (Performance also in the literal form: extraction output is a fixpoint '
                   'of render-then-extract; Performance / MetricPerformance incl. one pitch sounding twice at once as '
                   'long as same-pitch notes are not nested (boolean no_nested_same_pitch), and refuted for nested '
                   'ones: C06_perf_nested_refuted).  Float level (Flocq, full binary64, no fallback): quantize_to_step(step * '
                   'seconds_per_step + start * seconds_per_step) = step + start for all steps up to 2^31, '
                   'steps_per_quarter 1..96 / steps_per_second 1..1000, every finite qpm in [10, 480], for the three '
                   'seconds_per_step formulas of the code; rendered times strictly increase with the step.  Composed: '
                   'the notes re-quantized through the floats ARE the step-level notes, hence the round trip holds at any '
                   'tempo in range.  Models tied to /repo by a differential run (real to_sequence at non-trivial tempos '
                   '-> real quantizer -> real extractor vs the exact step-level model) and by a regenerated bit-exact '
                   'sample table for the float model.'),
    'level_note': ('Trusted: Coq kernel (+ FloatAxioms / Reals axioms for the float theorems); the hand-written models '
                   'coq/Model/Render*.v and the reused C07 extraction models / C01 quantizer model, tied by '
                   'correspondence; extraction to OCaml.  The float model is tied by the sample table regenerated from '
                   'the real code on every run (PrimFloat does not extract, so the per-case model run is step level).  '
                   'Models follow note_seq after notes/C06-fix-1.diff and notes/C06-fix-2.diff; on the code before '
                   'them the theorems are refuted in Coq (C06_chords_legacy_refuted, C06_pianoroll_legacy_refuted) and '
                   'the oracle reports the failing inputs.'),
}
