"""C07 — event extraction captures the quantized music it is given, step for step.

Melody / DrumTrack / ChordProgression / PianorollSequence / Performance / MetricPerformance /
NotePerformance built from a quantized NoteSequence.
"""
import copy

from vt import coqgen as G
from vt import nsio

ID = 'C07'
RULE = ('seeded generator of quantized NoteSequences (integer steps set directly, or the real quantizer run on a '
        'generated unquantized sequence) x extraction parameters; a case is non-trivial when the extractor returned '
        'an object with at least one event (or, for the error ops, raised the documented error); distinct by '
        'canonical input')
ASSUMPTIONS = [
    'time-signature denominators are powers of two, so 4.0/den*num*spq is exact and equals the model\'s rational',
    'every note has quantized_start_step < quantized_end_step and lies within total_quantized_steps '
    '(what sequences_lib.quantize_* guarantees); pitches 0..127; velocities 1..127 for the performance ops',
    'note.start_time is non-decreasing in quantized_start_step (monotone quantization)',
    'performance step-level decoding is read from the real _to_sequence with seconds_per_step = 1.0; the public '
    'to_sequence + re-quantisation (floats) is exercised by the oracle only',
    'every case also re-runs the extraction on a re-used / after a scribbled-on object and checks that the argument '
    'proto is byte-identical afterwards (state across calls)',
]
USE_VM = False

K = 1 << 28          # ticks per quantized step used for note.start_time (any monotone map works)


def gen_coq():
    from note_seq import constants, performance_lib, chords_lib
    PE = performance_lib.PerformanceEvent
    s = G.HEADER
    s += G.defz('MELODY_NOTE_OFF', constants.MELODY_NOTE_OFF)
    s += G.defz('MELODY_NO_EVENT', constants.MELODY_NO_EVENT)
    s += G.defz('MIN_MIDI_PITCH', constants.MIN_MIDI_PITCH)
    s += G.defz('MAX_MIDI_PITCH', constants.MAX_MIDI_PITCH)
    s += G.defz('MIN_MIDI_VELOCITY', performance_lib.MIN_MIDI_VELOCITY)
    s += G.defz('MAX_MIDI_VELOCITY', performance_lib.MAX_MIDI_VELOCITY)
    s += G.defz('EV_NOTE_ON', PE.NOTE_ON)
    s += G.defz('EV_NOTE_OFF', PE.NOTE_OFF)
    s += G.defz('EV_TIME_SHIFT', PE.TIME_SHIFT)
    s += G.defz('EV_VELOCITY', PE.VELOCITY)
    s += G.defz('EV_DURATION', PE.DURATION)
    s += G.defz('CHORD_SYMBOL', int(chords_lib.CHORD_SYMBOL))
    s += G.defstring('NO_CHORD', chords_lib.NO_CHORD)
    return s


ERR = {1: 'QuantizationStatusError', 2: 'NonIntegerStepsPerBarError', 3: 'PolyphonicMelodyError',
       4: 'BadNoteError', 5: 'CoincidentChordsError', 6: 'BadChordError', 7: 'IndexError', 8: 'ValueError',
       9: 'TooManyTimeShiftStepsError', 10: 'TooManyDurationStepsError', 11: 'ZeroDivisionError'}

CHORDS = ['C', 'Am', 'G7', 'F#m7b5', 'Bb', 'N.C.', 'Dm', 'E7']
TSIGS = [(4, 4)] * 6 + [(3, 4), (6, 8), (2, 2), (5, 4), (7, 8), (12, 8), (2, 4), (3, 8), (9, 16)]


# ---------------------------------------------------------------- generator
def steps_per_bar(d):
    if not d['tsigs'] or not d['spq']:
        return None
    num, den = d['tsigs'][0][1], d['tsigs'][0][2]
    n = d['spq'] * 4 * num
    return n // den if n % den == 0 else None


INSTR_IDS = [0, 1, 2, 3, 5, 9, 15]


def gen_qseq(rng, absolute=False, max_notes=14, zero_vel=True, chords=False, overlap_ok=False, zero_len=True):
    """A quantized NoteSequence description (nsio desc): steps are set directly."""
    spq = 0 if absolute else rng.choice([1, 2, 3, 4, 4, 4, 6, 8, 12, 24])
    sps = rng.choice([10, 31, 100, 250]) if absolute else 0
    ts = rng.choice(TSIGS)
    n4 = (spq or 4) * 4 * ts[0]
    spb = n4 // ts[1] if n4 % ts[1] == 0 else 4
    ninstr = rng.randint(1, 3)
    ids = rng.sample(INSTR_IDS, ninstr) if rng.random() < 0.6 else list(range(ninstr))
    horizon = rng.choice([8, 16, 32, 64, 120])
    pitches = rng.sample(range(18, 112), rng.randint(1, 6))
    if rng.random() < 0.15:
        pitches += [rng.choice([0, 1, 20, 21, 108, 109, 126, 127])]
    progs = [rng.choice([0, 1, 33, 127]) for _ in range(ninstr)]
    inst_drum = [rng.random() < 0.25 for _ in range(ninstr)]
    notes = []
    pool = []
    nn = rng.randint(0, max_notes) if rng.random() < 0.9 else rng.randint(max_notes, 40)
    last_end = 0
    for _ in range(nn):
        r = rng.random()
        if pool and r < 0.3:
            qs = rng.choice(pool)                        # coincident onset / abutting repeat
        elif pool and r < 0.4:
            qs = max(pool) + rng.choice([1, 2, 8, 16, 40, 70])   # gaps
        elif pool and r < 0.5:
            # silence of exactly / just under / just over k bars after the latest end or onset
            qs = max(0, rng.choice([last_end, max(pool), max(pool) + 1]) +
                     rng.choice([1, 1, 2, 4]) * spb + rng.choice([-1, 0, 0, 1]))
        else:
            qs = rng.randint(0, horizon)
        qe = qs + (rng.choice([1, 1, 2, 3, 4, 8]) if rng.random() < 0.85 else rng.randint(1, 40))
        if zero_len and rng.random() < 0.01:
            qe = qs                                       # not a quantizer output; correspondence only
        last_end = max(last_end, qe)
        if rng.random() < 0.3:
            pool.append(qe)
        pool.append(qs)
        k = rng.randrange(ninstr)
        drum = inst_drum[k] if rng.random() < 0.9 else (not inst_drum[k])
        vel = 0 if (zero_vel and rng.random() < 0.08) else rng.choice([1, 30, 64, 64, 100, 127, rng.randint(1, 127)])
        prog = progs[k] if rng.random() < 0.9 else rng.choice([0, 1, 33, 40])
        notes.append([rng.choice(pitches), vel, 0, 0, ids[k], prog, int(drum), qs, qe, 0])
    if not (overlap_ok and rng.random() < 0.5):
        kept = []
        for n in notes:
            if not any(k[0] == n[0] and k[7] < n[8] and n[7] < k[8] for k in kept):
                kept.append(n)
        notes = kept
    # start_time: monotone in the quantized step, with ties and sub-step displacement
    disp = {}
    for n in notes:
        j = rng.choice([0, 0, 0, 1, 2, K // 4, -(K // 4), -1])
        if rng.random() < 0.5:
            j = disp.setdefault(n[7], j)
        n[2] = max(0, n[7] * K + j)
        n[3] = n[2] + (n[8] - n[7]) * K
    rng.shuffle(notes)
    d = {'notes': notes, 'tempos': [[0, 120 << nsio.QPM_BITS]], 'tsigs': [[0, ts[0], ts[1]]], 'ksigs': [],
         'texts': [], 'ccs': [], 'bends': [], 'sects': []}
    if rng.random() < 0.15:
        d['tsigs'].append([rng.randint(1, 30) * K, rng.choice([3, 5]), 4])     # later signatures are ignored
    if chords:
        nc = rng.randint(0, 6)
        cpool = []
        for _ in range(nc):
            q = rng.choice(cpool) if (cpool and rng.random() < 0.3) else rng.randint(0, horizon)
            cpool.append(q)
            ty = 1 if rng.random() < 0.85 else rng.choice([0, 2])
            txt = rng.choice(CHORDS[:4]) if rng.random() < 0.6 else rng.choice(CHORDS)
            d['texts'].append([q * K, q, txt, ty])
    ends = [n[8] for n in notes]
    tq = (max(ends) if ends else 0) + rng.choice([0, 0, 0, 1, 3, 5])
    d['total'] = max([n[3] for n in notes] + [tq * K])
    d['qsteps'] = tq
    d['spq'] = spq
    d['sps'] = sps
    d['sub'] = [0, 0] if rng.random() < 0.9 else [K, 2 * K]       # a non-default subsequence_info is ignored
    d['tpq'] = 220
    d['meta'] = None
    return d


def proto_to_desc(ns):
    w = nsio.to_wire(ns)
    d = {'notes': w[0], 'tempos': w[1], 'tsigs': w[2], 'ksigs': w[3],
         'texts': [[t[0], t[1], ''.join(chr(c) for c in t[2]), t[3]] for t in w[4]],
         'ccs': w[5], 'bends': w[6], 'sects': w[7], 'total': w[8], 'qsteps': w[9], 'spq': w[10], 'sps': w[11],
         'sub': w[12], 'tpq': w[13], 'meta': None}
    return d


def gen_quantized_by_real_code(rng, absolute=False):
    """Unquantized nsio sequence -> sequences_lib.quantize_note_sequence(_absolute) -> desc."""
    from note_seq import sequences_lib
    d = nsio.gen_desc(rng, max_notes=14, with_events=False, meta=False, no_same_pitch_overlap=True, hi_quarters=60)
    d['tempos'] = [[0, 120 << nsio.QPM_BITS]]
    d['tsigs'] = [[0, 4, 4]] if rng.random() < 0.7 else [[0, 3, 4]]
    for _ in range(rng.randint(0, 4)):
        d['texts'].append([rng.randint(0, 60) * nsio.QUARTER_SEC, 0, rng.choice(CHORDS), 1])
    ns = nsio.to_proto(d)
    if absolute:
        q = sequences_lib.quantize_note_sequence_absolute(ns, rng.choice([10, 31, 100]))
    else:
        q = sequences_lib.quantize_note_sequence(ns, rng.choice([1, 2, 4, 4, 8]))
    return proto_to_desc(q)


def _seq(rng, **kw):
    absolute = kw.get('absolute', False)
    if rng.random() < 0.12:
        return gen_quantized_by_real_code(rng, absolute=absolute)
    return gen_qseq(rng, **kw)


def _sss(rng, d):
    spb = steps_per_bar(d) or 4
    return rng.choice([0, 0, 0, 1, 2, 3]) * spb


def _instr_choices(d):
    return sorted(set(n[4] for n in d['notes'])) or [0]


def gen_case(rng, op):
    if op == 'melody':
        d = _seq(rng)
        p = {'search_start_step': _sss(rng, d), 'instrument': rng.choice(_instr_choices(d) + [0, 7]),
             'gap_bars': rng.choice([1, 1, 1, 2, 4, 0]), 'ignore_polyphonic_notes': rng.random() < 0.7,
             'pad_end': rng.random() < 0.5, 'filter_drums': rng.random() < 0.7}
    elif op == 'drums':
        d = _seq(rng)
        p = {'search_start_step': _sss(rng, d), 'gap_bars': rng.choice([1, 1, 1, 2, 4, 0]),
             'pad_end': rng.random() < 0.5, 'ignore_is_drum': rng.random() < 0.4}
    elif op == 'chords':
        d = _seq(rng, chords=True, max_notes=3)
        hi = max([t[1] for t in d['texts']] + [8])
        a = rng.randint(0, hi)
        b = a + rng.randint(1, 24) if rng.random() < 0.93 else rng.randint(0, a)
        p = {'start_step': a, 'end_step': b}
    elif op == 'pianoroll':
        d = _seq(rng, overlap_ok=True)
        if rng.random() < 0.5:
            lo, hi = rng.choice([(21, 108), (21, 108), (0, 127), (40, 90), (60, 60)])
        else:                                            # min and max drawn independently
            lo = rng.choice([0, 1, 21, 30, 59, 60])
            hi = rng.choice([x for x in [60, 61, 89, 108, 126, 127] if x >= lo])
        ss = rng.choice([0, 0, 0, 1, 4, rng.randint(0, max(0, d['qsteps']))])
        p = {'start_step': min(ss, d['qsteps']), 'min_pitch': lo, 'max_pitch': hi, 'split_repeats': rng.random() < 0.7}
    elif op in ('perf', 'metric'):
        d = _seq(rng, absolute=(op == 'perf'), zero_vel=False, overlap_ok=True)
        p = {'start_step': rng.choice([0, 0, 0, 1, 5, 16]), 'num_velocity_bins': rng.choice([0, 1, 2, 8, 32, 127]),
             'instrument': rng.choice([None, None] + _instr_choices(d) + [7]),
             'default_velocity': rng.choice([100, 64]),
             # constructor arguments documented as ignored when a sequence is given
             'ctor_program': rng.choice([None, None, 7]), 'ctor_is_drum': rng.choice([None, None, True]),
             # to_sequence arguments used by the oracle's rendering
             'render_instrument': rng.choice([0, 0, 3]), 'render_program': rng.choice([None, None, 5])}
        if op == 'perf':
            p['max_shift_steps'] = rng.choice([1, 2, 3, 7, 10, 100])
        else:
            p['max_shift_quarters'] = rng.choice([1, 2, 4])
            p['qpm'] = rng.choice([120, 120, 60, 100])
        if rng.random() < 0.02:
            p['num_velocity_bins'] = 128                 # documented ValueError
    elif op == 'noteperf':
        d = _seq(rng, absolute=True, zero_vel=False, overlap_ok=True)
        p = {'start_step': rng.choice([0, 0, 0, 1, 5]), 'num_velocity_bins': rng.choice([1, 2, 8, 32, 127]),
             'instrument': rng.choice([None, 0] + _instr_choices(d) + [7]),
             'max_shift_steps': rng.choice([1000, 1000, 40, 8, 3]),
             'max_duration_steps': rng.choice([1000, 1000, 8, 3, 40]),
             'render_instrument': rng.choice([0, 0, 3]), 'render_program': rng.choice([None, None, 5])}
        if rng.random() < 0.02:
            p['num_velocity_bins'] = 128
    else:
        raise ValueError(op)
    if rng.random() < 0.03:
        # wrong kind of quantization (or none at all): every extractor must raise QuantizationStatusError
        if op in ('perf', 'noteperf'):
            d['sps'] = 0
            d['spq'] = rng.choice([0, 4])
        else:
            d['spq'] = 0
            d['sps'] = rng.choice([0, 100])
        if not d['spq'] and not d['sps'] and rng.random() < 0.5:
            d['qinfo_empty'] = True
    return {'op': op, 'input': {'seq': d, 'p': p}}


OPS = ['melody', 'drums', 'chords', 'pianoroll', 'perf', 'metric', 'noteperf']
PER_OP = {'quick': 500, 'thorough': 20000}


def cases(rng, tier, n=None):
    per = PER_OP['thorough' if tier == 'thorough' else 'quick']
    if n is not None:
        per = max(0, n // len(OPS))
    out = []
    for op in OPS:
        for _ in range(per):
            out.append(gen_case(rng, op))
    rng.shuffle(out)          # different extractors / configurations interleaved in one process
    return out


def _n(p, v, qs, qe, instr=0, drum=0, prog=0, j=0):
    return [p, v, qs * K + j, qe * K + j, instr, prog, int(drum), qs, qe, 0]


def _d(notes, spq=4, sps=0, ts=(4, 4), texts=(), total=None):
    ends = [n[8] for n in notes]
    tq = total if total is not None else (max(ends) if ends else 0)
    return {'notes': [list(n) for n in notes], 'tempos': [[0, 120 << nsio.QPM_BITS]], 'tsigs': [[0, ts[0], ts[1]]],
            'ksigs': [], 'texts': [list(t) for t in texts], 'ccs': [], 'bends': [], 'sects': [],
            'total': tq * K, 'qsteps': tq, 'spq': spq, 'sps': sps, 'sub': [0, 0], 'tpq': 220, 'meta': None}


def corpus():
    out = []
    mp = {'search_start_step': 0, 'instrument': 0, 'gap_bars': 1, 'ignore_polyphonic_notes': False,
          'pad_end': False, 'filter_drums': True}
    # F15: a drum hit / a zero-velocity note at step 0 must not fix the melody's first bar
    out.append({'op': 'melody', 'input': {'seq': _d([_n(36, 100, 0, 1, drum=1), _n(60, 100, 40, 44)]), 'p': dict(mp)}})
    out.append({'op': 'melody', 'input': {'seq': _d([_n(36, 0, 0, 1), _n(60, 100, 40, 44)]), 'p': dict(mp)}})
    # polyphony, gap, overlap-truncation, pad
    out.append({'op': 'melody', 'input': {'seq': _d([_n(60, 100, 0, 4), _n(64, 100, 0, 2)]), 'p': dict(mp)}})
    out.append({'op': 'melody', 'input': {'seq': _d([_n(60, 100, 0, 4), _n(64, 100, 0, 2), _n(62, 90, 2, 3)]),
                                          'p': dict(mp, ignore_polyphonic_notes=True, pad_end=True)}})
    out.append({'op': 'melody', 'input': {'seq': _d([_n(60, 100, 0, 10), _n(64, 100, 2, 4), _n(65, 100, 6, 8),
                                                     _n(67, 100, 24, 25), _n(69, 100, 26, 27)]), 'p': dict(mp)}})
    out.append({'op': 'melody', 'input': {'seq': _d([_n(60, 100, 1, 2)], spq=1, ts=(3, 8)), 'p': dict(mp)}})
    out.append({'op': 'melody', 'input': {'seq': _d([_n(60, 100, 1, 2)], spq=0, sps=100), 'p': dict(mp)}})
    # drums
    dp = {'search_start_step': 0, 'gap_bars': 1, 'pad_end': True, 'ignore_is_drum': False}
    out.append({'op': 'drums', 'input': {'seq': _d([_n(36, 100, 17, 18, drum=1), _n(38, 100, 17, 18, drum=1),
                                                    _n(42, 100, 19, 20, drum=1), _n(36, 100, 36, 37, drum=1),
                                                    _n(60, 100, 2, 3)]), 'p': dict(dp)}})
    out.append({'op': 'drums', 'input': {'seq': _d([_n(36, 100, 3, 4, drum=1), _n(36, 100, 20, 21, drum=1)]),
                                         'p': dict(dp, pad_end=False)}})
    # chords
    tx = [[2 * K, 2, 'C', 1], [6 * K, 6, 'Am', 1], [6 * K, 6, 'Am', 1], [9 * K, 9, 'G7', 1], [4 * K, 4, 'lyric', 0]]
    out.append({'op': 'chords', 'input': {'seq': _d([], texts=tx), 'p': {'start_step': 0, 'end_step': 12}}})
    out.append({'op': 'chords', 'input': {'seq': _d([], texts=tx), 'p': {'start_step': 4, 'end_step': 8}}})
    out.append({'op': 'chords', 'input': {'seq': _d([], texts=tx + [[9 * K, 9, 'F', 1]]), 'p': {'start_step': 0, 'end_step': 12}}})
    out.append({'op': 'chords', 'input': {'seq': _d([], texts=tx), 'p': {'start_step': 5, 'end_step': 5}}})
    # the documented NonIntegerStepsPerBarError (chords_lib formats its message from a missing field)
    out.append({'op': 'chords', 'input': {'seq': _d([], spq=1, ts=(3, 8), texts=tx), 'p': {'start_step': 0, 'end_step': 4}}})
    # pianoroll: F6 (note at the first frame stored after a note sounding in the last frame),
    # F7 (abutting repeats stored in reverse order)
    pp = {'start_step': 0, 'min_pitch': 21, 'max_pitch': 108, 'split_repeats': True}
    out.append({'op': 'pianoroll', 'input': {'seq': _d([_n(62, 100, 6, 8), _n(62, 100, 0, 2)]), 'p': dict(pp)}})
    out.append({'op': 'pianoroll', 'input': {'seq': _d([_n(60, 100, 4, 8), _n(60, 100, 0, 4)], total=9), 'p': dict(pp)}})
    out.append({'op': 'pianoroll', 'input': {'seq': _d([_n(60, 100, 0, 4), _n(60, 100, 4, 8)], total=9), 'p': dict(pp)}})
    out.append({'op': 'pianoroll', 'input': {'seq': _d([_n(60, 100, 2, 4), _n(20, 100, 4, 8)], total=5),
                                             'p': dict(pp, start_step=2, split_repeats=False)}})
    # performance
    fp = {'start_step': 0, 'num_velocity_bins': 8, 'instrument': None, 'default_velocity': 100, 'max_shift_steps': 3}
    ns = [_n(60, 100, 0, 4), _n(60, 30, 4, 11), _n(64, 100, 4, 5, instr=1, prog=1), _n(67, 64, 20, 21)]
    out.append({'op': 'perf', 'input': {'seq': _d(ns, spq=0, sps=100), 'p': dict(fp)}})
    out.append({'op': 'perf', 'input': {'seq': _d(ns, spq=0, sps=100), 'p': dict(fp, num_velocity_bins=0, instrument=1, start_step=2)}})
    mpq = {'start_step': 0, 'num_velocity_bins': 2, 'instrument': None, 'default_velocity': 100, 'max_shift_quarters': 1}
    out.append({'op': 'metric', 'input': {'seq': _d(ns, spq=4), 'p': dict(mpq)}})
    npp = {'start_step': 0, 'num_velocity_bins': 8, 'instrument': None, 'max_shift_steps': 1000, 'max_duration_steps': 1000}
    out.append({'op': 'noteperf', 'input': {'seq': _d(ns, spq=0, sps=100), 'p': dict(npp)}})
    out.append({'op': 'noteperf', 'input': {'seq': _d(ns, spq=0, sps=100), 'p': dict(npp, max_shift_steps=10)}})
    out.append({'op': 'noteperf', 'input': {'seq': _d(ns, spq=0, sps=100), 'p': dict(npp, max_duration_steps=5)}})
    return out


# ---------------------------------------------------------------- implementation
def _exc(e):
    return ['EXC', type(e).__name__]


def _mel_kw(p):
    return {k: p[k] for k in ('search_start_step', 'instrument', 'gap_bars', 'ignore_polyphonic_notes', 'pad_end',
                              'filter_drums')}


def _dr_kw(p):
    return {k: p[k] for k in ('search_start_step', 'gap_bars', 'pad_end', 'ignore_is_drum')}


def _pr_kw(p):
    return {k: p[k] for k in ('start_step', 'min_pitch', 'max_pitch', 'split_repeats')}


def _events_obj(op, ns, p, obj=None):
    """Build the event sequence.  `obj`: an already used Melody / DrumTrack / ChordProgression to re-populate."""
    from note_seq import melodies_lib, drums_lib, chords_lib, pianoroll_lib, performance_lib
    if op == 'melody':
        m = obj if obj is not None else melodies_lib.Melody()
        m.from_quantized_sequence(ns, **_mel_kw(p))
        return m
    if op == 'drums':
        m = obj if obj is not None else drums_lib.DrumTrack()
        m.from_quantized_sequence(ns, **_dr_kw(p))
        return m
    if op == 'chords':
        m = obj if obj is not None else chords_lib.ChordProgression()
        m.from_quantized_sequence(ns, p['start_step'], p['end_step'])
        return m
    if op == 'pianoroll':
        return pianoroll_lib.PianorollSequence(quantized_sequence=ns, **_pr_kw(p))
    if op == 'perf':
        return performance_lib.Performance(
            quantized_sequence=ns, start_step=p['start_step'], num_velocity_bins=p['num_velocity_bins'],
            max_shift_steps=p['max_shift_steps'], instrument=p['instrument'],
            program=p.get('ctor_program'), is_drum=p.get('ctor_is_drum'))
    if op == 'metric':
        return performance_lib.MetricPerformance(
            quantized_sequence=ns, start_step=p['start_step'], num_velocity_bins=p['num_velocity_bins'],
            max_shift_quarters=p['max_shift_quarters'], instrument=p['instrument'],
            program=p.get('ctor_program'), is_drum=p.get('ctor_is_drum'))
    if op == 'noteperf':
        return performance_lib.NotePerformance(
            ns, num_velocity_bins=p['num_velocity_bins'], instrument=p['instrument'], start_step=p['start_step'],
            max_shift_steps=p['max_shift_steps'], max_duration_steps=p['max_duration_steps'])
    raise ValueError(op)


def _opt(x):
    return [] if x is None else [int(x)]


def _step_notes(seq):
    out = []
    for n in seq.notes:
        s, e = n.start_time, n.end_time
        assert s == int(s) and e == int(e)
        out.append([n.pitch, int(s), int(e), n.velocity])
    return sorted(out)


def _observe(op, m, p):
    if op == 'melody':
        return ['OK', [int(e) for e in m], m.start_step, m.end_step, m.steps_per_bar, m.steps_per_quarter]
    if op == 'drums':
        return ['OK', [sorted(int(x) for x in e) for e in m], m.start_step, m.end_step, m.steps_per_bar,
                m.steps_per_quarter]
    if op == 'chords':
        return ['OK', [str(e) for e in m], m.start_step, m.end_step, m.steps_per_bar, m.steps_per_quarter]
    if op == 'pianoroll':
        return ['OK', [[int(x) for x in e] for e in m], m.start_step, m.steps_per_quarter]
    if op in ('perf', 'metric'):
        evs = [[int(e.event_type), int(e.event_value)] for e in m]
        sn = _step_notes(m._to_sequence(seconds_per_step=1.0, velocity=p['default_velocity'], instrument=0,
                                        program=None))
        return ['OK', evs, _opt(m.program), _opt(m.is_drum), sn, m.start_step]
    if op == 'noteperf':
        evs = [[int(t[0].event_value), int(t[1].event_value), int(t[2].event_value), int(t[3].event_value)] for t in m]
        assert all([t[0].event_type, t[1].event_type, t[2].event_type, t[3].event_type] == [3, 1, 4, 5] for t in m)
        m2 = copy.copy(m)
        m2._steps_per_second = 1           # read to_sequence at step level (seconds_per_step = 1.0)
        sn = _step_notes(m2.to_sequence())
        return ['OK', evs, _opt(m.program), _opt(m.is_drum), sn, m.start_step]
    raise ValueError(op)


_DIRTY = {}


def _dirty_obj(op):
    """A Melody / DrumTrack / ChordProgression that already holds the events of ANOTHER extraction (the melody
    after a PolyphonicMelodyError before that): from_quantized_sequence must start from scratch."""
    from note_seq import melodies_lib, drums_lib, chords_lib
    ns = nsio.to_proto(_d([_n(55, 90, 3, 9), _n(57, 90, 20, 22), _n(40, 80, 5, 6, drum=1)], spq=2, ts=(3, 4),
                          texts=[[K, 1, 'Dm', 1], [5 * K, 5, 'E7', 1]]))
    if op == 'melody':
        m = melodies_lib.Melody()
        try:
            m.from_quantized_sequence(nsio.to_proto(_d([_n(60, 90, 1, 3), _n(64, 90, 1, 2)])))
        except melodies_lib.PolyphonicMelodyError:
            pass
        m.from_quantized_sequence(ns, gap_bars=4, pad_end=True)
    elif op == 'drums':
        m = drums_lib.DrumTrack()
        m.from_quantized_sequence(ns, gap_bars=4, pad_end=True)
    else:
        m = chords_lib.ChordProgression()
        m.from_quantized_sequence(ns, 0, 9)
    assert len(m) > 0
    return m


def _mutate(op, m):
    """Scribble on a returned object (must not be visible in later extractions)."""
    try:
        if op in ('melody', 'drums', 'chords'):
            m.set_length(len(m) + 3)
            if len(m):
                m._events[0] = m._events[-1]
        elif op == 'pianoroll':
            m.set_length(len(m) + 2)
            m._events.append((0,))
        elif op in ('perf', 'metric'):
            m.set_length(m.num_steps + 5)
            m.truncate(max(0, len(m) - 2))
        else:
            m._events.append(m._events[0] if m._events else ())
            del m._events[:1]
    except Exception:  # noqa
        pass


def impl(case):
    op = case['op']
    d, p = case['input']['seq'], case['input']['p']
    ns = nsio.to_proto(d)
    before = ns.SerializeToString(deterministic=True)
    m = None
    try:
        m = _events_obj(op, ns, p)
        out = _observe(op, m, p)
    except Exception as e:  # noqa
        out = _exc(e)
    # (B) state across calls: the argument is not modified; an object that was already populated gives the same
    # result; scribbling on the returned object does not leak into a later extraction
    if ns.SerializeToString(deterministic=True) != before:
        return ['STATE', 'argument-modified']
    try:
        if op in ('melody', 'drums', 'chords'):
            m2 = _events_obj(op, ns, p, obj=_dirty_obj(op))
        else:
            if m is not None:
                _mutate(op, m)
            m2 = _events_obj(op, ns, p)
        out2 = _observe(op, m2, p)
    except Exception as e:  # noqa
        out2 = _exc(e)
        m2 = None
    if out2 != out:
        return ['STATE', 'second-extraction-differs', out, out2]
    if m is not None and m2 is not None and op in ('melody', 'drums', 'chords'):
        _mutate(op, m2)
        if _observe(op, m, p) != out:
            return ['STATE', 'objects-share-state']
    if ns.SerializeToString(deterministic=True) != before:
        return ['STATE', 'argument-modified']
    return out


def _unmodelled_rejection(case):
    """Rejections checked by the oracle only (the Run entry point does not model them)."""
    op = case['op']
    d, p = case['input']['seq'], case['input']['p']
    if op in ('perf', 'metric', 'noteperf'):
        wrongq = (op == 'metric' and not d['spq']) or (op != 'metric' and not d['sps'])
        toomany = p['num_velocity_bins'] > 127
        if op == 'noteperf':            # NotePerformance validates num_velocity_bins first
            return 'ValueError' if toomany else ('QuantizationStatusError' if wrongq else None)
        return 'QuantizationStatusError' if wrongq else ('ValueError' if toomany else None)
    return None


# ---------------------------------------------------------------- model
def model_input(case):
    op = case['op']
    d, p = case['input']['seq'], case['input']['p']
    if _unmodelled_rejection(case):
        return None
    w = nsio.to_wire(nsio.to_proto(d))
    if op == 'melody':
        return [1, w, p['search_start_step'], p['instrument'], p['gap_bars'], p['ignore_polyphonic_notes'],
                p['pad_end'], p['filter_drums']]
    if op == 'drums':
        return [2, w, p['search_start_step'], p['gap_bars'], p['pad_end'], p['ignore_is_drum']]
    if op == 'chords':
        return [3, w, p['start_step'], p['end_step']]
    if op == 'pianoroll':
        return [4, w, p['start_step'], p['min_pitch'], p['max_pitch'], p['split_repeats']]
    if op in ('perf', 'metric'):
        ms = p['max_shift_steps'] if op == 'perf' else d['spq'] * p['max_shift_quarters']
        return [5, w, p['start_step'], p['num_velocity_bins'], ms, _opt(p['instrument']), p['default_velocity']]
    if op == 'noteperf':
        return [6, w, p['start_step'], p['num_velocity_bins'], p['max_shift_steps'], p['max_duration_steps'],
                _opt(p['instrument'])]
    raise ValueError(op)


def model_output(case, m):
    op = case['op']
    if m[0] == -1000:
        return ['EXC', ERR.get(m[1], 'code-%d' % m[1])]
    r = m[1]
    if op == 'melody':
        return ['OK'] + r
    if op == 'drums':
        return ['OK', [sorted(set(e)) for e in r[0]]] + r[1:]
    if op == 'chords':
        return ['OK', [''.join(chr(c) for c in e) for e in r[0]]] + r[1:]
    if op == 'pianoroll':
        return ['OK'] + r
    if op in ('perf', 'metric'):
        return ['OK', r[0], r[1], r[2], sorted(r[3]), case['input']['p']['start_step']]
    if op == 'noteperf':
        return ['OK', r[0], r[1], r[2], sorted(r[3]), case['input']['p']['start_step']]


# ---------------------------------------------------------------- oracle: the property on the implementation
def _same_pitch_overlap(notes):
    for i, a in enumerate(notes):
        for b in notes[i + 1:]:
            if a[0] == b[0] and a[7] < b[8] and b[7] < a[8]:
                return True
    return False


def _wf(d):
    return all(n[7] < n[8] <= d['qsteps'] and 0 <= n[0] <= 127 for n in d['notes'])


def _monotone_times(notes):
    return all(not (a[7] < b[7] and a[2] >= b[2]) for a in notes for b in notes)


def _oracle_melody(d, p, io):
    spb = steps_per_bar(d)
    if spb is None or not d['spq']:
        want = 'NonIntegerStepsPerBarError' if d['spq'] else 'QuantizationStatusError'
        if io != ['EXC', want]:
            return {'kind': 'melody-documented-error-missing', 'want': want, 'got': io[:2]}
        return None
    sss = p['search_start_step']
    cand = [n for n in d['notes'] if n[4] == p['instrument'] and n[7] >= sss
            and not (p['filter_drums'] and n[6]) and n[1] != 0]
    if not cand:
        if io[0] != 'OK' or io[1] != []:
            return {'kind': 'melody-events-from-nothing', 'got': io[:2]}
        return None
    # highest note per start step, in step order
    by = {}
    for n in cand:
        by.setdefault(n[7], []).append(n)
    heads = [max(by[k], key=lambda n: n[0]) for k in sorted(by)]
    acc = [heads[0]]
    for n in heads[1:]:
        if n[7] - acc[-1][8] >= p['gap_bars'] * spb:
            break
        acc.append(n)
    poly = any(len(by[a[7]]) > 1 for a in acc)
    if poly and not p['ignore_polyphonic_notes']:
        if io != ['EXC', 'PolyphonicMelodyError']:
            return {'kind': 'melody-polyphony-not-reported', 'got': io[:2]}
        return None
    if io[0] != 'OK':
        return {'kind': 'melody-unexpected-exception', 'got': io}
    evs, start, end = io[1], io[2], io[3]
    first = acc[0][7]
    want_start = first - (first - sss) % spb
    if start != want_start:
        return {'kind': 'melody-start-not-bar-of-first-note', 'start_step': start, 'want': want_start,
                'first_note_step': first}
    L = acc[-1][8] - start
    want_len = L + ((-L) % spb if p['pad_end'] else 0)
    if len(evs) != want_len or end != start + want_len:
        return {'kind': 'melody-length', 'len': len(evs), 'want': want_len, 'end_step': end}
    for i, e in enumerate(evs):
        s = start + i
        cur = [a for a in acc if a[7] <= s]
        if i >= L or not cur:
            want = -1 if i == L else -2      # padding on the right ends the sustained last note
        else:
            b = cur[-1]
            want = b[0] if b[7] == s else (-1 if b[8] == s else -2)
        if e != want:
            return {'kind': 'melody-event-differs', 'step': s, 'got': e, 'want': want}
    return None


def _oracle_drums(d, p, io):
    spb = steps_per_bar(d)
    if spb is None or not d['spq']:
        want = 'NonIntegerStepsPerBarError' if d['spq'] else 'QuantizationStatusError'
        if io != ['EXC', want]:
            return {'kind': 'drums-documented-error-missing', 'want': want, 'got': io[:2]}
        return None
    if io[0] != 'OK':
        return {'kind': 'drums-unexpected-exception', 'got': io}
    sss = p['search_start_step']
    hits = [n for n in d['notes'] if (n[6] or p['ignore_is_drum']) and n[1] != 0 and n[7] >= sss]
    evs, start, end = io[1], io[2], io[3]
    if not hits:
        return None if evs == [] else {'kind': 'drums-events-from-nothing'}
    steps = sorted(set(n[7] for n in hits))
    acc = [steps[0]]
    for k in steps[1:]:
        if k - (acc[-1] + 1) >= p['gap_bars'] * spb:
            break
        acc.append(k)
    want_start = steps[0] - (steps[0] - sss) % spb
    if start != want_start:
        return {'kind': 'drums-start-not-bar-of-first-hit', 'start_step': start, 'want': want_start}
    L = acc[-1] - start + 1
    want_len = L + ((-L) % spb if p['pad_end'] else 0)
    if len(evs) != want_len or end != start + want_len:
        return {'kind': 'drums-length', 'len': len(evs), 'want': want_len, 'end_step': end}
    for i, e in enumerate(evs):
        s = start + i
        want = sorted(set(n[0] for n in hits if n[7] == s and s <= acc[-1]))
        if e != want:
            return {'kind': 'drums-event-differs', 'step': s, 'got': e, 'want': want}
    return None


def _oracle_chords(d, p, io):
    spb = steps_per_bar(d)
    if spb is None or not d['spq']:
        want = 'NonIntegerStepsPerBarError' if d['spq'] else 'QuantizationStatusError'
        if io != ['EXC', want]:
            return {'kind': 'chords-documented-error-missing', 'want': want, 'got': io[:2]}
        return None
    a, b = p['start_step'], p['end_step']
    chords = [t for t in d['texts'] if t[3] == 1]
    clash = any(x[1] == y[1] and a <= x[1] < b and x[2] != y[2] for x in chords for y in chords)
    if clash:
        if io != ['EXC', 'CoincidentChordsError']:
            return {'kind': 'chords-coincident-not-reported', 'got': io[:2]}
        return None
    if b <= a:
        return None if io == ['EXC', 'BadChordError'] else {'kind': 'chords-empty-range-accepted', 'got': io[:2]}
    if io[0] != 'OK':
        return {'kind': 'chords-unexpected-exception', 'got': io}
    evs = io[1]
    if len(evs) != b - a or io[2] != a or io[3] != b:
        return {'kind': 'chords-length', 'len': len(evs), 'want': b - a}
    for i, e in enumerate(evs):
        s = a + i
        want = 'N.C.'
        best = None
        for t in chords:                    # last chord in storage order among those with the greatest step <= s
            if t[1] <= s and (best is None or t[1] >= best):
                best, want = t[1], t[2]
        if e != want:
            return {'kind': 'chords-event-differs', 'step': s, 'got': e, 'want': want}
    return None


def _oracle_pianoroll(d, p, io):
    if not d['spq']:
        return None if io == ['EXC', 'QuantizationStatusError'] else {'kind': 'pianoroll-documented-error-missing'}
    ss, lo, hi = p['start_step'], p['min_pitch'], p['max_pitch']
    notes = [n for n in d['notes'] if n[7] >= ss and lo <= n[0] <= hi]
    if not _wf(d) or _same_pitch_overlap(notes) or ss > d['qsteps']:
        return None
    if io[0] != 'OK':
        return {'kind': 'pianoroll-unexpected-exception', 'got': io}
    evs = io[1]
    if len(evs) != d['qsteps'] - ss:
        return {'kind': 'pianoroll-length', 'len': len(evs), 'want': d['qsteps'] - ss}
    for i, e in enumerate(evs):
        s = ss + i
        want = sorted(set(n[0] - lo for n in notes if n[7] <= s < n[8] and not (
            p['split_repeats'] and any(m[0] == n[0] and m[7] == s + 1 for m in notes))))
        if e != want:
            return {'kind': 'pianoroll-frame-differs', 'step': s, 'frame': i, 'last_frame': i == len(evs) - 1,
                    'got': e, 'want': want}
    return None


def _expected_prog_drum(d, p):
    """What one Performance can hold: a single (program, is_drum) for the whole instrument (all of the
    sequence's notes of that instrument, as _program_and_is_drum_from_sequence reads them)."""
    sel = [n for n in d['notes'] if p['instrument'] is None or n[4] == p['instrument']]
    if all(n[6] for n in sel):
        return 0, True
    if all(not n[6] for n in sel):
        progs = set(n[5] for n in sel)
        return (progs.pop() if len(progs) == 1 else 0), False
    return 0, False


def _vel_rep(v, nb, default):
    """Velocity a note comes back with, from the DOCUMENTED binning (bins of equal size ceil(127/nb) starting at
    velocity 1), computed here and not taken from performance_lib."""
    if not nb:
        return default
    size = -(-127 // nb)
    return 1 + ((v - 1) // size) * size


def _render(op, d, p, m):
    from note_seq import sequences_lib
    kw = {'instrument': p.get('render_instrument', 0), 'program': p.get('render_program')}
    if op == 'perf':
        return sequences_lib.quantize_note_sequence_absolute(
            m.to_sequence(velocity=p['default_velocity'], **kw), d['sps'])
    if op == 'metric':
        return sequences_lib.quantize_note_sequence(
            m.to_sequence(velocity=p['default_velocity'], qpm=float(p.get('qpm', 120)), **kw), d['spq'])
    return sequences_lib.quantize_note_sequence_absolute(m.to_sequence(**kw), d['sps'])


def _check_render(op, d, p, sel, default_velocity):
    """The property: rendered back and re-quantized, the same multiset of notes."""
    nb = p['num_velocity_bins']
    m = _events_obj(op, nsio.to_proto(d), p)
    back = _render(op, d, p, m)
    prog, drum = _expected_prog_drum(d, p)
    if p.get('render_program') is not None:
        prog = p['render_program']                      # to_sequence(program=...) overrides
    ri = p.get('render_instrument', 0)
    want = sorted([n[0], n[7], n[8], _vel_rep(n[1], nb, default_velocity), prog, int(drum), ri] for n in sel)
    got = sorted([n.pitch, n.quantized_start_step, n.quantized_end_step, n.velocity, n.program, int(n.is_drum),
                  n.instrument] for n in back.notes)
    if got != want:
        miss = [x for x in want if x not in got][:3]
        extra = [x for x in got if x not in want][:3]
        return {'kind': op + '-notes-not-recovered', 'missing': miss, 'extra': extra}
    return None


def _oracle_perf(op, d, p, io):
    rej = _unmodelled_rejection({'op': op, 'input': {'seq': d, 'p': p}})
    if rej:
        return None if io == ['EXC', rej] else {'kind': op + '-documented-error-missing', 'want': rej, 'got': io[:2]}
    if io[0] != 'OK':
        return {'kind': op + '-unexpected-exception', 'got': io}
    ss, nb = p['start_step'], p['num_velocity_bins']
    sel = [n for n in d['notes'] if n[7] >= ss and (p['instrument'] is None or n[4] == p['instrument'])]
    ms = p['max_shift_steps'] if op == 'perf' else d['spq'] * p['max_shift_quarters']     # as REQUESTED
    evs = io[1]
    if io[5] != ss:
        return {'kind': op + '-start-step', 'got': io[5], 'want': ss}
    shifts = [v for t, v in evs if t == 3]
    if any(not (1 <= v <= ms) for v in shifts):
        return {'kind': op + '-shift-out-of-range', 'max_shift_steps': ms, 'shifts': shifts[:20]}
    elapsed = (max(n[8] for n in sel) - ss) if sel else 0
    if sum(shifts) != elapsed:
        return {'kind': op + '-shifts-do-not-sum-to-elapsed-steps', 'sum': sum(shifts), 'elapsed': elapsed}
    if any(t == 4 and not (1 <= v <= nb) for t, v in evs):
        return {'kind': op + '-velocity-bin-out-of-range', 'num_velocity_bins': nb}
    # program / is_drum are read from the sequence; the constructor arguments are documented as ignored
    prog, drum = _expected_prog_drum(d, p)
    inst = [n for n in d['notes'] if p['instrument'] is None or n[4] == p['instrument']]
    homogeneous = all(n[6] for n in inst) or all(not n[6] for n in inst)
    if homogeneous and io[3] != [int(drum)]:
        return {'kind': op + '-is-drum', 'got': io[3], 'want': int(drum)}
    if not _wf(d) or _same_pitch_overlap(sel) or not _monotone_times(sel):
        return None
    return _check_render(op, d, p, sel, p['default_velocity'])


def _oracle_noteperf(d, p, io):
    rej = _unmodelled_rejection({'op': 'noteperf', 'input': {'seq': d, 'p': p}})
    if rej:
        return None if io == ['EXC', rej] else {'kind': 'noteperf-documented-error-missing', 'want': rej, 'got': io[:2]}
    ss, nb = p['start_step'], p['num_velocity_bins']
    sel = [n for n in d['notes'] if n[7] >= ss and (p['instrument'] is None or n[4] == p['instrument'])]
    if not _wf(d) or not _monotone_times(sel):
        return None
    srt = sorted(sel, key=lambda n: (n[2], n[0]))
    cur = ss
    want_exc = None
    for n in srt:
        if n[7] - cur > p['max_shift_steps']:
            want_exc = 'TooManyTimeShiftStepsError'; break
        cur = n[7]
        if n[8] - n[7] > p['max_duration_steps']:
            want_exc = 'TooManyDurationStepsError'; break
    if want_exc:
        return None if io == ['EXC', want_exc] else {'kind': 'noteperf-limit-not-reported', 'want': want_exc, 'got': io[:2]}
    if io[0] != 'OK':
        return {'kind': 'noteperf-unexpected-exception', 'got': io}
    if io[5] != ss:
        return {'kind': 'noteperf-start-step', 'got': io[5], 'want': ss}
    for sh, q, b, du in io[1]:
        if not (0 <= sh <= p['max_shift_steps'] and 1 <= du <= p['max_duration_steps'] and 1 <= b <= nb):
            return {'kind': 'noteperf-tuple-out-of-range', 'tuple': [sh, q, b, du]}
    return _check_render('noteperf', d, p, sel, None)


def oracle(case, io):
    op = case['op']
    d, p = case['input']['seq'], case['input']['p']
    if io and io[0] == 'HARNESS-EXC':
        return {'kind': 'harness-exception', 'detail': io[1:]}
    if io and io[0] == 'STATE':
        return {'kind': 'state-' + io[1], 'op': op, 'detail': str(io[2:])[:300]}
    if op in ('melody', 'drums', 'chords') and d['spq'] and not d['tsigs']:
        return None        # not a quantizer output (quantize_note_sequence always leaves a time signature)
    if op == 'melody':
        if not _wf(d):
            return None
        return _oracle_melody(d, p, io)
    if op == 'drums':
        return _oracle_drums(d, p, io)
    if op == 'chords':
        return _oracle_chords(d, p, io)
    if op == 'pianoroll':
        return _oracle_pianoroll(d, p, io)
    if op in ('perf', 'metric'):
        return _oracle_perf(op, d, p, io)
    if op == 'noteperf':
        return _oracle_noteperf(d, p, io)
    return None


def nontrivial(case, io):
    if io[0] == 'OK':
        return len(io[1]) > 0
    return io[0] == 'EXC' and io[1] in ('PolyphonicMelodyError', 'CoincidentChordsError', 'NonIntegerStepsPerBarError',
                                        'TooManyTimeShiftStepsError', 'TooManyDurationStepsError',
                                        'QuantizationStatusError', 'BadChordError', 'ValueError')


def shrink(case):
    d, p = case['input']['seq'], case['input']['p']
    for c in nsio.shrink_desc(d):
        yield {'op': case['op'], 'input': {'seq': c, 'p': p}}
    for k, v in sorted(p.items()):
        for small in ([0, 1] if isinstance(v, int) and not isinstance(v, bool) else [False] if isinstance(v, bool) else []):
            if k in ('qpm', 'render_instrument', 'default_velocity'):
                continue
            if v != small and not (k in ('max_shift_steps', 'max_shift_quarters', 'max_duration_steps', 'end_step',
                                         'num_velocity_bins') and small == 0):
                q = dict(p); q[k] = small
                yield {'op': case['op'], 'input': {'seq': d, 'p': q}}


META = {
    'level_text': ('Machine-checked theorems (Coq) about executable Gallina models of the seven from_quantized_sequence '
                   'extractors, for ALL quantized note lists and ALL parameter values: time shifts in 1..max and summing to '
                   'the elapsed steps; Performance and NotePerformance decode(encode) = the input notes as a multiset '
                   '(same-pitch notes non-overlapping); pianoroll frames = sounding in-range pitches minus split repeats; '
                   'drum events = struck pitches up to the gap; chord events = chord in force, coincident detection; '
                   'melody events = onset / note-off / no-event of the accepted notes from the bar of the first accepted '
                   'note.  Models are tied to /repo by a differential run on generated quantized sequences.'),
    'level_note': ('Trusted: Coq kernel; the hand-written models coq/Model/Fq*.v (tied by correspondence only); extraction; '
                   'the float step->seconds->step layer of to_sequence/quantize is exercised by the oracle, not modelled '
                   '(C06 owns it).  Models follow the code after notes/C07-fix-1..4.diff.'),
}
