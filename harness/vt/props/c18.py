"""C18 — frame pianorolls and note sequences convert back and forth without drift.

ops
  s2p   sequence_to_pianoroll on a generated NoteSequence and configuration
  p2s   pianoroll_to_note_sequence on a boolean matrix (+ optional onset / offset predictions)
  o2s   pianoroll_onsets_to_note_sequence
  grid  roll -> pianoroll_to_note_sequence -> sequence_to_pianoroll -> roll (the round trip)

Floats travel as float.hex() strings in cases and as exact (mantissa, exponent) pairs on the wire.
"""
import inspect
import math

import numpy as np

try:
    from absl import logging as _absl_logging
    _absl_logging.set_verbosity(_absl_logging.ERROR)
except Exception:  # noqa
    pass

from vt import coqgen as G
from vt.fl import me, unme, nextafter_n

ID = 'C18'
USE_VM = True
FPS = [8.0, 16.0, 31.25, 32.0, 50.0, 62.5, 100.0]
RULE = ('seeded structured generator: frame rates from the quantifier {8,16,31.25,32,50,62.5,100} (+10, 20), times on the '
        'frame grid (i*(1/fps), i/fps), a few ulps beside it and off the grid; all onset modes, delays, occupancies, blank '
        'frame, overlap; boolean matrices with run structure for the decoder with optional onset / offset predictions; '
        'non-trivial = at least one in-range note painted / one note decoded / one run round-tripped; distinct by canonical input')
ASSUMPTIONS = [
    'frame numbers and integer conversions stay below 2^53 (generated times are below 2^10 s)',
    'matrix cells are 0/1 (Python truthiness of the cell); velocity_values / _unscale_velocity are not modelled',
    'the float32 value of a velocity / weight cell is recomputed in the harness from the integer the model stores '
    '(np.float32(v / max_velocity), np.float32(onset_upweight / k))',
    'numpy slice assignment semantics (clamping, negative indices, broadcasting of a length-1 list) are modelled by hand',
]
TRUSTED = ['Flocq 4.1 (bridge from primitive floats to real-number rounding) for the float theorems']


def gen_coq():
    from note_seq import constants, sequences_lib
    sig = inspect.signature(sequences_lib.pianoroll_to_note_sequence)
    s = G.HEADER
    s += G.defz('MAX_MIDI_VELOCITY', constants.MAX_MIDI_VELOCITY)
    s += G.defz('MIN_MIDI_PITCH', constants.MIN_MIDI_PITCH)
    s += G.defz('MAX_MIDI_PITCH', constants.MAX_MIDI_PITCH)
    s += G.defz('ONSET_WINDOW', sequences_lib.ONSET_WINDOW)
    s += G.defz('DEFAULT_DECODE_VELOCITY', sig.parameters['velocity'].default)
    return s


# ---------------------------------------------------------------- helpers
def H(x):
    return float(x).hex()


def F(h):
    return float.fromhex(h)


def mask(row):
    m = 0
    for p, v in enumerate(row):
        if v:
            m |= 1 << p
    return m


def unmask(m, w):
    return [(m >> p) & 1 for p in range(w)]


def f32bits(x):
    return int(np.float32(x).view(np.uint32))


def normme(p):
    return me(unme(p))


def _exc(e):
    return ['EXC', type(e).__name__]


# ---------------------------------------------------------------- generators
def _time_near(rng, fps, i):
    """a time at / beside / off frame boundary i"""
    k = rng.random()
    fl = 1 / fps
    if k < 0.40:
        return i * fl
    if k < 0.55:
        return i / fps
    if k < 0.70:
        return max(0.0, nextafter_n(i * fl, rng.choice([-3, -2, -1, 1, 2, 3])))
    if k < 0.80:
        return round(i / fps, rng.choice([2, 3, 6]))
    return (i + rng.random()) / fps


def _gen_s2p(rng, tier):
    big = tier == 'thorough'
    fps = rng.choice(FPS + ([10.0, 20.0] if rng.random() < 0.15 else []))
    P = rng.randint(1, 6 if not big else 10)
    mn = rng.randint(20, 100)
    mx = mn + P - 1
    T = rng.randint(1, 24 if not big else 60)
    notes = []
    for _ in range(rng.randint(0, 5 if not big else 10)):
        a = rng.randint(0, T - 1)
        b = rng.randint(a, T) if rng.random() < 0.2 else rng.randint(a + 1, T)
        s = _time_near(rng, fps, a)
        e = _time_near(rng, fps, b)
        if e < s:
            s, e = e, s
        pitch = rng.randint(mn - 1, mx + 1) if rng.random() < 0.3 else rng.randint(mn, mx)
        vel = rng.randint(1, 127) if rng.random() < 0.8 else rng.choice([1, 127, 100, 64])
        notes.append([pitch, vel, H(s), H(e)])
    if notes and rng.random() < 0.3:          # equal start times: stable sort matters for velocities
        k = rng.randrange(len(notes))
        notes.append([notes[k][0], rng.randint(1, 127), notes[k][2], notes[k][3]])
    mxe = max([F(n[3]) for n in notes] + [0.0])
    r = rng.random()
    if r < 0.45:
        total = mxe
    elif r < 0.9:
        total = mxe + rng.choice([1 / fps, 0.5 / fps, rng.random()])
    elif r < 0.96:
        total = T * (1 / fps)
    else:
        total = mxe * rng.random()           # malformed: a note ends after total_time
    max_vel = 127 if rng.random() < 0.85 else rng.choice([100, 126, 64])
    plain = rng.random() < 0.35
    cfg = {
        'fps': H(fps), 'min_pitch': mn, 'max_pitch': mx, 'max_vel': max_vel, 'total': H(total),
        'occ': H(0.0 if plain or rng.random() < 0.5 else rng.choice([0.25, 0.5, 0.9, 1.0, rng.random()])),
        'blank': (not plain) and rng.random() < 0.25,
        'window': 3 if rng.random() < 0.5 else rng.randint(0, 4),
        'onset_len_ms': H(rng.choice([0, 10, 32, 100])),
        'offset_len_ms': H(rng.choice([0, 0, 10, 32, 100])),
        'mode': 'window' if plain or rng.random() < 0.55 else ('length_ms' if rng.random() < 0.95 else 'bogus'),
        'delay_ms': H(0.0 if rng.random() < 0.5 else rng.choice([-50, -32, -10, 10, 32, 50, 1000 / fps])),
        'overlap': plain or rng.random() < 0.75,
        'upweight': H(rng.choice([5.0, 5.0, 2.0])),
        # declared "currently unused": drawn at non-default values, must have no effect
        'min_vel': rng.choice([0, 0, 1, 20, 64, 127]),
    }
    if rng.random() < 0.18:
        # onsets moved before time 0: notes at / near time 0, delays -10 .. -200 ms, both onset modes, plain frames
        cfg['delay_ms'] = H(rng.choice([-10, -20, -32, -50, -100, -200]))
        cfg['occ'] = H(0.0)
        cfg['overlap'] = True if rng.random() < 0.8 else cfg['overlap']
        cfg['mode'] = rng.choice(['window', 'length_ms'])
        for _ in range(rng.randint(1, 2)):
            a0 = rng.choice([0, 0, 1, 2, 3])
            s0 = _time_near(rng, fps, a0)
            e0 = max(s0, _time_near(rng, fps, a0 + rng.randint(1, max(1, T - a0))))
            notes.append([rng.randint(mn, mx), rng.randint(1, min(127, max_vel)), H(s0), H(e0)])
        total = max(total, max(F(n_[3]) for n_ in notes))
        cfg['total'] = H(total)
    ccs = []
    for _ in range(rng.randint(0, 3) if rng.random() < 0.4 else 0):
        ccs.append([H(_time_near(rng, fps, rng.randint(0, T + 1))), rng.randint(0, 127), rng.randint(0, 127)])
    if ccs and rng.random() < 0.6:
        # several changes of one controller inside one frame, stored in any order: the latest in time wins
        t0, num, _ = ccs[0]
        for _ in range(rng.randint(1, 2)):
            ccs.append([H(F(t0) + rng.choice([0.0, 0.2, 0.4, 0.7]) / fps), num, rng.randint(0, 127)])
        rng.shuffle(ccs)
    return {'op': 's2p', 'input': {'cfg': cfg, 'notes': notes, 'ccs': ccs}}


def _gen_matrix(rng, T, P, density=None):
    """boolean matrix with run structure"""
    m = [[0] * P for _ in range(T)]
    style = rng.random()
    for p in range(P):
        if style < 0.6:
            i = 0
            on = rng.random() < 0.4
            while i < T:
                ln = rng.randint(1, max(1, T // 3))
                if on:
                    for j in range(i, min(T, i + ln)):
                        m[j][p] = 1
                i += ln
                on = not on
        else:
            d = density if density is not None else rng.choice([0.1, 0.5, 0.9])
            for i in range(T):
                m[i][p] = 1 if rng.random() < d else 0
    return m


def _gen_p2s(rng, tier):
    big = tier == 'thorough'
    fps = rng.choice(FPS + ([10.0, 20.0] if rng.random() < 0.15 else []))
    T = rng.randint(1, 20 if not big else 64)
    P = rng.randint(1, 5 if not big else 16)
    frames = _gen_matrix(rng, T, P)
    onsets = offsets = None
    r = rng.random()
    if r < 0.55:
        k = rng.random()
        if k < 0.5:      # onsets at (some) run starts plus noise
            onsets = [[0] * P for _ in range(T)]
            for p in range(P):
                for i in range(T):
                    st = frames[i][p] and (i == 0 or not frames[i - 1][p])
                    if (st and rng.random() < 0.8) or rng.random() < 0.1:
                        onsets[i][p] = 1
                        if rng.random() < 0.3 and i + 1 < T:
                            onsets[i + 1][p] = 1
        else:
            onsets = _gen_matrix(rng, T, P, density=0.25)
    if rng.random() < 0.35:
        offsets = _gen_matrix(rng, T, P, density=0.15)
    fl = 1 / fps
    md = rng.choice([0, 0, 0, 1000 * fl, 2000 * fl, 1500 * fl, 30, 100, 2 * fl * 1000 * (1 + 2 ** -52),
                     (3 * fl - 1 * fl) * 1000, (5 * fl - 2 * fl) * 1000])
    mmp = rng.choice([0, 1, 2, 3, 21, 60])
    if onsets is not None and rng.random() < 0.3:
        # small pitch offset, the top columns silent: a decoder that confuses absolute and relative pitch
        # columns reads another (existing) column instead of running off the matrix
        mmp = rng.randint(1, 2)
        if P <= mmp + 1:
            P = mmp + 2 + rng.randint(0, 2)
            frames = [r_[:P] + [0] * (P - len(r_)) for r_ in frames]
            onsets = [r_[:P] + [0] * (P - len(r_)) for r_ in onsets]
            if offsets is not None:
                offsets = [r_[:P] + [0] * (P - len(r_)) for r_ in offsets]
        for m_ in (frames, onsets) + ((offsets,) if offsets is not None else ()):
            for r_ in m_:
                for q in range(P - mmp, P):
                    r_[q] = 0
    vv = None
    if rng.random() < 0.35:
        vv = [[rng.randrange(len(VV_PALETTE)) for _ in range(P)] for _ in range(T)]
    return {'op': 'p2s', 'input': {'fps': H(fps), 'min_dur_ms': H(md), 'mmp': mmp, 'vv': vv, 'kw': _gen_meta(rng),
                                   'T': T, 'P': P, 'frames': [mask(r_) for r_ in frames],
                                   'onsets': None if onsets is None else [mask(r_) for r_ in onsets],
                                   'offsets': None if offsets is None else [mask(r_) for r_ in offsets]}}


VV_PALETTE = [0.0, 0.25, 0.5, 0.8, 1.0, 1.5]


def _gen_grid_on(rng, tier):
    """roll -> notes -> (active, onsets, onset_velocities) -> notes, non-default pitch offset; no model side"""
    fps = rng.choice([8.0, 16.0, 32.0])
    T = rng.randint(2, 24)
    P = rng.randint(1, 6)
    m = _gen_matrix(rng, T, P)
    mn = rng.choice([1, 2, 21, 60, 100])
    if rng.random() < 0.4:
        mn = rng.randint(1, 2)
        P = max(P, mn + 2)
        m = [(r_ + [0] * P)[:P] for r_ in m]
        for r_ in m:
            for q in range(P - mn, P):
                r_[q] = 0
    return {'op': 'grid_on', 'input': {'fps': H(fps), 'mn': mn, 'T': T, 'P': P,
                                       'frames': [mask(r_) for r_ in m], 'vel': rng.random() < 0.5}}


def _gen_meta(rng):
    """velocity / instrument / program / qpm / velocity_scale / velocity_bias, each drawn independently
    (None = leave the default)"""
    kw = {}
    if rng.random() < 0.5:
        kw['velocity'] = rng.choice([1, 30, 64, 100, 127])
    if rng.random() < 0.4:
        kw['instrument'] = rng.choice([1, 3, 9, 15])
    if rng.random() < 0.4:
        kw['program'] = rng.choice([1, 24, 56, 127])
    if rng.random() < 0.4:
        kw['qpm'] = rng.choice([60.0, 97.5, 200.0])
    if rng.random() < 0.4:
        kw['velocity_scale'] = rng.choice([127, 100, 40])
    if rng.random() < 0.4:
        kw['velocity_bias'] = rng.choice([0, 1, 27])
    return kw


def _gen_o2s(rng, tier):
    fps = rng.choice(FPS)
    T = rng.randint(1, 16)
    P = rng.randint(1, 5)
    m = _gen_matrix(rng, T, P, density=0.2)
    vv = [[rng.randrange(len(VV_PALETTE)) for _ in range(P)] for _ in range(T)] if rng.random() < 0.5 else None
    return {'op': 'o2s', 'input': {'fps': H(fps), 'dur': H(rng.choice([0.05, 0.05, 1 / fps, 0.0, 0.25])),
                                   'mmp': rng.choice([0, 1, 21, 60]), 'T': T, 'P': P, 'onsets': [mask(r_) for r_ in m],
                                   'vv': vv, 'kw': _gen_meta(rng)}}


def _gen_grid(rng, tier, fps=None):
    big = tier == 'thorough'
    fps = fps if fps is not None else rng.choice(FPS)
    T = rng.randint(1, 32 if not big else 64)
    P = rng.randint(1, 4 if not big else 16)
    m = _gen_matrix(rng, T, P)
    return {'op': 'grid', 'input': {'fps': H(fps), 'mn': rng.choice([0, 21, 60]), 'T': T, 'P': P,
                                    'frames': [mask(r_) for r_ in m]}}


def _exhaustive_p2s(T, with_on, with_off, fps=16.0):
    """every single-pitch column of T frames (x every onset / offset column)"""
    out = []
    for f in range(2 ** T):
        for o in (range(2 ** T) if with_on else [None]):
            for x in (range(2 ** T) if with_off else [None]):
                rows = lambda z: None if z is None else [(z >> i) & 1 for i in range(T)]
                out.append({'op': 'p2s', 'input': {'fps': H(fps), 'min_dur_ms': H(0), 'mmp': 21, 'T': T, 'P': 1,
                                                   'frames': rows(f), 'onsets': rows(o), 'offsets': rows(x)}})
    return out


def _exhaustive_grid(T, fps):
    return [{'op': 'grid', 'input': {'fps': H(fps), 'mn': 21, 'T': T, 'P': 1,
                                     'frames': [(f >> i) & 1 for i in range(T)]}} for f in range(2 ** T)]


def cases(rng, tier, n=None):
    thorough = tier == 'thorough'
    k = 1 if not thorough else 10
    if n is not None:
        ns = [n // 4] * 4
    else:
        ns = [400 * k, 350 * k, 100 * k, 300 * k]
    out = []
    out += [_gen_s2p(rng, tier) for _ in range(ns[0])]
    out += [_gen_p2s(rng, tier) for _ in range(ns[1])]
    out += [_gen_o2s(rng, tier) for _ in range(ns[2])]
    out += [_gen_grid(rng, tier) for _ in range(ns[3])]
    out += [_gen_grid_on(rng, tier) for _ in range((60 * k) if n is None else max(1, n // 8))]
    if n is None:
        # exhaustive small scopes of the decoder (every column, every prediction column)
        if thorough:
            for T in (1, 2, 3, 4):
                out += _exhaustive_p2s(T, True, True)
            out += _exhaustive_p2s(6, True, False)
            for T in range(1, 11):
                out += _exhaustive_p2s(T, False, False)
            for fps in FPS:
                out += _exhaustive_grid(8, fps)
        else:
            out += _exhaustive_p2s(1, True, True) + _exhaustive_p2s(2, True, True)
            out += _exhaustive_p2s(3, True, False) + _exhaustive_p2s(4, False, False)
    rng.shuffle(out)      # (B ii) different operations / configurations interleaved in one process
    return out


def corpus():
    out = []
    # F14 witnesses: one run whose start (29) / end (7) frame is not reproduced at 100 / 50 fps
    for fps, a, b in [(100.0, 29, 31), (100.0, 5, 7), (50.0, 29, 30), (62.5, 8, 9), (31.25, 12, 13),
                      (16.0, 29, 31), (8.0, 5, 7), (32.0, 28, 29)]:
        T = b + 2
        rows = [1 if a <= i < b else 0 for i in range(T)]
        out.append({'op': 'grid', 'input': {'fps': H(fps), 'mn': 21, 'T': T, 'P': 1, 'frames': rows}})
    # decoder boundary cases: run touching the last frame, run of length 1 at frame 0, empty matrix row
    out.append({'op': 'p2s', 'input': {'fps': H(16.0), 'min_dur_ms': H(0), 'mmp': 0, 'T': 3, 'P': 2,
                                       'frames': [1, 0, 3], 'onsets': None, 'offsets': None}})
    out.append({'op': 'p2s', 'input': {'fps': H(16.0), 'min_dur_ms': H(0), 'mmp': 0, 'T': 4, 'P': 1,
                                       'frames': [1, 1, 1, 1], 'onsets': [1, 0, 1, 1], 'offsets': [0, 1, 0, 0]}})
    out.append({'op': 'p2s', 'input': {'fps': H(32.0), 'min_dur_ms': H(1000 / 32 * 2), 'mmp': 21, 'T': 6, 'P': 1,
                                       'frames': [1, 0, 1, 1, 0, 1], 'onsets': None, 'offsets': None}})
    # rare legal shapes: empty sequence with total_time 0 (one row); a sequence with only out-of-range notes and an
    # unknown onset mode (nothing to reject); pitches / velocities exactly at the ends; zero-length note;
    # single-frame rolls; an offending velocity stored AFTER valid notes
    base = {'fps': H(16.0), 'min_pitch': 0, 'max_pitch': 1, 'max_vel': 127, 'total': H(0.0), 'occ': H(0.0), 'blank': False,
            'window': 1, 'onset_len_ms': H(0), 'offset_len_ms': H(0), 'mode': 'window', 'delay_ms': H(0.0), 'overlap': True,
            'upweight': H(5.0), 'min_vel': 0}
    out.append({'op': 's2p', 'input': {'cfg': dict(base), 'notes': [], 'ccs': []}})
    out.append({'op': 's2p', 'input': {'cfg': dict(base, mode='bogus', total=H(1.0)), 'notes': [[5, 80, H(0.0), H(0.5)]], 'ccs': []}})
    out.append({'op': 's2p', 'input': {'cfg': dict(base, total=H(1.0)), 'ccs': [[H(0.0), 0, 0], [H(1.0), 127, 127]],
                                       'notes': [[0, 1, H(0.0), H(0.0)], [1, 127, H(0.5), H(1.0)], [2, 64, H(0.0), H(1.0)]]}})
    out.append({'op': 's2p', 'input': {'cfg': dict(base, min_pitch=126, max_pitch=127, total=H(0.5), max_vel=64), 'ccs': [],
                                       'notes': [[127, 64, H(0.0), H(0.5)], [126, 1, H(0.25), H(0.5)], [126, 65, H(0.0), H(0.25)]]}})
    for T, P, f in [(1, 1, [1]), (1, 1, [0]), (1, 3, [5])]:
        out.append({'op': 'p2s', 'input': {'fps': H(16.0), 'min_dur_ms': H(0), 'mmp': 3, 'T': T, 'P': P, 'frames': f,
                                           'onsets': f, 'offsets': None, 'vv': None, 'kw': {'velocity': 1}}})
        out.append({'op': 'o2s', 'input': {'fps': H(16.0), 'dur': H(0.0), 'mmp': 127 - P + 1, 'T': T, 'P': P, 'onsets': f,
                                           'vv': None, 'kw': {}}})
        out.append({'op': 'grid', 'input': {'fps': H(16.0), 'mn': 127 - P + 1, 'T': T, 'P': P, 'frames': f}})
    return out


# ---------------------------------------------------------------- implementation
def _mat(masks, T, P):
    return np.array([unmask(m, P) for m in masks], dtype=np.float32).reshape(T, P)


def _seq(notes, total, ccs=()):
    from note_seq.protobuf import music_pb2
    seq = music_pb2.NoteSequence()
    for pitch, vel, s, e in notes:
        n = seq.notes.add()
        n.pitch, n.velocity, n.start_time, n.end_time = pitch, vel, F(s), F(e)
    for t, num, val in ccs:
        c = seq.control_changes.add()
        c.time, c.control_number, c.control_value = F(t), num, val
    seq.total_time = F(total)
    return seq


def _run_s2p(a):
    from note_seq import sequences_lib
    c = a['cfg']
    seq = _seq(a['notes'], c['total'], a['ccs'])
    return sequences_lib.sequence_to_pianoroll(
        seq, frames_per_second=F(c['fps']), min_pitch=c['min_pitch'], max_pitch=c['max_pitch'],
        max_velocity=c['max_vel'], add_blank_frame_before_onset=c['blank'], onset_upweight=F(c['upweight']),
        onset_window=c['window'], onset_length_ms=F(c['onset_len_ms']), offset_length_ms=F(c['offset_len_ms']),
        onset_mode=c['mode'], onset_delay_ms=F(c['delay_ms']), min_frame_occupancy_for_label=F(c['occ']),
        onset_overlap=c['overlap'], min_velocity=c.get('min_vel', 0)), seq


def _s2p_raises_pure(a, before):
    """(D) nothing is modified before raising: call again on a message we keep and compare its bytes"""
    from note_seq import sequences_lib
    c = a['cfg']
    seq = _seq(a['notes'], c['total'], a['ccs'])
    try:
        sequences_lib.sequence_to_pianoroll(
            seq, frames_per_second=F(c['fps']), min_pitch=c['min_pitch'], max_pitch=c['max_pitch'],
            max_velocity=c['max_vel'], add_blank_frame_before_onset=c['blank'], onset_upweight=F(c['upweight']),
            onset_window=c['window'], onset_length_ms=F(c['onset_len_ms']), offset_length_ms=F(c['offset_len_ms']),
            onset_mode=c['mode'], onset_delay_ms=F(c['delay_ms']), min_frame_occupancy_for_label=F(c['occ']),
            onset_overlap=c['overlap'])
    except (ValueError, IndexError):
        pass
    return seq.SerializeToString(deterministic=True) == before


def _meta(seq):
    return [sorted(set((int(n.instrument), int(n.program)) for n in seq.notes)),
            [float(t.qpm) for t in seq.tempos], int(seq.ticks_per_quarter)]


def _decode_twice(fn, arrays, args, kw):
    """(B) call a decoder twice on the same buffers; the buffers must be unchanged and both results equal"""
    copies = {k: np.array(v, copy=True) for k, v in arrays.items()}
    pos = arrays.pop('_first')
    seq = fn(pos, *args, **arrays, **kw)
    arrays['_first'] = pos
    unchanged = all(np.array_equal(arrays[k], copies[k]) and arrays[k].dtype == copies[k].dtype for k in arrays)
    pos = arrays.pop('_first')
    seq_b = fn(pos, *args, **arrays, **kw)
    same = seq.SerializeToString(deterministic=True) == seq_b.SerializeToString(deterministic=True)
    return seq, [bool(unchanged), bool(same)]


def _bits_rows(arr):
    return [[f32bits(x) for x in row] for row in arr]


FP_MOD = 2 ** 89 - 1


def fcode(x):
    """integer code of the exact bit pattern of a finite double (same as Run/C18.v fcode)"""
    if x == 0.0:
        return 2048
    fr, ex = math.frexp(x)
    m = int(fr * (1 << 53))
    e = ex - 53
    if e < -1074:                      # subnormal: SpecFloat keeps the exponent at -1074
        m >>= (-1074 - e)
        e = -1074
    return m * 4096 + (e + 2048)


def fingerprint(tot, notes):
    h = (1 * 1000003 + fcode(tot)) % FP_MOD
    for (_, s, e) in notes:
        h = (h * 1000003 + fcode(s)) % FP_MOD
        h = (h * 1000003 + fcode(e)) % FP_MOD
    return h


def _notes_out(seq, key):
    """canonical order = the order in which the loop emits: (end frame, pitch) for the run decoder,
    (frame, pitch) for the onset decoder; times are compared bit-exactly through a fingerprint."""
    ns = sorted(([int(n.pitch), n.start_time, n.end_time] for n in seq.notes), key=key)
    return [fingerprint(seq.total_time, ns), [n[0] for n in ns]]


def impl(case):
    from note_seq import sequences_lib
    op, a = case['op'], case['input']
    if op == 's2p':
        before = _seq(a['notes'], a['cfg']['total'], a['ccs']).SerializeToString(deterministic=True)
        try:
            r, seq = _run_s2p(a)
        except (ValueError, IndexError) as e:
            return _exc(e) + [_s2p_raises_pure(a, before)]
        pure = seq.SerializeToString(deterministic=True) == before          # (B iii) argument not modified
        # (B i, iii, iv) scribble on the returned buffers, call again on the same message, compare with saved copies
        saved = [np.array(x, copy=True) for x in r]
        for x in r:
            x[...] = 9
        r2, _ = _run_s2p(a)
        pure = pure and all(np.array_equal(x, y) and x.dtype == y.dtype for x, y in zip(saved, r2))
        r = type(r)(*saved)
        P = a['cfg']['max_pitch'] - a['cfg']['min_pitch'] + 1
        shapes = sorted(set(tuple(x.shape) for x in (r.active, r.weights, r.onsets, r.onset_velocities,
                                                      r.active_velocities, r.offsets)))
        # every roll has the same shape (rows x pitches), control_changes has the same number of rows
        shape_ok = (shapes == [(r.active.shape[0], P)] and tuple(r.control_changes.shape) == (r.active.shape[0], 128)
                    and set(np.unique(r.active)) <= {0.0, 1.0} and set(np.unique(r.onsets)) <= {0.0, 1.0}
                    and set(np.unique(r.offsets)) <= {0.0, 1.0}
                    and bool(np.array_equal(r.onset_velocities, r.active_velocities * r.onsets)))
        cc = sorted([int(i), int(j), int(r.control_changes[i, j])] for i, j in zip(*np.nonzero(r.control_changes)))
        return ['OK', int(r.active.shape[0]), [mask(x) for x in r.active], [mask(x) for x in r.onsets],
                [mask(x) for x in r.offsets], _bits_rows(r.active_velocities), _bits_rows(r.weights), cc, shape_ok, pure]
    if op == 'p2s':
        T, P = a['T'], a['P']
        kw = {}
        if a['onsets'] is not None:
            kw['onset_predictions'] = _mat(a['onsets'], T, P)
        if a['offsets'] is not None:
            kw['offset_predictions'] = _mat(a['offsets'], T, P)
        if a.get('vv') is not None:
            kw['velocity_values'] = _vvmat(a['vv'])
        arrays = dict(kw, _first=_mat(a['frames'], T, P))
        try:
            seq, flags = _decode_twice(sequences_lib.pianoroll_to_note_sequence, arrays,
                                       (F(a['fps']), F(a['min_dur_ms'])), dict(a.get('kw', {}), min_midi_pitch=a['mmp']))
        except Exception as e:  # noqa: the decoder has no documented exception on rectangular 0/1 input
            return _exc(e)
        return ['OK'] + _notes_out(seq, lambda n: (n[2], n[0])) + [_times(seq, True), flags, _meta(seq)]
    if op == 'grid_on':
        T, P, fps, mn = a['T'], a['P'], F(a['fps']), a['mn']
        try:
            seq1 = sequences_lib.pianoroll_to_note_sequence(_mat(a['frames'], T, P), fps, 0, min_midi_pitch=mn)
            pr = sequences_lib.sequence_to_pianoroll(seq1, fps, mn, mn + P - 1, onset_window=0)
            kw = {'velocity_values': pr.onset_velocities} if a['vel'] else {}
            seq2 = sequences_lib.pianoroll_to_note_sequence(pr.active, fps, 0, min_midi_pitch=mn,
                                                            onset_predictions=pr.onsets, **kw)
        except Exception as e:  # noqa
            return _exc(e)
        return ['OK', _times(seq1)[1], _times(seq2, True)[1]]
    if op == 'o2s':
        T, P = a['T'], a['P']
        arrays = {'_first': _mat(a['onsets'], T, P)}
        if a.get('vv') is not None:
            arrays['velocity_values'] = _vvmat(a['vv'])
        try:
            seq, flags = _decode_twice(sequences_lib.pianoroll_onsets_to_note_sequence, arrays, (F(a['fps']),),
                                       dict(a.get('kw', {}), note_duration_seconds=F(a['dur']), min_midi_pitch=a['mmp']))
        except Exception as e:  # noqa
            return _exc(e)
        return ['OK'] + _notes_out(seq, lambda n: (n[1], n[0])) + [_times(seq, True), flags, _meta(seq)]
    if op == 'grid':
        T, P, fps = a['T'], a['P'], F(a['fps'])
        seq = sequences_lib.pianoroll_to_note_sequence(_mat(a['frames'], T, P), fps, 0, min_midi_pitch=a['mn'])
        try:
            roll = sequences_lib.sequence_to_pianoroll(seq, fps, a['mn'], a['mn'] + P - 1).active
        except (ValueError, IndexError) as e:
            return _exc(e)
        return ['OK', int(roll.shape[0]), [mask(x) for x in roll], _inexact_frames(fps, T)]
    raise ValueError(op)


def _times(seq, with_velocity=False):
    """exact times (and velocities) for the oracle (not compared with the model, see equal())"""
    return [H(seq.total_time), sorted([int(n.pitch), H(n.start_time), H(n.end_time)] +
                                      ([int(n.velocity)] if with_velocity else []) for n in seq.notes)]


def _vvmat(vv):
    return np.array([[VV_PALETTE[k] for k in row] for row in vv], dtype=np.float32)


def equal(case, a, b):
    if case['op'] in ('p2s', 'o2s') and a[0] == 'OK' and b[0] == 'OK':
        return a[:3] == b[:3]
    return a == b


def _inexact_frames(fps, T):
    """frames i in 0..T whose time i*(1/fps) does not map back to frame i (IEEE double arithmetic)"""
    fl = 1 / fps
    return [i for i in range(T + 1) if int(i * fl * fps) != i or int(math.ceil(i * fl * fps)) != i]


# ---------------------------------------------------------------- model
MODES = {'window': 0, 'length_ms': 1}


def model_input(case):
    op, a = case['op'], case['input']
    if op == 's2p':
        c = a['cfg']
        cfg = [me(F(c['fps'])), me(F(c['occ'])), c['min_pitch'], c['max_pitch'], c['max_vel'], c['blank'], c['window'],
               me(F(c['onset_len_ms'])), me(F(c['offset_len_ms'])), MODES.get(c['mode'], 2), me(F(c['delay_ms'])),
               c['overlap'], me(F(c['total']))]
        notes = [[p, v, me(F(s)), me(F(e))] for p, v, s, e in a['notes']]
        ccs = [[me(F(t)), num, val] for t, num, val in a['ccs']]
        return [1, cfg, notes, ccs]
    if op == 'p2s':
        return [2, me(F(a['fps'])), me(F(a['min_dur_ms'])), a['mmp'], a['P'], a['frames'],
                [a['onsets']] if a['onsets'] is not None else [],
                [a['offsets']] if a['offsets'] is not None else []]
    if op == 'o2s':
        return [3, me(F(a['fps'])), me(F(a['dur'])), a['mmp'], a['P'], a['onsets']]
    if op == 'grid':
        return [4, me(F(a['fps'])), a['mn'], a['P'], a['frames']]


def _digits(z, w):
    out = []
    for _ in range(w):
        out.append(z % 256)
        z //= 256
    return out


ERR = {1: 'ValueError', 2: 'IndexError'}


def model_output(case, m):
    op, a = case['op'], case['input']
    if op == 's2p':
        if m[0] == -1000:
            return ['EXC', ERR.get(m[1], '?'), True]
        rows, act, ons, offs, vel, wts, cc = m[1]
        c = a['cfg']
        P = c['max_pitch'] - c['min_pitch'] + 1
        up = F(c['upweight'])
        velrows = [[f32bits(v / c['max_vel']) for v in _digits(z, P)] for z in vel]
        wrows = [[f32bits(1.0 if k == 0 else up / k) for k in _digits(z, P)] for z in wts]
        return ['OK', rows, act, ons, offs, velrows, wrows, sorted(cc), True, True]
    if op in ('p2s', 'o2s'):
        return ['OK', m[0], m[1]]
    if op == 'grid':
        rows, act, inexact = m
        return ['OK', rows, act, inexact]


# ---------------------------------------------------------------- oracle: the property on the implementation
def _unscale(v, scale, bias):
    """documented meaning of a predicted velocity: clip to [0, 1], scale, add the bias, truncate (NaN -> 0);
    written out here so that the expectation does not depend on note_seq's helper"""
    u = max(min(v, 1.), 0) * scale + bias
    if math.isnan(u):
        return 0
    return int(u)


# pianoroll_onsets_to_note_sequence documents `velocity` as the note velocity when velocity_values is None but
# returns _unscale_velocity(velocity) = scale + bias (90) for every velocity >= 1: candidate defect reported in
# notes/C18.md (fix: notes/C18-fix-3.diff).  Set to True once the fix is in /repo: the clause below then demands
# the documented value.
O2S_DEFAULT_VELOCITY_FIXED = False


def _meta_failure(a, io, op):
    kw = a.get('kw', {})
    flags, meta = io[4], io[5]
    if not flags[0]:
        return {'kind': 'argument-mutated', 'op': op}
    if not flags[1]:
        return {'kind': 'repeat-call-differs', 'op': op}
    pairs, qpms, tpq = meta
    want = [(kw.get('instrument', 0), kw.get('program', 0))]
    if pairs and [tuple(x) for x in pairs] != want:
        return {'kind': 'instrument-program', 'op': op, 'expected': want, 'got': pairs}
    if qpms != [kw.get('qpm', 120.0)] or tpq != 220:
        return {'kind': 'tempo-or-resolution', 'op': op, 'got': [qpms, tpq]}
    return None


def _runs(col):
    """maximal runs [a, b) of a 0/1 list"""
    out = []
    a = None
    for i, v in enumerate(list(col) + [0]):
        if v and a is None:
            a = i
        elif not v and a is not None:
            out.append((a, i)); a = None
    return out


def _expected_spans(f, o):
    """Declarative statement of the decoder for one pitch.  f = effective active cells (frames OR onsets,
    minus offsets), o = onset predictions or None.  A note starts exactly where g = f AND o rises (o = all
    ones without predictions), extends while f is active and no new start occurs, and ends there."""
    T = len(f)
    g = [bool(f[i]) and (o is None or bool(o[i])) for i in range(T)]
    start = [g[i] and not (i > 0 and g[i - 1]) for i in range(T)]
    if o is None:
        start = [bool(f[i]) and not (i > 0 and f[i - 1]) for i in range(T)]
    out = []
    for a in range(T):
        if start[a]:
            b = a + 1
            while b < T and f[b] and not start[b]:
                b += 1
            out.append((a, b))
    return out


def oracle(case, io):
    op, a = case['op'], case['input']
    if io[0] != 'OK':
        if op == 'grid':
            return {'kind': 'grid-roundtrip-raises', 'fps': F(a['fps']), 'exc': io[1]}
        if op == 'grid_on' and io[0] == 'EXC':
            return {'kind': 'onset-roundtrip-raises', 'fps': F(a['fps']), 'min_midi_pitch': a['mn'], 'exc': io[1]}
        if op == 'p2s' and io[0] == 'EXC':
            # rectangular 0/1 matrices of equal shape: the decoder must not raise
            return {'kind': 'decoder-raises', 'fps': F(a['fps']), 'min_midi_pitch': a['mmp'], 'exc': io[1],
                    'onsets': a['onsets'] is not None, 'velocity_values': a.get('vv') is not None}
        if op == 's2p' and io[0] == 'EXC' and not io[2]:
            return {'kind': 'argument-mutated', 'op': 's2p', 'when': 'before raising'}
        if op == 's2p' and io[0] == 'EXC' and io[1] != 'ValueError':
            c = a['cfg']
            inr = [n for n in a['notes'] if c['min_pitch'] <= n[0] <= c['max_pitch']]
            first = next((n for n in sorted(inr, key=lambda n: F(n[2]))), None)
            if inr and c['mode'] not in MODES:
                return {'kind': 'wrong-exception-class', 'expected': 'ValueError', 'got': io[1]}
        if op == 's2p' and io[0] == 'EXC':
            # a well-formed sequence in a plain configuration must convert: every velocity within max_velocity,
            # every note inside total_time, known onset mode, ANY onset delay, occupancy off, overlapping onsets
            c = a['cfg']
            tot = F(c['total'])
            inr = [n for n in a['notes'] if c['min_pitch'] <= n[0] <= c['max_pitch']]
            if (c['mode'] in MODES and F(c['occ']) == 0.0 and c['overlap']
                    and all(n[1] <= c['max_vel'] for n in inr)
                    and all(0 <= F(n[2]) <= F(n[3]) <= tot for n in inr)
                    and all(0 <= F(t) for t, _, _ in a['ccs'])):
                return {'kind': 'valid-sequence-rejected', 'fps': F(c['fps']), 'exc': io[1]}
        return None
    if op == 's2p':
        return _oracle_s2p(a, io)
    if op == 'p2s':
        T, P, fps = a['T'], a['P'], F(a['fps'])
        fl = 1 / fps
        md = F(a['min_dur_ms'])
        fr = [unmask(m, P) for m in a['frames']]
        on = None if a['onsets'] is None else [unmask(m, P) for m in a['onsets']]
        off = None if a['offsets'] is None else [unmask(m, P) for m in a['offsets']]
        kw_ = a.get('kw', {})
        vvm = None if a.get('vv') is None else _vvmat(a['vv'])
        exp = []
        for p in range(P):
            f = [bool(fr[i][p]) or (on is not None and bool(on[i][p])) for i in range(T)]
            if off is not None:
                f = [f[i] and not off[i][p] for i in range(T)]
            o = None if on is None else [on[i][p] for i in range(T)]
            for (s, e) in _expected_spans(f, o):
                st, et = s * fl, e * fl
                if (et - st) * 1000 >= md:
                    # velocity: the default 70, or the value predicted for this pitch in the note's first frame
                    # (velocity_values are only read together with onset predictions)
                    vel = kw_.get('velocity', 70)
                    if vvm is not None and on is not None:
                        vel = _unscale(vvm[s, p], kw_.get('velocity_scale', 80), kw_.get('velocity_bias', 10))
                    exp.append([p + a['mmp'], H(st), H(et), int(vel)])
        exp.sort()
        tot, got = io[3]
        if got != exp:
            missing = [x for x in exp if x not in got]
            extra = [x for x in got if x not in exp]
            if [x[:3] for x in got] == [x[:3] for x in exp]:
                return {'kind': 'decoder-velocity-mismatch', 'fps': fps, 'min_midi_pitch': a['mmp'],
                        'expected': [x for x in exp if x not in got][:3], 'got': extra[:3]}
            return {'kind': 'decoder-runs-mismatch', 'fps': fps, 'onsets': on is not None, 'offsets': off is not None,
                    'min_midi_pitch': a['mmp'],
                    'missing': [[x[0], F(x[1]), F(x[2])] for x in missing[:3]],
                    'extra': [[x[0], F(x[1]), F(x[2])] for x in extra[:3]]}
        if F(tot) != (T + 1) * fl:
            return {'kind': 'decoder-total-time', 'fps': fps, 'got': F(tot)}
        return _meta_failure(a, io, op)
    if op == 'o2s':
        T, P, fps = a['T'], a['P'], F(a['fps'])
        fl = 1 / fps
        dur = F(a['dur'])
        kw_ = a.get('kw', {})
        vvm = None if a.get('vv') is None else _vvmat(a['vv'])
        tot, got = io[3]
        exp = []
        for i in range(T):
            for p in range(P):
                if (a['onsets'][i] >> p) & 1:
                    if vvm is not None:
                        vel = _unscale(vvm[i, p], kw_.get('velocity_scale', 80), kw_.get('velocity_bias', 10))
                    elif O2S_DEFAULT_VELOCITY_FIXED:
                        vel = kw_.get('velocity', 70)
                    else:
                        vel = None      # see O2S_DEFAULT_VELOCITY_FIXED
                    exp.append([p + a['mmp'], H(i * fl), H(i * fl + dur), vel])
        exp.sort(key=lambda x: x[:3])
        if [x[:3] for x in got] != [x[:3] for x in exp]:
            return {'kind': 'onset-decoder-mismatch', 'fps': fps, 'min_midi_pitch': a['mmp']}
        for g, e in zip(got, exp):
            if e[3] is not None and g[3] != e[3]:
                return {'kind': 'onset-decoder-velocity', 'fps': fps, 'expected': e, 'got': g}
        if F(tot) != T * fl + dur:
            return {'kind': 'onset-decoder-total-time', 'fps': fps}
        return _meta_failure(a, io, op)
    if op == 'grid':
        return _oracle_grid(a, io)
    if op == 'grid_on':
        # power-of-two frame rate, onset window 0: decoding the re-encoded roll with its own onsets roll as onset
        # predictions (and its onset velocities) gives back the same notes
        n1, n2 = io[1], io[2]
        if [x[:3] for x in n2] != n1:
            return {'kind': 'onset-roundtrip-notes', 'fps': F(a['fps']), 'min_midi_pitch': a['mn'],
                    'expected': len(n1), 'got': len(n2),
                    'missing': [[x[0], F(x[1]), F(x[2])] for x in n1 if x not in [y[:3] for y in n2]][:3]}
        want = _unscale(np.float32(70 / 127.), 80, 10) if a['vel'] else 70
        if any(x[3] != want for x in n2):
            return {'kind': 'onset-roundtrip-velocity', 'fps': F(a['fps']), 'min_midi_pitch': a['mn'], 'expected': want}
        return None


def _oracle_grid(a, io):
    """roll(notes(roll)) = roll (up to trailing silent rows)"""
    T, P, fps = a['T'], a['P'], F(a['fps'])
    fl = 1 / fps
    rows, act = io[1], io[2]
    orig = [unmask(m, P) for m in a['frames']]
    got = [unmask(m, P) for m in act]
    if rows < T:
        return {'kind': 'grid-roundtrip-rows-lost', 'fps': fps, 'rows': rows, 'T': T}
    bad = []
    for i in range(rows):
        for p in range(P):
            o = orig[i][p] if i < T else 0
            if got[i][p] != o:
                bad.append((i, p, o, got[i][p]))
    if not bad:
        return None
    # Is every wrong cell explained by inexact frame arithmetic at the adjacent run boundary (finding F14)?
    confined = True
    for (i, p, o, g) in bad:
        col = [orig[j][p] for j in range(T)]
        runs = _runs(col)
        starts = set(s for s, _ in runs)
        ends = set(e for _, e in runs)
        early_start = (i + 1) in starts and int((i + 1) * fl * fps) == i
        late_end = i in ends and int(math.ceil(i * fl * fps)) == i + 1
        if not (o == 0 and g == 1 and (early_start or late_end)):
            confined = False
    i, p, o, g = bad[0]
    return {'kind': 'grid-roundtrip-drift', 'fps': fps, 'confined_to_inexact_frames': confined,
            'first_wrong_cell': [i, p], 'expected': o, 'got': g, 'wrong_cells': len(bad),
            'inexact_frames': _inexact_frames(fps, T)[:8]}


def _oracle_s2p(a, io):
    c = a['cfg']
    fps, total = F(c['fps']), F(c['total'])
    mn, mx = c['min_pitch'], c['max_pitch']
    P = mx - mn + 1
    rows = io[1]
    if not io[8]:
        return {'kind': 'roll-shapes-inconsistent', 'fps': fps}
    if not io[9]:
        return {'kind': 'argument-mutated-or-repeat-call-differs', 'op': 's2p'}
    # (D) rejection paths: a velocity above max_velocity on ANY in-range note, or an unknown onset mode with at
    # least one in-range note, must raise ValueError (checked here because the call returned normally)
    inr = [n for n in a['notes'] if c['min_pitch'] <= n[0] <= c['max_pitch']]
    if any(n[1] > c['max_vel'] for n in inr):
        return {'kind': 'missing-rejection', 'what': 'velocity above max_velocity', 'fps': fps}
    if inr and c['mode'] not in MODES:
        return {'kind': 'missing-rejection', 'what': 'unknown onset mode', 'fps': fps}
    if rows != int(total * fps + 1):
        return {'kind': 'roll-length', 'fps': fps, 'rows': rows, 'expected': int(total * fps + 1)}
    notes = [(p, v, F(s), F(e)) for p, v, s, e in a['notes'] if mn <= p <= mx]
    act = [unmask(m, P) for m in io[2]]
    ons = [unmask(m, P) for m in io[3]]
    plain_frames = F(c['occ']) == 0.0 and c['overlap'] and not c['blank']
    if plain_frames:
        exp = [[0] * P for _ in range(rows)]
        cover = {}
        for (p, v, s, e) in notes:
            sf = int(math.floor(s * fps))
            ef = max(sf + 1, int(math.ceil(e * fps)))
            for i in range(max(sf, 0), min(ef, rows)):
                exp[i][p - mn] = 1
                cover.setdefault((i, p - mn), set()).add(f32bits(v / c['max_vel']))
        if exp != act:
            d = [(i, p) for i in range(rows) for p in range(P) if exp[i][p] != act[i][p]][0]
            return {'kind': 'active-frames', 'fps': fps, 'cell': list(d), 'expected': exp[d[0]][d[1]]}
        vel = io[5]
        one = f32bits(1.0)
        for i in range(rows):
            for p in range(P):
                if act[i][p]:
                    if vel[i][p] not in cover[(i, p)] or not (0 < vel[i][p] <= one):
                        return {'kind': 'active-velocity', 'fps': fps, 'cell': [i, p]}
                elif vel[i][p] != 0:
                    return {'kind': 'velocity-outside-note', 'fps': fps, 'cell': [i, p]}
    if F(c['occ']) == 0.0 and c['mode'] == 'window':
        d = F(c['delay_ms']) / 1000.
        w = c['window']
        exp = [[0] * P for _ in range(rows)]
        for (p, v, s, e) in notes:
            f = int((s + d) * fps)
            for i in range(max(0, f - w), min(rows, f + w + 1)):
                exp[i][p - mn] = 1
        if exp != ons:
            return {'kind': 'onset-window', 'fps': fps, 'delay_ms': F(c['delay_ms'])}
    if F(c['occ']) == 0.0 and c['mode'] == 'length_ms':
        # [int(t0*fps), max(+1, ceil(min(t1, t0 + length/1000)*fps))) intersected with the roll
        d = F(c['delay_ms']) / 1000.
        ln = F(c['onset_len_ms']) / 1000.
        exp = [[0] * P for _ in range(rows)]
        for (p, v, s, e) in notes:
            t0, t1 = s + d, e + d
            sf = int(t0 * fps)
            ef = max(sf + 1, int(math.ceil(min(t1, t0 + ln) * fps)))
            for i in range(max(0, sf), min(rows, ef)):
                exp[i][p - mn] = 1
        if exp != ons:
            return {'kind': 'onset-length', 'fps': fps, 'delay_ms': F(c['delay_ms'])}
    if F(c['occ']) == 0.0:
        # offsets: [int(t*fps), max(+1, ceil((t + length/1000)*fps))) with t = min(end, total - length/1000)
        ol = F(c['offset_len_ms']) / 1000.
        exp = [[0] * P for _ in range(rows)]
        neg = False
        for (p, v, s, e) in notes:
            t = min(e, total - ol)
            sf = int(t * fps)
            ef = max(sf + 1, int(math.ceil((t + ol) * fps)))
            neg = neg or sf < 0 or t < 0
            for i in range(max(sf, 0), min(ef, rows)):
                exp[i][p - mn] = 1
        if not neg and exp != [unmask(m, P) for m in io[4]]:
            return {'kind': 'offset-frames', 'fps': fps}
        # control changes: value + 1 in frame int(time*fps), the latest change of a frame wins
        cc = {}
        for t, num, val in sorted(((F(t), num, val) for t, num, val in a['ccs']), key=lambda x: x[0]):
            fr = int(t * fps)
            if 0 <= fr < rows:
                cc[(fr, num)] = val + 1
        if all(F(t) >= 0 for t, _, _ in a['ccs']) and \
                sorted([k[0], k[1], v] for k, v in cc.items() if v) != io[7]:
            return {'kind': 'control-change-frames', 'fps': fps}
    # at least one frame per in-range note that starts inside the roll
    if c['overlap'] and not c['blank']:
        for (p, v, s, e) in notes:
            if 0 <= s and int(s * fps) + 1 < rows and not any(act[i][p - mn] for i in range(rows)):
                return {'kind': 'note-without-frame', 'fps': fps, 'pitch': p}
    return None


def nontrivial(case, io):
    op, a = case['op'], case['input']
    if io[0] != 'OK':
        return False
    if op == 's2p':
        return any(io[2])
    if op in ('p2s', 'o2s'):
        return len(io[2]) > 0
    if op in ('grid', 'grid_on'):
        return any(a['frames'])
    return False


# ---------------------------------------------------------------- shrinking
def shrink(case):
    op, a = case['op'], case['input']
    if op == 's2p':
        for k in range(len(a['notes'])):
            yield {'op': op, 'input': dict(a, notes=a['notes'][:k] + a['notes'][k + 1:])}
        for k in range(len(a['ccs'])):
            yield {'op': op, 'input': dict(a, ccs=a['ccs'][:k] + a['ccs'][k + 1:])}
        return
    key = 'onsets' if op == 'o2s' else 'frames'
    T, P = a['T'], a['P']
    rows = a[key]
    if P > 1:            # keep a single column
        for p in range(P):
            b = dict(a, P=1)
            for k in ('frames', 'onsets', 'offsets'):
                if b.get(k) is not None:
                    b[k] = [(m >> p) & 1 for m in b[k]]
            yield {'op': op, 'input': b}
    if T > 1:            # drop the last row
        b = dict(a, T=T - 1)
        for k in ('frames', 'onsets', 'offsets'):
            if b.get(k) is not None:
                b[k] = b[k][:-1]
        yield {'op': op, 'input': b}
    for i in range(T):   # clear one cell
        for p in range(P):
            if (rows[i] >> p) & 1:
                r2 = list(rows)
                r2[i] &= ~(1 << p)
                yield {'op': op, 'input': dict(a, **{key: r2})}


META = {
    'level_text': ('Theorems for ALL inputs about a bit-exact Gallina model (PrimFloat) of the three conversion functions: '
                   'frames_from_times basics (at least one frame; floor / ceil; bounds under any occupancy; monotone in the time; '
                   'Flocq); the run-length decoder characterised for every rectangular matrix and every onset / offset prediction '
                   '(each declarative note span emitted exactly once, nothing else; maximal runs without predictions; only notes '
                   'failing the float minimum-duration test are dropped; onset decoder one note per cell) by induction over the '
                   'frames; roll -> notes -> roll is the identity under the explicit boolean premise that frame index arithmetic '
                   'is exact at every run boundary (and conversely notes -> roll -> notes for separated grid notes), and that premise is '
                   'proved for every power-of-two frame rate (8, 16, 32); the active roll of sequence_to_pianoroll is characterised '
                   'cell by cell for any note list. '
                   'The unconditional round trip is refuted for 100 fps (known finding F14: 31.25, 50, 62.5, 100 fps).'),
    'level_note': ('Trusted: Coq kernel + vm_compute, Flocq 4.1, stdlib Reals / FloatAxioms; the hand-written model '
                   'Model/FramesRoll.v tied to note_seq by a differential run (~1300 quick / ~24000 thorough cases, floats '
                   'bit-exact, decoded times via a fingerprint of their bit patterns); numpy slice-assignment semantics and the '
                   'float32 cast of velocity / weight cells are modelled by hand / recomputed in the harness. velocity_values, '
                   'non-0/1 cells, weights / onset / offset rolls and control changes have no theorem.'),
}
