"""C08 — decoding the labels an encoder produced reconstructs the event sequence."""
from vt import coqgen as G

ID = 'C08'


def gen_coq():
    from note_seq import constants, performance_encoder_decoder as ped, performance_lib as pl
    s = G.HEADER
    s += G.defz('K_NO_EVENT', constants.MELODY_NO_EVENT)
    s += G.defz('K_NOTE_OFF', constants.MELODY_NOTE_OFF)
    s += G.defz('K_NUM_SPECIAL', constants.NUM_SPECIAL_MELODY_EVENTS)
    s += G.defz('K_MIN_MELODY_EVENT', constants.MIN_MELODY_EVENT)
    s += G.defz('K_MAX_MELODY_EVENT', constants.MAX_MELODY_EVENT)
    s += G.defz('K_MIN_MIDI_PITCH', constants.MIN_MIDI_PITCH)
    s += G.defz('K_NOTES_PER_OCTAVE', constants.NOTES_PER_OCTAVE)
    s += G.defz('K_STEPS_PER_BAR', constants.DEFAULT_STEPS_PER_BAR)
    s += G.defzlistlist('K_NOTE_KEYS', constants.NOTE_KEYS)
    rs = ped.MODULO_EVENT_RANGES
    for r in rs:
        if len(r) != 4:
            raise TypeError('MODULO_EVENT_RANGES row is not a 4-tuple: %r' % (r,))
    s += ('Definition K_MODULO_EVENT_RANGES : list (Z * Z * Z * Z) :=\n  [' +
          '; '.join('(%s, %s, %s, %s)' % tuple(G.z(x) for x in r) for r in rs) + '].\n')
    s += G.defz('K_MODULO_TIME_SHIFT_WIDTH', ped.MODULO_TIME_SHIFT_ENCODER_WIDTH)
    s += G.defz('K_MODULO_VELOCITY_WIDTH', ped.MODULO_VELOCITY_ENCODER_WIDTH)
    s += G.defz('K_PERF_MIN_PITCH', pl.MIN_MIDI_PITCH)
    s += G.defz('K_PERF_MAX_PITCH', pl.MAX_MIDI_PITCH)
    return s
