"""C08 — decoding the labels an encoder produced reconstructs the event sequence.

Every sequence op drives one real EventSequenceEncoderDecoder object and returns the bundle
  [input_size, num_classes, default_event_label, inputs@ps, labels@ps, decode(label p, events[:p])@ps, encode(events),
   generation loop over the given labels from [], labels_to_num_steps(labels)]
An entry that raises is [] (any exception class), a value is [value].  Input vectors are canonicalised to
[len, [[index, value] for the non-zero entries]].
"""
import itertools
import math

from vt import coqgen as G

ID = 'C08'
RULE = ('(encoder configuration, event sequence, positions, label sequence) tuples: random sequences up to length 100 '
        'with repeats planted at the lookback distances, lookback lists sorted / unsorted / with duplicates / longer than '
        'the sequence / empty, counter widths 0..8, pitch ranges, velocity bins, shift limits; every sequence over a '
        '3-symbol alphabet up to length 4 (quick) / 8 (thorough) with every duplicate-free lookback list over {1,2,3}; '
        'a stream with invalid events / out-of-range labels / out-of-range positions for the error branches. '
        'non-trivial = at least 2 events and at least one label that is produced and decoded; distinct by canonical input')
ASSUMPTIONS = ['lookback distances are positive integers (0 and negative distances are modelled as Python behaves but '
               'are outside the property)',
               'events are values the wrapped one-hot encoding accepts (others take the error branch, which is compared '
               'but not claimed)',
               'cos/sin entries of the modulo-performance input are rebuilt in the harness from the modelled layout '
               '(table, row) with the formulas of PerformanceModuloEncoding.__init__ and compared bit-exactly',
               'the model follows note_seq with the two C08 fixes (notes/C08-fix-1.diff, notes/C08-fix-2.diff; committed to /repo)',
               'OptionalEventSequenceEncoder / MultipleEventSequenceEncoder (op wrappers) are checked on the implementation only']
EXHAUSTIVE = {'quick': False, 'thorough': True}
# ConditionalEventSequenceEncoderDecoder.get_inputs_batch builds its "different number of sequences" message with
# len(a, len(b)) and so raises TypeError instead of the documented ValueError (notes/C08-fix-3.diff).  The clause that
# demands ValueError there is switched on once that fix is in /repo (it is outside C08's statement, which speaks about
# labels, inputs, encode and the generation loop; reported as a separate defect).
CHECK_CONDITIONAL_BATCH_COUNT_ERROR = False
# ConditionalEventSequenceEncoderDecoder.events_to_input joins the two vectors with `+`; when the target (or control)
# returns a numpy array (NotePerformance, Pianoroll) that is numpy addition: ValueError for different sizes, a silent
# element-wise SUM for equal sizes (notes/C08-fix-4.diff).  The input / encode clauses for such targets are switched
# on once that fix is in /repo; labels, decoding, generation and labels_to_num_steps are checked regardless.
CHECK_CONDITIONAL_ARRAY_INPUTS = True

NO_EVENT, NOTE_OFF = -2, -1
T_ON, T_OFF, T_SHIFT, T_VEL, T_DUR = 1, 2, 3, 4, 5

OPS = {'onehot_mel': 1, 'onehotidx_mel': 2, 'lookback_mel': 3, 'keymelody': 4, 'onehot_perf': 5,
       'lookback_perf': 6, 'modulo_perf': 7, 'noteperf': 8, 'pianoroll': 9, 'conditional': 10, 'noteperf_cfg': 11}


# ---------------------------------------------------------------- regenerated constants
def gen_coq():
    from note_seq import constants, performance_encoder_decoder as ped, performance_lib as pl
    s = G.HEADER
    s += G.defz('K_NO_EVENT', constants.MELODY_NO_EVENT)
    s += G.defz('K_NOTE_OFF', constants.MELODY_NOTE_OFF)
    s += G.defz('K_NUM_SPECIAL', constants.NUM_SPECIAL_MELODY_EVENTS)
    s += G.defz('K_MIN_MELODY_EVENT', constants.MIN_MELODY_EVENT)
    s += G.defz('K_MAX_MELODY_EVENT', constants.MAX_MELODY_EVENT)
    s += G.defz('K_MIN_MIDI_PITCH', constants.MIN_MIDI_PITCH)
    s += G.defz('K_NOTES_PER_OCTAVE', constants.NOTES_PER_OCTAVE)
    s += G.defz('K_STEPS_PER_BAR', constants.DEFAULT_STEPS_PER_BAR)
    s += G.defzlistlist('K_NOTE_KEYS', constants.NOTE_KEYS)
    rs = ped.MODULO_EVENT_RANGES
    for r in rs:
        if len(r) != 4:
            raise TypeError('MODULO_EVENT_RANGES row is not a 4-tuple: %r' % (r,))
    s += ('Definition K_MODULO_EVENT_RANGES : list (Z * Z * Z * Z) :=\n  [' +
          '; '.join('(%s, %s, %s, %s)' % tuple(G.z(x) for x in r) for r in rs) + '].\n')
    s += G.defz('K_MODULO_TIME_SHIFT_WIDTH', ped.MODULO_TIME_SHIFT_ENCODER_WIDTH)
    s += G.defz('K_MODULO_VELOCITY_WIDTH', ped.MODULO_VELOCITY_ENCODER_WIDTH)
    s += G.defz('K_PERF_MIN_PITCH', pl.MIN_MIDI_PITCH)
    s += G.defz('K_PERF_MAX_PITCH', pl.MAX_MIDI_PITCH)
    s += G.defz('K_MAX_NUM_VELOCITY_BINS', pl.MAX_NUM_VELOCITY_BINS)
    return s


# ---------------------------------------------------------------- helpers
def _opt(f):
    try:
        return [f()]
    except Exception:  # noqa  (the model has one error value; the class is not compared)
        return []


def _vec(v):
    out = []
    for i, x in enumerate(v):
        if isinstance(x, int):
            if x != 0:
                out.append([i, x])
            continue
        x = float(x)
        if x == 0.0:
            continue
        out.append([i, int(x)] if x == int(x) else [i, x.hex()])
    return [len(v), out]


def _dense(sv):
    n, nz = sv
    v = [0] * n
    for i, x in nz:
        v[i] = x
    return v


def _pe(e):
    from note_seq.performance_lib import PerformanceEvent
    return PerformanceEvent(event_type=e[0], event_value=e[1])


def _pe_out(e):
    return [e.event_type, e.event_value]


def _npe(e):
    return tuple(_pe(x) for x in e)


def _npe_out(e):
    return [_pe_out(x) for x in e]


def _int_label(l):
    if not isinstance(l, int):          # 2 ** negative pitch is a float: outside the integer label space
        raise TypeError('non-integer label')
    return l


class _H(object):
    """One real encoder object plus the codecs between wire events/labels and Python ones."""

    def __init__(self, ed, ncls, ev_in=lambda e: e, ev_out=lambda e: e, lab_in=lambda l: l, lab_out=lambda l: l):
        self.ed, self.ncls, self.ev_in, self.ev_out, self.lab_in, self.lab_out = ed, ncls, ev_in, ev_out, lab_in, lab_out


# Documented defaults of the constructor arguments (signature / docstring), used when a case leaves an argument out
# (None in the case's cfg): the expectation is derived from these REQUESTED values, never read back from the object.
DEFAULT_LOOKBACKS = [16, 32]            # "default lookback distances": one and two bars of DEFAULT_STEPS_PER_BAR
DEFAULTS = {
    'lookback_mel': {'ds': DEFAULT_LOOKBACKS, 'bits': 5},
    'lookback_perf': {'ds': DEFAULT_LOOKBACKS, 'bits': 5, 'nb': 0, 'ms': 100, 'minp': 0, 'maxp': 127},
    'keymelody': {'ds': DEFAULT_LOOKBACKS, 'bits': 7},
    'onehot_perf': {'nb': 0, 'ms': 100, 'minp': 0, 'maxp': 127},
    'modulo_perf': {'nb': 0, 'ms': 100},
    'noteperf': {'msh': 1000, 'mdu': 1000, 'minp': 0, 'maxp': 127},
    'noteperf_cfg': {'msh': 1000, 'mdu': 1000, 'minp': 0, 'maxp': 127},
    'pianoroll': {'size': 88},
    'conditional': {'ds': DEFAULT_LOOKBACKS, 'bits': 5},
    'wrappers': {'ds': DEFAULT_LOOKBACKS, 'bits': 5},
}


def _eff_case(case):
    """The case with every omitted (None) constructor argument replaced by its documented default; the names of the
    omitted arguments are kept in cfg['_none'] so that the real constructor is called WITHOUT them."""
    op, a = case['op'], case['input']
    c = a['cfg']
    if '_none' in c:
        return case
    none = sorted(k for k, v in c.items() if v is None)
    c2 = dict(c)
    for k in none:
        v = DEFAULTS[op][k]
        c2[k] = list(v) if isinstance(v, list) else v
    c2['_none'] = none
    return {'op': op, 'input': dict(a, cfg=c2)}


def _kw(c, **names):
    """keyword arguments for the real constructor: only those the case specifies."""
    out = {}
    for arg, key in names.items():
        if key in c and key not in c.get('_none', ()):
            v = c[key]
            out[arg] = list(v) if isinstance(v, list) else v
    return out


def _handle(op, c):
    from note_seq import encoder_decoder as ed, melody_encoder_decoder as med
    from note_seq import performance_encoder_decoder as ped, pianoroll_encoder_decoder as pred
    perf = lambda: ped.PerformanceOneHotEncoding(**_kw(c, num_velocity_bins='nb', max_shift_steps='ms',
                                                       min_pitch='minp', max_pitch='maxp'))
    lbkw = _kw(c, lookback_distances='ds', binary_counter_bits='bits')
    ds_req = list(lbkw['lookback_distances']) if 'lookback_distances' in lbkw else None
    if op == 'onehot_mel':
        e = ed.OneHotEventSequenceEncoderDecoder(med.MelodyOneHotEncoding(c['mn'], c['mx']))
        h = _H(e, e.num_classes)
    elif op == 'onehotidx_mel':
        e = ed.OneHotIndexEventSequenceEncoderDecoder(med.MelodyOneHotEncoding(c['mn'], c['mx']))
        h = _H(e, e.num_classes)
    elif op == 'lookback_mel':
        e = ed.LookbackEventSequenceEncoderDecoder(med.MelodyOneHotEncoding(c['mn'], c['mx']), **lbkw)
        h = _H(e, e.num_classes)
    elif op == 'keymelody':
        e = med.KeyMelodyEncoderDecoder(c['mn'], c['mx'], **lbkw)
        h = _H(e, e.num_classes)
    elif op == 'onehot_perf':
        e = ed.OneHotEventSequenceEncoderDecoder(perf())
        h = _H(e, e.num_classes, _pe, _pe_out)
    elif op == 'lookback_perf':
        e = ed.LookbackEventSequenceEncoderDecoder(perf(), **lbkw)
        h = _H(e, e.num_classes, _pe, _pe_out)
    elif op == 'modulo_perf':
        e = ped.ModuloPerformanceEventSequenceEncoderDecoder(**_kw(c, num_velocity_bins='nb', max_shift_steps='ms'))
        h = _H(e, e.num_classes, _pe, _pe_out)
    elif op == 'noteperf':
        e = ped.NotePerformanceEventSequenceEncoderDecoder(c['nvb'], **_kw(c, max_shift_steps='msh', max_duration_steps='mdu',
                                                                           min_pitch='minp', max_pitch='maxp'))
        h = _H(e, list(e.num_classes), _npe, _npe_out, tuple, list)
    elif op == 'pianoroll':
        e = pred.PianorollEncoderDecoder(**_kw(c, input_size='size'))
        h = _H(e, e.num_classes, tuple, list, lab_out=_int_label)
    else:
        raise ValueError(op)
    h.ds_arg = lbkw.get('lookback_distances')       # the very list object handed to the constructor
    h.ds_req = ds_req
    return h


def _cls(f):
    try:
        f()
        return None
    except Exception as ex:  # noqa
        return type(ex).__name__


_ALIVE = []          # earlier encoder objects kept alive and re-observed after later operations


def _bundle(h, es_w, ps, ls_w, extra, as_melody=False):
    e = h.ed
    es = [h.ev_in(x) for x in es_w]
    if as_melody:
        from note_seq import melodies_lib
        es = melodies_lib.Melody(es)          # the documented argument type of KeyMelodyEncoderDecoder
    es_before = list(es)
    ls = [h.lab_in(x) for x in ls_w]
    out = [e.input_size, h.ncls, _opt(lambda: h.lab_out(e.default_event_label))]
    out.append([_opt(lambda: _vec(e.events_to_input(es, p))) for p in ps])
    labs = [_opt(lambda: e.events_to_label(es, p)) for p in ps]
    labs = [l if l and _opt(lambda: h.lab_out(l[0])) else [] for l in labs]
    out.append([[h.lab_out(l[0])] if l else [] for l in labs])
    dec = []
    for p, l in zip(ps, labs):
        if 0 <= p < len(es) and l:
            dec.append(_opt(lambda: h.ev_out(e.class_index_to_event(l[0], list(es)[:p]))))
        else:
            dec.append([])
    out.append(dec)

    def enc():
        ins, labels = e.encode(es)
        return [[_vec(v) for v in ins], [h.lab_out(l) for l in labels]]
    out.append(_opt(enc))

    def gen():
        evs = []
        for l in ls:
            evs.append(e.class_index_to_event(l, evs))
        return [h.ev_out(x) for x in evs]
    out.append(_opt(gen))
    out.append(_opt(lambda: int(e.labels_to_num_steps(ls))))

    # ---- not compared with the model: evaluated by the oracle only
    # exception classes of the calls that raised
    extra['exc'] = [[what, p, _cls(lambda: f(es, p))] for what, f, col in
                    (('input', e.events_to_input, out[3]), ('label', e.events_to_label, out[4]))
                    for p, r in zip(ps, col) if not r]
    extra['encode_exc'] = _cls(lambda: e.encode(es)) if not out[6] else None
    # the same calls a second time (after everything else ran), and after scribbling on a returned vector
    unstable = []
    for j, p in enumerate(ps[:3]):
        r = _opt(lambda: e.events_to_input(es, p))
        if r:
            try:
                r[0][0] = 99.0
            except Exception:  # noqa  (empty vector)
                pass
        if _opt(lambda: _vec(e.events_to_input(es, p))) != out[3][j]:
            unstable.append(['input', p])
    labs2 = [_opt(lambda: e.events_to_label(es, p)) for p in ps]
    labs2 = [[h.lab_out(l[0])] if l and _opt(lambda: h.lab_out(l[0])) else [] for l in labs2]
    if labs2 != out[4]:
        unstable.append(['label'])
    if len(es) <= 30 and _opt(enc) != out[6]:
        unstable.append(['encode'])
    if [e.input_size, h.ncls if not isinstance(h.ncls, list) else list(e.num_classes)] != out[:2]:
        unstable.append(['sizes'])
    extra['unstable'] = unstable
    # arguments are never modified (events, labels, the distance list handed to the constructor)
    mutated = []
    if list(es) != es_before:
        mutated.append('events')
    if ls != [h.lab_in(x) for x in ls_w]:
        mutated.append('labels')
    if h.ds_arg is not None and h.ds_arg != h.ds_req:
        mutated.append('lookback_distances')
    extra['mutated'] = mutated
    # an encoder built earlier in this process still answers what it answered then
    leak = []
    for (e0, es0, p0, r0, tag) in _ALIVE[-2:]:
        if _opt(lambda: _vec(e0.events_to_input(es0, p0))) + _opt(lambda: e0.events_to_label(es0, p0)) != r0:
            leak.append(tag)
    extra['leak'] = leak
    if len(es) and not as_melody and h.lab_out is not _int_label:
        p0 = len(es) - 1
        _ALIVE.append((e, list(es), p0,
                       _opt(lambda: _vec(e.events_to_input(es, p0))) + _opt(lambda: e.events_to_label(es, p0)),
                       repr(type(e).__name__)))
        del _ALIVE[:-6]
    return out


def _wrappers(c):
    """OptionalEventSequenceEncoder / MultipleEventSequenceEncoder around the one-hot and lookback melody encoders
    (encoders only; not named by the property - checked on the implementation side only, no model)."""
    from note_seq import encoder_decoder as ed, melody_encoder_decoder as med
    oh = ed.OneHotEventSequenceEncoderDecoder(med.MelodyOneHotEncoding(c['mn'], c['mx']))
    base = ed.LookbackEventSequenceEncoderDecoder(med.MelodyOneHotEncoding(c['mn'], c['mx']),
                                                  **_kw(c, lookback_distances='ds', binary_counter_bits='bits'))
    return (oh, base, ed.OptionalEventSequenceEncoder(base),
            ed.MultipleEventSequenceEncoder([oh, base], encode_single_sequence=True),
            ed.MultipleEventSequenceEncoder([oh, base]))


def _np_cfg(c):
    from note_seq import performance_encoder_decoder as ped
    try:
        e = ped.NotePerformanceEventSequenceEncoderDecoder(
            c['nvb'], **_kw(c, max_shift_steps='msh', max_duration_steps='mdu', min_pitch='minp', max_pitch='maxp'))
    except AssertionError:
        return [2], None
    except ValueError:
        return [1], None
    return [0, e.shift_steps_segments, e.shift_steps_per_segment, e.duration_steps_segments,
            e.duration_steps_per_segment, list(e.num_classes), e.input_size], e


# ---------------------------------------------------------------- implementation
def impl(case):
    main, extra = _impl(_eff_case(case))
    return list(main) + [extra]              # the trailing dict is for the oracle only (see equal())


def _split(io):
    if isinstance(io, list) and io and isinstance(io[-1], dict):
        return io[:-1], io[-1]
    return io, {}


def equal(case, a, b):
    return _split(a)[0] == b


def _impl(case):
    op, a = case['op'], case['input']
    c = a['cfg']
    extra = {}
    if op == 'noteperf_cfg':
        return _np_cfg(c)[0], extra
    if op == 'noteperf':
        cfg, e = _np_cfg(c)
        if e is None:
            return [cfg], extra
        h = _H(e, list(e.num_classes), _npe, _npe_out, tuple, list)
        h.ds_arg = h.ds_req = None
        return [cfg, _bundle(h, a['es'], a['ps'], a['ls'], extra)], extra
    if op in ('generic', 'gcond'):
        g = _genc(a['enc'] if op == 'generic' else a['target'])
        return [_opt(lambda: g.ed.input_size), _opt(lambda: str(g.ed.num_classes))], extra
    if op == 'wrappers':
        oh, base, opt, m1, m2 = _wrappers(c)
        es, es2, dis, ps = a['es'], a['es2'], a['dis'], a['ps']
        tup = [(bool(d), e) for d, e in zip(dis, es)]
        return [opt.input_size, [_opt(lambda: _vec(opt.events_to_input(tup, p))) for p in ps],
                m1.input_size, [_opt(lambda: _vec(m1.events_to_input(es, p))) for p in ps],
                m2.input_size, [_opt(lambda: _vec(m2.events_to_input(list(zip(es, es2)), p))) for p in ps]], extra
    if op == 'conditional':
        e, ctl, tgt = _conditional(c)
        cs, ts, ps, ls = list(a['cs']), list(a['es']), a['ps'], a['ls']
        out = [e.input_size, e.num_classes, _opt(lambda: e.default_event_label)]
        out.append([_opt(lambda: _vec(e.events_to_input(cs, ts, p))) for p in ps])
        out.append([_opt(lambda: e.events_to_label(ts, p)) for p in ps])

        def enc():
            ins, labels = e.encode(cs, ts)
            return [[_vec(v) for v in ins], list(labels)]
        out.append(_opt(enc))

        def gen():
            evs = []
            for l in ls:
                evs.append(e.class_index_to_event(l, evs))
            return evs
        out.append(_opt(gen))
        out.append(_opt(lambda: int(e.labels_to_num_steps(ls))))
        extra['encode_exc'] = _cls(lambda: e.encode(cs, ts)) if not out[5] else None
        extra['unstable'] = [['encode']] if _opt(enc) != out[5] else []
        extra['mutated'] = [n for n, x, y in (('control', cs, a['cs']), ('target', ts, a['es'])) if x != list(y)]
        return out, extra
    h = _handle(op, c)
    return _bundle(h, a['es'], a['ps'], a['ls'], extra, as_melody=bool(a.get('as_melody'))), extra


def _conditional(c):
    from note_seq import encoder_decoder as ed, melody_encoder_decoder as med
    ctl = ed.OneHotEventSequenceEncoderDecoder(med.MelodyOneHotEncoding(c['cmn'], c['cmx']))
    tgt = ed.LookbackEventSequenceEncoderDecoder(med.MelodyOneHotEncoding(c['mn'], c['mx']),
                                                 **_kw(c, lookback_distances='ds', binary_counter_bits='bits'))
    return ed.ConditionalEventSequenceEncoderDecoder(ctl, tgt), ctl, tgt


# ---------------------------------------------------------------- model
def model_input(case):
    case = _eff_case(case)
    op, a = case['op'], case['input']
    c = a['cfg']
    if op in ('wrappers', 'generic', 'gcond'):
        return None
    k = OPS[op]
    if op in ('onehot_mel', 'onehotidx_mel'):
        return [k, c['mn'], c['mx'], a['es'], a['ps'], a['ls']]
    if op in ('lookback_mel', 'keymelody'):
        return [k, c['mn'], c['mx'], c['ds'], c['bits'], a['es'], a['ps'], a['ls']]
    if op == 'onehot_perf':
        return [k, c['nb'], c['ms'], c['minp'], c['maxp'], a['es'], a['ps'], a['ls']]
    if op == 'lookback_perf':
        return [k, c['nb'], c['ms'], c['minp'], c['maxp'], c['ds'], c['bits'], a['es'], a['ps'], a['ls']]
    if op == 'modulo_perf':
        return [k, c['nb'], c['ms'], a['es'], a['ps'], a['ls']]
    if op == 'noteperf':
        return [k, c['nvb'], c['msh'], c['mdu'], c['minp'], c['maxp'], a['es'], a['ps'], a['ls']]
    if op == 'noteperf_cfg':
        return [k, c['nvb'], c['msh'], c['mdu'], c['minp'], c['maxp']]
    if op == 'pianoroll':
        return [k, c['size'], a['es'], a['ps'], a['ls']]
    if op == 'conditional':
        return [k, c['cmn'], c['cmx'], c['mn'], c['mx'], c['ds'], c['bits'], a['cs'], a['es'], a['ps'], a['ls']]
    raise ValueError(op)


def _modulo_vec(layout, nb, ms):
    """Rebuild the float vector from the modelled layout with the formulas of PerformanceModuloEncoding.__init__."""
    size, off, table, row, pc = layout
    v = [0.0] * size
    v[off] = 1.0
    if table == 0:
        ang = (float(row) * math.pi) / 72.0
        v[off + 1], v[off + 2] = math.cos(ang), math.sin(ang)
        ang = (float(pc) * math.pi) / 6.0
        v[off + 3], v[off + 4] = math.cos(ang), math.sin(ang)
    elif table == 1:
        ang = (float(row) * 2.0 * math.pi) / float(ms)
        v[off + 1], v[off + 2] = math.cos(ang), math.sin(ang)
    else:
        ang = (float(row) * 2.0 * math.pi) / float(nb)
        v[off + 1], v[off + 2] = math.cos(ang), math.sin(ang)
    return _vec(v)


def model_output(case, m):
    case = _eff_case(case)
    op, a = case['op'], case['input']
    if op == 'modulo_perf':
        c = a['cfg']
        m = list(m)
        m[3] = [[_modulo_vec(x[0], c['nb'], c['ms'])] if x else [] for x in m[3]]
        if m[6]:
            ins, labs = m[6][0]
            m[6] = [[[_modulo_vec(x, c['nb'], c['ms']) for x in ins], labs]]
        return m
    return m


# ---------------------------------------------------------------- oracle: the property on the implementation
def _mel_valid(c):
    return lambda e: e in (NO_EVENT, NOTE_OFF) or c['mn'] <= e < c['mx']


def _perf_valid(c):
    def ok(e):
        ty, v = e
        return ((ty in (T_ON, T_OFF) and c['minp'] <= v <= c['maxp']) or (ty == T_SHIFT and 1 <= v <= c['ms']) or
                (ty == T_VEL and c['nb'] > 0 and 1 <= v <= c['nb']))
    return ok


def _noteperf_valid(c):
    def ok(e):
        return (e[0][0] == T_SHIFT and 0 <= e[0][1] <= c['msh'] and e[1][0] == T_ON and c['minp'] <= e[1][1] <= c['maxp'] and
                e[2][0] == T_VEL and 1 <= e[2][1] <= c['nvb'] and e[3][0] == T_DUR and 1 <= e[3][1] <= c['mdu'])
    return ok


def _mel_enc(c):
    return lambda e: e + 2 if e < 0 else e - c['mn'] + 2


def _perf_enc(c):
    def enc(e):
        ty, v = e
        w = c['maxp'] - c['minp'] + 1
        return {T_ON: v - c['minp'], T_OFF: w + v - c['minp'], T_SHIFT: 2 * w + v - 1, T_VEL: 2 * w + c['ms'] + v - 1}[ty]
    return enc


def _expected_lookback_label(es, p, ds, n, default, plain):
    """The documented precedence: initial default -> last lookback; else the LAST-LISTED matching lookback
    (= the farthest one for an increasing list); else the plain class."""
    k = len(ds)
    if ds and p < ds[-1] and es[p] == default:
        return n + k - 1
    for i in reversed(range(k)):
        if p - ds[i] >= 0 and es[p] == es[p - ds[i]]:
            return n + i
    return plain(es[p])


def _in_range(l, ncls):
    if isinstance(ncls, list):
        return isinstance(l, list) and len(l) == len(ncls) and all(0 <= x < m for x, m in zip(l, ncls))
    return 0 <= l < ncls


def _one_hot_blocks(op, c, ncls, size):
    """[(start, width)] of the one-hot blocks the property names, or None."""
    if op in ('onehot_mel', 'onehot_perf'):
        return [(0, ncls)]
    if op in ('lookback_mel', 'lookback_perf'):
        k = len(c['ds'])
        n = ncls - k
        return [(i * n, n) for i in range(1 + k)]
    if op == 'noteperf':
        out, o = [], 0
        for w in ncls:
            out.append((o, w)); o += w
        return out
    return None


def _steps_of(op, evs):
    if op in ('onehot_perf', 'lookback_perf', 'modulo_perf'):
        return sum(v for ty, v in evs if ty == T_SHIFT)
    if op == 'noteperf':
        return sum(e[0][1] for e in evs) + (evs[-1][3][1] if evs else 0)
    return len(evs)


def _expected_lookback_input(es, p, ds, bits, n, default, enc):
    """The layout lookback_input_shape proves: one-hot(current) ++ one-hot(next event per lookback) ++ counter ++ flags."""
    v = [0] * (n + len(ds) * n + bits + len(ds))
    v[enc(es[p])] = 1
    off = n
    for d in ds:
        lp = p - d + 1
        v[off + enc(default if lp < 0 else es[lp])] = 1
        off += n
    for i in range(bits):
        v[off] = 1 if ((p + 1) // 2 ** i) % 2 else -1
        off += 1
    for d in ds:
        if p - d >= 0 and es[p] == es[p - d]:
            v[off] = 1
        off += 1
    return v


def _keymelody_input_problem(v, es, p, c):
    """The block structure keymelody_input_shape proves; returns a short reason or None."""
    mn, nr, ds, bits = c['mn'], c['mx'] - c['mn'], c['ds'], c['bits']
    k = len(ds)
    pitch, playing, silence = v[:nr], v[nr], v[nr + 1]
    attack, asc = v[nr + 2], v[nr + 3]
    o = nr + 4
    flags, cnt = v[o:o + k], v[o + k:o + k + bits]
    o += k + bits
    bar, keys1, keys2 = v[o], v[o + 1:o + 13], v[o + 13:o + 25]
    cur = None
    for e in es[:p + 1]:
        if e == NOTE_OFF:
            cur = None
        elif e != NO_EVENT:
            cur = e
    if cur:                                     # the code's own truthiness: pitch 0 counts as silence
        if pitch != [1 if i == cur - mn else 0 for i in range(nr)] or (playing, silence) != (1, 0):
            return 'pitch-cell-or-playing-flag'
    elif any(pitch) or (playing, silence) != (0, 1):
        return 'silence-flag'
    if attack not in (0, 1) or asc not in (-1, 0, 1):
        return 'attack-or-ascending-cell'
    if flags != [1 if (p - d >= 0 and es[p] == es[p - d]) else 0 for d in ds]:
        return 'repeat-flags'
    if cnt != [1 if ((p + 1) // 2 ** i) % 2 else -1 for i in range(bits)]:
        return 'counter-bits'
    if bar != (1 if (p + 1) % 16 == 0 else 0):
        return 'bar-flag'
    for ks in (keys1, keys2):
        if len(ks) != 12 or any(x not in (0, 1) for x in ks) or not any(ks):
            return 'key-flags'
    return None


def _modulo_input_problem(sv, e, c):
    """Count and block structure of the modulo input: valid bit at the block offset of the event's range,
    nothing written outside that block."""
    n, nz = sv
    widths = [(T_ON, 5), (T_OFF, 5), (T_SHIFT, 3)] + ([(T_VEL, 3)] if c['nb'] > 0 else [])
    if n != sum(w for _, w in widths):
        return 'size'
    off = 0
    for ty, w in widths:
        if ty == e[0]:
            break
        off += w
    if [off, 1] not in nz:
        return 'valid-bit'
    if any(not (off <= i < off + w) for i, _ in nz):
        return 'written-outside-block'
    return None


def _oracle_extra(case, extra):
    """State across calls / aliasing / argument mutation (evaluated for every case, valid or not)."""
    where = {'op': case['op'], 'cfg': case['input']['cfg']}
    if extra.get('mutated'):
        return dict(where, kind='argument-modified-by-the-call', which=extra['mutated'], events=case['input'].get('es'))
    if extra.get('unstable'):
        return dict(where, kind='second-call-on-the-same-arguments-differs', which=extra['unstable'],
                    events=case['input'].get('es'))
    if extra.get('leak'):
        return dict(where, kind='earlier-encoder-object-changed-its-answer', which=extra['leak'])
    return None


def _expected_sizes(op, c):
    """(input_size, num_classes) from the REQUESTED constructor arguments (documented layout)."""
    k = len(c.get('ds', []))
    if op in ('onehot_mel', 'onehotidx_mel', 'lookback_mel', 'keymelody'):
        n = c['mx'] - c['mn'] + 2
    if op in ('onehot_perf', 'lookback_perf', 'modulo_perf'):
        n = 2 * (c.get('maxp', 127) - c.get('minp', 0) + 1) + c['ms'] + max(c['nb'], 0)
    if op == 'onehot_mel' or op == 'onehot_perf':
        return n, n
    if op == 'onehotidx_mel':
        return 1, n
    if op in ('lookback_mel', 'lookback_perf'):
        return n + k * n + c['bits'] + k, n + k
    if op == 'keymelody':
        nr = c['mx'] - c['mn']
        return nr + 2 + 1 + 1 + k + c['bits'] + 1 + 12 + 12, nr + 2 + k
    if op == 'modulo_perf':
        return 5 + 5 + 3 + (3 if c['nb'] > 0 else 0), n
    if op == 'pianoroll':
        return c['size'], 2 ** c['size']
    return None


def _one_hot_row(l, n):
    r = [0.0] * n
    r[l] = 1.0
    return r


def _oracle_batch(case, h, es_w, ls_w, labs_at, ncls):
    """get_inputs_batch / extend_event_sequences / evaluate_log_likelihood of the base class (the helpers the
    generation loop really goes through), driven with deterministic one-hot soft-maxes."""
    op = case['op']
    where = {'op': op, 'cfg': case['input']['cfg']}
    e = h.ed
    es = [h.ev_in(x) for x in es_w]
    n = len(es)
    if n == 0:
        return None
    half = es[:max(1, n // 2)]
    want_full = [[_vec(e.events_to_input(s_, i)) for i in range(len(s_))] for s_ in (es, half)]
    got = _opt(lambda: [[_vec(v) for v in seq] for seq in e.get_inputs_batch([es, half], full_length=True)])
    if got != [want_full]:
        return dict(where, kind='get-inputs-batch-full-length', events=es_w)
    got = _opt(lambda: [[_vec(v) for v in seq] for seq in e.get_inputs_batch([es, half])])
    if got != [[[want_full[0][-1]], [want_full[1][-1]]]]:
        return dict(where, kind='get-inputs-batch-last-event', events=es_w)
    if es != [h.ev_in(x) for x in es_w]:
        return dict(where, kind='argument-modified-by-the-call', which=['events (get_inputs_batch)'])
    if op == 'pianoroll':
        size = case['input']['cfg']['size']
        seqs = [list(es), list(half)]
        samples = [[1 if k in es_w[0] else 0 for k in range(size)], [0] * size]
        r = _cls(lambda: e.extend_event_sequences(seqs, samples))
        if r is not None or [h.ev_out(x) for x in seqs[0][n:]] != [sorted(es_w[0])] or list(seqs[1][len(half):]) != [()]:
            return dict(where, kind='extend-event-sequences', events=es_w)
        if _cls(lambda: e.extend_event_sequences([list(es)], samples)) != 'ValueError':
            return dict(where, kind='wrong-exception-class', call='extend_event_sequences (unequal lengths)')
        return None
    # one label per sequence, both in range
    cand = [l for l in ls_w if _in_range(l, ncls)][:2]
    if len(cand) == 2:
        l1, l2 = cand
        seqs = [list(es), list(half)]
        if isinstance(ncls, list):
            softmax = [[[_one_hot_row(l1[i], m)], [_one_hot_row(l2[i], m)]] for i, m in enumerate(ncls)]
        else:
            softmax = [[_one_hot_row(l1, ncls)], [_one_hot_row(l2, ncls)]]
        want = [h.ev_out(e.class_index_to_event(h.lab_in(l1), list(es))),
                h.ev_out(e.class_index_to_event(h.lab_in(l2), list(half)))]
        got = _opt(lambda: [list(map(int, x)) if isinstance(ncls, list) else int(x)
                            for x in e.extend_event_sequences(seqs, softmax)])
        if (got != [[l1, l2]] or len(seqs[0]) != n + 1 or len(seqs[1]) != len(half) + 1 or
                [h.ev_out(seqs[0][-1]), h.ev_out(seqs[1][-1])] != want or seqs[0][:n] != es):
            return dict(where, kind='extend-event-sequences', events=es_w, labels=[l1, l2], got=got)
    # log-likelihood of the sequence under the soft-max that puts probability 1 on its own labels is log 1 = 0
    if n >= 2 and all(labs_at.get(i) for i in range(1, n)):
        rows = []
        for i in range(1, n):
            l = labs_at[i][0]
            rows.append([_one_hot_row(l[j], m) for j, m in enumerate(ncls)] if isinstance(ncls, list) else _one_hot_row(l, ncls))
        got = _opt(lambda: [float(x) for x in e.evaluate_log_likelihood([es], [rows])])
        if got != [[0.0]]:
            return dict(where, kind='log-likelihood-of-own-labels-is-not-zero', events=es_w, got=got)
        first = rows[0]
        if _cls(lambda: e.evaluate_log_likelihood([es], [rows + [first]])) != 'ValueError':
            return dict(where, kind='wrong-exception-class', call='evaluate_log_likelihood (soft-max not shorter than events)')
    return None


def oracle(case, io):
    case = _eff_case(case)
    io, extra = _split(io)
    op, a = case['op'], case['input']
    c = a['cfg']
    v = _oracle_extra(case, extra)
    if v:
        return v
    if op == 'noteperf_cfg':
        return _oracle_np_cfg(c, io)
    if op == 'noteperf':
        v = _oracle_np_cfg(c, io[0])
        if v or io[0][0] != 0:
            return v
        io = io[1]
    if op == 'conditional':
        return _oracle_conditional(case, io, extra)
    if op == 'wrappers':
        return _oracle_wrappers(case, io)
    if op in ('generic', 'gcond'):
        return _oracle_generic(case)
    es, ps, ls = a['es'], a['ps'], a['ls']
    ds = c.get('ds', [])
    if any(d <= 0 for d in ds):
        return None                      # outside the property (distances are positive step counts)
    if op in ('lookback_mel', 'lookback_perf', 'keymelody') and c['bits'] < 0:
        return None
    size, ncls, dlab, ins, labs, decs, enc, gen, steps = io
    valid = {'onehot_mel': _mel_valid, 'onehotidx_mel': _mel_valid, 'lookback_mel': _mel_valid, 'keymelody': _mel_valid,
             'onehot_perf': _perf_valid, 'lookback_perf': _perf_valid,
             'modulo_perf': lambda c: _perf_valid(dict(c, minp=0, maxp=127)),
             'noteperf': _noteperf_valid,
             'pianoroll': lambda c: (lambda e: all(0 <= x < c['size'] for x in e) and
                                     all(e[i] < e[i + 1] for i in range(len(e) - 1)))}[op](c)
    if op == 'keymelody' and not (0 <= c['mn'] < c['mx'] <= 128):
        return None
    allvalid = all(valid(e) for e in es)
    where = {'op': op, 'cfg': c}
    # sizes follow from the REQUESTED constructor arguments (omitted ones at their documented defaults)
    exp_sizes = _expected_sizes(op, c)
    if exp_sizes is not None and [size, ncls] != list(exp_sizes):
        return dict(where, kind='input-size-or-num-classes-not-what-the-arguments-say', got=[size, ncls],
                    expected=list(exp_sizes))
    # documented rejection: an event the wrapped one-hot encoding cannot encode raises ValueError, wherever it stands
    if op in ('onehot_mel', 'onehotidx_mel', 'lookback_mel'):
        encodable = valid
    elif op in ('onehot_perf', 'lookback_perf', 'modulo_perf'):
        encodable = lambda e: e[0] in (T_ON, T_OFF, T_SHIFT) or (e[0] == T_VEL and c['nb'] > 0)
    else:
        encodable = None
    if encodable is not None:
        bad_cls = {(w, p): k for w, p, k in extra.get('exc', [])}
        for j, p in enumerate(ps):
            if 0 <= p < len(es) and not encodable(es[p]):
                if ins[j] or bad_cls.get(('input', p)) != 'ValueError':
                    return dict(where, kind='unencodable-event-not-rejected-with-ValueError', call='events_to_input',
                                position=p, events=es, got=bad_cls.get(('input', p)))
                if op.startswith('onehot') and (labs[j] or bad_cls.get(('label', p)) != 'ValueError'):
                    return dict(where, kind='unencodable-event-not-rejected-with-ValueError', call='events_to_label',
                                position=p, events=es, got=bad_cls.get(('label', p)))
    blocks = _one_hot_blocks(op, c, ncls, size)
    # default_event_label: an in-range label that decodes (against an empty history) to the default event
    dflt = {'onehot_mel': NO_EVENT, 'onehotidx_mel': NO_EVENT, 'lookback_mel': NO_EVENT, 'keymelody': NO_EVENT,
            'onehot_perf': [T_SHIFT, c.get('ms')], 'lookback_perf': [T_SHIFT, c.get('ms')],
            'modulo_perf': [T_SHIFT, c.get('ms')], 'pianoroll': [],
            'noteperf': [[T_SHIFT, 0], [T_ON, 60], [T_VEL, 1], [T_DUR, 1]]}[op]
    if op != 'noteperf' or (c['minp'] <= 60 <= c['maxp'] and c['nvb'] >= 1):
        if not dlab or not _in_range(dlab[0], ncls):
            return dict(where, kind='default-event-label-out-of-range', got=dlab)
        h = _handle_for(case)
        back = _opt(lambda: h.ev_out(h.ed.class_index_to_event(h.lab_in(dlab[0]), [])))
        if back != [dflt]:
            return dict(where, kind='default-event-label-does-not-decode-to-default-event', got=back, label=dlab[0])
    if allvalid:
        for j, p in enumerate(ps):
            if not (0 <= p < len(es)):
                continue
            # label exists, in range, decodes to the event
            if not labs[j]:
                return dict(where, kind='label-raises', position=p, events=es)
            l = labs[j][0]
            if not _in_range(l, ncls):
                return dict(where, kind='label-out-of-range', position=p, events=es, label=l)
            if not decs[j]:
                return dict(where, kind='decode-of-label-raises', position=p, events=es, label=l)
            if decs[j][0] != es[p]:
                return dict(where, kind='decode-of-label-is-not-the-event', position=p, events=es, label=l,
                            decoded=decs[j][0])
            # precedence
            exp = None
            if op == 'lookback_mel':
                exp = _expected_lookback_label(es, p, ds, ncls - len(ds), NO_EVENT, _mel_enc(c))
            elif op == 'lookback_perf':
                exp = _expected_lookback_label([tuple(e) for e in es], p, ds, ncls - len(ds), (T_SHIFT, c['ms']),
                                               _perf_enc(c))
            elif op == 'keymelody':
                nr = c['mx'] - c['mn']
                exp = _expected_lookback_label(es, p, ds, nr + 2, NO_EVENT,
                                               lambda e: nr + 1 if e == NOTE_OFF else nr if e == NO_EVENT else e - c['mn'])
            elif op in ('onehot_mel', 'onehotidx_mel'):
                exp = _mel_enc(c)(es[p])
            elif op in ('onehot_perf', 'modulo_perf'):
                exp = _perf_enc(dict(c, minp=c.get('minp', 0), maxp=c.get('maxp', 127)))(es[p])
            if exp is not None and l != exp:
                return dict(where, kind='label-not-the-documented-precedence', position=p, events=es, label=l, expected=exp)
            # input shape
            if not ins[j]:
                return dict(where, kind='input-raises', position=p, events=es)
            n, nzs = ins[j][0]
            if n != size:
                return dict(where, kind='input-length-is-not-input-size', position=p, events=es, length=n, input_size=size)
            if op in ('lookback_mel', 'lookback_perf'):
                kk = len(ds)
                if op == 'lookback_mel':
                    expv = _expected_lookback_input(es, p, ds, c['bits'], ncls - kk, NO_EVENT, _mel_enc(c))
                else:
                    expv = _expected_lookback_input([tuple(e) for e in es], p, ds, c['bits'], ncls - kk,
                                                    (T_SHIFT, c['ms']), _perf_enc(c))
                if _dense(ins[j][0]) != expv:
                    return dict(where, kind='lookback-input-layout', position=p, events=es)
            if op == 'keymelody':
                why = _keymelody_input_problem(_dense(ins[j][0]), es, p, c)
                if why:
                    return dict(where, kind='keymelody-input-layout', position=p, events=es, block=why)
            if op == 'pianoroll' and _dense(ins[j][0]) != [1 if k in es[p] else 0 for k in range(c['size'])]:
                return dict(where, kind='pianoroll-input-is-not-the-pitch-set', position=p, events=es)
            if op == 'modulo_perf':
                why = _modulo_input_problem(ins[j][0], es[p], c)
                if why:
                    return dict(where, kind='modulo-input-layout', position=p, events=es, block=why)
            if blocks is not None:
                v = _dense(ins[j][0])
                for (st, w) in blocks:
                    blk = v[st:st + w]
                    if sorted(blk) != [0] * (w - 1) + [1]:
                        return dict(where, kind='one-hot-block-not-one-hot', position=p, events=es, block=[st, w])
        # encode: len-1 aligned pairs
        if not enc:
            return dict(where, kind='encode-raises', events=es)
        e_ins, e_labs = enc[0]
        m = max(len(es) - 1, 0)
        if len(e_ins) != m or len(e_labs) != m:
            return dict(where, kind='encode-not-len-minus-1-pairs', events=es, got=[len(e_ins), len(e_labs)])
        pos = {p: j for j, p in enumerate(ps)}
        for i in range(m):
            if i in pos and ins[pos[i]] and e_ins[i] != ins[pos[i]][0]:
                return dict(where, kind='encode-input-misaligned', events=es, index=i)
            if i + 1 in pos and labs[pos[i + 1]] and e_labs[i] != labs[pos[i + 1]][0]:
                return dict(where, kind='encode-label-misaligned', events=es, index=i)
        # decoding the labels the encoder produced reconstructs the sequence (generation loop from the first event)
        if es:
            h = _handle_for(case)
            try:
                evs = [h.ev_in(es[0])]
                for l in e_labs:
                    evs.append(h.ed.class_index_to_event(h.lab_in(l), evs))
                back = [h.ev_out(x) for x in evs]
            except Exception as ex:  # noqa
                return dict(where, kind='generation-from-encoded-labels-raises', events=es, exc=type(ex).__name__)
            if back != es:
                return dict(where, kind='generation-from-encoded-labels-differs', events=es, got=back)
        if len(es) <= 5 and (isinstance(ncls, list) or ncls <= 700 or op == 'pianoroll') and not a.get('as_melody'):
            labs_at = {p: labs[j] for j, p in enumerate(ps)}
            v = _oracle_batch(case, _handle_for(case), es, ls, labs_at, ncls)
            if v:
                return v
    # generation loop over arbitrary in-range labels
    if all(_in_range(l, ncls) for l in ls):
        if not gen:
            return dict(where, kind='generation-raises-on-in-range-labels', labels=ls)
        if len(gen[0]) != len(ls):
            return dict(where, kind='generation-length', labels=ls)
        if not steps:
            return dict(where, kind='labels-to-num-steps-raises', labels=ls, n_labels=len(ls))
        if steps[0] != _steps_of(op, gen[0]):
            return dict(where, kind='labels-to-num-steps-differs', labels=ls, got=steps[0], expected=_steps_of(op, gen[0]))
        # two-step use: the generated sequence is itself a sequence; encoding it and decoding its labels gives it back
        if len(gen[0]) >= 2 and all(valid(e) for e in gen[0]):
            h = _handle_for(case)
            g = [h.ev_in(x) for x in gen[0]]
            try:
                _, glabs = h.ed.encode(g)
                evs = [g[0]]
                for l in glabs:
                    evs.append(h.ed.class_index_to_event(l, evs))
                back = [h.ev_out(x) for x in evs]
            except Exception as ex:  # noqa
                return dict(where, kind='encode-of-generated-sequence-raises', labels=ls, exc=type(ex).__name__)
            if back != gen[0]:
                return dict(where, kind='generation-from-encoded-labels-differs', events=gen[0], got=back, two_step=True)
    return None


def _handle_for(case):
    op, c = case['op'], case['input']['cfg']
    if op == 'noteperf':
        e = _np_cfg(c)[1]
        return _H(e, list(e.num_classes), _npe, _npe_out, tuple, list)
    return _handle(op, c)


def _proper_divisor(s):
    return any(s % i == 0 for i in range(2, s))


def _oracle_np_cfg(c, cfg):
    s1, s2 = c['msh'] + 1, c['mdu']
    should_accept = s1 >= 2 and s2 >= 2 and _proper_divisor(s1) and _proper_divisor(s2)
    if cfg[0] != 0:
        if should_accept:
            return {'kind': 'noteperf-constructor-rejects-factorable-limits', 'cfg': c}
        return None
    if not should_accept:
        return {'kind': 'noteperf-constructor-accepts-prime-limit', 'cfg': c}
    _, ss, sp, dseg, dp, ncls, size = cfg
    if ss * sp != s1 or dseg * dp != s2 or ss <= 1 or dseg <= 1:
        return {'kind': 'noteperf-segments-do-not-factor', 'cfg': c, 'got': cfg}
    if ncls != [ss, sp, c['maxp'] - c['minp'] + 1, c['nvb'], dseg, dp] or size != sum(ncls):
        return {'kind': 'noteperf-class-sizes', 'cfg': c, 'got': cfg}
    return None


# ---------------------------------------------------------------- generic encoders over ANY component one-hot encoding
# (implementation side only: the theorems are generic in the wrapped one-hot encoding; these ops evaluate the property
#  statement on real encoder objects built over the chord / note-density / melody / performance encodings and on the
#  conditional wrapper with arbitrary control and target encoders)
PITCH_CLASS_NAMES = ['C', 'C#', 'D', 'Eb', 'E', 'F', 'F#', 'G', 'Ab', 'A', 'Bb', 'B']
NO_CHORD = 'N.C.'


class _G(object):
    pass


def _comp(spec):
    """A component OneHotEncoding and its DOCUMENTED layout: the events of its classes in class order."""
    from note_seq import chords_encoder_decoder as ced, melody_encoder_decoder as med
    from note_seq import performance_encoder_decoder as ped, performance_controls as pc
    k = spec['kind']
    g = _G()
    g.ev_in, g.ev_out, g.steps = (lambda e: e), (lambda e: e), (lambda e: 1)
    if k in ('majmin', 'triad'):
        g.obj = ced.MajorMinorChordOneHotEncoding() if k == 'majmin' else ced.TriadChordOneHotEncoding()
        g.alphabet = [NO_CHORD] + PITCH_CLASS_NAMES + [r + 'm' for r in PITCH_CLASS_NAMES]
        if k == 'triad':
            g.alphabet += [r + 'aug' for r in PITCH_CLASS_NAMES] + [r + 'dim' for r in PITCH_CLASS_NAMES]
        g.ends = [0, 12, 24] + ([36, 48] if k == 'triad' else [])
        g.default = NO_CHORD
    elif k == 'mel':
        g.obj = med.MelodyOneHotEncoding(spec['mn'], spec['mx'])
        g.alphabet = [NO_EVENT, NOTE_OFF] + list(range(spec['mn'], spec['mx']))
        g.ends = [0, 1, len(g.alphabet) - 1]
        g.default = NO_EVENT
    elif k == 'perf':
        nb, ms, lo, hi = spec['nb'], spec['ms'], spec['minp'], spec['maxp']
        g.obj = ped.PerformanceOneHotEncoding(nb, ms, lo, hi)
        g.alphabet = ([[T_ON, v] for v in range(lo, hi + 1)] + [[T_OFF, v] for v in range(lo, hi + 1)] +
                      [[T_SHIFT, v] for v in range(1, ms + 1)] + [[T_VEL, v] for v in range(1, nb + 1)])
        w = hi - lo + 1
        g.ends = sorted(set([w - 1, 2 * w - 1, 2 * w + ms - 1, len(g.alphabet) - 1]))
        g.default = [T_SHIFT, ms]
        g.ev_in, g.ev_out = _pe, _pe_out
        g.steps = lambda e: e[1] if e[0] == T_SHIFT else 0
    elif k == 'density':
        bins = spec['bins']
        g.obj = pc.NoteDensityPerformanceControlSignal.NoteDensityOneHotEncoding([float(b) for b in bins])
        g.alphabet = [0] + list(bins)            # "decodes to the minimum value for each bin"
        g.ends = [0, len(bins)]
        g.default = 0
        g.ev_in, g.ev_out = float, int
    else:
        raise ValueError(k)
    g.n = len(g.alphabet)
    return g


def _genc(spec):
    """A real encoder object from a spec, with what the REQUESTED arguments say about it."""
    from note_seq import encoder_decoder as ed, chords_encoder_decoder as ced
    w = spec['wrap']
    g = _G()
    g.spec, g.ds, g.k, g.decodes = spec, [], 0, True
    g.lab_in, g.lab_out = (lambda l: l), (lambda l: l)
    if w in ('onehot', 'onehotidx', 'lookback'):
        c = _comp(spec['comp'])
        g.comp, g.ev_in, g.ev_out, g.steps, g.default, g.alphabet = c, c.ev_in, c.ev_out, c.steps, c.default, c.alphabet
        g.n = c.n
        index = {repr(x): i for i, x in enumerate(c.alphabet)}
        g.plain = lambda e: index[repr(e)]
        g.valid = lambda e: repr(e) in index
        if w == 'onehot':
            g.ed, g.ncls, g.size = ed.OneHotEventSequenceEncoderDecoder(c.obj), c.n, c.n
        elif w == 'onehotidx':
            g.ed, g.ncls, g.size = ed.OneHotIndexEventSequenceEncoderDecoder(c.obj), c.n, 1
        else:
            g.ds, g.k, bits = list(spec['ds']), len(spec['ds']), spec['bits']
            g.ed = ed.LookbackEventSequenceEncoderDecoder(c.obj, list(g.ds), bits)
            g.ncls, g.size, g.bits = c.n + g.k, c.n + g.k * c.n + bits + g.k, bits
        g.seq_steps = lambda evs: sum(c.steps(e) for e in evs)
    elif w == 'noteperf':
        cfg = spec['cfg']
        _, e = _np_cfg(dict(cfg, _none=[]))
        g.ed, g.ev_in, g.ev_out, g.lab_in, g.lab_out = e, _npe, _npe_out, tuple, list
        divs = lambda s_: [i for i in range(1, s_) if s_ % i == 0]
        seg = lambda s_: min(divs(s_), key=lambda i: i + s_ // i)
        s1, s2 = cfg['msh'] + 1, cfg['mdu']
        g.ncls = [seg(s1), s1 // seg(s1), cfg['maxp'] - cfg['minp'] + 1, cfg['nvb'], seg(s2), s2 // seg(s2)]
        g.size, g.n, g.plain, g.alphabet = sum(g.ncls), None, None, None
        g.default = [[T_SHIFT, 0], [T_ON, 60], [T_VEL, 1], [T_DUR, 1]]
        g.valid = _noteperf_valid(cfg)
        g.seq_steps = lambda evs: sum(e[0][1] for e in evs) + (evs[-1][3][1] if evs else 0)
    elif w == 'pitchchords':
        g.ed, g.decodes, g.size, g.ncls = ced.PitchChordsEncoderDecoder(), False, 3 * 12 + 1, None
        g.ev_in, g.ev_out = (lambda e: e), (lambda e: e)
        g.valid = lambda e: True
    else:
        raise ValueError(w)
    return g


def _fail(where, kind, **kw):
    d = dict(where, kind=kind)
    d.update(kw)
    return d


def _check_encoder(g, es, ls, where):
    """C08's statement on one real encoder object (every clause; raises are failures)."""
    e = g.ed
    try:
        if e.input_size != g.size or (list(e.num_classes) if isinstance(g.ncls, list) else e.num_classes) != g.ncls:
            return _fail(where, 'input-size-or-num-classes-not-what-the-arguments-say',
                         got=[e.input_size, str(e.num_classes)], expected=[g.size, g.ncls])
        dl = g.lab_out(e.default_event_label)
        if g.n is not None or (g.spec['cfg']['minp'] <= 60 <= g.spec['cfg']['maxp'] and g.spec['cfg']['nvb'] >= 1):
            if not _in_range(dl, g.ncls) or g.ev_out(e.class_index_to_event(g.lab_in(dl), [])) != g.default:
                return _fail(where, 'default-event-label-does-not-decode-to-default-event', label=dl)
        evs = [g.ev_in(x) for x in es]
        labels, inputs = [], []
        for p in range(len(es)):
            l = g.lab_out(e.events_to_label(evs, p))
            labels.append(l)
            if not _in_range(l, g.ncls):
                return _fail(where, 'label-out-of-range', position=p, events=es, label=l)
            back = g.ev_out(e.class_index_to_event(g.lab_in(l), evs[:p]))
            if back != es[p]:
                return _fail(where, 'decode-of-label-is-not-the-event', position=p, events=es, label=l, decoded=back)
            if g.plain is not None:
                exp = _expected_lookback_label(es, p, g.ds, g.n, g.default, g.plain)
                if l != exp:
                    return _fail(where, 'label-not-the-documented-precedence', position=p, events=es, label=l, expected=exp)
            v = [x if isinstance(x, int) else int(x) for x in e.events_to_input(evs, p)]
            inputs.append(v)
            if len(v) != g.size:
                return _fail(where, 'input-length-is-not-input-size', position=p, events=es, length=len(v))
            w = g.spec['wrap']
            if w == 'onehot' and v != [1 if i == g.plain(es[p]) else 0 for i in range(g.n)]:
                return _fail(where, 'one-hot-block-not-one-hot', position=p, events=es)
            if w == 'onehotidx' and v != [g.plain(es[p])]:
                return _fail(where, 'one-hot-index-input', position=p, events=es)
            if w == 'lookback' and v != _expected_lookback_input(es, p, g.ds, g.bits, g.n, g.default, g.plain):
                return _fail(where, 'lookback-input-layout', position=p, events=es)
            if w == 'noteperf':
                o = 0
                for m in g.ncls:
                    if sorted(v[o:o + m]) != [0] * (m - 1) + [1]:
                        return _fail(where, 'one-hot-block-not-one-hot', position=p, events=es, block=[o, m])
                    o += m
        e_ins, e_labs = e.encode(evs)
        m = max(len(es) - 1, 0)
        if len(e_ins) != m or len(e_labs) != m:
            return _fail(where, 'encode-not-len-minus-1-pairs', events=es)
        for i in range(m):
            if [int(x) for x in e_ins[i]] != inputs[i]:
                return _fail(where, 'encode-input-misaligned', events=es, index=i)
            if g.lab_out(e_labs[i]) != labels[i + 1]:
                return _fail(where, 'encode-label-misaligned', events=es, index=i)
        if es:
            gen = [evs[0]]
            for l in e_labs:
                gen.append(e.class_index_to_event(l, gen))
            if [g.ev_out(x) for x in gen] != es:
                return _fail(where, 'generation-from-encoded-labels-differs', events=es)
        # the generation loop over arbitrary in-range labels (every class of the encoding is in ls)
        gen = []
        for j, l in enumerate(ls):
            gen.append(e.class_index_to_event(g.lab_in(l), gen))
            if g.n is not None and l < g.n and g.ev_out(gen[-1]) != g.alphabet[l]:
                return _fail(where, 'class-index-does-not-decode-to-the-event-of-that-class', label=l,
                             decoded=g.ev_out(gen[-1]), expected=g.alphabet[l])
            if g.n is not None and l < g.n and g.comp.obj.encode_event(gen[-1]) != l:
                return _fail(where, 'label-of-decoded-class-is-another-class', label=l, decoded=g.ev_out(gen[-1]))
        out = [g.ev_out(x) for x in gen]
        steps = e.labels_to_num_steps([g.lab_in(l) for l in ls])
        if steps != g.seq_steps(out):
            return _fail(where, 'labels-to-num-steps-differs', labels=ls, got=int(steps), expected=g.seq_steps(out))
    except Exception as ex:  # noqa
        return _fail(where, 'raises-on-valid-input', exc=type(ex).__name__, detail=str(ex)[:120], events=es, labels=ls)
    return None


def _check_conditional(gc, gt, cs, ts, ls, where):
    from note_seq import encoder_decoder as ed
    e = ed.ConditionalEventSequenceEncoderDecoder(gc.ed, gt.ed)
    try:
        if e.input_size != gc.size + gt.size or (list(e.num_classes) if isinstance(gt.ncls, list) else e.num_classes) != gt.ncls:
            return _fail(where, 'conditional-input-size')
        csv, tsv = [gc.ev_in(x) for x in cs], [gt.ev_in(x) for x in ts]
        arrays = gt.spec['wrap'] == 'noteperf' and not CHECK_CONDITIONAL_ARRAY_INPUTS
        for p in range(len(ts)):
            if gt.lab_out(e.events_to_label(tsv, p)) != gt.lab_out(gt.ed.events_to_label(tsv, p)):
                return _fail(where, 'conditional-label-is-not-target-label', position=p, events=ts)
            if p + 1 < len(cs) and not arrays:
                want = [int(x) for x in gc.ed.events_to_input(csv, p + 1)] + [int(x) for x in gt.ed.events_to_input(tsv, p)]
                if [int(x) for x in e.events_to_input(csv, tsv, p)] != want:
                    return _fail(where, 'conditional-input-is-not-control-next-plus-target', position=p, cs=cs, events=ts)
        if len(cs) != len(ts):
            if _cls(lambda: e.encode(csv, tsv)) != 'ValueError':
                return _fail(where, 'wrong-exception-class', call='encode (unequal lengths)')
        elif not arrays:
            ins, labs = e.encode(csv, tsv)
            m = max(len(ts) - 1, 0)
            if len(ins) != m or len(labs) != m or any(len(v) != gc.size + gt.size for v in ins):
                return _fail(where, 'encode-not-len-minus-1-pairs', cs=cs, events=ts)
            if ts:
                gen = [tsv[0]]
                for l in labs:
                    gen.append(e.class_index_to_event(l, gen))
                if [gt.ev_out(x) for x in gen] != ts:
                    return _fail(where, 'generation-from-encoded-labels-differs', cs=cs, events=ts)
        if gt.lab_out(e.default_event_label) != gt.lab_out(gt.ed.default_event_label):
            return _fail(where, 'default-event-label-does-not-decode-to-default-event')
        # the generation loop THROUGH THE WRAPPER, and its step count
        gen = []
        for l in ls:
            gen.append(e.class_index_to_event(gt.lab_in(l), gen))
        out = [gt.ev_out(x) for x in gen]
        steps = e.labels_to_num_steps([gt.lab_in(l) for l in ls])
        if steps != gt.seq_steps(out):
            return _fail(where, 'labels-to-num-steps-differs', labels=ls, got=int(steps), expected=gt.seq_steps(out))
    except Exception as ex:  # noqa
        return _fail(where, 'raises-on-valid-input', exc=type(ex).__name__, detail=str(ex)[:120], cs=cs, events=ts, labels=ls)
    return None


def _oracle_generic(case):
    op, a = case['op'], case['input']
    if op == 'generic':
        return _check_encoder(_genc(a['enc']), a['es'], a['ls'], {'op': op, 'enc': a['enc']})
    where = {'op': op, 'control': a['control'], 'target': a['target']}
    gc, gt = _genc(a['control']), _genc(a['target'])
    v = _check_conditional(gc, gt, a['cs'], a['es'], a['ls'], where)
    if v:
        return v
    v = _check_encoder(gt, a['es'], a['ls'], dict(where, component='target'))
    if v or not gc.decodes:
        return v
    return _check_encoder(gc, a['cs'], [], dict(where, component='control'))


def _generic_cases(rng, thorough):
    out = []
    comps = [{'kind': 'majmin'}, {'kind': 'triad'}, {'kind': 'density', 'bins': [1, 2, 4]}, {'kind': 'density', 'bins': [3]},
             {'kind': 'mel', 'mn': 60, 'mx': 62}, {'kind': 'perf', 'nb': 2, 'ms': 3, 'minp': 60, 'maxp': 61},
             {'kind': 'perf', 'nb': 0, 'ms': 4, 'minp': 0, 'maxp': 127}]
    dss = [[], [1], [2, 1], [1, 2, 3], [2, 4]]

    def encs(c):
        yield {'wrap': 'onehot', 'comp': c}
        yield {'wrap': 'onehotidx', 'comp': c}
        for ds in dss:
            yield {'wrap': 'lookback', 'comp': c, 'ds': ds, 'bits': rng.choice([0, 2, 5])}

    def seqs(g, k):
        al = g.alphabet
        yield list(al)                                   # every class, in class order
        yield list(reversed(al))
        for _ in range(3 if not thorough else 12):
            n = rng.choice([1, 2, 5, 9, 16])
            es = []
            for i in range(n):
                d = rng.choice(g.ds) if g.ds else 0
                es.append(es[i - d] if d and i - d >= 0 and rng.random() < 0.5 else
                          al[rng.choice(g.comp.ends)] if rng.random() < 0.5 else rng.choice(al))
            yield es

    for c in comps:
        for spec in encs(c):
            if c is comps[-1] and spec['wrap'] == 'lookback' and spec['ds'] != [2, 1]:
                continue                      # 260 classes: one lookback configuration is enough
            g = _genc(spec)
            every = list(range(g.ncls))
            for es in seqs(g, g.k):
                ls = list(every)
                if rng.random() < 0.5:
                    rng.shuffle(ls)
                out.append({'op': 'generic', 'input': {'cfg': {}, 'enc': spec, 'es': es, 'ls': ls}})
    # exhaustive over the alphabet made of the LAST class of every sub-range of the component encoding
    maxlen = 4 if thorough else 3
    for c in ([] if _SWEPT else comps[:2] + comps[4:6]):
        cg = _comp(c)
        syms = [cg.alphabet[i] for i in cg.ends][:5]
        for ds in ([], [1], [2, 1], [1, 2]):
            spec = {'wrap': 'lookback', 'comp': c, 'ds': ds, 'bits': 1}
            for n in range(1, maxlen + 1):
                for es in itertools.product(syms, repeat=n):
                    out.append({'op': 'generic', 'input': {'cfg': {}, 'enc': spec, 'es': list(es),
                                                           'ls': [cg.ends[-1], cg.n + len(ds) - 1] if ds else [cg.ends[-1]]}})
    # conditional wrapper: controls and targets of different kinds and class counts
    controls = [{'wrap': 'onehot', 'comp': {'kind': 'majmin'}}, {'wrap': 'onehot', 'comp': {'kind': 'triad'}},
                {'wrap': 'onehot', 'comp': {'kind': 'density', 'bins': [1, 2, 4]}}, {'wrap': 'pitchchords'},
                {'wrap': 'lookback', 'comp': {'kind': 'majmin'}, 'ds': [2], 'bits': 3},
                {'wrap': 'onehot', 'comp': {'kind': 'mel', 'mn': 48, 'mx': 84}}]
    targets = [{'wrap': 'onehot', 'comp': {'kind': 'perf', 'nb': 2, 'ms': 5, 'minp': 60, 'maxp': 62}},
               {'wrap': 'onehot', 'comp': {'kind': 'perf', 'nb': 0, 'ms': 100, 'minp': 0, 'maxp': 127}},
               {'wrap': 'lookback', 'comp': {'kind': 'perf', 'nb': 3, 'ms': 7, 'minp': 59, 'maxp': 60}, 'ds': [1, 3], 'bits': 2},
               {'wrap': 'lookback', 'comp': {'kind': 'perf', 'nb': 0, 'ms': 4, 'minp': 0, 'maxp': 1}, 'ds': [3, 1], 'bits': 0},
               {'wrap': 'noteperf', 'cfg': {'nvb': 4, 'msh': 15, 'mdu': 16, 'minp': 21, 'maxp': 108}},
               {'wrap': 'lookback', 'comp': {'kind': 'triad'}, 'ds': [2], 'bits': 1},
               {'wrap': 'onehot', 'comp': {'kind': 'triad'}},
               {'wrap': 'onehot', 'comp': {'kind': 'mel', 'mn': 60, 'mx': 72}}]
    for ctl in controls:
        gc = _genc(ctl)
        cal = gc.alphabet if gc.decodes else [NO_CHORD, 'C', 'Am', 'G7', 'Bdim', 'F#m7b5', 'Eb/G']
        for tgt in targets:
            gt = _genc(tgt)
            for _ in range(2 if not thorough else 8):
                n = rng.choice([0, 1, 2, 4, 8])
                if gt.n is None:
                    cfg = tgt['cfg']
                    ts = [[[T_SHIFT, rng.randint(0, cfg['msh'])], [T_ON, rng.randint(cfg['minp'], cfg['maxp'])],
                           [T_VEL, rng.randint(1, cfg['nvb'])], [T_DUR, rng.randint(1, cfg['mdu'])]] for _k in range(n)]
                    ls = [[rng.randrange(m) for m in gt.ncls] for _k in range(rng.choice([0, 1, 3, 6]))]
                else:
                    ts = [rng.choice(gt.alphabet) for _k in range(n)]
                    ls = _labels(rng, gt.ncls, maxn=12, p_bad=0.0, lookbacks=gt.k)
                    if rng.random() < 0.5:
                        ls = ls + [gt.n - 1, gt.ncls - 1]          # the last plain class and the last class
                r = rng.random()
                nc = n if r < 0.7 else n + 1 if r < 0.9 else max(n - 1, 0)
                cs = [rng.choice(cal) for _k in range(nc)]
                out.append({'op': 'gcond', 'input': {'cfg': {}, 'control': ctl, 'target': tgt, 'cs': cs, 'es': ts, 'ls': ls}})
    return out


def _oracle_wrappers(case, io):
    a = case['input']
    c = a['cfg']
    oh, base, opt, m1, m2 = _wrappers(c)
    es, es2, dis, ps = a['es'], a['es2'], a['dis'], a['ps']
    osz, oins, s1, i1, s2, i2 = io
    where = {'op': 'wrappers', 'cfg': c}
    if osz != 1 + base.input_size or s1 != oh.input_size + base.input_size or s2 != s1:
        return dict(where, kind='wrapper-input-size')
    for j, p in enumerate(ps):
        b = [int(x) for x in base.events_to_input(es, p)]
        b2 = [int(x) for x in base.events_to_input(es2, p)]
        o = [int(x) for x in oh.events_to_input(es, p)]
        exp = [1] + [0] * base.input_size if dis[p] else [0] + b
        if oins[j] != [_vec(exp)]:
            return dict(where, kind='optional-encoder-input', position=p, events=es, disabled=dis)
        if i1[j] != [_vec(o + b)]:
            return dict(where, kind='multiple-encoder-input', position=p, events=es, single=True)
        if i2[j] != [_vec(o + b2)]:
            return dict(where, kind='multiple-encoder-input', position=p, events=es, events2=es2, single=False)
    return None


def _oracle_conditional(case, io, extra):
    from note_seq import encoder_decoder as ed, melody_encoder_decoder as med
    a = case['input']
    c = a['cfg']
    if any(d <= 0 for d in c['ds']) or c['bits'] < 0:
        return None
    cs, ts, ps, ls = a['cs'], a['es'], a['ps'], a['ls']
    size, ncls, dlab, ins, labs, enc, gen, steps = io
    _e, ctl, tgt = _conditional(c)
    where = {'op': 'conditional', 'cfg': c}
    exp_t = _expected_sizes('lookback_mel', c)
    if [size, ncls] != [c['cmx'] - c['cmn'] + 2 + exp_t[0], exp_t[1]]:
        return dict(where, kind='input-size-or-num-classes-not-what-the-arguments-say', got=[size, ncls])
    if size != ctl.input_size + tgt.input_size:
        return dict(where, kind='conditional-input-size')
    if ncls != tgt.num_classes:
        return dict(where, kind='conditional-num-classes')
    if not dlab or not (0 <= dlab[0] < ncls) or tgt.class_index_to_event(dlab[0], []) != NO_EVENT:
        return dict(where, kind='default-event-label-does-not-decode-to-default-event', got=dlab)
    cv = lambda e: e in (NO_EVENT, NOTE_OFF) or c['cmn'] <= e < c['cmx']
    tv = _mel_valid(c)
    if not (all(cv(e) for e in cs) and all(tv(e) for e in ts)):
        return None
    for j, p in enumerate(ps):
        if 0 <= p < len(ts):
            if not labs[j] or labs[j][0] != tgt.events_to_label(ts, p):
                return dict(where, kind='conditional-label-is-not-target-label', position=p, cs=cs, events=ts)
        if 0 <= p < len(ts) and 0 <= p + 1 < len(cs):
            exp = _vec(list(ctl.events_to_input(cs, p + 1)) + list(tgt.events_to_input(ts, p)))
            if not ins[j] or ins[j][0] != exp:
                return dict(where, kind='conditional-input-is-not-control-next-plus-target', position=p, cs=cs, events=ts)
            if ins[j][0][0] != size:
                return dict(where, kind='input-length-is-not-input-size', position=p, cs=cs, events=ts)
    if len(cs) != len(ts):
        if enc:
            return dict(where, kind='conditional-encode-accepts-unequal-lengths', cs=cs, events=ts)
        if extra.get('encode_exc') != 'ValueError':
            return dict(where, kind='wrong-exception-class', call='encode (unequal lengths)', got=extra.get('encode_exc'))
    else:
        if not enc:
            return dict(where, kind='encode-raises', cs=cs, events=ts)
        e_ins, e_labs = enc[0]
        m = max(len(ts) - 1, 0)
        if len(e_ins) != m or len(e_labs) != m:
            return dict(where, kind='encode-not-len-minus-1-pairs', cs=cs, events=ts)
        for i in range(m):
            if e_labs[i] != tgt.events_to_label(ts, i + 1):
                return dict(where, kind='encode-label-misaligned', cs=cs, events=ts, index=i)
            if e_ins[i] != _vec(list(ctl.events_to_input(cs, i + 1)) + list(tgt.events_to_input(ts, i))):
                return dict(where, kind='encode-input-misaligned', cs=cs, events=ts, index=i)
        if ts:
            evs = [ts[0]]
            for l in e_labs:
                evs.append(tgt.class_index_to_event(l, evs))
            if evs != ts:
                return dict(where, kind='generation-from-encoded-labels-differs', cs=cs, events=ts, got=evs)
    # get_inputs_batch of the wrapper: control at p+1 ++ target at p, per sequence; control must be longer
    if ts and len(ts) <= 10:
        e = ed.ConditionalEventSequenceEncoderDecoder(ctl, tgt)
        cs_long = list(ts) + [cs[-1] if cs else NO_EVENT] if len(cs) <= len(ts) else list(cs)
        cs_long = [x if cv(x) else NO_EVENT for x in cs_long]
        want = [_vec(list(ctl.events_to_input(cs_long, i + 1)) + list(tgt.events_to_input(ts, i))) for i in range(len(ts))]
        got = _opt(lambda: [[_vec(v) for v in seq] for seq in e.get_inputs_batch([cs_long], [ts], full_length=True)])
        if got != [[want]]:
            return dict(where, kind='get-inputs-batch-full-length', cs=cs_long, events=ts)
        got = _opt(lambda: [[_vec(v) for v in seq] for seq in e.get_inputs_batch([cs_long], [ts])])
        if got != [[[want[-1]]]]:
            return dict(where, kind='get-inputs-batch-last-event', cs=cs_long, events=ts)
        if _cls(lambda: e.get_inputs_batch([list(ts)], [ts])) != 'ValueError':
            return dict(where, kind='wrong-exception-class', call='get_inputs_batch (control not longer than target)')
        if CHECK_CONDITIONAL_BATCH_COUNT_ERROR and _cls(lambda: e.get_inputs_batch([cs_long, cs_long], [ts])) != 'ValueError':
            return dict(where, kind='wrong-exception-class', call='get_inputs_batch (different number of sequences)')
    if all(0 <= l < ncls for l in ls):
        if not gen or len(gen[0]) != len(ls):
            return dict(where, kind='generation-raises-on-in-range-labels', labels=ls)
        if not steps or steps[0] != len(ls):
            return dict(where, kind='labels-to-num-steps-differs', labels=ls)
    return None


def nontrivial(case, io):
    io = _split(io)[0]
    op = case['op']
    if op == 'noteperf_cfg':
        return io[0] == 0
    if op == 'noteperf':
        if io[0][0] != 0:
            return False
        io = io[1]
    if op in ('wrappers', 'generic', 'gcond'):
        return len(case['input']['es']) >= 1
    if op == 'conditional':
        return len(case['input']['es']) >= 2 and any(io[4])
    return len(case['input']['es']) >= 2 and any(io[5])


# ---------------------------------------------------------------- generators
def _gen_dists(rng, maxd=12):
    r = rng.random()
    if r < 0.05:
        return []
    k = rng.choice([1, 1, 2, 2, 2, 3, 4])
    ds = [rng.randint(1, maxd) for _ in range(k)]
    r = rng.random()
    if r < 0.5:
        ds = sorted(set(ds))
    elif r < 0.65:
        ds = sorted(ds, reverse=True)
    if rng.random() < 0.1:
        ds.append(rng.choice([16, 32, 150]))       # longer than most sequences
    return ds


def _gen_seq(rng, alphabet, ds, maxlen, default=None, long=False):
    """Random sequence with repeats planted at the lookback distances (and runs of the default event)."""
    n = rng.choice([0, 1, 2, 3, 5, 8, 13, 21]) if rng.random() < 0.8 else rng.randint(0, maxlen)
    if long:                      # default distances are 16 and 32: reach past them
        n = rng.choice([17, 33, 40, 70])
    n = min(n, max(maxlen, 40) if long else maxlen)
    es = []
    p_rep = rng.choice([0.0, 0.3, 0.6, 0.9])
    p_def = rng.choice([0.0, 0.2, 0.5])
    for i in range(n):
        r = rng.random()
        if ds and r < p_rep:
            d = rng.choice(ds)
            if 0 <= i - d < i:
                es.append(es[i - d]); continue
        if default is not None and rng.random() < p_def:
            es.append(default); continue
        es.append(rng.choice(alphabet))
    return es


def _positions(rng, n):
    ps = list(range(n))
    if rng.random() < 0.15:
        ps += [n]
    if rng.random() < 0.1:
        ps += [-1]
    return ps


def _labels(rng, ncls, maxn=12, p_bad=0.06, lookbacks=0):
    """Label lists for the generation loop; with lookback classes present, half of the labels are repeat labels and
    some lists are longer than the distances, so that repeats of every listed distance are really taken."""
    k = rng.choice([0, 1, 2, 3, 6, maxn] + ([20, 40] if lookbacks else []))
    ls = []
    for _ in range(k):
        if lookbacks and rng.random() < 0.5:
            ls.append(ncls - 1 - rng.randrange(lookbacks))
        else:
            ls.append(rng.randrange(ncls) if ncls > 0 else 0)
    if ls and rng.random() < p_bad:
        ls[rng.randrange(len(ls))] = rng.choice([-1, ncls, ncls + 3])
    return ls


def _mel_alphabet(mn, mx, rng, p_bad=0.0):
    al = [NO_EVENT, NOTE_OFF] + list(range(mn, mx))
    if len(al) > 8:
        al = [NO_EVENT, NOTE_OFF] + rng.sample(range(mn, mx), 5) + [mn, mx - 1]
    if rng.random() < p_bad:
        al.append(rng.choice([mn - 1, mx, -3, 128]))
    return al


def _mel_cfg(rng):
    if rng.random() < 0.3:
        mn = rng.randint(0, 127)
        return mn, rng.randint(mn + 1, 128)
    mn, mx = rng.choice([(48, 84), (0, 128), (60, 61), (0, 1), (127, 128), (21, 109), (0, 12), (59, 62)])
    return mn, mx


def _perf_cfg(rng):
    nb = rng.choice([0, 0, 1, 8, 32, 127])
    ms = rng.choice([1, 2, 10, 100])
    minp, maxp = rng.choice([(0, 127), (21, 108), (60, 60), (59, 62), (0, 0), (127, 127)])
    if rng.random() < 0.25:
        minp = rng.randint(0, 127)
        maxp = rng.randint(minp, 127)
    return nb, ms, minp, maxp


def _perf_alphabet(rng, nb, ms, minp, maxp, p_bad=0.0):
    al = [[T_ON, rng.randint(minp, maxp)] for _ in range(3)] + [[T_OFF, rng.randint(minp, maxp)] for _ in range(2)]
    al += [[T_SHIFT, ms], [T_SHIFT, rng.randint(1, ms)], [T_SHIFT, 1]]
    if nb > 0:
        al += [[T_VEL, rng.randint(1, nb)], [T_VEL, nb]]
    if rng.random() < p_bad:
        al.append(rng.choice([[T_VEL, 1 if nb == 0 else min(nb + 1, 127)], [T_DUR, 3], [T_SHIFT, ms + 1], [T_SHIFT, 0],
                              [T_ON, (maxp + 1) % 128]]))
    return al


def _omit(rng, op, cfg, keys, p=0.12):
    """Leave some constructor arguments out (each independently): the case stores None, the real constructor is then
    called without that argument, and model / oracle use the documented default.  Returns the effective cfg."""
    for k in keys:
        if rng.random() < p:
            cfg[k] = None
    return _eff_case({'op': op, 'input': {'cfg': cfg}})['input']['cfg']


def _clean_melody(es):
    """What melodies_lib.Melody(es) holds: note-offs before the first note become no-events."""
    out = list(es)
    for i, e in enumerate(out):
        if e not in (NO_EVENT, NOTE_OFF):
            break
        out[i] = NO_EVENT
    return out


def _case(op, cfg, es, ps, ls, **kw):
    d = {'cfg': cfg, 'es': es, 'ps': ps, 'ls': ls}
    d.update(kw)
    return {'op': op, 'input': d}


def _exhaustive(maxlen_lb, maxlen_km):
    out = []
    dlists = [list(p) for r in range(0, 4) for p in itertools.permutations([1, 2, 3], r)]
    syms = [NO_EVENT, NOTE_OFF, 60]
    for n in range(0, max(maxlen_lb, maxlen_km) + 1):
        for es in itertools.product(syms, repeat=n):
            es = list(es)
            for ds in dlists:
                if n <= maxlen_lb:
                    out.append(_case('lookback_mel', {'mn': 60, 'mx': 61, 'ds': ds, 'bits': 2}, es, list(range(n)),
                                     [(x + 2) % (3 + len(ds)) for x in es]))
                if n <= maxlen_km:
                    out.append(_case('keymelody', {'mn': 60, 'mx': 61, 'ds': ds, 'bits': 2}, es, list(range(n)),
                                     [(x + 2) % (3 + len(ds)) for x in es]))
    return out


_SWEPT = False


def cases(rng, tier, n=None):
    thorough = tier == 'thorough'
    mult = 30 if thorough else 2
    maxlen = 100
    out = []
    for _ in range(220 * mult):          # lookback over the melody one-hot
        mn, mx = _mel_cfg(rng)
        ds = _gen_dists(rng)
        if rng.random() < 0.03:
            ds = ds + [rng.choice([0, -1])]
        bits = rng.choice([0, 1, 2, 5, 7, 8]) if rng.random() < 0.97 else -1
        cfg = {'mn': mn, 'mx': mx, 'ds': ds, 'bits': bits}
        eff = _omit(rng, 'lookback_mel', cfg, ['ds', 'bits'])
        es = _gen_seq(rng, _mel_alphabet(mn, mx, rng, 0.06), eff['ds'], maxlen, NO_EVENT, long=cfg['ds'] is None)
        out.append(_case('lookback_mel', cfg, es, _positions(rng, len(es)), _labels(rng, mx - mn + 2 + len(eff['ds']), lookbacks=len(eff['ds']))))
    for _ in range(160 * mult):          # key melody
        mn, mx = _mel_cfg(rng)
        ds = _gen_dists(rng)
        bits = rng.choice([0, 1, 2, 5, 7, 8])
        cfg = {'mn': mn, 'mx': mx, 'ds': ds, 'bits': bits}
        eff = _omit(rng, 'keymelody', cfg, ['ds', 'bits'])
        es = _gen_seq(rng, _mel_alphabet(mn, mx, rng, 0.04), eff['ds'], 60, NO_EVENT, long=cfg['ds'] is None)
        kw = {}
        if rng.random() < 0.3 and all(-2 <= e <= 127 for e in es):
            es = _clean_melody(es)               # handed over as a real melodies_lib.Melody object
            kw['as_melody'] = True
        # positions outside the sequence are not generated for this encoder: with an empty distance list the code
        # neither raises nor means anything there (garbage in, garbage out), so an edit may legitimately change it
        out.append(_case('keymelody', cfg, es, list(range(len(es))), _labels(rng, mx - mn + 2 + len(eff['ds']), lookbacks=len(eff['ds'])), **kw))
    for _ in range(70 * mult):           # plain one-hot and one-hot index
        mn, mx = _mel_cfg(rng)
        es = _gen_seq(rng, _mel_alphabet(mn, mx, rng, 0.08), [], maxlen)
        op = rng.choice(['onehot_mel', 'onehotidx_mel'])
        out.append(_case(op, {'mn': mn, 'mx': mx}, es, _positions(rng, len(es)), _labels(rng, mx - mn + 2)))
    for _ in range(120 * mult):          # performance one-hot: plain, lookback, modulo
        nb, ms, minp, maxp = _perf_cfg(rng)
        op = rng.choice(['onehot_perf', 'lookback_perf', 'lookback_perf', 'modulo_perf'])
        cfg = {'nb': nb, 'ms': ms, 'minp': minp, 'maxp': maxp}
        keys = ['nb', 'ms', 'minp', 'maxp']
        if op == 'modulo_perf':
            cfg = {'nb': nb, 'ms': ms}
            keys = ['nb', 'ms']
        if op == 'lookback_perf':
            cfg['ds'] = _gen_dists(rng, 6)
            cfg['bits'] = rng.choice([0, 3, 5])
            keys += ['ds', 'bits']
        eff = _omit(rng, op, cfg, keys)
        nb, ms, minp, maxp, ds = eff['nb'], eff['ms'], eff.get('minp', 0), eff.get('maxp', 127), eff.get('ds', [])
        ncls = 2 * (maxp - minp + 1) + ms + nb + len(ds)
        es = _gen_seq(rng, _perf_alphabet(rng, nb, ms, minp, maxp, 0.08), ds, 40, [T_SHIFT, ms], long='ds' in cfg and cfg['ds'] is None)
        out.append(_case(op, cfg, es, _positions(rng, len(es)), _labels(rng, ncls, lookbacks=len(ds))))
    for _ in range(90 * mult):           # note performance
        nvb = rng.choice([1, 4, 32, 127]) if rng.random() < 0.95 else 0
        msh = rng.choice([3, 7, 8, 11, 15, 99, 1000])
        mdu = rng.choice([4, 6, 9, 16, 100, 1000])
        minp, maxp = rng.choice([(0, 127), (21, 108), (60, 60)])
        cfg = {'nvb': nvb, 'msh': msh, 'mdu': mdu, 'minp': minp, 'maxp': maxp}
        eff = _omit(rng, 'noteperf', cfg, ['msh', 'mdu', 'minp', 'maxp'], 0.1)
        msh, mdu, minp, maxp = eff['msh'], eff['mdu'], eff['minp'], eff['maxp']
        al = []
        for _k in range(5):
            al.append([[T_SHIFT, rng.choice([0, msh, rng.randint(0, msh)])], [T_ON, rng.randint(minp, maxp)],
                       [T_VEL, rng.randint(1, max(nvb, 1))], [T_DUR, rng.choice([1, mdu, rng.randint(1, mdu)])]])
        if rng.random() < 0.06:
            al.append([[T_SHIFT, msh + 1], [T_ON, minp], [T_VEL, min(nvb + 1, 127)], [T_DUR, mdu + 1]])
        es = _gen_seq(rng, al, [], 20)
        s1, s2 = msh + 1, mdu
        divs = lambda s: [i for i in range(1, s) if s % i == 0]
        seg = lambda s: min(divs(s), key=lambda i: i + s // i) if divs(s) else 1
        ncls = [seg(s1), s1 // seg(s1), maxp - minp + 1, nvb, seg(s2), s2 // seg(s2)]
        ls = [[rng.randrange(max(m, 1)) for m in ncls] for _k in range(rng.choice([0, 0, 1, 2, 5]))]
        if ls and rng.random() < 0.05:
            ls[0][rng.randrange(6)] = -1
        out.append(_case('noteperf', cfg, es, _positions(rng, len(es)), ls))
    for s in (list(range(-1, 40)) if not thorough else list(range(-1, 400))):     # constructor: every small limit
        lo = rng.choice([0, 21, 60])
        out.append({'op': 'noteperf_cfg', 'input': {'cfg': {'nvb': rng.choice([0, 1, 4, 127]), 'msh': s, 'mdu': rng.choice([16, 6, None]),
                                                            'minp': lo, 'maxp': rng.choice([lo, 108, 127, None])}}})
        out.append({'op': 'noteperf_cfg', 'input': {'cfg': {'nvb': rng.choice([0, 1, 4, 127]), 'msh': rng.choice([15, 8, None]), 'mdu': s + 1,
                                                            'minp': rng.choice([0, None]), 'maxp': 127}}})
    for _ in range(90 * mult):           # pianoroll
        size = rng.choice([0, 1, 2, 3, 5, 8, 12, 64, 88])
        pcfg = {'size': size}
        size = _omit(rng, 'pianoroll', pcfg, ['size'], 0.08)['size']
        al = [sorted(rng.sample(range(size), rng.randint(0, min(size, 5)))) for _k in range(4)] + [[]]
        if rng.random() < 0.08:
            al.append(rng.choice([[size], [0, 0] if size else [0], [-1], [1, 0]]))
        es = _gen_seq(rng, al, [], 20)
        ls = [rng.randrange(2 ** size) for _k in range(rng.choice([0, 1, 3, 6]))]
        if ls and rng.random() < 0.08:
            ls[0] = rng.choice([-1, 2 ** size])
        out.append(_case('pianoroll', pcfg, es, _positions(rng, len(es)), ls))
    for _ in range(80 * mult):           # conditional wrapper
        cmn, cmx = _mel_cfg(rng)
        mn, mx = _mel_cfg(rng)
        ds = _gen_dists(rng)
        bits = rng.choice([0, 2, 5])
        ccfg = {'cmn': cmn, 'cmx': cmx, 'mn': mn, 'mx': mx, 'ds': ds, 'bits': bits}
        ds = _omit(rng, 'conditional', ccfg, ['ds', 'bits'], 0.1)['ds']
        ts = _gen_seq(rng, _mel_alphabet(mn, mx, rng, 0.03), ds, 40, NO_EVENT, long=ccfg['ds'] is None)
        r = rng.random()
        nc = len(ts) if r < 0.7 else len(ts) + 1 if r < 0.9 else max(len(ts) - 1, 0)
        cal = _mel_alphabet(cmn, cmx, rng, 0.03)
        cs = [rng.choice(cal) for _k in range(nc)]
        out.append(_case('conditional', ccfg, ts, _positions(rng, len(ts)), _labels(rng, mx - mn + 2 + len(ds), lookbacks=len(ds)), cs=cs))
    for _ in range(25 * mult):           # encoder-only wrappers (implementation side only)
        mn, mx = _mel_cfg(rng)
        ds = _gen_dists(rng, 5)
        al = _mel_alphabet(mn, mx, rng)
        es = _gen_seq(rng, al, ds, 12, NO_EVENT)
        es2 = [rng.choice(al) for _k in es]
        out.append({'op': 'wrappers', 'input': {'cfg': {'mn': mn, 'mx': mx, 'ds': ds, 'bits': rng.choice([0, 3])}, 'es': es,
                                                'es2': es2, 'dis': [rng.random() < 0.3 for _k in es],
                                                'ps': list(range(len(es)))}})
    out += _generic_cases(rng, thorough)
    # the exhaustive sweeps are deterministic: when the engine asks for further batches in the same process
    # (escalated budget after a source change) they are not repeated, only the random part is drawn afresh
    global _SWEPT
    if not _SWEPT:
        out += _exhaustive(8, 6) if thorough else _exhaustive(4, 3)
    _SWEPT = True
    rng.shuffle(out)            # different encoders / configurations interleaved in one process
    if n is not None:
        out = out[:n]
    return out


def corpus():
    """Boundary cases and the two defects found while building the check (always run first)."""
    out = []
    # F17a: KeyMelodyEncoderDecoder with an empty lookback list
    out.append(_case('keymelody', {'mn': 48, 'mx': 84, 'ds': [], 'bits': 3}, [60, 60, -2, -1], [0, 1, 2, 3], [0, 36, 37]))
    # F17b: NotePerformance labels_to_num_steps([])
    out.append(_case('noteperf', {'nvb': 4, 'msh': 15, 'mdu': 16, 'minp': 0, 'maxp': 127},
                     [[[T_SHIFT, 3], [T_ON, 60], [T_VEL, 1], [T_DUR, 2]]], [0], []))
    # the docstring example of the lookback encoder: default event before the first lookback, both lookbacks matching
    out.append(_case('lookback_mel', {'mn': 48, 'mx': 84, 'ds': [2, 4], 'bits': 5},
                     [-2, -2, 60, -1, 60, -1, 60, 62, 60], list(range(9)), [38, 39, 2, 0, 39]))
    # unsorted list, duplicate distances, distance longer than the sequence, pitch 0 (falsy current_note)
    out.append(_case('lookback_mel', {'mn': 0, 'mx': 128, 'ds': [4, 2, 2, 50], 'bits': 0}, [0, 5, 0, 5, 0, 5, -2],
                     list(range(7)), [130, 131, 132, 133]))
    out.append(_case('keymelody', {'mn': 0, 'mx': 12, 'ds': [3, 1], 'bits': 8}, [0, -2, -1, 0, 0, 11, 0], list(range(7)),
                     [12, 13, 14, 15, 0]))
    out.append(_case('pianoroll', {'size': 5}, [[0, 4], [], [0, 1, 2, 3, 4]], [0, 1, 2], [0, 31, 17]))
    # explicit [] versus an omitted distance list (None -> the documented default [16, 32]) on a melody that repeats
    # itself one bar back; omitted counter width; omitted sizes / limits of the other encoders
    rep = [60, -2, 62, -1, 64, -2, -2, -1, 65, -2, 67, -1, 60, 62, 64, -1] * 3
    for ds in ([], None, [16], [32, 16]):
        out.append(_case('keymelody', {'mn': 48, 'mx': 84, 'ds': ds, 'bits': None}, rep, list(range(len(rep))), [0, 36, 37]))
        out.append(_case('lookback_mel', {'mn': 48, 'mx': 84, 'ds': ds, 'bits': None}, rep, list(range(len(rep))), [0, 37, 38]))
    out.append(_case('modulo_perf', {'nb': None, 'ms': 7}, [[T_SHIFT, 7], [T_ON, 60], [T_SHIFT, 1]], [0, 1, 2], [256, 262]))
    out.append(_case('modulo_perf', {'nb': 3, 'ms': None}, [[T_SHIFT, 100], [T_VEL, 3], [T_OFF, 0]], [0, 1, 2], [355, 358]))
    out.append(_case('pianoroll', {'size': None}, [[0, 87], [], [40]], [0, 1, 2], [0, 2 ** 87 + 1]))
    out.append(_case('noteperf', {'nvb': 2, 'msh': None, 'mdu': None, 'minp': None, 'maxp': None},
                     [[[T_SHIFT, 1000], [T_ON, 127], [T_VEL, 2], [T_DUR, 1000]], [[T_SHIFT, 0], [T_ON, 0], [T_VEL, 1], [T_DUR, 1]]],
                     [0, 1], [[12, 76, 127, 1, 24, 39]]))
    return out


def shrink(case):
    op, a = case['op'], case['input']
    if 'es' not in a or op in ('wrappers', 'generic', 'gcond'):
        return
    es, ls = a['es'], a['ls']
    for i in range(len(es)):
        es2 = es[:i] + es[i + 1:]
        b = dict(a, es=es2, ps=list(range(len(es2))))
        if 'cs' in a:
            b['cs'] = a['cs'][:i] + a['cs'][i + 1:] if len(a['cs']) > i else a['cs']
        yield {'op': op, 'input': b}
    for i in range(len(ls)):
        yield {'op': op, 'input': dict(a, ls=ls[:i] + ls[i + 1:])}
    ds = a['cfg'].get('ds')
    if ds:
        for i in range(len(ds)):
            yield {'op': op, 'input': dict(a, cfg=dict(a['cfg'], ds=ds[:i] + ds[i + 1:]), ls=[])}


META = {
    'level_text': ('Theorems for ALL event sequences / positions / lookback lists / label lists (induction, lia), generic in the '
                   'event type and the wrapped one-hot encoding: label decodes to the event against the history, documented '
                   'precedence, label range, input shape, encode alignment, totality of the generation loop, and the '
                   'round trip generate(encode(es).labels, [es[0]]) = es; instantiated for the lookback, key-melody, '
                   'one-hot, one-hot-index, conditional, note-performance and pianoroll encoders. The models are tied to '
                   'the real encoder objects by a differential run over generated and exhaustive small histories.'),
    'level_note': ('Trusted: Coq kernel; the hand-written models in Model/{EncDec,Lookback,KeyMelody,NotePerfEnc,PianorollEnc}.v '
                   '(tied by correspondence only); float cos/sin entries of the modulo-performance input are rebuilt by the '
                   'harness from the modelled layout. Input layouts of the lookback, key-melody, note-performance, pianoroll and (count/blocks only) modulo encoders are theorems and are also evaluated by the oracle.'),
}
