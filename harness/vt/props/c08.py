"""C08 — decoding the labels an encoder produced reconstructs the event sequence.

Every sequence op drives one real EventSequenceEncoderDecoder object and returns the bundle
  [input_size, num_classes, default_event_label, inputs@ps, labels@ps, decode(label p, events[:p])@ps, encode(events),
   generation loop over the given labels from [], labels_to_num_steps(labels)]
An entry that raises is [] (any exception class), a value is [value].  Input vectors are canonicalised to
[len, [[index, value] for the non-zero entries]].
"""
import itertools
import math

from vt import coqgen as G

ID = 'C08'
RULE = ('(encoder configuration, event sequence, positions, label sequence) tuples: random sequences up to length 100 '
        'with repeats planted at the lookback distances, lookback lists sorted / unsorted / with duplicates / longer than '
        'the sequence / empty, counter widths 0..8, pitch ranges, velocity bins, shift limits; every sequence over a '
        '3-symbol alphabet up to length 4 (quick) / 8 (thorough) with every duplicate-free lookback list over {1,2,3}; '
        'a stream with invalid events / out-of-range labels / out-of-range positions for the error branches. '
        'non-trivial = at least 2 events and at least one label that is produced and decoded; distinct by canonical input')
ASSUMPTIONS = ['lookback distances are positive integers (0 and negative distances are modelled as Python behaves but '
               'are outside the property)',
               'events are values the wrapped one-hot encoding accepts (others take the error branch, which is compared '
               'but not claimed)',
               'cos/sin entries of the modulo-performance input are rebuilt in the harness from the modelled layout '
               '(table, row) with the formulas of PerformanceModuloEncoding.__init__ and compared bit-exactly',
               'the model follows note_seq with the two C08 fixes (notes/C08-fix-1.diff, notes/C08-fix-2.diff; committed to /repo)',
               'OptionalEventSequenceEncoder / MultipleEventSequenceEncoder (op wrappers) are checked on the implementation only']
EXHAUSTIVE = {'quick': False, 'thorough': True}

NO_EVENT, NOTE_OFF = -2, -1
T_ON, T_OFF, T_SHIFT, T_VEL, T_DUR = 1, 2, 3, 4, 5

OPS = {'onehot_mel': 1, 'onehotidx_mel': 2, 'lookback_mel': 3, 'keymelody': 4, 'onehot_perf': 5,
       'lookback_perf': 6, 'modulo_perf': 7, 'noteperf': 8, 'pianoroll': 9, 'conditional': 10, 'noteperf_cfg': 11}


# ---------------------------------------------------------------- regenerated constants
def gen_coq():
    from note_seq import constants, performance_encoder_decoder as ped, performance_lib as pl
    s = G.HEADER
    s += G.defz('K_NO_EVENT', constants.MELODY_NO_EVENT)
    s += G.defz('K_NOTE_OFF', constants.MELODY_NOTE_OFF)
    s += G.defz('K_NUM_SPECIAL', constants.NUM_SPECIAL_MELODY_EVENTS)
    s += G.defz('K_MIN_MELODY_EVENT', constants.MIN_MELODY_EVENT)
    s += G.defz('K_MAX_MELODY_EVENT', constants.MAX_MELODY_EVENT)
    s += G.defz('K_MIN_MIDI_PITCH', constants.MIN_MIDI_PITCH)
    s += G.defz('K_NOTES_PER_OCTAVE', constants.NOTES_PER_OCTAVE)
    s += G.defz('K_STEPS_PER_BAR', constants.DEFAULT_STEPS_PER_BAR)
    s += G.defzlistlist('K_NOTE_KEYS', constants.NOTE_KEYS)
    rs = ped.MODULO_EVENT_RANGES
    for r in rs:
        if len(r) != 4:
            raise TypeError('MODULO_EVENT_RANGES row is not a 4-tuple: %r' % (r,))
    s += ('Definition K_MODULO_EVENT_RANGES : list (Z * Z * Z * Z) :=\n  [' +
          '; '.join('(%s, %s, %s, %s)' % tuple(G.z(x) for x in r) for r in rs) + '].\n')
    s += G.defz('K_MODULO_TIME_SHIFT_WIDTH', ped.MODULO_TIME_SHIFT_ENCODER_WIDTH)
    s += G.defz('K_MODULO_VELOCITY_WIDTH', ped.MODULO_VELOCITY_ENCODER_WIDTH)
    s += G.defz('K_PERF_MIN_PITCH', pl.MIN_MIDI_PITCH)
    s += G.defz('K_PERF_MAX_PITCH', pl.MAX_MIDI_PITCH)
    s += G.defz('K_MAX_NUM_VELOCITY_BINS', pl.MAX_NUM_VELOCITY_BINS)
    return s


# ---------------------------------------------------------------- helpers
def _opt(f):
    try:
        return [f()]
    except Exception:  # noqa  (the model has one error value; the class is not compared)
        return []


def _vec(v):
    out = []
    for i, x in enumerate(v):
        if isinstance(x, int):
            if x != 0:
                out.append([i, x])
            continue
        x = float(x)
        if x == 0.0:
            continue
        out.append([i, int(x)] if x == int(x) else [i, x.hex()])
    return [len(v), out]


def _dense(sv):
    n, nz = sv
    v = [0] * n
    for i, x in nz:
        v[i] = x
    return v


def _pe(e):
    from note_seq.performance_lib import PerformanceEvent
    return PerformanceEvent(event_type=e[0], event_value=e[1])


def _pe_out(e):
    return [e.event_type, e.event_value]


def _npe(e):
    return tuple(_pe(x) for x in e)


def _npe_out(e):
    return [_pe_out(x) for x in e]


def _int_label(l):
    if not isinstance(l, int):          # 2 ** negative pitch is a float: outside the integer label space
        raise TypeError('non-integer label')
    return l


class _H(object):
    """One real encoder object plus the codecs between wire events/labels and Python ones."""

    def __init__(self, ed, ncls, ev_in=lambda e: e, ev_out=lambda e: e, lab_in=lambda l: l, lab_out=lambda l: l):
        self.ed, self.ncls, self.ev_in, self.ev_out, self.lab_in, self.lab_out = ed, ncls, ev_in, ev_out, lab_in, lab_out


def _handle(op, c):
    from note_seq import encoder_decoder as ed, melody_encoder_decoder as med
    from note_seq import performance_encoder_decoder as ped, pianoroll_encoder_decoder as pred
    if op == 'onehot_mel':
        e = ed.OneHotEventSequenceEncoderDecoder(med.MelodyOneHotEncoding(c['mn'], c['mx']))
        return _H(e, e.num_classes)
    if op == 'onehotidx_mel':
        e = ed.OneHotIndexEventSequenceEncoderDecoder(med.MelodyOneHotEncoding(c['mn'], c['mx']))
        return _H(e, e.num_classes)
    if op == 'lookback_mel':
        e = ed.LookbackEventSequenceEncoderDecoder(med.MelodyOneHotEncoding(c['mn'], c['mx']), list(c['ds']), c['bits'])
        return _H(e, e.num_classes)
    if op == 'keymelody':
        e = med.KeyMelodyEncoderDecoder(c['mn'], c['mx'], list(c['ds']), c['bits'])
        return _H(e, e.num_classes)
    if op == 'onehot_perf':
        e = ed.OneHotEventSequenceEncoderDecoder(ped.PerformanceOneHotEncoding(c['nb'], c['ms'], c['minp'], c['maxp']))
        return _H(e, e.num_classes, _pe, _pe_out)
    if op == 'lookback_perf':
        e = ed.LookbackEventSequenceEncoderDecoder(
            ped.PerformanceOneHotEncoding(c['nb'], c['ms'], c['minp'], c['maxp']), list(c['ds']), c['bits'])
        return _H(e, e.num_classes, _pe, _pe_out)
    if op == 'modulo_perf':
        e = ped.ModuloPerformanceEventSequenceEncoderDecoder(c['nb'], c['ms'])
        return _H(e, e.num_classes, _pe, _pe_out)
    if op == 'noteperf':
        e = ped.NotePerformanceEventSequenceEncoderDecoder(c['nvb'], c['msh'], c['mdu'], c['minp'], c['maxp'])
        return _H(e, list(e.num_classes), _npe, _npe_out, tuple, list)
    if op == 'pianoroll':
        e = pred.PianorollEncoderDecoder(c['size'])
        return _H(e, e.num_classes, tuple, list, lab_out=_int_label)
    raise ValueError(op)


def _bundle(h, es_w, ps, ls_w):
    e = h.ed
    es = [h.ev_in(x) for x in es_w]
    ls = [h.lab_in(x) for x in ls_w]
    out = [e.input_size, h.ncls, _opt(lambda: h.lab_out(e.default_event_label))]
    out.append([_opt(lambda: _vec(e.events_to_input(es, p))) for p in ps])
    labs = [_opt(lambda: e.events_to_label(es, p)) for p in ps]
    labs = [l if l and _opt(lambda: h.lab_out(l[0])) else [] for l in labs]
    out.append([[h.lab_out(l[0])] if l else [] for l in labs])
    dec = []
    for p, l in zip(ps, labs):
        if 0 <= p < len(es) and l:
            dec.append(_opt(lambda: h.ev_out(e.class_index_to_event(l[0], es[:p]))))
        else:
            dec.append([])
    out.append(dec)

    def enc():
        ins, labels = e.encode(es)
        return [[_vec(v) for v in ins], [h.lab_out(l) for l in labels]]
    out.append(_opt(enc))

    def gen():
        evs = []
        for l in ls:
            evs.append(e.class_index_to_event(l, evs))
        return [h.ev_out(x) for x in evs]
    out.append(_opt(gen))
    out.append(_opt(lambda: int(e.labels_to_num_steps(ls))))
    return out


def _wrappers(c):
    """OptionalEventSequenceEncoder / MultipleEventSequenceEncoder around the one-hot and lookback melody encoders
    (encoders only; not named by the property - checked on the implementation side only, no model)."""
    from note_seq import encoder_decoder as ed, melody_encoder_decoder as med
    oh = ed.OneHotEventSequenceEncoderDecoder(med.MelodyOneHotEncoding(c['mn'], c['mx']))
    base = ed.LookbackEventSequenceEncoderDecoder(med.MelodyOneHotEncoding(c['mn'], c['mx']), list(c['ds']), c['bits'])
    return (oh, base, ed.OptionalEventSequenceEncoder(base),
            ed.MultipleEventSequenceEncoder([oh, base], encode_single_sequence=True),
            ed.MultipleEventSequenceEncoder([oh, base]))


def _np_cfg(c):
    from note_seq import performance_encoder_decoder as ped
    try:
        e = ped.NotePerformanceEventSequenceEncoderDecoder(c['nvb'], c['msh'], c['mdu'], c['minp'], c['maxp'])
    except AssertionError:
        return [2], None
    except ValueError:
        return [1], None
    return [0, e.shift_steps_segments, e.shift_steps_per_segment, e.duration_steps_segments,
            e.duration_steps_per_segment, list(e.num_classes), e.input_size], e


# ---------------------------------------------------------------- implementation
def impl(case):
    op, a = case['op'], case['input']
    c = a['cfg']
    if op == 'noteperf_cfg':
        return _np_cfg(c)[0]
    if op == 'noteperf':
        cfg, e = _np_cfg(c)
        if e is None:
            return [cfg]
        h = _H(e, list(e.num_classes), _npe, _npe_out, tuple, list)
        return [cfg, _bundle(h, a['es'], a['ps'], a['ls'])]
    if op == 'wrappers':
        oh, base, opt, m1, m2 = _wrappers(c)
        es, es2, dis, ps = a['es'], a['es2'], a['dis'], a['ps']
        tup = [(bool(d), e) for d, e in zip(dis, es)]
        return [opt.input_size, [_opt(lambda: _vec(opt.events_to_input(tup, p))) for p in ps],
                m1.input_size, [_opt(lambda: _vec(m1.events_to_input(es, p))) for p in ps],
                m2.input_size, [_opt(lambda: _vec(m2.events_to_input(list(zip(es, es2)), p))) for p in ps]]
    if op == 'conditional':
        from note_seq import encoder_decoder as ed, melody_encoder_decoder as med
        ctl = ed.OneHotEventSequenceEncoderDecoder(med.MelodyOneHotEncoding(c['cmn'], c['cmx']))
        tgt = ed.LookbackEventSequenceEncoderDecoder(med.MelodyOneHotEncoding(c['mn'], c['mx']), list(c['ds']), c['bits'])
        e = ed.ConditionalEventSequenceEncoderDecoder(ctl, tgt)
        cs, ts, ps, ls = a['cs'], a['es'], a['ps'], a['ls']
        out = [e.input_size, e.num_classes, _opt(lambda: e.default_event_label)]
        out.append([_opt(lambda: _vec(e.events_to_input(cs, ts, p))) for p in ps])
        out.append([_opt(lambda: e.events_to_label(ts, p)) for p in ps])

        def enc():
            ins, labels = e.encode(cs, ts)
            return [[_vec(v) for v in ins], list(labels)]
        out.append(_opt(enc))

        def gen():
            evs = []
            for l in ls:
                evs.append(e.class_index_to_event(l, evs))
            return evs
        out.append(_opt(gen))
        out.append(_opt(lambda: int(e.labels_to_num_steps(ls))))
        return out
    return _bundle(_handle(op, c), a['es'], a['ps'], a['ls'])


# ---------------------------------------------------------------- model
def model_input(case):
    op, a = case['op'], case['input']
    c = a['cfg']
    if op == 'wrappers':
        return None
    k = OPS[op]
    if op in ('onehot_mel', 'onehotidx_mel'):
        return [k, c['mn'], c['mx'], a['es'], a['ps'], a['ls']]
    if op in ('lookback_mel', 'keymelody'):
        return [k, c['mn'], c['mx'], c['ds'], c['bits'], a['es'], a['ps'], a['ls']]
    if op == 'onehot_perf':
        return [k, c['nb'], c['ms'], c['minp'], c['maxp'], a['es'], a['ps'], a['ls']]
    if op == 'lookback_perf':
        return [k, c['nb'], c['ms'], c['minp'], c['maxp'], c['ds'], c['bits'], a['es'], a['ps'], a['ls']]
    if op == 'modulo_perf':
        return [k, c['nb'], c['ms'], a['es'], a['ps'], a['ls']]
    if op == 'noteperf':
        return [k, c['nvb'], c['msh'], c['mdu'], c['minp'], c['maxp'], a['es'], a['ps'], a['ls']]
    if op == 'noteperf_cfg':
        return [k, c['nvb'], c['msh'], c['mdu'], c['minp'], c['maxp']]
    if op == 'pianoroll':
        return [k, c['size'], a['es'], a['ps'], a['ls']]
    if op == 'conditional':
        return [k, c['cmn'], c['cmx'], c['mn'], c['mx'], c['ds'], c['bits'], a['cs'], a['es'], a['ps'], a['ls']]
    raise ValueError(op)


def _modulo_vec(layout, nb, ms):
    """Rebuild the float vector from the modelled layout with the formulas of PerformanceModuloEncoding.__init__."""
    size, off, table, row, pc = layout
    v = [0.0] * size
    v[off] = 1.0
    if table == 0:
        ang = (float(row) * math.pi) / 72.0
        v[off + 1], v[off + 2] = math.cos(ang), math.sin(ang)
        ang = (float(pc) * math.pi) / 6.0
        v[off + 3], v[off + 4] = math.cos(ang), math.sin(ang)
    elif table == 1:
        ang = (float(row) * 2.0 * math.pi) / float(ms)
        v[off + 1], v[off + 2] = math.cos(ang), math.sin(ang)
    else:
        ang = (float(row) * 2.0 * math.pi) / float(nb)
        v[off + 1], v[off + 2] = math.cos(ang), math.sin(ang)
    return _vec(v)


def model_output(case, m):
    op, a = case['op'], case['input']
    if op == 'modulo_perf':
        c = a['cfg']
        m = list(m)
        m[3] = [[_modulo_vec(x[0], c['nb'], c['ms'])] if x else [] for x in m[3]]
        if m[6]:
            ins, labs = m[6][0]
            m[6] = [[[_modulo_vec(x, c['nb'], c['ms']) for x in ins], labs]]
        return m
    return m


# ---------------------------------------------------------------- oracle: the property on the implementation
def _mel_valid(c):
    return lambda e: e in (NO_EVENT, NOTE_OFF) or c['mn'] <= e < c['mx']


def _perf_valid(c):
    def ok(e):
        ty, v = e
        return ((ty in (T_ON, T_OFF) and c['minp'] <= v <= c['maxp']) or (ty == T_SHIFT and 1 <= v <= c['ms']) or
                (ty == T_VEL and c['nb'] > 0 and 1 <= v <= c['nb']))
    return ok


def _noteperf_valid(c):
    def ok(e):
        return (e[0][0] == T_SHIFT and 0 <= e[0][1] <= c['msh'] and e[1][0] == T_ON and c['minp'] <= e[1][1] <= c['maxp'] and
                e[2][0] == T_VEL and 1 <= e[2][1] <= c['nvb'] and e[3][0] == T_DUR and 1 <= e[3][1] <= c['mdu'])
    return ok


def _mel_enc(c):
    return lambda e: e + 2 if e < 0 else e - c['mn'] + 2


def _perf_enc(c):
    def enc(e):
        ty, v = e
        w = c['maxp'] - c['minp'] + 1
        return {T_ON: v - c['minp'], T_OFF: w + v - c['minp'], T_SHIFT: 2 * w + v - 1, T_VEL: 2 * w + c['ms'] + v - 1}[ty]
    return enc


def _expected_lookback_label(es, p, ds, n, default, plain):
    """The documented precedence: initial default -> last lookback; else the LAST-LISTED matching lookback
    (= the farthest one for an increasing list); else the plain class."""
    k = len(ds)
    if ds and p < ds[-1] and es[p] == default:
        return n + k - 1
    for i in reversed(range(k)):
        if p - ds[i] >= 0 and es[p] == es[p - ds[i]]:
            return n + i
    return plain(es[p])


def _in_range(l, ncls):
    if isinstance(ncls, list):
        return isinstance(l, list) and len(l) == len(ncls) and all(0 <= x < m for x, m in zip(l, ncls))
    return 0 <= l < ncls


def _one_hot_blocks(op, c, ncls, size):
    """[(start, width)] of the one-hot blocks the property names, or None."""
    if op in ('onehot_mel', 'onehot_perf'):
        return [(0, ncls)]
    if op in ('lookback_mel', 'lookback_perf'):
        k = len(c['ds'])
        n = ncls - k
        return [(i * n, n) for i in range(1 + k)]
    if op == 'noteperf':
        out, o = [], 0
        for w in ncls:
            out.append((o, w)); o += w
        return out
    return None


def _steps_of(op, evs):
    if op in ('onehot_perf', 'lookback_perf', 'modulo_perf'):
        return sum(v for ty, v in evs if ty == T_SHIFT)
    if op == 'noteperf':
        return sum(e[0][1] for e in evs) + (evs[-1][3][1] if evs else 0)
    return len(evs)


def _expected_lookback_input(es, p, ds, bits, n, default, enc):
    """The layout lookback_input_shape proves: one-hot(current) ++ one-hot(next event per lookback) ++ counter ++ flags."""
    v = [0] * (n + len(ds) * n + bits + len(ds))
    v[enc(es[p])] = 1
    off = n
    for d in ds:
        lp = p - d + 1
        v[off + enc(default if lp < 0 else es[lp])] = 1
        off += n
    for i in range(bits):
        v[off] = 1 if ((p + 1) // 2 ** i) % 2 else -1
        off += 1
    for d in ds:
        if p - d >= 0 and es[p] == es[p - d]:
            v[off] = 1
        off += 1
    return v


def _keymelody_input_problem(v, es, p, c):
    """The block structure keymelody_input_shape proves; returns a short reason or None."""
    mn, nr, ds, bits = c['mn'], c['mx'] - c['mn'], c['ds'], c['bits']
    k = len(ds)
    pitch, playing, silence = v[:nr], v[nr], v[nr + 1]
    attack, asc = v[nr + 2], v[nr + 3]
    o = nr + 4
    flags, cnt = v[o:o + k], v[o + k:o + k + bits]
    o += k + bits
    bar, keys1, keys2 = v[o], v[o + 1:o + 13], v[o + 13:o + 25]
    cur = None
    for e in es[:p + 1]:
        if e == NOTE_OFF:
            cur = None
        elif e != NO_EVENT:
            cur = e
    if cur:                                     # the code's own truthiness: pitch 0 counts as silence
        if pitch != [1 if i == cur - mn else 0 for i in range(nr)] or (playing, silence) != (1, 0):
            return 'pitch-cell-or-playing-flag'
    elif any(pitch) or (playing, silence) != (0, 1):
        return 'silence-flag'
    if attack not in (0, 1) or asc not in (-1, 0, 1):
        return 'attack-or-ascending-cell'
    if flags != [1 if (p - d >= 0 and es[p] == es[p - d]) else 0 for d in ds]:
        return 'repeat-flags'
    if cnt != [1 if ((p + 1) // 2 ** i) % 2 else -1 for i in range(bits)]:
        return 'counter-bits'
    if bar != (1 if (p + 1) % 16 == 0 else 0):
        return 'bar-flag'
    for ks in (keys1, keys2):
        if len(ks) != 12 or any(x not in (0, 1) for x in ks) or not any(ks):
            return 'key-flags'
    return None


def _modulo_input_problem(sv, e, c):
    """Count and block structure of the modulo input: valid bit at the block offset of the event's range,
    nothing written outside that block."""
    n, nz = sv
    widths = [(T_ON, 5), (T_OFF, 5), (T_SHIFT, 3)] + ([(T_VEL, 3)] if c['nb'] > 0 else [])
    if n != sum(w for _, w in widths):
        return 'size'
    off = 0
    for ty, w in widths:
        if ty == e[0]:
            break
        off += w
    if [off, 1] not in nz:
        return 'valid-bit'
    if any(not (off <= i < off + w) for i, _ in nz):
        return 'written-outside-block'
    return None


def oracle(case, io):
    op, a = case['op'], case['input']
    c = a['cfg']
    if op == 'noteperf_cfg':
        return _oracle_np_cfg(c, io)
    if op == 'noteperf':
        v = _oracle_np_cfg(c, io[0])
        if v or io[0][0] != 0:
            return v
        io = io[1]
    if op == 'conditional':
        return _oracle_conditional(case, io)
    if op == 'wrappers':
        return _oracle_wrappers(case, io)
    es, ps, ls = a['es'], a['ps'], a['ls']
    ds = c.get('ds', [])
    if any(d <= 0 for d in ds):
        return None                      # outside the property (distances are positive step counts)
    if op in ('lookback_mel', 'lookback_perf', 'keymelody') and c['bits'] < 0:
        return None
    size, ncls, dlab, ins, labs, decs, enc, gen, steps = io
    valid = {'onehot_mel': _mel_valid, 'onehotidx_mel': _mel_valid, 'lookback_mel': _mel_valid, 'keymelody': _mel_valid,
             'onehot_perf': _perf_valid, 'lookback_perf': _perf_valid,
             'modulo_perf': lambda c: _perf_valid(dict(c, minp=0, maxp=127)),
             'noteperf': _noteperf_valid,
             'pianoroll': lambda c: (lambda e: all(0 <= x < c['size'] for x in e) and
                                     all(e[i] < e[i + 1] for i in range(len(e) - 1)))}[op](c)
    if op == 'keymelody' and not (0 <= c['mn'] < c['mx'] <= 128):
        return None
    allvalid = all(valid(e) for e in es)
    where = {'op': op, 'cfg': c}
    blocks = _one_hot_blocks(op, c, ncls, size)
    # default_event_label: an in-range label that decodes (against an empty history) to the default event
    dflt = {'onehot_mel': NO_EVENT, 'onehotidx_mel': NO_EVENT, 'lookback_mel': NO_EVENT, 'keymelody': NO_EVENT,
            'onehot_perf': [T_SHIFT, c.get('ms')], 'lookback_perf': [T_SHIFT, c.get('ms')],
            'modulo_perf': [T_SHIFT, c.get('ms')], 'pianoroll': [],
            'noteperf': [[T_SHIFT, 0], [T_ON, 60], [T_VEL, 1], [T_DUR, 1]]}[op]
    if op != 'noteperf' or (c['minp'] <= 60 <= c['maxp'] and c['nvb'] >= 1):
        if not dlab or not _in_range(dlab[0], ncls):
            return dict(where, kind='default-event-label-out-of-range', got=dlab)
        h = _handle_for(case)
        back = _opt(lambda: h.ev_out(h.ed.class_index_to_event(h.lab_in(dlab[0]), [])))
        if back != [dflt]:
            return dict(where, kind='default-event-label-does-not-decode-to-default-event', got=back, label=dlab[0])
    if allvalid:
        for j, p in enumerate(ps):
            if not (0 <= p < len(es)):
                continue
            # label exists, in range, decodes to the event
            if not labs[j]:
                return dict(where, kind='label-raises', position=p, events=es)
            l = labs[j][0]
            if not _in_range(l, ncls):
                return dict(where, kind='label-out-of-range', position=p, events=es, label=l)
            if not decs[j]:
                return dict(where, kind='decode-of-label-raises', position=p, events=es, label=l)
            if decs[j][0] != es[p]:
                return dict(where, kind='decode-of-label-is-not-the-event', position=p, events=es, label=l,
                            decoded=decs[j][0])
            # precedence
            exp = None
            if op == 'lookback_mel':
                exp = _expected_lookback_label(es, p, ds, ncls - len(ds), NO_EVENT, _mel_enc(c))
            elif op == 'lookback_perf':
                exp = _expected_lookback_label([tuple(e) for e in es], p, ds, ncls - len(ds), (T_SHIFT, c['ms']),
                                               _perf_enc(c))
            elif op == 'keymelody':
                nr = c['mx'] - c['mn']
                exp = _expected_lookback_label(es, p, ds, nr + 2, NO_EVENT,
                                               lambda e: nr + 1 if e == NOTE_OFF else nr if e == NO_EVENT else e - c['mn'])
            elif op in ('onehot_mel', 'onehotidx_mel'):
                exp = _mel_enc(c)(es[p])
            elif op in ('onehot_perf', 'modulo_perf'):
                exp = _perf_enc(dict(c, minp=c.get('minp', 0), maxp=c.get('maxp', 127)))(es[p])
            if exp is not None and l != exp:
                return dict(where, kind='label-not-the-documented-precedence', position=p, events=es, label=l, expected=exp)
            # input shape
            if not ins[j]:
                return dict(where, kind='input-raises', position=p, events=es)
            n, nzs = ins[j][0]
            if n != size:
                return dict(where, kind='input-length-is-not-input-size', position=p, events=es, length=n, input_size=size)
            if op in ('lookback_mel', 'lookback_perf'):
                kk = len(ds)
                if op == 'lookback_mel':
                    expv = _expected_lookback_input(es, p, ds, c['bits'], ncls - kk, NO_EVENT, _mel_enc(c))
                else:
                    expv = _expected_lookback_input([tuple(e) for e in es], p, ds, c['bits'], ncls - kk,
                                                    (T_SHIFT, c['ms']), _perf_enc(c))
                if _dense(ins[j][0]) != expv:
                    return dict(where, kind='lookback-input-layout', position=p, events=es)
            if op == 'keymelody':
                why = _keymelody_input_problem(_dense(ins[j][0]), es, p, c)
                if why:
                    return dict(where, kind='keymelody-input-layout', position=p, events=es, block=why)
            if op == 'pianoroll' and _dense(ins[j][0]) != [1 if k in es[p] else 0 for k in range(c['size'])]:
                return dict(where, kind='pianoroll-input-is-not-the-pitch-set', position=p, events=es)
            if op == 'modulo_perf':
                why = _modulo_input_problem(ins[j][0], es[p], c)
                if why:
                    return dict(where, kind='modulo-input-layout', position=p, events=es, block=why)
            if blocks is not None:
                v = _dense(ins[j][0])
                for (st, w) in blocks:
                    blk = v[st:st + w]
                    if sorted(blk) != [0] * (w - 1) + [1]:
                        return dict(where, kind='one-hot-block-not-one-hot', position=p, events=es, block=[st, w])
        # encode: len-1 aligned pairs
        if not enc:
            return dict(where, kind='encode-raises', events=es)
        e_ins, e_labs = enc[0]
        m = max(len(es) - 1, 0)
        if len(e_ins) != m or len(e_labs) != m:
            return dict(where, kind='encode-not-len-minus-1-pairs', events=es, got=[len(e_ins), len(e_labs)])
        pos = {p: j for j, p in enumerate(ps)}
        for i in range(m):
            if i in pos and ins[pos[i]] and e_ins[i] != ins[pos[i]][0]:
                return dict(where, kind='encode-input-misaligned', events=es, index=i)
            if i + 1 in pos and labs[pos[i + 1]] and e_labs[i] != labs[pos[i + 1]][0]:
                return dict(where, kind='encode-label-misaligned', events=es, index=i)
        # decoding the labels the encoder produced reconstructs the sequence (generation loop from the first event)
        if es:
            h = _handle_for(case)
            try:
                evs = [h.ev_in(es[0])]
                for l in e_labs:
                    evs.append(h.ed.class_index_to_event(h.lab_in(l), evs))
                back = [h.ev_out(x) for x in evs]
            except Exception as ex:  # noqa
                return dict(where, kind='generation-from-encoded-labels-raises', events=es, exc=type(ex).__name__)
            if back != es:
                return dict(where, kind='generation-from-encoded-labels-differs', events=es, got=back)
    # generation loop over arbitrary in-range labels
    if all(_in_range(l, ncls) for l in ls):
        if not gen:
            return dict(where, kind='generation-raises-on-in-range-labels', labels=ls)
        if len(gen[0]) != len(ls):
            return dict(where, kind='generation-length', labels=ls)
        if not steps:
            return dict(where, kind='labels-to-num-steps-raises', labels=ls, n_labels=len(ls))
        if steps[0] != _steps_of(op, gen[0]):
            return dict(where, kind='labels-to-num-steps-differs', labels=ls, got=steps[0], expected=_steps_of(op, gen[0]))
    return None


def _handle_for(case):
    op, c = case['op'], case['input']['cfg']
    if op == 'noteperf':
        e = _np_cfg(c)[1]
        return _H(e, list(e.num_classes), _npe, _npe_out, tuple, list)
    return _handle(op, c)


def _proper_divisor(s):
    return any(s % i == 0 for i in range(2, s))


def _oracle_np_cfg(c, cfg):
    s1, s2 = c['msh'] + 1, c['mdu']
    should_accept = s1 >= 2 and s2 >= 2 and _proper_divisor(s1) and _proper_divisor(s2)
    if cfg[0] != 0:
        if should_accept:
            return {'kind': 'noteperf-constructor-rejects-factorable-limits', 'cfg': c}
        return None
    if not should_accept:
        return {'kind': 'noteperf-constructor-accepts-prime-limit', 'cfg': c}
    _, ss, sp, dseg, dp, ncls, size = cfg
    if ss * sp != s1 or dseg * dp != s2 or ss <= 1 or dseg <= 1:
        return {'kind': 'noteperf-segments-do-not-factor', 'cfg': c, 'got': cfg}
    if ncls != [ss, sp, c['maxp'] - c['minp'] + 1, c['nvb'], dseg, dp] or size != sum(ncls):
        return {'kind': 'noteperf-class-sizes', 'cfg': c, 'got': cfg}
    return None


def _oracle_wrappers(case, io):
    a = case['input']
    c = a['cfg']
    oh, base, opt, m1, m2 = _wrappers(c)
    es, es2, dis, ps = a['es'], a['es2'], a['dis'], a['ps']
    osz, oins, s1, i1, s2, i2 = io
    where = {'op': 'wrappers', 'cfg': c}
    if osz != 1 + base.input_size or s1 != oh.input_size + base.input_size or s2 != s1:
        return dict(where, kind='wrapper-input-size')
    for j, p in enumerate(ps):
        b = [int(x) for x in base.events_to_input(es, p)]
        b2 = [int(x) for x in base.events_to_input(es2, p)]
        o = [int(x) for x in oh.events_to_input(es, p)]
        exp = [1] + [0] * base.input_size if dis[p] else [0] + b
        if oins[j] != [_vec(exp)]:
            return dict(where, kind='optional-encoder-input', position=p, events=es, disabled=dis)
        if i1[j] != [_vec(o + b)]:
            return dict(where, kind='multiple-encoder-input', position=p, events=es, single=True)
        if i2[j] != [_vec(o + b2)]:
            return dict(where, kind='multiple-encoder-input', position=p, events=es, events2=es2, single=False)
    return None


def _oracle_conditional(case, io):
    from note_seq import encoder_decoder as ed, melody_encoder_decoder as med
    a = case['input']
    c = a['cfg']
    if any(d <= 0 for d in c['ds']) or c['bits'] < 0:
        return None
    cs, ts, ps, ls = a['cs'], a['es'], a['ps'], a['ls']
    size, ncls, dlab, ins, labs, enc, gen, steps = io
    ctl = ed.OneHotEventSequenceEncoderDecoder(med.MelodyOneHotEncoding(c['cmn'], c['cmx']))
    tgt = ed.LookbackEventSequenceEncoderDecoder(med.MelodyOneHotEncoding(c['mn'], c['mx']), list(c['ds']), c['bits'])
    where = {'op': 'conditional', 'cfg': c}
    if size != ctl.input_size + tgt.input_size:
        return dict(where, kind='conditional-input-size')
    if ncls != tgt.num_classes:
        return dict(where, kind='conditional-num-classes')
    if not dlab or not (0 <= dlab[0] < ncls) or tgt.class_index_to_event(dlab[0], []) != NO_EVENT:
        return dict(where, kind='default-event-label-does-not-decode-to-default-event', got=dlab)
    cv = lambda e: e in (NO_EVENT, NOTE_OFF) or c['cmn'] <= e < c['cmx']
    tv = _mel_valid(c)
    if not (all(cv(e) for e in cs) and all(tv(e) for e in ts)):
        return None
    for j, p in enumerate(ps):
        if 0 <= p < len(ts):
            if not labs[j] or labs[j][0] != tgt.events_to_label(ts, p):
                return dict(where, kind='conditional-label-is-not-target-label', position=p, cs=cs, events=ts)
        if 0 <= p < len(ts) and 0 <= p + 1 < len(cs):
            exp = _vec(list(ctl.events_to_input(cs, p + 1)) + list(tgt.events_to_input(ts, p)))
            if not ins[j] or ins[j][0] != exp:
                return dict(where, kind='conditional-input-is-not-control-next-plus-target', position=p, cs=cs, events=ts)
            if ins[j][0][0] != size:
                return dict(where, kind='input-length-is-not-input-size', position=p, cs=cs, events=ts)
    if len(cs) != len(ts):
        if enc:
            return dict(where, kind='conditional-encode-accepts-unequal-lengths', cs=cs, events=ts)
    else:
        if not enc:
            return dict(where, kind='encode-raises', cs=cs, events=ts)
        e_ins, e_labs = enc[0]
        m = max(len(ts) - 1, 0)
        if len(e_ins) != m or len(e_labs) != m:
            return dict(where, kind='encode-not-len-minus-1-pairs', cs=cs, events=ts)
        for i in range(m):
            if e_labs[i] != tgt.events_to_label(ts, i + 1):
                return dict(where, kind='encode-label-misaligned', cs=cs, events=ts, index=i)
            if e_ins[i] != _vec(list(ctl.events_to_input(cs, i + 1)) + list(tgt.events_to_input(ts, i))):
                return dict(where, kind='encode-input-misaligned', cs=cs, events=ts, index=i)
        if ts:
            evs = [ts[0]]
            for l in e_labs:
                evs.append(tgt.class_index_to_event(l, evs))
            if evs != ts:
                return dict(where, kind='generation-from-encoded-labels-differs', cs=cs, events=ts, got=evs)
    if all(0 <= l < ncls for l in ls):
        if not gen or len(gen[0]) != len(ls):
            return dict(where, kind='generation-raises-on-in-range-labels', labels=ls)
        if not steps or steps[0] != len(ls):
            return dict(where, kind='labels-to-num-steps-differs', labels=ls)
    return None


def nontrivial(case, io):
    op = case['op']
    if op == 'noteperf_cfg':
        return io[0] == 0
    if op == 'noteperf':
        if io[0][0] != 0:
            return False
        io = io[1]
    if op == 'wrappers':
        return len(case['input']['es']) >= 1
    if op == 'conditional':
        return len(case['input']['es']) >= 2 and any(io[4])
    return len(case['input']['es']) >= 2 and any(io[5])


# ---------------------------------------------------------------- generators
def _gen_dists(rng, maxd=12):
    r = rng.random()
    if r < 0.05:
        return []
    k = rng.choice([1, 1, 2, 2, 2, 3, 4])
    ds = [rng.randint(1, maxd) for _ in range(k)]
    r = rng.random()
    if r < 0.5:
        ds = sorted(set(ds))
    elif r < 0.65:
        ds = sorted(ds, reverse=True)
    if rng.random() < 0.1:
        ds.append(rng.choice([16, 32, 150]))       # longer than most sequences
    return ds


def _gen_seq(rng, alphabet, ds, maxlen, default=None):
    """Random sequence with repeats planted at the lookback distances (and runs of the default event)."""
    n = rng.choice([0, 1, 2, 3, 5, 8, 13, 21]) if rng.random() < 0.8 else rng.randint(0, maxlen)
    n = min(n, maxlen)
    es = []
    p_rep = rng.choice([0.0, 0.3, 0.6, 0.9])
    p_def = rng.choice([0.0, 0.2, 0.5])
    for i in range(n):
        r = rng.random()
        if ds and r < p_rep:
            d = rng.choice(ds)
            if 0 <= i - d < i:
                es.append(es[i - d]); continue
        if default is not None and rng.random() < p_def:
            es.append(default); continue
        es.append(rng.choice(alphabet))
    return es


def _positions(rng, n):
    ps = list(range(n))
    if rng.random() < 0.15:
        ps += [n]
    if rng.random() < 0.1:
        ps += [-1]
    return ps


def _labels(rng, ncls, maxn=12, p_bad=0.06):
    k = rng.choice([0, 1, 2, 3, 6, maxn])
    ls = [rng.randrange(ncls) if ncls > 0 else 0 for _ in range(k)]
    if ls and rng.random() < p_bad:
        ls[rng.randrange(len(ls))] = rng.choice([-1, ncls, ncls + 3])
    return ls


def _mel_alphabet(mn, mx, rng, p_bad=0.0):
    al = [NO_EVENT, NOTE_OFF] + list(range(mn, mx))
    if len(al) > 8:
        al = [NO_EVENT, NOTE_OFF] + rng.sample(range(mn, mx), 5) + [mn, mx - 1]
    if rng.random() < p_bad:
        al.append(rng.choice([mn - 1, mx, -3, 128]))
    return al


def _mel_cfg(rng):
    mn, mx = rng.choice([(48, 84), (0, 128), (60, 61), (0, 1), (127, 128), (21, 109), (0, 12), (59, 62)])
    return mn, mx


def _perf_cfg(rng):
    nb = rng.choice([0, 0, 1, 8, 32, 127])
    ms = rng.choice([1, 2, 10, 100])
    minp, maxp = rng.choice([(0, 127), (21, 108), (60, 60), (59, 62)])
    return nb, ms, minp, maxp


def _perf_alphabet(rng, nb, ms, minp, maxp, p_bad=0.0):
    al = [[T_ON, rng.randint(minp, maxp)] for _ in range(3)] + [[T_OFF, rng.randint(minp, maxp)] for _ in range(2)]
    al += [[T_SHIFT, ms], [T_SHIFT, rng.randint(1, ms)], [T_SHIFT, 1]]
    if nb > 0:
        al += [[T_VEL, rng.randint(1, nb)], [T_VEL, nb]]
    if rng.random() < p_bad:
        al.append(rng.choice([[T_VEL, 1 if nb == 0 else min(nb + 1, 127)], [T_DUR, 3], [T_SHIFT, ms + 1], [T_SHIFT, 0],
                              [T_ON, (maxp + 1) % 128]]))
    return al


def _case(op, cfg, es, ps, ls, **kw):
    d = {'cfg': cfg, 'es': es, 'ps': ps, 'ls': ls}
    d.update(kw)
    return {'op': op, 'input': d}


def _exhaustive(maxlen_lb, maxlen_km):
    out = []
    dlists = [list(p) for r in range(0, 4) for p in itertools.permutations([1, 2, 3], r)]
    syms = [NO_EVENT, NOTE_OFF, 60]
    for n in range(0, max(maxlen_lb, maxlen_km) + 1):
        for es in itertools.product(syms, repeat=n):
            es = list(es)
            for ds in dlists:
                if n <= maxlen_lb:
                    out.append(_case('lookback_mel', {'mn': 60, 'mx': 61, 'ds': ds, 'bits': 2}, es, list(range(n)),
                                     [(x + 2) % (3 + len(ds)) for x in es]))
                if n <= maxlen_km:
                    out.append(_case('keymelody', {'mn': 60, 'mx': 61, 'ds': ds, 'bits': 2}, es, list(range(n)),
                                     [(x + 2) % (3 + len(ds)) for x in es]))
    return out


def cases(rng, tier, n=None):
    thorough = tier == 'thorough'
    mult = 30 if thorough else 2
    maxlen = 100
    out = []
    for _ in range(220 * mult):          # lookback over the melody one-hot
        mn, mx = _mel_cfg(rng)
        ds = _gen_dists(rng)
        if rng.random() < 0.03:
            ds = ds + [rng.choice([0, -1])]
        bits = rng.choice([0, 1, 2, 5, 7, 8]) if rng.random() < 0.97 else -1
        es = _gen_seq(rng, _mel_alphabet(mn, mx, rng, 0.06), ds, maxlen, NO_EVENT)
        out.append(_case('lookback_mel', {'mn': mn, 'mx': mx, 'ds': ds, 'bits': bits}, es, _positions(rng, len(es)),
                         _labels(rng, mx - mn + 2 + len(ds))))
    for _ in range(160 * mult):          # key melody
        mn, mx = _mel_cfg(rng)
        ds = _gen_dists(rng)
        bits = rng.choice([0, 1, 2, 5, 7, 8])
        es = _gen_seq(rng, _mel_alphabet(mn, mx, rng, 0.04), ds, 60, NO_EVENT)
        # positions outside the sequence are not generated for this encoder: with an empty distance list the code
        # neither raises nor means anything there (garbage in, garbage out), so an edit may legitimately change it
        out.append(_case('keymelody', {'mn': mn, 'mx': mx, 'ds': ds, 'bits': bits}, es, list(range(len(es))),
                         _labels(rng, mx - mn + 2 + len(ds))))
    for _ in range(70 * mult):           # plain one-hot and one-hot index
        mn, mx = _mel_cfg(rng)
        es = _gen_seq(rng, _mel_alphabet(mn, mx, rng, 0.08), [], maxlen)
        op = rng.choice(['onehot_mel', 'onehotidx_mel'])
        out.append(_case(op, {'mn': mn, 'mx': mx}, es, _positions(rng, len(es)), _labels(rng, mx - mn + 2)))
    for _ in range(120 * mult):          # performance one-hot: plain, lookback, modulo
        nb, ms, minp, maxp = _perf_cfg(rng)
        op = rng.choice(['onehot_perf', 'lookback_perf', 'lookback_perf', 'modulo_perf'])
        cfg = {'nb': nb, 'ms': ms, 'minp': minp, 'maxp': maxp}
        ds = []
        if op == 'modulo_perf':
            minp, maxp = 0, 127
            cfg = {'nb': nb, 'ms': ms}
        if op == 'lookback_perf':
            ds = _gen_dists(rng, 6)
            cfg['ds'] = ds
            cfg['bits'] = rng.choice([0, 3, 5])
        ncls = 2 * (maxp - minp + 1) + ms + nb + len(ds)
        es = _gen_seq(rng, _perf_alphabet(rng, nb, ms, minp, maxp, 0.08), ds, 40, [T_SHIFT, ms])
        out.append(_case(op, cfg, es, _positions(rng, len(es)), _labels(rng, ncls)))
    for _ in range(90 * mult):           # note performance
        nvb = rng.choice([1, 4, 32, 127]) if rng.random() < 0.95 else 0
        msh = rng.choice([3, 7, 8, 11, 15, 99, 1000])
        mdu = rng.choice([4, 6, 9, 16, 100, 1000])
        minp, maxp = rng.choice([(0, 127), (21, 108), (60, 60)])
        cfg = {'nvb': nvb, 'msh': msh, 'mdu': mdu, 'minp': minp, 'maxp': maxp}
        al = []
        for _k in range(5):
            al.append([[T_SHIFT, rng.choice([0, msh, rng.randint(0, msh)])], [T_ON, rng.randint(minp, maxp)],
                       [T_VEL, rng.randint(1, max(nvb, 1))], [T_DUR, rng.choice([1, mdu, rng.randint(1, mdu)])]])
        if rng.random() < 0.06:
            al.append([[T_SHIFT, msh + 1], [T_ON, minp], [T_VEL, min(nvb + 1, 127)], [T_DUR, mdu + 1]])
        es = _gen_seq(rng, al, [], 20)
        s1, s2 = msh + 1, mdu
        divs = lambda s: [i for i in range(1, s) if s % i == 0]
        seg = lambda s: min(divs(s), key=lambda i: i + s // i) if divs(s) else 1
        ncls = [seg(s1), s1 // seg(s1), maxp - minp + 1, nvb, seg(s2), s2 // seg(s2)]
        ls = [[rng.randrange(max(m, 1)) for m in ncls] for _k in range(rng.choice([0, 0, 1, 2, 5]))]
        if ls and rng.random() < 0.05:
            ls[0][rng.randrange(6)] = -1
        out.append(_case('noteperf', cfg, es, _positions(rng, len(es)), ls))
    for s in (list(range(-1, 40)) if not thorough else list(range(-1, 400))):     # constructor: every small limit
        out.append({'op': 'noteperf_cfg', 'input': {'cfg': {'nvb': 4, 'msh': s, 'mdu': 16, 'minp': 0, 'maxp': 127}}})
        out.append({'op': 'noteperf_cfg', 'input': {'cfg': {'nvb': 4, 'msh': 15, 'mdu': s + 1, 'minp': 0, 'maxp': 127}}})
    for _ in range(90 * mult):           # pianoroll
        size = rng.choice([0, 1, 2, 5, 8, 12, 88])
        al = [sorted(rng.sample(range(size), rng.randint(0, min(size, 5)))) for _k in range(4)] + [[]]
        if rng.random() < 0.08:
            al.append(rng.choice([[size], [0, 0] if size else [0], [-1], [1, 0]]))
        es = _gen_seq(rng, al, [], 20)
        ls = [rng.randrange(2 ** size) for _k in range(rng.choice([0, 1, 3, 6]))]
        if ls and rng.random() < 0.08:
            ls[0] = rng.choice([-1, 2 ** size])
        out.append(_case('pianoroll', {'size': size}, es, _positions(rng, len(es)), ls))
    for _ in range(80 * mult):           # conditional wrapper
        cmn, cmx = _mel_cfg(rng)
        mn, mx = _mel_cfg(rng)
        ds = _gen_dists(rng)
        bits = rng.choice([0, 2, 5])
        ts = _gen_seq(rng, _mel_alphabet(mn, mx, rng, 0.03), ds, 30, NO_EVENT)
        r = rng.random()
        nc = len(ts) if r < 0.7 else len(ts) + 1 if r < 0.9 else max(len(ts) - 1, 0)
        cal = _mel_alphabet(cmn, cmx, rng, 0.03)
        cs = [rng.choice(cal) for _k in range(nc)]
        out.append(_case('conditional', {'cmn': cmn, 'cmx': cmx, 'mn': mn, 'mx': mx, 'ds': ds, 'bits': bits}, ts,
                         _positions(rng, len(ts)), _labels(rng, mx - mn + 2 + len(ds)), cs=cs))
    for _ in range(25 * mult):           # encoder-only wrappers (implementation side only)
        mn, mx = _mel_cfg(rng)
        ds = _gen_dists(rng, 5)
        al = _mel_alphabet(mn, mx, rng)
        es = _gen_seq(rng, al, ds, 12, NO_EVENT)
        es2 = [rng.choice(al) for _k in es]
        out.append({'op': 'wrappers', 'input': {'cfg': {'mn': mn, 'mx': mx, 'ds': ds, 'bits': rng.choice([0, 3])}, 'es': es,
                                                'es2': es2, 'dis': [rng.random() < 0.3 for _k in es],
                                                'ps': list(range(len(es)))}})
    out += _exhaustive(8, 6) if thorough else _exhaustive(4, 3)
    if n is not None:
        rng.shuffle(out)
        out = out[:n]
    return out


def corpus():
    """Boundary cases and the two defects found while building the check (always run first)."""
    out = []
    # F17a: KeyMelodyEncoderDecoder with an empty lookback list
    out.append(_case('keymelody', {'mn': 48, 'mx': 84, 'ds': [], 'bits': 3}, [60, 60, -2, -1], [0, 1, 2, 3], [0, 36, 37]))
    # F17b: NotePerformance labels_to_num_steps([])
    out.append(_case('noteperf', {'nvb': 4, 'msh': 15, 'mdu': 16, 'minp': 0, 'maxp': 127},
                     [[[T_SHIFT, 3], [T_ON, 60], [T_VEL, 1], [T_DUR, 2]]], [0], []))
    # the docstring example of the lookback encoder: default event before the first lookback, both lookbacks matching
    out.append(_case('lookback_mel', {'mn': 48, 'mx': 84, 'ds': [2, 4], 'bits': 5},
                     [-2, -2, 60, -1, 60, -1, 60, 62, 60], list(range(9)), [38, 39, 2, 0, 39]))
    # unsorted list, duplicate distances, distance longer than the sequence, pitch 0 (falsy current_note)
    out.append(_case('lookback_mel', {'mn': 0, 'mx': 128, 'ds': [4, 2, 2, 50], 'bits': 0}, [0, 5, 0, 5, 0, 5, -2],
                     list(range(7)), [130, 131, 132, 133]))
    out.append(_case('keymelody', {'mn': 0, 'mx': 12, 'ds': [3, 1], 'bits': 8}, [0, -2, -1, 0, 0, 11, 0], list(range(7)),
                     [12, 13, 14, 15, 0]))
    out.append(_case('pianoroll', {'size': 5}, [[0, 4], [], [0, 1, 2, 3, 4]], [0, 1, 2], [0, 31, 17]))
    return out


def shrink(case):
    op, a = case['op'], case['input']
    if 'es' not in a or op == 'wrappers':
        return
    es, ls = a['es'], a['ls']
    for i in range(len(es)):
        es2 = es[:i] + es[i + 1:]
        b = dict(a, es=es2, ps=list(range(len(es2))))
        if 'cs' in a:
            b['cs'] = a['cs'][:i] + a['cs'][i + 1:] if len(a['cs']) > i else a['cs']
        yield {'op': op, 'input': b}
    for i in range(len(ls)):
        yield {'op': op, 'input': dict(a, ls=ls[:i] + ls[i + 1:])}
    ds = a['cfg'].get('ds')
    if ds:
        for i in range(len(ds)):
            yield {'op': op, 'input': dict(a, cfg=dict(a['cfg'], ds=ds[:i] + ds[i + 1:]), ls=[])}


META = {
    'level_text': ('Theorems for ALL event sequences / positions / lookback lists / label lists (induction, lia), generic in the '
                   'event type and the wrapped one-hot encoding: label decodes to the event against the history, documented '
                   'precedence, label range, input shape, encode alignment, totality of the generation loop, and the '
                   'round trip generate(encode(es).labels, [es[0]]) = es; instantiated for the lookback, key-melody, '
                   'one-hot, one-hot-index, conditional, note-performance and pianoroll encoders. The models are tied to '
                   'the real encoder objects by a differential run over generated and exhaustive small histories.'),
    'level_note': ('Trusted: Coq kernel; the hand-written models in Model/{EncDec,Lookback,KeyMelody,NotePerfEnc,PianorollEnc}.v '
                   '(tied by correspondence only); float cos/sin entries of the modulo-performance input are rebuilt by the '
                   'harness from the modelled layout. Input layouts of the lookback, key-melody, note-performance, pianoroll and (count/blocks only) modulo encoders are theorems and are also evaluated by the oracle.'),
}
