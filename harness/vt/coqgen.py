"""Fail-closed emitters of Gallina text for constants/tables read from /repo."""


def z(n):
    if isinstance(n, bool) or not isinstance(n, int):
        # accept integral floats / numpy ints explicitly, nothing else
        if isinstance(n, float) and n == int(n):
            n = int(n)
        else:
            try:
                import numpy as np
                if isinstance(n, np.integer):
                    n = int(n)
                else:
                    raise TypeError
            except Exception:
                raise TypeError('coqgen.z: not an integer: %r' % (n,))
    return '(%d)' % n


def zlist(xs):
    return '[' + '; '.join(z(x) for x in xs) + ']'


def zlistlist(xss):
    return '[' + ';\n   '.join(zlist(xs) for xs in xss) + ']'


def string(s):
    if not isinstance(s, str):
        raise TypeError('coqgen.string: %r' % (s,))
    return zlist([ord(c) for c in s])


def boolean(b):
    if not isinstance(b, bool):
        raise TypeError('coqgen.boolean: %r' % (b,))
    return 'true' if b else 'false'


HEADER = ('From Coq Require Import ZArith List.\nImport ListNotations.\n'
          'Local Open Scope Z_scope.\n\n')


def defz(name, v):
    return 'Definition %s : Z := %s.\n' % (name, z(v))


def defzlist(name, v):
    return 'Definition %s : list Z := %s.\n' % (name, zlist(v))


def defzlistlist(name, v):
    return 'Definition %s : list (list Z) :=\n  %s.\n' % (name, zlistlist(v))


def defstring(name, s):
    return 'Definition %s : list Z := %s.  (* %r *)\n' % (name, string(s), s)
