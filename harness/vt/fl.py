"""Exact float <-> (mantissa, exponent) pairs: the wire format for IEEE doubles.

`me(x)` returns integers (m, e) with x == m * 2**e exactly and |m| < 2**53;
the Gallina side decodes with Base/FloatBridge.v `f_of_me m e`.  Only finite
floats are representable (NaN / inf raise).
"""
import math


def me(x):
    x = float(x)
    if math.isnan(x) or math.isinf(x):
        raise ValueError('fl.me: non-finite %r' % (x,))
    if x == 0.0:
        return [0, 0]
    m, e = math.frexp(x)          # x = m * 2**e, 0.5 <= |m| < 1
    mi = int(m * (1 << 53))       # exact
    e -= 53
    while mi % 2 == 0:
        mi //= 2
        e += 1
    return [mi, e]


def unme(p):
    m, e = p
    return math.ldexp(float(m), e)


def nextafter_n(x, n):
    """x moved by n ulps (n may be negative)."""
    d = math.inf if n > 0 else -math.inf
    for _ in range(abs(n)):
        x = math.nextafter(x, d)
    return x
