(* Generic driver for every extracted model: one S-expression of integers per
   input line, [Model.run] applied to it, one S-expression per output line.
   Integers are arbitrary precision (decimal <-> Coq's binary [positive]). *)
open Model

(* --- little-endian base 1e9 naturals ------------------------------------ *)
let base = 1_000_000_000

let rec bn_double_add (l : int list) (carry : int) : int list =
  match l with
  | [] -> if carry = 0 then [] else [carry]
  | d :: r ->
    let v = (2 * d) + carry in
    (v mod base) :: bn_double_add r (v / base)

let rec bn_of_pos (p : positive) : int list =
  match p with
  | XH -> [1]
  | XO q -> bn_double_add (bn_of_pos q) 0
  | XI q -> bn_double_add (bn_of_pos q) 1

let bn_to_string (l : int list) : string =
  match List.rev l with
  | [] -> "0"
  | hd :: tl ->
    String.concat "" (string_of_int hd :: List.map (Printf.sprintf "%09d") tl)

(* halve a big-endian digit list, return (quotient big-endian, remainder) *)
let bn_half_be (l : int list) : int list * int =
  let rec go l carry acc =
    match l with
    | [] -> (List.rev acc, carry)
    | d :: r ->
      let v = (carry * base) + d in
      go r (v land 1) ((v / 2) :: acc)
  in
  let q, r = go l 0 [] in
  let rec strip = function 0 :: (_ :: _ as t) -> strip t | x -> x in
  (strip q, r)

let bn_be_of_string (s : string) : int list =
  (* split from the right in groups of 9 digits *)
  let n = String.length s in
  let rec go hi acc =
    if hi <= 0 then acc
    else
      let lo = max 0 (hi - 9) in
      go lo (int_of_string (String.sub s lo (hi - lo)) :: acc)
  in
  go n []

let rec pos_of_be (l : int list) : positive =
  (* precondition: l represents a number >= 1 *)
  match l with
  | [1] -> XH
  | _ ->
    let q, r = bn_half_be l in
    if r = 0 then XO (pos_of_be q) else XI (pos_of_be q)

let z_of_string (s : string) : z =
  let neg = String.length s > 0 && s.[0] = '-' in
  let body = if neg then String.sub s 1 (String.length s - 1) else s in
  let be =
    let rec strip = function 0 :: (_ :: _ as t) -> strip t | x -> x in
    strip (bn_be_of_string body)
  in
  match be with
  | [0] | [] -> Z0
  | _ -> if neg then Zneg (pos_of_be be) else Zpos (pos_of_be be)

let string_of_z (x : z) : string =
  match x with
  | Z0 -> "0"
  | Zpos p -> bn_to_string (bn_of_pos p)
  | Zneg p -> "-" ^ bn_to_string (bn_of_pos p)

(* --- S-expressions -------------------------------------------------------- *)
let parse (s : string) : sx =
  let n = String.length s in
  let pos = ref 0 in
  let rec skip () =
    if !pos < n && (s.[!pos] = ' ' || s.[!pos] = '\t' || s.[!pos] = '\r') then (incr pos; skip ())
  in
  let rec item () : sx =
    skip ();
    if !pos >= n then failwith "unexpected end"
    else if s.[!pos] = '(' then begin
      incr pos;
      let acc = ref [] in
      let fin = ref false in
      while not !fin do
        skip ();
        if !pos >= n then failwith "unclosed"
        else if s.[!pos] = ')' then (incr pos; fin := true)
        else acc := item () :: !acc
      done;
      L (List.rev !acc)
    end else begin
      let st = !pos in
      while !pos < n && s.[!pos] <> ' ' && s.[!pos] <> '(' && s.[!pos] <> ')' do incr pos done;
      I (z_of_string (String.sub s st (!pos - st)))
    end
  in
  item ()

let rec print (b : Buffer.t) (x : sx) : unit =
  match x with
  | I z -> Buffer.add_string b (string_of_z z)
  | L l ->
    Buffer.add_char b '(';
    List.iteri (fun i y -> if i > 0 then Buffer.add_char b ' '; print b y) l;
    Buffer.add_char b ')'

let () =
  let b = Buffer.create 65536 in
  (try
     while true do
       let line = input_line stdin in
       if String.length line > 0 then begin
         Buffer.clear b;
         (try print b (run (parse line))
          with Stack_overflow -> Buffer.add_string b "(-1001 1)"
             | Failure m -> Buffer.add_string b ("(-1001 2)"); prerr_endline m);
         print_string (Buffer.contents b);
         print_newline ()
       end
     done
   with End_of_file -> ())
