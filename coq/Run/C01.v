(** Run/C01.v — wire-format entry point for the C01 (quantization) model.
    Floats travel as order-preserving integer codes (see Model/Quantize.v). *)
From Coq Require Import ZArith List Bool Floats.
From NS Require Import Base.Sx Base.NoteSeq Base.FloatBridge Gen.G01 Model.Quantize.
Import ListNotations.
Local Open Scope Z_scope.

(** a float result as (signed mantissa, exponent); the harness compares values *)
Definition oFloat (x : PrimFloat.float) : sx :=
  match Prim2SF x with
  | S754_zero _ => L [I 0; I 0]
  | S754_finite s m e => L [I (if s then Z.neg m else Z.pos m); I e]
  | S754_infinity s => L [I 0; I (if s then (-9999) else 9999)]
  | S754_nan => L [I 0; I 7777]
  end.

Definition oErrQ (e : qerr) : sx :=
  oErr (match e with MultipleTempo => 1 | MultipleTimeSig => 2 | BadTimeSig => 3 | NegativeTime => 4 end).

Definition oRes (r : res seq) : sx :=
  match r with Ok s => oOk (oSeq s) | Err e => oErrQ e end.

(** Sequence results are printed with every time replaced by (time_out - time_in) (0 when
    untouched): printing 19-digit codes dominates the evaluation time otherwise.  Pure glue;
    harness/vt/props/c01.py [_delta] does the same on the implementation's output. *)
Definition dNote (p : note * note) : sx :=
  let (i, o) := p in
  L [I (n_pitch o); I (n_vel o); I (n_start o - n_start i); I (n_end o - n_end i); I (n_instr o); I (n_prog o);
     oB (n_drum o); I (n_qstart o); I (n_qend o); I (n_rest o)].
Definition dKsig (p : ksig * ksig) := let (i, o) := p in L [I (ks_time o - ks_time i); I (ks_key o); I (ks_mode o)].
Definition dText (p : text * text) :=
  let (i, o) := p in L [I (tx_time o - tx_time i); I (tx_qstep o); oZs (tx_text o); I (tx_type o)].
Definition dCc (p : cc * cc) :=
  let (i, o) := p in
  L [I (cc_time o - cc_time i); I (cc_qstep o); I (cc_num o); I (cc_val o); I (cc_instr o); I (cc_prog o); oB (cc_drum o)].
Definition dBend (p : bend * bend) :=
  let (i, o) := p in L [I (pb_time o - pb_time i); I (pb_bend o); I (pb_instr o); I (pb_prog o); oB (pb_drum o)].
Definition dSect (p : sect * sect) := let (i, o) := p in L [I (sa_time o - sa_time i); I (sa_id o)].
Definition dList {A} (f : A * A -> sx) (i o : list A) : sx :=
  L [I (Z.of_nat (length o)); L (map f (combine i o))].

(** tempos / time signatures: unchanged lists print as deltas; rewritten lists (relative
    quantization) print in full (one entry) *)
Definition dSeq (rel : bool) (i o : seq) : sx :=
  L [dList dNote (s_notes i) (s_notes o);
     (if rel then L (map oTempo (s_tempos o))
      else dList (fun p : tempo * tempo => let (a, b) := p in L [I (tp_time b - tp_time a); I (tp_qpm b - tp_qpm a)])
                 (s_tempos i) (s_tempos o));
     (if rel then L (map oTsig (s_tsigs o))
      else dList (fun p : tsig * tsig => let (a, b) := p in L [I (ts_time b - ts_time a); I (ts_num b); I (ts_den b)])
                 (s_tsigs i) (s_tsigs o));
     dList dKsig (s_ksigs i) (s_ksigs o); dList dText (s_texts i) (s_texts o); dList dCc (s_ccs i) (s_ccs o);
     dList dBend (s_bends i) (s_bends o); dList dSect (s_sects i) (s_sects o);
     I (s_total o - s_total i); I (s_qsteps o); I (s_spq o); I (s_sps o);
     L [I (fst (s_sub o) - fst (s_sub i)); I (snd (s_sub o) - snd (s_sub i))]; I (s_tpq o); I (s_rest o - s_rest i)].

Definition oResD (rel : bool) (i : seq) (r : res seq) : sx :=
  match r with Ok o => oOk (dSeq rel i o) | Err e => oErrQ e end.

Definition run (s : sx) : sx :=
  let a := fun n => xnth n s in
  match xZ (a 0%nat) with
  | 1 => (* quantize_to_step: (t...) sps (codes) -> (steps) *)
      let sps := fdec (xZ (a 2%nat)) in
      oZs (map (fun c => q2s (fdec c) sps) (xZs (a 1%nat)))
  | 2 => (* t spq qpm -> quantize_to_step(t, steps_per_quarter_to_steps_per_second(spq, qpm)), sps *)
      let t := fdec (xZ (a 1%nat)) in
      let sps := sps_rel (xZ (a 2%nat)) (fdec (xZ (a 3%nat))) in
      L [I (q2s t sps); oFloat sps]
  | 3 => (* quantize_note_sequence_absolute: sps seq *)
      let i := xSeq (a 2%nat) in oResD false i (quantize_abs (xZ (a 1%nat)) i)
  | 4 => (* quantize_note_sequence: spq seq *)
      let i := xSeq (a 2%nat) in oResD true i (quantize_rel (xZ (a 1%nat)) i)
  | 5 => (* the code before notes/C01-fix-1.diff (diagnostic only) *)
      let i := xSeq (a 2%nat) in oResD true i (quantize_rel_legacy (xZ (a 1%nat)) i)
  | 6 => (* decoding of a float code, echoed as (mantissa exponent) *)
      oFloat (fdec (xZ (a 1%nat)))
  | 7 => (* quantize_to_step with an explicit quantize_cutoff: (t...) sps cutoff (codes) -> (steps) *)
      let sps := fdec (xZ (a 2%nat)) in let c := fdec (xZ (a 3%nat)) in
      oZs (map (fun tc => q2s_cut c (fdec tc) sps) (xZs (a 1%nat)))
  | _ => oErr 99
  end.
