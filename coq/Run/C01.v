(** Run/C01.v — wire-format entry point for the C01 (quantization) model.
    Floats travel as order-preserving integer codes (see Model/Quantize.v). *)
From Coq Require Import ZArith List Bool Floats.
From NS Require Import Base.Sx Base.NoteSeq Base.FloatBridge Gen.G01 Model.Quantize.
Import ListNotations.
Local Open Scope Z_scope.

(** a float result as (signed mantissa, exponent); the harness compares values *)
Definition oFloat (x : PrimFloat.float) : sx :=
  match Prim2SF x with
  | S754_zero _ => L [I 0; I 0]
  | S754_finite s m e => L [I (if s then Z.neg m else Z.pos m); I e]
  | S754_infinity s => L [I 0; I (if s then (-9999) else 9999)]
  | S754_nan => L [I 0; I 7777]
  end.

Definition oErrQ (e : qerr) : sx :=
  oErr (match e with MultipleTempo => 1 | MultipleTimeSig => 2 | BadTimeSig => 3 | NegativeTime => 4 end).

Definition oRes (r : res seq) : sx :=
  match r with Ok s => oOk (oSeq s) | Err e => oErrQ e end.

Definition run (s : sx) : sx :=
  let a := fun n => xnth n s in
  match xZ (a 0%nat) with
  | 1 => (* quantize_to_step: (t...) sps (codes) -> (steps) decoded-sps (decoded-t...) *)
      let ts := map fdec (xZs (a 1%nat)) in let sps := fdec (xZ (a 2%nat)) in
      L [oZs (map (fun t => q2s t sps) ts); oFloat sps; L (map oFloat ts)]
  | 2 => (* t spq qpm -> quantize_to_step(t, steps_per_quarter_to_steps_per_second(spq, qpm)), sps *)
      let t := fdec (xZ (a 1%nat)) in
      let sps := sps_rel (xZ (a 2%nat)) (fdec (xZ (a 3%nat))) in
      L [I (q2s t sps); oFloat sps]
  | 3 => (* quantize_note_sequence_absolute: sps seq *)
      oRes (quantize_abs (xZ (a 1%nat)) (xSeq (a 2%nat)))
  | 4 => (* quantize_note_sequence: spq seq *)
      oRes (quantize_rel (xZ (a 1%nat)) (xSeq (a 2%nat)))
  | 5 => (* the code before notes/C01-fix-1.diff (diagnostic only) *)
      oRes (quantize_rel_legacy (xZ (a 1%nat)) (xSeq (a 2%nat)))
  | _ => oErr 99
  end.
