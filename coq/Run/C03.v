(** Run/C03.v — wire-format entry point for the C03 models.
    input  (op seq wr_table)   wr_table = ((us us_written) ...)
    op 1   writer glue          -> (ties (res (scales oldest first) tsigs ksigs instrs))
    op 2   write ; channel ; read -> (status pre_ok ties notes ccs bends tempos tsigs ksigs total tpq)
    op 4   (4 seq tbl (idx key)|()) reader glue on the writer's object, optional bad key -> as op 2 / (0)
    op 3   as op 2 with the code before notes/C03-fix-2.diff (instrument 0 reuse) — not used by the check *)
From Coq Require Import ZArith List Bool.
From NS Require Import Base.Sx Base.NoteSeq Gen.G03 Model.TempoMap Model.MidiGlue.
Import ListNotations.
Local Open Scope Z_scope.

Definition xTable (s : sx) : list (Z * Z) := map (fun r => (xZ (xnth 0 r), xZ (xnth 1 r))) (xL s).
Fixpoint lookup (tbl : list (Z * Z)) (us : Z) : Z :=
  match tbl with
  | [] => us
  | (a, b) :: r => if a =? us then b else lookup r us
  end.

Definition oPnote (n : pnote) := L [I (pn_vel n); I (pn_pitch n); I (pn_start n); I (pn_end n)].
Definition oPinstr (i : pinstr) :=
  L [I (pi_prog i); oB (pi_drum i); L (map oPnote (pi_notes i));
     L (map (fun b => L [I (pbd_pitch b); I (pbd_time b)]) (pi_bends i));
     L (map (fun c => L [I (pc_num c); I (pc_val c); I (pc_time c)]) (pi_ccs i))].
Definition oPm (p : pm) : sx :=
  L [I (pm_res p);
     L (map (fun e => L [I (fst e); I (snd e)]) ((0, pm_u0 p) :: rev (pm_scales p)));
     L (map (fun t => L [I (pts_num t); I (pts_den t); I (pts_time t)]) (pm_tsigs p));
     L (map (fun k => L [I (pks_key k); I (pks_time k)]) (pm_ksigs p));
     L (map oPinstr (pm_instrs p))].

(** half-tick ties met anywhere (tempo loop against the map so far; everything
    else against the final map) *)
Definition loop_ties (u0 : Z) (init : option tempo) (ts : list tempo) : Z :=
  snd (fold_left (fun (st : list (Z * Z) * Z) t =>
                    let '(l, c) := st in
                    if is_initial init t then st
                    else ((ttt u0 l (tp_time t), tp_qpm t) :: l,
                          if tie_at u0 l (tp_time t) then c + 1 else c)) ts ([], 0)).

Definition count_ties (s : seq) : Z :=
  let u0 := write_u0 s in
  let l := write_scales s in
  let c := fun t => if tie_at u0 l t then 1 else 0 in
  loop_ties u0 (initial_tempo (s_tempos s)) (sort_tempos (s_tempos s))
  + fold_right Z.add 0 (map (fun n => c (n_start n) + c (n_end n)) (s_notes s))
  + fold_right Z.add 0 (map (fun b => c (pb_time b)) (s_bends s))
  + fold_right Z.add 0 (map (fun x => c (cc_time x)) (s_ccs s))
  + fold_right Z.add 0 (map (fun x => c (ts_time x)) (s_tsigs s))
  + fold_right Z.add 0 (map (fun x => c (ks_time x)) (s_ksigs s)).

Definition oOut (s : seq) : list sx :=
  [L (map (fun n => L [I (n_instr n); I (n_prog n); oB (n_drum n); I (n_pitch n); I (n_vel n);
                       I (n_start n); I (n_end n)]) (s_notes s));
   L (map (fun c => L [I (cc_instr c); I (cc_prog c); oB (cc_drum c); I (cc_num c); I (cc_val c); I (cc_time c)])
          (s_ccs s));
   L (map (fun b => L [I (pb_instr b); I (pb_prog b); oB (pb_drum b); I (pb_bend b); I (pb_time b)]) (s_bends s));
   L (map oTempo (s_tempos s)); L (map oTsig (s_tsigs s)); L (map oKsig (s_ksigs s));
   I (s_total s); I (s_tpq s)].

Definition run_rt (fix9 : bool) (s : seq) (wr : Z -> Z) : sx :=
  let p := write_gen fix9 s in
  match read (pm_roundtrip wr p) with
  | None => L [I 0]
  | Some o => L ([I 1; oB (chan_pre p); I (count_ties s)] ++ oOut o)
  end.

(** reader glue alone, on the PrettyMIDI object the writer built (no channel);
    [bad = (idx key)] overwrites the key number of the idx-th key signature first
    (rejection path: key_number // 12 outside {0, 1} is a MIDIConversionError) *)
Fixpoint set_key (i : nat) (k : Z) (l : list pksig) : list pksig :=
  match l, i with
  | [], _ => []
  | x :: r, O => mkPksig k (pks_time x) :: r
  | x :: r, S j => x :: set_key j k r
  end.

Definition run_readpm (s : seq) (bad : sx) : sx :=
  let p := write s in
  let ks := match xL bad with
            | [] => pm_ksigs p
            | _ => set_key (xN (xnth 0 bad)) (xZ (xnth 1 bad)) (pm_ksigs p)
            end in
  match read (mkPm (pm_res p) (pm_u0 p) (pm_scales p) (pm_tsigs p) ks (pm_instrs p)) with
  | None => L [I 0]
  | Some o => L ([I 1; I 1; I (count_ties s)] ++ oOut o)
  end.

Definition run (x : sx) : sx :=
  let s := xSeq (xnth 1 x) in
  let wr := lookup (xTable (xnth 2 x)) in
  match xZ (xnth 0 x) with
  | 1 => L [I (count_ties s); oPm (write s)]
  | 2 => run_rt true s wr
  | 3 => run_rt false s wr
  | 4 => run_readpm s (xnth 3 x)
  | _ => oErr 1
  end.
