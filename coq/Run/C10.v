(** Run/C10.v — wire-format entry point for the C10 models (glue, no theorems). *)
From Coq Require Import ZArith List Bool.
From NS Require Import Base.Sx Base.NoteSeq Gen.G10 Model.ChordTranspose Model.Transpose.
Import ListNotations.
Local Open Scope Z_scope.

Definition oOptZs (o : option (list Z)) : sx :=
  match o with Some l => L [oZs l] | None => L [] end.
Definition oOptCodes (o : option (list (list Z))) : sx :=
  match o with Some l => L [L (map oZs l)] | None => L [] end.

(* what the harness observes of one structured chord: root pc, bass pc, pitches, quality *)
Definition oChordObs (c : chord) : sx :=
  L [I (chord_root_pc c); I (chord_bass_pc c); oOptZs (chord_pitches c); oOptZ (chord_quality c)].

Definition run (s : sx) : sx :=
  let a := fun n => xnth n s in
  match xZ (a 0%nat) with
  | 1 => (* tpc: step alter k -> ((step' alter')?  midi_in  midi_out?) *)
      let p := (step_of_idx (xZ (a 1%nat)), xZ (a 2%nat)) in
      match transpose_pc p (xZ (a 3%nat)) with
      | Some q => L [L [I (step_idx (fst q)); I (snd q)]; I (pc_midi p); L [I (pc_midi q)]]
      | None => L [L []; I (pc_midi p); L []]
      end
  | 2 => (* chord: code k -> (code'? obs(in)? obs(out)?) *)
      let k := xZ (a 2%nat) in
      match chord_of_code (xZs (a 1%nat)) with
      | None => oErr 2
      | Some c =>
          L [oOptZs (transpose_figure (xZs (a 1%nat)) k); oChordObs c;
             match transpose_chord c k with Some c' => L [oChordObs c'] | None => L [] end]
      end
  | 3 => (* ns: seq k lo hi transpose_chords *)
      match transpose_ns (xSeq (a 1%nat)) (xZ (a 2%nat)) (xZ (a 3%nat)) (xZ (a 4%nat)) (xB (a 5%nat)) with
      | Some (r, deleted) => L [I 0; oSeq r; I deleted]
      | None => oErr 1
      end
  | 4 => (* melody transpose: k lo hi evs *)
      oZs (mel_transpose (xZ (a 1%nat)) (xZ (a 2%nat)) (xZ (a 3%nat)) (xZs (a 4%nat)))
  | 5 => (* squash: lo hi key? evs -> (amount evs' major_key) *)
      let evs := xZs (a 4%nat) in
      let '(amt, r) := mel_squash (xZ (a 1%nat)) (xZ (a 2%nat)) (xOptZ (a 3%nat)) evs in
      L [I amt; oZs r; I (major_key evs)]
  | 6 => (* progression transpose: k codes *)
      oOptCodes (prog_transpose (xZ (a 1%nat)) (map xZs (xL (a 2%nat))))
  | 7 => (* lead sheet transpose: k lo hi mel chords *)
      match ls_transpose (xZ (a 1%nat)) (xZ (a 2%nat)) (xZ (a 3%nat)) (xZs (a 4%nat)) (map xZs (xL (a 5%nat))) with
      | Some (m, cs) => L [I 0; oZs m; L (map oZs cs)]
      | None => oErr 1
      end
  | 8 => (* lead sheet squash: lo hi key mel chords *)
      match ls_squash (xZ (a 1%nat)) (xZ (a 2%nat)) (xZ (a 3%nat)) (xZs (a 4%nat)) (map xZs (xL (a 5%nat))) with
      | Some (amt, m, cs) => L [I 0; I amt; oZs m; L (map oZs cs)]
      | None => oErr 1
      end
  | 9 => (* clamp: amount ns_min ns_max lo hi *)
      I (clamp_transpose (xZ (a 1%nat)) (xZ (a 2%nat)) (xZ (a 3%nat)) (xZ (a 4%nat)) (xZ (a 5%nat)))
  | _ => oErr 99
  end.
