(** Run/C11.v — wire-format entry point for property C11.

    Two kinds of request:

    * opcode 1: evaluate the well-formedness predicates [wfb] / [qwfb] of Model/Wf.v on
      the wire image of sequences — the harness sends the sequences the REAL operations
      returned (times as order-preserving float codes) and compares the verdicts with its
      own Python predicate, so the predicate the theorems are about is the predicate the
      runtime monitor measures;
    * opcodes 10..26: run the imported MODEL of an operation (the models verified by the
      C02 / C10 / C13 / C14 developments, plus merge / expand of Model/WfOps.v) on the
      generated input (exact ticks) and report, per returned sequence, [wfb], the number of
      notes and total_time; compared with the same observables of the real result.
    * opcode 99: a list of requests (one case = the operation + the predicate on its
      real results).

    Decoding / encoding only; no proofs. *)
From Coq Require Import ZArith List Bool.
From NS Require Import Base.Sx Base.NoteSeq Gen.G02 Model.Wf Model.WfOps.
From NS Require Model.TimeOps Model.Extract Model.Split Model.Transpose Model.Sustain.
Import ListNotations.
Local Open Scope Z_scope.

(** status codes = Python exception classes (harness/vt/props/c11.py STATUS) *)
Definition st_terr (e : TimeOps.terr) : Z :=
  match e with
  | TimeOps.EValue => 1 | TimeOps.EQuant => 2 | TimeOps.EAdjust => 3
  | TimeOps.ERectify => 4 | TimeOps.EZeroDiv => 5
  end.
Definition st_xerr (e : Extract.xerr) : Z :=
  match e with
  | Extract.ErrQuantized => 2
  | Extract.ErrTooFew | Extract.ErrUnsorted | Extract.ErrPastEnd => 1
  | Extract.ErrZeroHop => 5
  end.
Definition st_eerr (e : eerr) : Z :=
  match e with XValue => 1 | XQuant => 2 | XKey => 6 | XOther => 9 end.

Definition oObs (s : seq) : sx :=
  L [oB (wfb s); I (Z.of_nat (length (s_notes s))); I (s_total s); I (Z.of_nat (length (s_ccs s)))].
Definition out (status : Z) (rs : list seq) (extra : list Z) : sx :=
  L [I status; L (map oObs rs); oZs extra].

Definition out_t (r : TimeOps.res seq) : sx :=
  match r with TimeOps.Ok x => out 0 [x] [] | TimeOps.Err e => out (st_terr e) [] [] end.
Definition out_x (r : Extract.res seq) : sx :=
  match r with Extract.Ok x => out 0 [x] [] | Extract.Err e => out (st_xerr e) [] [] end.
Definition out_xs (r : Extract.res (list seq)) : sx :=
  match r with Extract.Ok l => out 0 l [] | Extract.Err e => out (st_xerr e) [] [] end.

(** time functions for adjust_notesequence_times (the harness builds the Python closure
    from the same description): (kind p1 p2)
      1: t * p1 + p2     2: t - p1     3: p1 - t     4: constant p1
      5: t if t <= p1 else p1 + 2 * (t - p1)
      6: t if t <= p1 else p2   (p2 < 0: only LATE notes / events are rejected) *)
Definition time_fun (s : sx) (t : Z) : Z :=
  let p1 := xZ (xnth 1 s) in let p2 := xZ (xnth 2 s) in
  match xZ (xnth 0 s) with
  | 1 => t * p1 + p2
  | 2 => t - p1
  | 3 => p1 - t
  | 4 => p1
  | 5 => if t <=? p1 then t else p1 + 2 * (t - p1)
  | 6 => if t <=? p1 then t else p2
  | _ => t
  end.

(** preserve_control_numbers: () = None (the default, regenerated from the code), ((n...)) = that list *)
Definition xPres (s : sx) : list Z :=
  match xL s with [] => DEFAULT_PRESERVE | l :: _ => xZs l end.

Definition run1 (s : sx) : sx :=
  let a := fun n => xnth n s in
  match xZ (a 0%nat) with
  | 1 => L (map (fun x => let q := xSeq x in L [oB (wfb q); oB (qwfb q)]) (xL (a 1%nat)))
  | 10 => out_t (TimeOps.shift (xZ (a 2%nat)) (xSeq (a 1%nat)))
  | 11 => out_t (TimeOps.stretch (xZ (a 2%nat)) (xZ (a 3%nat)) (xSeq (a 1%nat)))
  | 12 => out_x (Extract.trim (xSeq (a 1%nat)) (xZ (a 2%nat)) (xZ (a 3%nat)))
  | 13 => out_x (Extract.extract_subsequence (xPres (a 4%nat)) (xSeq (a 1%nat)) (xZ (a 2%nat)) (xZ (a 3%nat)))
  | 14 => out_xs (Extract.extract_subsequences (xPres (a 3%nat)) (xSeq (a 1%nat)) (xZs (a 2%nat)))
  | 15 => out_xs (Split.split_hop (xSeq (a 1%nat)) (xZ (a 2%nat)) (xB (a 3%nat)))
  | 16 => out_xs (Split.split_list (xSeq (a 1%nat)) (xZs (a 2%nat)) (xB (a 3%nat)))
  | 17 => out_xs (Split.split_time_changes (xSeq (a 1%nat)) (xB (a 2%nat)))
  | 18 => out_xs (Split.split_silence (xSeq (a 1%nat)) (xZ (a 2%nat)))
  | 19 => (* chord symbols are not decoded here: the model is run with transpose_chords = False *)
      match Transpose.transpose_ns (xSeq (a 1%nat)) (xZ (a 2%nat)) (xZ (a 3%nat)) (xZ (a 4%nat)) false with
      | Some (r, deleted) => out 0 [r] [deleted]
      | None => out 9 [] []
      end
  | 20 => match Sustain.apply_sustain (xZ (a 2%nat)) (xSeq (a 1%nat)) with
          | Some r => out 0 [r] []
          | None => out 2 [] []
          end
  | 21 => out_t (TimeOps.concatenate (map xSeq (xL (a 1%nat))) (xZs (a 2%nat)))
  | 22 => out 0 [merge_sequences (map xSeq (xL (a 1%nat)))] []
  | 23 => out_t (TimeOps.repeat_to_duration (xSeq (a 1%nat)) (xZ (a 2%nat)) (xOptZ (a 3%nat)))
  | 24 => out 0 [TimeOps.remove_redundant (xSeq (a 1%nat))] []
  | 25 => match expand_section_groups (xSeq (a 1%nat)) (xB (a 2%nat)) (xZs (a 3%nat)) with
          | EOk r => out 0 [r] []
          | EErr e => out (st_eerr e) [] []
          end
  | 26 => match TimeOps.adjust (time_fun (a 2%nat)) (xOptZ (a 3%nat)) (xSeq (a 1%nat)) with
          | TimeOps.Ok (r, skipped) => out 0 [r] [skipped]
          | TimeOps.Err e => out (st_terr e) [] []
          end
  | _ => oErr 99
  end.

Definition run (s : sx) : sx :=
  match xZ (xnth 0 s) with
  | 99 => L (map run1 (xL (xnth 1 s)))
  | _ => run1 s
  end.
