(** Run/C09.v — wire-format entry point for the C09 models. *)
From Coq Require Import ZArith List Bool.
From NS Require Import Base.Sx Gen.G09 Model.OneHot Model.ChordOneHot.
Import ListNotations.
Local Open Scope Z_scope.

Definition oPair (p : option (Z * Z)) : sx :=
  match p with Some (a, b) => L [I a; I b] | None => L [] end.

Definition xRanges (s : sx) : list range :=
  map (fun r => (xZ (xnth 0 r), xZ (xnth 1 r), xZ (xnth 2 r))) (xL s).

Definition xMeaning (s : sx) : option (Z * Z) :=
  match xL s with r :: q :: nil => Some (xZ r, xZ q) | _ => None end.
Definition oChEnc (r : chres Z) : sx := match r with ChOk z => L [I z] | ChErr => L [] end.
Definition oChDec (r : chres (option (Z * Z))) : sx :=
  match r with
  | ChOk None => L [L []]
  | ChOk (Some (a, b)) => L [L [I a; I b]]
  | ChErr => L []
  end.

(* (op args...) *)
Definition run (s : sx) : sx :=
  let a := fun n => xnth n s in
  match xZ (a 0%nat) with
  | 1 => (* melody: mn mx x  ->  (cfg_ok num_classes encode(x) decode(x)) *)
      let mn := xZ (a 1%nat) in let mx := xZ (a 2%nat) in let x := xZ (a 3%nat) in
      L [oB (mel_cfg_ok mn mx); I (mel_num_classes mn mx); oOptZ (mel_encode mn mx x); I (mel_decode mn x)]
  | 2 => (* performance: nb ms minp maxp ty v i -> (num_classes encode(ty,v) decode(i)) *)
      let rs := perf_ranges (xZ (a 1%nat)) (xZ (a 2%nat)) (xZ (a 3%nat)) (xZ (a 4%nat)) in
      L [I (oh_num_classes rs); oOptZ (oh_encode rs 0 (xZ (a 5%nat)) (xZ (a 6%nat)));
         oPair (oh_decode rs 0 (xZ (a 7%nat)))]
  | 3 => (* velocity: nb v b -> (bin_size to_bin to_vel) *)
      let nb := xZ (a 1%nat) in
      L [I (bin_size nb); I (vel_to_bin (xZ (a 2%nat)) nb); I (bin_to_vel (xZ (a 3%nat)) nb)]
  | 4 => (* drums, default table: ignore ev idx -> (num_classes encode decode) *)
      L [I (drum_num_classes DEFAULT_DRUM_TYPE_PITCHES);
         oOptZ (drum_encode DEFAULT_DRUM_TYPE_PITCHES (xB (a 1%nat)) (xZs (a 2%nat)));
         oZs (drum_decode DEFAULT_DRUM_TYPE_PITCHES (xZ (a 3%nat)))]
  | 5 => (* drums, custom table: types ignore ev idx *)
      let types := map xZs (xL (a 1%nat)) in
      L [I (drum_num_classes types);
         oOptZ (drum_encode types (xB (a 2%nat)) (xZs (a 3%nat)));
         oZs (drum_decode types (xZ (a 4%nat)))]
  | 6 => (* density: bs e i *)
      let bs := xZs (a 1%nat) in
      L [I (dens_num_classes bs); I (dens_encode bs (xZ (a 2%nat))); I (dens_decode bs (xZ (a 3%nat)))]
  | 7 => (* major/minor chords: i meaning -> (num_classes encode decode) *)
      L [I (ch_num_classes 2); oChEnc (mm_encode (xMeaning (a 2%nat))); oChDec (mm_decode (xZ (a 1%nat)))]
  | 8 => (* triads *)
      L [I (ch_num_classes 4); oChEnc (triad_encode (xMeaning (a 2%nat))); oChDec (triad_decode (xZ (a 1%nat)))]
  | _ => oErr 1
  end.
