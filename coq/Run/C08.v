(** Run/C08.v — wire-format entry point for the C08 models (glue, no theorem
    speaks about it).  Every sequence op returns the same bundle

      (input_size num_classes default_event_label
       (input at each requested position)      -- sparse: (len ((i v) ...)) or () if it raises
       (label at each requested position)
       (class_index_to_event (label p) events[:p]   for requested 0 <= p < len)
       encode(events)
       the generation loop over the given labels, from []
       labels_to_num_steps(labels))                                         *)
From Coq Require Import ZArith List Bool.
From NS Require Import Base.Sx Gen.G09 Gen.G08 Model.OneHot Model.EncDec Model.Lookback
  Model.KeyMelody Model.NotePerfEnc Model.PianorollEnc Model.EncInst.
Import ListNotations.
Local Open Scope Z_scope.

Definition oOpt {A} (f : A -> sx) (o : option A) : sx :=
  match o with Some a => L [f a] | None => L [] end.

(* (len ((i v) ...)) for the non-zero entries *)
Fixpoint nz (i : Z) (v : list Z) : list sx :=
  match v with
  | [] => []
  | x :: r => if x =? 0 then nz (i + 1) r else L [I i; I x] :: nz (i + 1) r
  end.
Definition sparse (v : list Z) : sx := L [I (zlen v); L (nz 0 v)].

Section Bundle.
  Context {E Lb : Type}.
  Variable ed : encdec E Lb.
  Variable oE : E -> sx.
  Variable oL : Lb -> sx.
  Variable osp : list Z -> sx.           (* how input vectors are printed *)

  Definition bundle (size : Z) (ncls dl : sx) (es : list E) (ps : list Z) (ls : list Lb) : sx :=
    L [ I size; ncls; dl;
        L (map (fun p => oOpt osp (ed_input ed es p)) ps);
        L (map (fun p => oOpt oL (ed_label ed es p)) ps);
        L (map (fun p =>
                  if (0 <=? p) && (p <? zlen es) then
                    match ed_label ed es p with
                    | Some l => oOpt oE (ed_decode ed l (firstn (Z.to_nat p) es))
                    | None => L []
                    end
                  else L [])
               ps);
        oOpt (fun r : list (list Z) * list Lb => L [L (map osp (fst r)); L (map oL (snd r))])
             (encode ed es);
        oOpt (fun evs => L (map oE evs)) (generate (ed_decode ed) ls []);
        oOpt I (ed_num_steps ed ls) ].
End Bundle.

Definition xPe (s : sx) : pevent := (xZ (xnth 0 s), xZ (xnth 1 s)).
Definition oPe (e : pevent) : sx := L [I (fst e); I (snd e)].
Definition xNpe (s : sx) : npevent :=
  (xPe (xnth 0 s), xPe (xnth 1 s), xPe (xnth 2 s), xPe (xnth 3 s)).
Definition oNpe (e : npevent) : sx :=
  let '(a, b, c, d) := e in L [oPe a; oPe b; oPe c; oPe d].

Definition oNpCfg (r : np_result) : sx :=
  match r with
  | NpValueError => L [I 1]
  | NpAssert => L [I 2]
  | NpOk c => L [I 0; I (np_shift_seg c); I (np_shift_per c); I (np_dur_seg c); I (np_dur_per c);
                 oZs (np_classes c); I (np_input_size c)]
  end.

Definition run (s : sx) : sx :=
  let a := fun n => xnth n s in
  match xZ (a 0%nat) with
  | 1 => (* one-hot over melody one-hot: mn mx es ps ls *)
      let mn := xZ (a 1%nat) in let mx := xZ (a 2%nat) in
      let ed := ohs_mel mn mx in
      bundle ed I I sparse (ed_input_size ed) (I (mel_num_classes mn mx)) (oOptZ (ohs_mel_default_label mn mx))
             (xZs (a 3%nat)) (xZs (a 4%nat)) (xZs (a 5%nat))
  | 2 => (* one-hot index over melody one-hot *)
      let mn := xZ (a 1%nat) in let mx := xZ (a 2%nat) in
      let ed := ohi_mel mn mx in
      bundle ed I I sparse (ed_input_size ed) (I (mel_num_classes mn mx)) (oOptZ (ohs_mel_default_label mn mx))
             (xZs (a 3%nat)) (xZs (a 4%nat)) (xZs (a 5%nat))
  | 3 => (* lookback over melody one-hot: mn mx dists bits es ps ls *)
      let mn := xZ (a 1%nat) in let mx := xZ (a 2%nat) in
      let ds := xZs (a 3%nat) in let bits := xZ (a 4%nat) in
      let ed := lb_mel mn mx ds bits in
      bundle ed I I sparse (ed_input_size ed) (I (lb_num_classes (mel_num_classes mn mx) ds))
             (oOptZ (lb_mel_default_label mn mx)) (xZs (a 5%nat)) (xZs (a 6%nat)) (xZs (a 7%nat))
  | 4 => (* key melody: mn mx dists bits es ps ls *)
      let mn := xZ (a 1%nat) in let mx := xZ (a 2%nat) in
      let ds := xZs (a 3%nat) in let bits := xZ (a 4%nat) in
      let ed := km mn (mx - mn) ds bits in
      bundle ed I I sparse (ed_input_size ed) (I (km_num_classes (mx - mn) ds))
             (oOptZ (Some (km_default_label (mx - mn)))) (xZs (a 5%nat)) (xZs (a 6%nat)) (xZs (a 7%nat))
  | 5 => (* one-hot over performance one-hot: nb ms minp maxp es ps ls *)
      let rs := perf_ranges (xZ (a 1%nat)) (xZ (a 2%nat)) (xZ (a 3%nat)) (xZ (a 4%nat)) in
      let ed := ohs_perf (xZ (a 1%nat)) (xZ (a 2%nat)) (xZ (a 3%nat)) (xZ (a 4%nat)) in
      bundle ed oPe I sparse (ed_input_size ed) (I (oh_num_classes rs))
             (oOptZ (perf_default_label (xZ (a 1%nat)) (xZ (a 2%nat)) (xZ (a 3%nat)) (xZ (a 4%nat)))) (map xPe (xL (a 5%nat))) (xZs (a 6%nat)) (xZs (a 7%nat))
  | 6 => (* lookback over performance one-hot: nb ms minp maxp dists bits es ps ls *)
      let ms := xZ (a 2%nat) in
      let rs := perf_ranges (xZ (a 1%nat)) ms (xZ (a 3%nat)) (xZ (a 4%nat)) in
      let ds := xZs (a 5%nat) in
      let ed := lb_perf (xZ (a 1%nat)) ms (xZ (a 3%nat)) (xZ (a 4%nat)) ds (xZ (a 6%nat)) in
      bundle ed oPe I sparse (ed_input_size ed) (I (lb_num_classes (oh_num_classes rs) ds))
             (oOptZ (perf_default_label (xZ (a 1%nat)) ms (xZ (a 3%nat)) (xZ (a 4%nat)))) (map xPe (xL (a 7%nat))) (xZs (a 8%nat)) (xZs (a 9%nat))
  | 7 => (* modulo performance: nb ms es ps ls ; the input entries of the bundle are the LAYOUT
            (size, valid-bit offset, table, row, row mod 12), the harness rebuilds the float vector *)
      let nb := xZ (a 1%nat) in let ms := xZ (a 2%nat) in
      let ed := mp nb ms in
      bundle ed oPe I oZs (ed_input_size ed) (I (mp_num_classes nb ms))
             (oOptZ (perf_default_label nb ms K_PERF_MIN_PITCH K_PERF_MAX_PITCH)) (map xPe (xL (a 3%nat))) (xZs (a 4%nat)) (xZs (a 5%nat))
  | 8 => (* note performance: nvb max_shift max_dur minp maxp es ps ls *)
      match np_make (xZ (a 1%nat)) (xZ (a 2%nat)) (xZ (a 3%nat)) (xZ (a 4%nat)) (xZ (a 5%nat)) with
      | NpOk c =>
          L [ oNpCfg (NpOk c);
              bundle (np c) oNpe oZs sparse (np_input_size c) (oZs (np_classes c))
                     (L [oZs (np_default_label c)]) (map xNpe (xL (a 6%nat))) (xZs (a 7%nat)) (map xZs (xL (a 8%nat))) ]
      | r => L [oNpCfg r]
      end
  | 9 => (* pianoroll: size es ps ls *)
      let size := xZ (a 1%nat) in
      bundle (pr size) oZs I sparse size (I (pr_num_classes size))
             (oOptZ (Some pr_default_label)) (map xZs (xL (a 2%nat))) (xZs (a 3%nat)) (xZs (a 4%nat))
  | 10 => (* conditional: control = one-hot over melody one-hot (cmn cmx), target = lookback over
             melody one-hot (mn mx dists bits); cs ts ps ls *)
      let cmn := xZ (a 1%nat) in let cmx := xZ (a 2%nat) in
      let mn := xZ (a 3%nat) in let mx := xZ (a 4%nat) in
      let ds := xZs (a 5%nat) in let bits := xZ (a 6%nat) in
      let ctl := ohs_mel cmn cmx in
      let tgt := lb_mel mn mx ds bits in
      let cs := xZs (a 7%nat) in let ts := xZs (a 8%nat) in
      let ps := xZs (a 9%nat) in let ls := xZs (a 10%nat) in
      L [ I (cond_input_size ctl tgt); I (lb_num_classes (mel_num_classes mn mx) ds);
          oOptZ (lb_mel_default_label mn mx);
          L (map (fun p => oOpt sparse (cond_input ctl tgt cs ts p)) ps);
          L (map (fun p => oOpt I (cond_label tgt ts p)) ps);
          oOpt (fun r : list (list Z) * list Z => L [L (map sparse (fst r)); oZs (snd r)])
               (cond_encode ctl tgt cs ts);
          oOpt oZs (generate (cond_decode tgt) ls []);
          oOpt I (cond_num_steps tgt ls) ]
  | 11 => (* note performance constructor only *)
      oNpCfg (np_make (xZ (a 1%nat)) (xZ (a 2%nat)) (xZ (a 3%nat)) (xZ (a 4%nat)) (xZ (a 5%nat)))
  | _ => oErr 1
  end.
