(** Run/C14.v — wire-format entry point for the C14 model.
      (1 ctl seq)  ->  (0 ((notes) total_time))   apply_sustain_control_changes (as repaired)
                   or  (-1000 1)                  QuantizationStatusError
      (2 ctl seq)  ->  same, closing loop as it was before notes/C14-fix-1.diff
      (3 ctl seq)  ->  (0 ((notes) 0))            the declarative specification [spec_notes] *)
From Coq Require Import ZArith List Bool.
From NS Require Import Base.Sx Base.NoteSeq Gen.G14 Model.Sustain.
Import ListNotations.
Local Open Scope Z_scope.

Definition oRes (r : option seq) : sx :=
  match r with
  | None => oErr 1
  | Some s => oOk (L [L (map oNote (s_notes s)); I (s_total s)])
  end.

Definition run (s : sx) : sx :=
  let ctl := xZ (xnth 1 s) in
  let q := xSeq (xnth 2 s) in
  match xZ (xnth 0 s) with
  | 1 => oRes (apply_sustain ctl q)
  | 2 => oRes (apply_sustain_orig ctl q)
  | 3 => oOk (L [L (map oNote (spec_notes ctl (s_notes q) (s_ccs q))); I 0])
  | _ => oErr 2
  end.
