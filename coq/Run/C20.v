(** Run/C20.v — wire-format entry point for the C20 model (Model/Audio.v).
    Floats travel as exact (mantissa, exponent) pairs (harness/vt/fl.py).
    Long sample arrays are the ramp lo, lo+1, ... built here from (lo, len),
    and long results are run-length compressed into (start, count) runs of
    consecutive values; the harness compresses the implementation's output
    the same way.  Glue only. *)
From Coq Require Import ZArith List Bool PrimFloat FloatOps SpecFloat.
From NS Require Import Base.Sx Base.FloatBridge Model.Audio.
Import ListNotations.
Local Open Scope Z_scope.

Definition xF (s : sx) : float := f_of_me (xZ (xnth 0 s)) (xZ (xnth 1 s)).
Definition xF32 (s : sx) : spec_float := f32_of_me (xZ (xnth 0 s)) (xZ (xnth 1 s)).

(** canonical (odd mantissa, exponent) form, as harness/vt/fl.py [me] *)
Fixpoint strip2 (p : positive) (e : Z) : positive * Z :=
  match p with xO q => strip2 q (e + 1) | _ => (p, e) end.

Definition oSF (f : spec_float) : sx :=
  match f with
  | S754_zero _ => L [I 0; I 0]
  | S754_finite s m e => let '(m', e') := strip2 m e in L [I (if s then Zneg m' else Zpos m'); I e']
  | S754_infinity s => L [I (if s then -1 else 1); I 99999]
  | S754_nan => L [I 0; I 99999]
  end.

Definition oRes {A : Type} (enc : A -> sx) (r : res A) : sx :=
  match r with Ok a => oOk (enc a) | Err c => oErr c end.

(** consecutive runs: [5;6;7;1;2] -> [(5,3);(1,2)] *)
Fixpoint runs_aux (l : list Z) (start prev : Z) (cnt : Z) : list sx :=
  match l with
  | [] => [L [I start; I cnt]]
  | x :: r => if x =? prev + 1 then runs_aux r start x (cnt + 1)
              else L [I start; I cnt] :: runs_aux r x x 1
  end.
Definition oRuns (l : list Z) : sx :=
  match l with [] => L [] | x :: r => L (runs_aux r x x 1) end.

Definition oPairs (l : list (Z * Z)) : sx := L (map (fun p => L [I (fst p); I (snd p)]) l).

(** order-sensitive checksum of a sequence of floats (the 65536-value table is
    compared by checksum per block; printing it would dominate the run time) *)
Definition hmask : Z := 4611686018427387903.   (* 2^62 - 1 *)
Definition hstep (h v : Z) : Z := Z.land (h * 1000003 + v) hmask.
Definition hSF (h : Z) (f : spec_float) : Z :=
  match oSF f with L [I m; I e] => hstep (hstep h m) e | _ => hstep h (-1) end.

Definition run (s : sx) : sx :=
  let a := fun n => xnth n s in
  match xZ (a 0%nat) with
  | 1 => (* pcm block: lo n -> (checksum of the float32 values, runs of the values converted back) *)
      let vs := zrange (xZ (a 1%nat)) (xZ (a 2%nat)) in
      let fs := map i16_to_f32 vs in
      L [I (fold_left hSF fs 0);
         oRuns (map (fun f => match f32_to_i16 f with Some z => z | None => -99999 end) fs)]
  | 2 => (* float32 samples -> int16 *)
      L (map (fun y => oOptZ (f32_to_i16 (xF32 y))) (xL (a 1%nat)))
  | 3 => (* float64 samples -> int16 *)
      L (map (fun y => oOptZ (f64_to_i16 (xF y))) (xL (a 1%nat)))
  | 4 => (* crop of the ramp: lo len rate b t *)
      oRes oRuns (crop (zrange (xZ (a 1%nat)) (xZ (a 2%nat))) (xZ (a 3%nat)) (xF (a 4%nat)) (xF (a 5%nat)))
  | 5 => (* crop of explicit samples: xs rate b t *)
      oRes oZs (crop (xZs (a 1%nat)) (xZ (a 2%nat)) (xF (a 3%nat)) (xF (a 4%nat)))
  | 6 => (* repeat of the ramp: lo len rate d *)
      oRes oRuns (repeat_to_duration (zrange (xZ (a 1%nat)) (xZ (a 2%nat))) (xZ (a 3%nat)) (xF (a 4%nat)))
  | 7 => (* repeat of explicit samples: xs rate d *)
      oRes oZs (repeat_to_duration (xZs (a 1%nat)) (xZ (a 2%nat)) (xF (a 3%nat)))
  | 8 => (* stereo: dl dr l r *)
      oRes oPairs (make_stereo (xZ (a 1%nat)) (xZ (a 2%nat)) (xZs (a 3%nat)) (xZs (a 4%nat)))
  | 9 => (* wav round trip of the float32 image of int16 samples xs:
            (pcm written, float32 read back) *)
      let ys := i16s_to_f32s (xZs (a 1%nat)) in
      match f32s_to_i16s ys, wav_roundtrip ys with
      | Some p, Some ys' => oOk (L [oZs p; L (map oSF ys')])
      | _, _ => oErr 9
      end
  | 10 => (* lengths only: len rate d -> (copies concatenated, slice stop) *)
      match num_repeats (xZ (a 1%nat)) (xZ (a 2%nat)) (xF (a 3%nat)) with
      | Err c => oErr c
      | Ok k =>
          if k =? 0 then oOk (L [I 0; I 0])
          else if k <? 0 then oErr E_CONCAT_EMPTY
          else match crop_bounds (xZ (a 2%nat)) 0%float (xF (a 3%nat)) with
               | Ok (_, n) => oOk (L [I k; I n])
               | Err c => oErr c
               end
      end
  | _ => oErr 100
  end.
