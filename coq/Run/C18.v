(** Run/C18.v — wire-format entry point for the C18 models (evaluated with vm_compute). *)
From Coq Require Import ZArith List Bool.
From Coq Require Import PrimFloat FloatOps SpecFloat.
From NS Require Import Base.Sx Base.FloatBridge Model.FramesRoll.
Import ListNotations.
Local Open Scope Z_scope.

(* float <-> (mantissa, exponent) *)
Definition xF (s : sx) : flt := f_of_me (xZ (xnth 0 s)) (xZ (xnth 1 s)).
Definition oF (x : flt) : sx :=
  match Prim2SF x with
  | S754_zero _ => L [I 0; I 0]
  | S754_finite s m e => L [I (if s then Z.neg m else Z.pos m); I e]
  | S754_infinity s => L [I (if s then -1 else 1); I 99999]
  | S754_nan => L [I 0; I 99999]
  end.

(* boolean rows travel as bit masks: bit p = column p *)
Fixpoint bits_of (w : nat) (z : Z) : list bool :=
  match w with O => [] | S w' => Z.odd z :: bits_of w' (Z.div2 z) end.
Fixpoint mask_of (l : list bool) : Z :=
  match l with [] => 0 | b :: r => (if b then 1 else 0) + 2 * mask_of r end.
(* integer rows: base 256 digits (velocities <= 255, weight codes <= number of rows <= 255 in every generated case) *)
Fixpoint digits_of (l : list Z) : Z :=
  match l with [] => 0 | v :: r => v + 256 * digits_of r end.

(* Printing a 53-bit number costs ~1.5 ms in coqc, so the float times of decoded notes are
   compared through an order-sensitive polynomial fingerprint of their exact bit patterns
   (mod the Mersenne prime 2^89 - 1); the harness computes the same fingerprint of the
   implementation's floats. *)
Definition fcode (x : flt) : Z :=
  match Prim2SF x with
  | S754_zero _ => 2048
  | S754_finite s m e => (if s then - Z.pos m else Z.pos m) * 4096 + (e + 2048)
  | _ => -1
  end.
Definition fp_step (h : Z) (x : flt) : Z := (h * 1000003 + fcode x) mod 618970019642690137449562111.
Definition fp_notes (tot : flt) (notes : list dnote) : Z :=
  fold_left (fun h d => fp_step (fp_step h (d_start d)) (d_end d)) notes (fp_step 1 tot).
Definition oNotes (tot : flt) (notes : list dnote) : sx :=
  L [I (fp_notes tot notes); L (map (fun d => I (d_pitch d)) notes)].

Definition xMat (w : nat) (s : sx) : list (list bool) := map (fun r => bits_of w (xZ r)) (xL s).
Definition oMat (m : list (list bool)) : sx := L (map (fun r => I (mask_of r)) m).
Definition oZMat (m : list (list Z)) : sx := L (map (fun r => I (digits_of r)) m).

Definition xOptMat (w : nat) (s : sx) : option (list (list bool)) :=
  match s with L [m] => Some (xMat w m) | _ => None end.

Definition xNote (s : sx) : snote :=
  {| n_pitch := xZ (xnth 0 s); n_vel := xZ (xnth 1 s); n_start := xF (xnth 2 s); n_end := xF (xnth 3 s) |}.
Definition xCC (s : sx) : flt * Z * Z := (xF (xnth 0 s), xZ (xnth 1 s), xZ (xnth 2 s)).

Definition oDNote (d : dnote) : sx := L [I (d_pitch d); oF (d_start d); oF (d_end d)].

(* config: (fps occ min_pitch max_pitch max_vel blank window onset_len_ms offset_len_ms mode delay_ms overlap total) *)
Definition xCfg (s : sx) : s2p_cfg :=
  let a := fun n => xnth n s in
  {| c_fps := xF (a 0%nat); c_occ := xF (a 1%nat);
     c_min_pitch := xZ (a 2%nat); c_max_pitch := xZ (a 3%nat); c_max_vel := xZ (a 4%nat);
     c_blank := xB (a 5%nat); c_window := xZ (a 6%nat);
     c_onset_len_ms := xF (a 7%nat); c_offset_len_ms := xF (a 8%nat);
     c_mode := xZ (a 9%nat); c_delay_ms := xF (a 10%nat); c_overlap := xB (a 11%nat);
     c_total := xF (a 12%nat) |}.

Definition run (s : sx) : sx :=
  let a := fun n => xnth n s in
  match xZ (a 0%nat) with
  | 1 => (* sequence_to_pianoroll: cfg notes ccs *)
      match s2p (xCfg (a 1%nat)) (map xNote (xL (a 2%nat))) (map xCC (xL (a 3%nat))) with
      | inl e => oErr e
      | inr o => oOk (L [I (o_rows o); oMat (o_active o); oMat (o_onsets o); oMat (o_offsets o);
                         oZMat (o_vel o); oZMat (o_weights o);
                         L (map (fun e => L [I (fst (fst e)); I (snd (fst e)); I (snd e)]) (o_cc o))])
      end
  | 2 => (* pianoroll_to_note_sequence: fps min_dur_ms min_midi_pitch width frames onsets? offsets? *)
      let w := xN (a 4%nat) in
      let '(tot, notes) := p2s (xF (a 1%nat)) (xF (a 2%nat)) (xZ (a 3%nat))
                               (xMat w (a 5%nat)) (xOptMat w (a 6%nat)) (xOptMat w (a 7%nat)) in
      oNotes tot notes
  | 3 => (* pianoroll_onsets_to_note_sequence: fps dur min_midi_pitch width onsets *)
      let w := xN (a 4%nat) in
      let '(tot, notes) := onsets2s (xF (a 1%nat)) (xF (a 2%nat)) (xZ (a 3%nat)) (xMat w (a 5%nat)) in
      oNotes tot notes
  | 4 => (* grid round trip: fps min_pitch width frames -> (rows, active roll, inexact boundary frames) *)
      let w := xN (a 3%nat) in
      let fps := xF (a 1%nat) in
      let m := grid_roundtrip fps (xZ (a 2%nat)) (xMat w (a 4%nat)) in
      L [I (Z.of_nat (length m)); oMat m;
         oZs (filter (fun i => negb (frame_exact fps i)) (map Z.of_nat (seq 0 (S (length (xL (a 4%nat)))))))]
  | _ => oErr 1
  end.
