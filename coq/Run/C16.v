(** Run/C16.v — wire-format entry point for the C16 model (Model/MidiConvert.v).

    input  = (op pm)
      pm   = (resolution (tsig...) (key...) (tempo...) (inst...))
      tsig = (time numerator denominator)     key = (time key_number)    tempo = (time qpm)
      inst = (program is_drum (name code points) (note...) (bend...) (cc...))
      note = (start end pitch velocity)       bend = (time pitch)        cc = (time number value)
    op 1: convert (the tree with notes/C16-fix-1.diff), op 2: convert_legacy (unrepaired code)
    output = (pm_rangeb pm_timeb pm_invb result (can_mce can_value can_unicode) pm_ctorb)
      result = (0 (seq infos parser encoding) wfb)  |  (-1000 code)
      code: 1 MIDIConversionError, 2 ValueError, 3 UnicodeEncodeError *)
From Coq Require Import ZArith List Bool.
From NS Require Import Base.Sx Base.NoteSeq Gen.G16 Model.MidiConvert.
Import ListNotations.
Local Open Scope Z_scope.

Definition xPNote (s : sx) := mkPNote (xZ (xnth 0 s)) (xZ (xnth 1 s)) (xZ (xnth 2 s)) (xZ (xnth 3 s)).
Definition xPBend (s : sx) := mkPBend (xZ (xnth 0 s)) (xZ (xnth 1 s)).
Definition xPCc (s : sx) := mkPCc (xZ (xnth 0 s)) (xZ (xnth 1 s)) (xZ (xnth 2 s)).
Definition xPInst (s : sx) :=
  mkPInst (xZ (xnth 0 s)) (xB (xnth 1 s)) (xZs (xnth 2 s))
          (map xPNote (xL (xnth 3 s))) (map xPBend (xL (xnth 4 s))) (map xPCc (xL (xnth 5 s))).
Definition xPTsig (s : sx) := mkPTsig (xZ (xnth 0 s)) (xZ (xnth 1 s)) (xZ (xnth 2 s)).
Definition xPKey (s : sx) := mkPKey (xZ (xnth 0 s)) (xZ (xnth 1 s)).
Definition xPTempo (s : sx) := mkPTempo (xZ (xnth 0 s)) (xZ (xnth 1 s)).
Definition xPm (s : sx) :=
  mkPm (xZ (xnth 0 s)) (map xPTsig (xL (xnth 1 s))) (map xPKey (xL (xnth 2 s)))
       (map xPTempo (xL (xnth 3 s))) (map xPInst (xL (xnth 4 s))).

Definition exn_code (e : exn) : Z :=
  match e with MIDIConversionError => 1 | ValueError => 2 | UnicodeEncodeError => 3 end.

Definition oInfo (i : info) : sx := L [I (in_instr i); oZs (in_name i)].
Definition oCseq (c : cseq) : sx :=
  L [oSeq (c_seq c); L (map oInfo (c_infos c)); I (c_parser c); I (c_encoding c)].
Definition oResult (r : result cseq) : sx :=
  match r with
  | Ok c => L [I 0; oCseq c; oB (c16_wfb c)]
  | Err e => oErr (exn_code e)
  end.

Definition run (s : sx) : sx :=
  let m := xPm (xnth 1 s) in
  match xZ (xnth 0 s) with
  | 1 => L [oB (pm_rangeb m); oB (pm_timeb m); oB (pm_invb m); oResult (convert m);
            L [oB (can_mce m); oB (can_value m); oB (can_unicode m)]; oB (pm_ctorb m)]
  | 2 => L [oB (pm_rangeb m); oB (pm_timeb m); oB (pm_invb m); oResult (convert_legacy m);
            L [oB (can_mce m); oB (can_value m); oB (can_unicode m)]; oB (pm_ctorb m)]
  | _ => oErr 99
  end.
