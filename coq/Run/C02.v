(** Run/C02.v — wire-format entry point for the C02 models (extract / split). *)
From Coq Require Import ZArith List Bool.
From NS Require Import Base.Sx Base.NoteSeq Gen.G02 Model.Extract Model.Split.
Import ListNotations.
Local Open Scope Z_scope.

Definition err_code (e : xerr) : Z :=
  match e with
  | ErrQuantized => 1 | ErrTooFew => 2 | ErrUnsorted => 3 | ErrPastEnd => 4 | ErrZeroHop => 5
  end.

Definition oRes {A} (enc : A -> sx) (r : res A) : sx :=
  match r with Ok a => oOk (enc a) | Err e => oErr (err_code e) end.

Definition oSeqs (l : list seq) : sx := L (map oSeq l).

(* (op args...) *)
Definition run (s : sx) : sx :=
  let a := fun n => xnth n s in
  match xZ (a 0%nat) with
  | 1 => (* _extract_subsequences: seq (split times) use_default (preserve numbers) *)
      let pres := if xB (a 3%nat) then DEFAULT_PRESERVE else xZs (a 4%nat) in
      oRes oSeqs (extract_subsequences pres (xSeq (a 1%nat)) (xZs (a 2%nat)))
  | 2 => (* extract_subsequence: seq start end use_default (preserve numbers) *)
      let pres := if xB (a 4%nat) then DEFAULT_PRESERVE else xZs (a 5%nat) in
      oRes oSeq (extract_subsequence pres (xSeq (a 1%nat)) (xZ (a 2%nat)) (xZ (a 3%nat)))
  | 3 => (* trim_note_sequence: seq start end *)
      oRes oSeq (trim (xSeq (a 1%nat)) (xZ (a 2%nat)) (xZ (a 3%nat)))
  | 4 => (* split_note_sequence, scalar hop: seq hop skip *)
      oRes oSeqs (split_hop (xSeq (a 1%nat)) (xZ (a 2%nat)) (xB (a 3%nat)))
  | 5 => (* split_note_sequence, list of times: seq (times) skip *)
      oRes oSeqs (split_list (xSeq (a 1%nat)) (xZs (a 2%nat)) (xB (a 3%nat)))
  | 6 => (* split_note_sequence_on_time_changes: seq skip *)
      oRes oSeqs (split_time_changes (xSeq (a 1%nat)) (xB (a 2%nat)))
  | 7 => (* split_note_sequence_on_silence: seq gap *)
      oRes oSeqs (split_silence (xSeq (a 1%nat)) (xZ (a 2%nat)))
  | _ => oErr 99
  end.
