(** Run/C06.v — wire-format entry point for the C06 step-level models:
    render ([to_sequence] up to seconds_per_step) -> re-quantized sequence -> extraction again.

    (op events start_step resolution (num den) (extraction params) (render params))
    result: (canonical? rendered-notes rendered-texts total_quantized_steps re-extraction)
    where re-extraction is (0 payload) or (-1000 code). *)
From Coq Require Import ZArith List Bool.
From NS Require Import Base.Sx Base.NoteSeq Gen.G07 Model.FqCommon Model.FqMelody Model.FqDrums
  Model.FqChords Model.FqPianoroll Model.FqPerformance
  Model.RenderCommon Model.RenderMelody Model.RenderDrums Model.RenderChords Model.RenderPianoroll
  Model.RenderPerformance.
Import ListNotations.
Local Open Scope Z_scope.

Definition oRes {A} (f : A -> sx) (r : res A) : sx :=
  match r with Ok a => oOk (f a) | Err c => oErr c end.

Definition oNotes (l : list note) : sx :=
  L (map (fun n => L [I (n_pitch n); I (n_vel n); I (n_qstart n); I (n_qend n); I (n_instr n);
                      I (n_prog n); oB (n_drum n)]) l).

Definition oTexts (l : list text) : sx :=
  L (map (fun t => L [I (tx_qstep t); oZs (tx_text t)]) l).

Definition oMel (r : mel_result) : sx :=
  L [oZs (me_events r); I (me_start r); I (me_end r); I (me_spb r); I (me_spq r)].
Definition oCh (r : ch_result) : sx :=
  L [L (map oZs (ce_events r)); I (ce_start r); I (ce_end r); I (ce_spb r); I (ce_spq r)].

Definition spb_of (s : seq) : Z := match steps_per_bar s with Ok b => b | Err _ => 0 end.
Definition spb_ok (s : seq) : bool := match steps_per_bar s with Ok _ => true | Err _ => false end.

Definition out (canon : bool) (s : seq) (r : sx) : sx :=
  L [oB canon; oNotes (s_notes s); oTexts (s_texts s); I (s_qsteps s); r].

Definition run (s : sx) : sx :=
  let a := fun n => xnth n s in
  let s0 := xZ (a 2%nat) in
  let resol := xZ (a 3%nat) in
  let ts := mkTsig 0 (xZ (xnth 0 (a 4%nat))) (xZ (xnth 1 (a 4%nat))) in
  let p := fun n => xnth n (a 5%nat) in
  let r := fun n => xnth n (a 6%nat) in
  match xZ (a 0%nat) with
  | 1 => (* melody: (ss instr gap ignore_poly pad filter_drums) (v i pr) *)
      let es := xZs (a 1%nat) in
      let mp := mkMelParams (xZ (p 0%nat)) (xZ (p 1%nat)) (xZ (p 2%nat)) (xB (p 3%nat)) (xB (p 4%nat)) (xB (p 5%nat)) in
      let q := mel_rseq resol ts (xZ (r 0%nat)) (xZ (r 1%nat)) (xZ (r 2%nat)) s0 es in
      out (spb_ok q && canonical_melody (spb_of q) (mp_search_start mp) (mp_gap_bars mp) (mp_pad_end mp) s0 es)
          q (oRes oMel (mel_from_quantized mp q))
  | 2 => (* drums: (ss gap pad ignore_is_drum) (v i pr) *)
      let es := map xZs (xL (a 1%nat)) in
      let dp := mkDrParams (xZ (p 0%nat)) (xZ (p 1%nat)) (xB (p 2%nat)) (xB (p 3%nat)) in
      let q := dr_rseq resol ts (xZ (r 0%nat)) (xZ (r 1%nat)) (xZ (r 2%nat)) s0 es in
      out (spb_ok q && canonical_drums (spb_of q) (dp_search_start dp) (dp_gap_bars dp) (dp_pad_end dp) s0 es)
          q (oRes (fun x => L [L (map oZs (de_events x)); I (de_start x); I (de_end x); I (de_spb x); I (de_spq x)])
                  (dr_from_quantized dp q))
  | 3 => (* chords: (end_step) () *)
      let es := map xZs (xL (a 1%nat)) in
      let e0 := xZ (p 0%nat) in
      let q := ch_rseq false resol ts s0 es in
      out (spb_ok q && canonical_chords s0 e0 es) q (oRes oCh (ch_from_quantized q s0 e0))
  | 4 => (* lead sheet: events = (melody chords); (ss instr gap ignore_poly pad filter_drums) (v i) *)
      let mel := xZs (xnth 0 (a 1%nat)) in
      let chs := map xZs (xL (xnth 1 (a 1%nat))) in
      let mp := mkMelParams (xZ (p 0%nat)) (xZ (p 1%nat)) (xZ (p 2%nat)) (xB (p 3%nat)) (xB (p 4%nat)) (xB (p 5%nat)) in
      let q := ls_rseq false resol ts (xZ (r 0%nat)) (xZ (r 1%nat)) s0 mel chs in
      out (spb_ok q && canonical_leadsheet (spb_of q) (mp_search_start mp) (mp_gap_bars mp) (mp_pad_end mp) s0 mel chs)
          q (oRes (fun mc => L [oMel (fst mc); oCh (snd mc)]) (ls_from_quantized mp q))
  | 5 => (* pianoroll: (min_pitch max_pitch split_repeats legacy_final_step) (v i pr) *)
      let es := map xZs (xL (a 1%nat)) in
      let minp := xZ (p 0%nat) in let maxp := xZ (p 1%nat) in
      let legacy := xB (p 3%nat) in
      let pp := mkPrParams s0 minp maxp (xB (p 2%nat)) in
      let q := pr_rseq legacy resol ts (xZ (r 0%nat)) (xZ (r 1%nat)) (xZ (r 2%nat)) minp s0 es in
      out (canonical_pianoroll legacy minp maxp s0 es) q
          (oRes (fun x => L [L (map oZs (pe_events x)); I (pe_start x); I (pe_spq x)]) (pr_from_quantized pp q))
  | 6 => (* performance / metric performance: (bins max_shift (instr)?) (default_velocity i pr drum) *)
      let es := map (fun e => (xZ (xnth 0 e), xZ (xnth 1 e))) (xL (a 1%nat)) in
      let nb := xZ (p 0%nat) in let ms := xZ (p 1%nat) in
      let fp := mkPfParams s0 nb ms (xOptZ (p 2%nat)) in
      let ns := pf_rnotes fp (xZ (r 0%nat)) (xZ (r 1%nat)) (xZ (r 2%nat)) (xB (r 3%nat)) es in
      let q := rseq resol ts ns [] (max_end 0 ns) in
      out ((0 <=? s0) && canonical_perf_w nb ms es) q
          (oOk (L (map (fun e => L [I (fst e); I (snd e)]) (pf_from_quantized fp ns))))
  | 7 => (* note performance: (bins max_shift max_duration (instr)?) (i pr drum) *)
      let es := map (fun e => (xZ (xnth 0 e), xZ (xnth 1 e), xZ (xnth 2 e), xZ (xnth 3 e))) (xL (a 1%nat)) in
      let nb := xZ (p 0%nat) in let ms := xZ (p 1%nat) in let md := xZ (p 2%nat) in
      let fp := mkPfParams s0 nb ms (xOptZ (p 3%nat)) in
      let ns := np_rnotes fp (xZ (r 0%nat)) (xZ (r 1%nat)) (xB (r 2%nat)) es in
      let q := rseq resol ts ns [] (max_end 0 ns) in
      out ((0 <=? s0) && canonical_noteperf nb ms md es) q
          (oRes (fun evs => L (map (fun e => let '(sh, k, b, du) := e in L [I sh; I k; I b; I du]) evs))
                (np_from_quantized fp md ns))
  | _ => oErr 0
  end.
