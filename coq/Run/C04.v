(** Run/C04.v — wire-format entry point for the ABC model.

    input  (1 sections)          sections = list of sections, section = list of lines
      line   = (0 field) | (1 (token ...))
      field  = (0) nop | (1 n) X | (2 kind n d) M, kind 0=C 1=C| 2=none 3=n/d 4=unparseable
             | (3 n d) L | (4 kind ((n d) ...) rate) Q, kind 0=fractions 1=bare 2=string only
             | (5 tonic mode exp ((acc letter) ...)) K | (6) P | (7) V | (8) K that does not match
      token  = (0 acc letter (oct ...) num slashes den)  note; num/den = () or (n); oct 1 = ', 0 = ,
             | (1 lc blen rc) bar | (2 n) colons | (3 gt k) broken rhythm | (4 field) inline
             | (5) no-op | (6 kind) unsupported, kind 0=chord 1=tuplet 2=variant ending 3=invalid char
      acc    = 0 none, 1 ^, 2 _, 3 =, 4 ^^, 5 __
    output (0 (tune ...) (exn ...) (check ...)) | (1 exn)
      tune   = (ref notes tempos tsigs ksigs sects groups total expansion)
      times are (num den) *)
From Coq Require Import ZArith QArith List Bool.
From NS Require Import Base.Sx Gen.G04 Model.Abc Model.AbcUnroll.
Import ListNotations.
Local Open Scope Z_scope.

Definition xAcc (s : sx) : acc :=
  match xZ s with
  | 1 => ASharp | 2 => AFlat | 3 => ANat | 4 => ADSharp | 5 => ADFlat | _ => ANone
  end.

Definition xPairs (s : sx) : list (Z * Z) :=
  map (fun p => (xZ (xnth 0 p), xZ (xnth 1 p))) (xL s).

Definition xField (s : sx) : field :=
  let a := fun n => xnth n s in
  match xZ (a 0%nat) with
  | 1 => FX (xZ (a 1%nat))
  | 2 => FM (match xZ (a 1%nat) with
             | 0 => MC | 1 => MCut | 2 => MNone
             | 3 => MFrac (xZ (a 2%nat)) (xZ (a 3%nat))
             | _ => MBad end)
  | 3 => FL (xZ (a 1%nat)) (xZ (a 2%nat))
  | 4 => FQ (match xZ (a 1%nat) with
             | 0 => QFrac (xPairs (a 2%nat)) (xZ (a 3%nat))
             | 1 => QBare (xZ (a 3%nat))
             | _ => QString end)
  | 5 => FK (xZs (a 1%nat)) (xZs (a 2%nat)) (xB (a 3%nat))
            (map (fun p => (xAcc (xnth 0 p), xZ (xnth 1 p))) (xL (a 4%nat)))
  | 6 => FP
  | 7 => FV
  | 8 => FKBad
  | _ => FNop
  end.

Definition xToken (s : sx) : token :=
  let a := fun n => xnth n s in
  match xZ (a 0%nat) with
  | 0 => TNote (xAcc (a 1%nat)) (xZ (a 2%nat)) (map xB (xL (a 3%nat)))
               (mkLen (xOptZ (a 4%nat)) (xZ (a 5%nat)) (xOptZ (a 6%nat)))
  | 1 => TBar (xZ (a 1%nat)) (xZ (a 2%nat)) (xZ (a 3%nat))
  | 2 => TColons (xZ (a 1%nat))
  | 3 => TBroken (xB (a 1%nat)) (xZ (a 2%nat))
  | 4 => TInline (xField (a 1%nat))
  | 6 => TUnsup (match xZ (a 1%nat) with
                 | 0 => UChord | 1 => UTuplet | 2 => UVariant | _ => UInvalid end)
  | _ => TNop
  end.

Definition xLine (s : sx) : line :=
  match xZ (xnth 0 s) with
  | 0 => LField (xField (xnth 1 s))
  | _ => LMusic (map xToken (xL (xnth 1 s)))
  end.

Definition oExn (e : exn) : sx :=
  I (match e with
     | EParse => 0 | EMultiVoice => 1 | ERepeat => 2 | EVariant => 3 | EPart => 4
     | EInvalidChar => 5 | EChord => 6 | EDuplicate => 7 | ETuplet => 8
     | EKeyError => 20 | EZeroDiv => 21 | EValueError => 22 | EIndexError => 23
     | ETypeError => 24
     end).

Definition oQ (q : Q) : sx := L [I (Qnum q); I (Zpos (Qden q))].
Definition oNote (n : nnote) : sx := L [I (n_pitch n); oQ (n_start n); oQ (n_end n)].

Definition oTune (t : tune) : sx :=
  L [I (t_ref t);
     L (map oNote (t_notes t));
     L (map (fun x => L [oQ (fst x); oQ (snd x)]) (t_tempos t));
     L (map (fun x => L [oQ (fst (fst x)); I (snd (fst x)); I (snd x)]) (t_tsigs t));
     L (map (fun x => L [oQ (fst (fst x)); I (snd (fst x)); I (snd x)]) (t_ksigs t));
     L (map (fun x => L [oQ (fst x); I (snd x)]) (t_sects t));
     L (map (fun x => L [I (fst x); I (snd x)]) (t_groups t));
     oQ (t_total t);
     match expand t with
     | Ok (ids, ns) => L [I 0; oZs ids; L (map oNote ns)]
     | Err e => L [I 1; oExn e]
     end].

Definition run (s : sx) : sx :=
  match xZ (xnth 0 s) with
  | 1 =>
      let secs := map (fun sec => map xLine (xL sec)) (xL (xnth 1 s)) in
      match parse_book secs with
      | BookOk ts es =>
          (* last element: per tune, the model-level comparison of the expanded notes with the
             notes of the unrolled reading (0 n/a, 1 agree, 2 differ) *)
          let '(h, tunes) := split_header secs in
          L [I 0; L (map oTune ts); L (map oExn es);
             L (map (fun t => I (expansion_check (flatten (h ++ t)))) tunes)]
      | BookRaise e => L [I 1; oExn e]
      end
  | _ => oErr 1
  end.
