(** Run/C12.v — wire-format entry point for C12.

    Input:   (op seq (seq' ...) args...)
             [seq] is the sequence as stored, [seq' ...] are copies of it with every
             repeated field stored in another order (for the event extractors all of
             them are quantized sequences).
    Output:  (tag (agree ...))   tag = 0 if the model accepts [seq], -1000 if it raises;
             one flag per permuted copy: 1 iff the model's result on the copy is the
             result on [seq] AS A MULTISET (bag comparison of every repeated field,
             piecewise for lists of pieces, per event for drum tracks; plain equality
             for event lists), resp. the same exception.

    The operations are the imported models of the other properties (C10 transpose,
    C13 stretch/shift, C02 extract/split, C14 sustain, C07 extractors); this file only
    decodes, dispatches and compares.  The harness compares the flags with the same
    verdict computed on the real code. *)
From Coq Require Import ZArith List Bool.
From NS Require Import Base.Sx Base.NoteSeq.
From NS Require Gen.G02 Gen.G14 Model.Transpose Model.TimeOps Model.Extract Model.Split Model.Sustain
  Model.FqCommon Model.FqMelody Model.FqDrums Model.FqChords Model.FqPianoroll Model.FqPerformance.
Import ListNotations.
Local Open Scope Z_scope.

(** * comparisons on the wire format *)
Fixpoint sx_eqb (a b : sx) : bool :=
  match a, b with
  | I x, I y => x =? y
  | L l, L m =>
      (fix go (l m : list sx) : bool :=
         match l, m with
         | [], [] => true
         | x :: l', y :: m' => sx_eqb x y && go l' m'
         | _, _ => false
         end) l m
  | _, _ => false
  end.

Fixpoint remove1 (x : sx) (l : list sx) : option (list sx) :=
  match l with
  | [] => None
  | y :: r => if sx_eqb x y then Some r
              else match remove1 x r with Some r' => Some (y :: r') | None => None end
  end.

(** equality of multisets *)
Fixpoint bag_eqb (l m : list sx) : bool :=
  match l with
  | [] => match m with [] => true | _ => false end
  | x :: r => match remove1 x m with Some m' => bag_eqb r m' | None => false end
  end.

Fixpoint all2 (f : sx -> sx -> bool) (l m : list sx) : bool :=
  match l, m with
  | [], [] => true
  | x :: l', y :: m' => f x y && all2 f l' m'
  | _, _ => false
  end.

(** an encoded sequence: the first [n] components are bags, the others are compared exactly *)
Fixpoint fields_agree (n : nat) (xs ys : list sx) : bool :=
  match xs, ys with
  | [], [] => true
  | x :: xs', y :: ys' =>
      (match n with O => sx_eqb x y | S _ => bag_eqb (xL x) (xL y) end) && fields_agree (pred n) xs' ys'
  | _, _ => false
  end.

Definition cmp_seq (x y : sx) : bool := fields_agree 8 (xL x) (xL y).
Definition cmp_seqs (x y : sx) : bool := all2 cmp_seq (xL x) (xL y).
Definition cmp_seq_z (x y : sx) : bool := cmp_seq (xnth 0 x) (xnth 0 y) && sx_eqb (xnth 1 x) (xnth 1 y).
(** ((event ...) start end spb spq): every event is a set of pitches *)
Definition cmp_drums (x y : sx) : bool :=
  all2 (fun e e' => bag_eqb (xL e) (xL e')) (xL (xnth 0 x)) (xL (xnth 0 y))
  && sx_eqb (L (tl (xL x))) (L (tl (xL y))).

(** [f] returns (0 payload) or (-1000 code) *)
Definition judge (cmp : sx -> sx -> bool) (f : seq -> sx) (base : seq) (perms : list seq) : sx :=
  let b := f base in
  L [xnth 0 b;
     L (map (fun s' => let o := f s' in
                       oB (if (xZ (xnth 0 b) =? 0) && (xZ (xnth 0 o) =? 0)
                           then cmp (xnth 1 b) (xnth 1 o) else sx_eqb b o)) perms)].

(** * encoders of the models' results *)
Definition oTimeOps (r : TimeOps.res seq) : sx :=
  match r with
  | TimeOps.Ok s => oOk (oSeq s)
  | TimeOps.Err e =>
      oErr (match e with TimeOps.EValue => 1 | TimeOps.EQuant => 2 | TimeOps.EAdjust => 3
                       | TimeOps.ERectify => 4 | TimeOps.EZeroDiv => 5 end)
  end.

Definition oExtract (r : Extract.res (list seq)) : sx :=
  match r with
  | Extract.Ok ps => oOk (L (map oSeq ps))
  | Extract.Err e =>
      oErr (match e with Extract.ErrQuantized => 1 | Extract.ErrTooFew => 2 | Extract.ErrUnsorted => 3
                       | Extract.ErrPastEnd => 4 | Extract.ErrZeroHop => 5 end)
  end.

Definition oFq {A} (f : A -> sx) (r : FqCommon.res A) : sx :=
  match r with FqCommon.Ok a => oOk (f a) | FqCommon.Err c => oErr c end.

Definition run (s : sx) : sx :=
  let a := fun n => xnth n s in
  let base := xSeq (a 1%nat) in
  let perms := map xSeq (xL (a 2%nat)) in
  match xZ (a 0%nat) with
  | 1 => (* transpose: amount min_pitch max_pitch transpose_chords *)
      judge cmp_seq_z
            (fun q => match Transpose.transpose_ns q (xZ (a 3%nat)) (xZ (a 4%nat)) (xZ (a 5%nat)) (xB (a 6%nat)) with
                      | Some (r, d) => oOk (L [oSeq r; I d])
                      | None => oErr 1
                      end) base perms
  | 2 => (* stretch: fn fd *)
      judge cmp_seq (fun q => oTimeOps (TimeOps.stretch (xZ (a 3%nat)) (xZ (a 4%nat)) q)) base perms
  | 3 => (* shift: d *)
      judge cmp_seq (fun q => oTimeOps (TimeOps.shift (xZ (a 3%nat)) q)) base perms
  | 4 => (* _extract_subsequences: split times, preserved control numbers *)
      judge cmp_seqs (fun q => oExtract (Extract.extract_subsequences (xZs (a 4%nat)) q (xZs (a 3%nat))))
            base perms
  | 5 => (* split_note_sequence: hop skip *)
      judge cmp_seqs (fun q => oExtract (Split.split_hop q (xZ (a 3%nat)) (xB (a 4%nat)))) base perms
  | 6 => (* split_note_sequence_on_time_changes: skip *)
      judge cmp_seqs (fun q => oExtract (Split.split_time_changes q (xB (a 3%nat)))) base perms
  | 7 => (* split_note_sequence_on_silence: gap *)
      judge cmp_seqs (fun q => oExtract (Split.split_silence q (xZ (a 3%nat)))) base perms
  | 8 => (* apply_sustain_control_changes: sustain_control_number *)
      judge cmp_seq
            (fun q => match Sustain.apply_sustain (xZ (a 3%nat)) q with
                      | Some r => oOk (oSeq r) | None => oErr 1 end) base perms
  | 9 => (* melody: search_start instrument gap_bars ignore_poly pad_end filter_drums *)
      let p := FqMelody.mkMelParams (xZ (a 3%nat)) (xZ (a 4%nat)) (xZ (a 5%nat)) (xB (a 6%nat))
                                    (xB (a 7%nat)) (xB (a 8%nat)) in
      judge sx_eqb
            (fun q => oFq (fun r => L [oZs (FqMelody.me_events r); I (FqMelody.me_start r); I (FqMelody.me_end r)])
                          (FqMelody.mel_from_quantized p q)) base perms
  | 10 => (* drums: search_start gap_bars pad_end ignore_is_drum *)
      let p := FqDrums.mkDrParams (xZ (a 3%nat)) (xZ (a 4%nat)) (xB (a 5%nat)) (xB (a 6%nat)) in
      judge cmp_drums
            (fun q => oFq (fun r => L [L (map oZs (FqDrums.de_events r)); I (FqDrums.de_start r); I (FqDrums.de_end r)])
                          (FqDrums.dr_from_quantized p q)) base perms
  | 11 => (* chords: start_step end_step *)
      judge sx_eqb
            (fun q => oFq (fun r => L [L (map oZs (FqChords.ce_events r)); I (FqChords.ce_start r); I (FqChords.ce_end r)])
                          (FqChords.ch_from_quantized q (xZ (a 3%nat)) (xZ (a 4%nat)))) base perms
  | 12 => (* pianoroll sequence: start_step min_pitch max_pitch split_repeats *)
      let p := FqPianoroll.mkPrParams (xZ (a 3%nat)) (xZ (a 4%nat)) (xZ (a 5%nat)) (xB (a 6%nat)) in
      judge sx_eqb
            (fun q => oFq (fun r => L [L (map oZs (FqPianoroll.pe_events r)); I (FqPianoroll.pe_start r)])
                          (FqPianoroll.pr_from_quantized p q)) base perms
  | 13 => (* performance: start_step bins max_shift (instrument)? *)
      let p := FqPerformance.mkPfParams (xZ (a 3%nat)) (xZ (a 4%nat)) (xZ (a 5%nat)) (xOptZ (a 6%nat)) in
      judge sx_eqb
            (fun q => oOk (L (map (fun e => L [I (fst e); I (snd e)])
                                  (FqPerformance.pf_from_quantized p (s_notes q))))) base perms
  | 14 => (* split_note_sequence, list form: times skip *)
      judge cmp_seqs (fun q => oExtract (Split.split_list q (xZs (a 3%nat)) (xB (a 4%nat)))) base perms
  | 15 => (* extract_subsequence: start end preserved control numbers *)
      judge cmp_seq
            (fun q => match Extract.extract_subsequence (xZs (a 5%nat)) q (xZ (a 3%nat)) (xZ (a 4%nat)) with
                      | Extract.Ok p => oOk (oSeq p) | Extract.Err _ => oErr 1 end) base perms
  | 16 => (* trim_note_sequence: start end *)
      judge cmp_seq
            (fun q => match Extract.trim q (xZ (a 3%nat)) (xZ (a 4%nat)) with
                      | Extract.Ok p => oOk (oSeq p) | Extract.Err _ => oErr 1 end) base perms
  | _ => oErr 0
  end.
