(** Run/C13.v — wire-format entry point for the C13 time-operation models. *)
From Coq Require Import ZArith List Bool.
From NS Require Import Base.Sx Base.NoteSeq Model.TimeOps.
Import ListNotations.
Local Open Scope Z_scope.

Definition err_code (e : terr) : Z :=
  match e with EValue => 1 | EQuant => 2 | EAdjust => 3 | ERectify => 4 | EZeroDiv => 5 end.

Definition oRes {A : Type} (enc : A -> sx) (r : res A) : sx :=
  match r with Ok a => oOk (enc a) | Err e => oErr (err_code e) end.

(** The "given time map" of adjust_notesequence_times as a breakpoint table
    (rows x y p q, q > 0): on [x_i, x_(i+1)) the map is y_i + floor((t - x_i) * p_i / q_i);
    the first segment extends to the left, the last to the right.  The harness
    builds the Python closure from the same table (glue, not a model). *)
Definition row : Type := (Z * Z * Z * Z)%type.
Definition xRow (s : sx) : row := (xZ (xnth 0 s), xZ (xnth 1 s), xZ (xnth 2 s), xZ (xnth 3 s)).
Definition eval_row (r : row) (t : Z) : Z :=
  let '(x, y, p, q) := r in y + (t - x) * p / q.
Fixpoint pl_map (tbl : list row) (cur : row) (t : Z) : Z :=
  match tbl with
  | [] => eval_row cur t
  | r :: rest => let '(x, _, _, _) := r in if t <? x then eval_row cur t else pl_map rest r t
  end.
Definition table_map (tbl : list row) (t : Z) : Z :=
  match tbl with [] => t | r :: rest => pl_map rest r t end.

Definition xRows (s : sx) : list (list Z) := map xZs (xL s).
Definition oRows (l : list (list Z)) : sx := L (map oZs l).
Definition xMeta (s : sx) : meta :=
  mkMeta (xZs (xnth 0 s)) (xZs (xnth 1 s)) (xZs (xnth 2 s)) (xRows (xnth 3 s)) (xRows (xnth 4 s)) (xRows (xnth 5 s)).
Definition oMeta (m : meta) : sx :=
  L [oZs (m_scalars m); oZs (m_composers m); oZs (m_genres m); oRows (m_instr m); oRows (m_parts m);
     oRows (m_groups m)].

(* (op args...) *)
Definition run_basic (s : sx) : sx :=
  let a := fun n => xnth n s in
  match xZ (a 0%nat) with
  | 1 => oRes oSeq (shift (xZ (a 1%nat)) (xSeq (a 2%nat)))
  | 2 => oRes oSeq (stretch (xZ (a 1%nat)) (xZ (a 2%nat)) (xSeq (a 3%nat)))
  | 3 => (* seqs durs metas -> (seq meta) *)
      oRes (fun c => L [oSeq c; oMeta (concat_meta (map xMeta (xL (a 3%nat))))])
           (concatenate (map xSeq (xL (a 1%nat))) (xZs (a 2%nat)))
  | 4 => oRes oSeq (repeat_to_duration (xSeq (a 1%nat)) (xZ (a 2%nat)) (xOptZ (a 3%nat)))
  | 5 => oRes (fun p => L [oSeq (fst p); I (snd p)])
              (adjust (table_map (map xRow (xL (a 1%nat)))) (xOptZ (a 2%nat)) (xSeq (a 3%nat)))
  | 6 => oRes (fun p => L [oSeq (fst (fst p)); oZs (snd (fst p)); I (snd p)])
              (rectify (xZ (a 1%nat)) (xSeq (a 2%nat)))
  | _ => oErr 99
  end.

(** Two-step use (glue): op 7 = (7 seq (step...) final).  Every step and [final] is an ordinary
    op 1..5 (final: 1..6) request in which the atom [HOLE] stands for "the sequence produced so
    far"; a step that fails ends the chain with its error. *)
Definition HOLE : Z := - 2 ^ 70.
Fixpoint subst (v : sx) (s : sx) : sx :=
  match s with
  | I z => if z =? HOLE then v else s
  | L l => L (map (subst v) l)
  end.
Definition is_err (s : sx) : bool := xZ (xnth 0 s) =? -1000.
Definition payload_seq (op : Z) (p : sx) : sx :=
  match op with 3 | 5 => xnth 0 p | _ => p end.
Fixpoint chain (steps : list sx) (cur : sx) (final : sx) : sx :=
  match steps with
  | [] => run_basic (subst cur final)
  | st :: r =>
      let out := run_basic (subst cur st) in
      if is_err out then out else chain r (payload_seq (xZ (xnth 0 st)) (xnth 1 out)) final
  end.

Definition run (s : sx) : sx :=
  match xZ (xnth 0 s) with
  | 7 => chain (xL (xnth 2 s)) (xnth 1 s) (xnth 3 s)
  | _ => run_basic s
  end.
