(** Run/C05.v — wire-format entry point for the MusicXML model.
    input  (1 score)            score = (part...)   part = (chan prog (measure...))
                                measure = (tok...)   tok = (code args...)
      codes: 5 div d | 6 key fifths mode | 7 time beats beat_type | 8 transpose chromatic
             9 note rest chord step alter octave dur voice type dots tup_actual tup_normal
             10 backup d | 11 forward d | 12 tempo num den
             13 harmony root kind (deg...) bass offset     root, bass = () | (step) | (step alter)
                                                           deg = (value type) | (value type alter)   offset = () | (o)
    output (-1000 code)  or  (0 (tsig...) (ksig...) (tempo...) (note...) total (chord...))
      rationals are (num den). *)
From Coq Require Import ZArith QArith List Bool.
From NS Require Import Base.Sx Gen.G05 Model.MusicXml.
Import ListNotations.
Local Open Scope Z_scope.

Definition xQ (a b : sx) : Q := (inject_Z (xZ a) / inject_Z (xZ b))%Q.
Definition oQ (q : Q) : sx := let r := Qred q in L [I (Qnum r); I (Z.pos (Qden r))].

Definition xPitchOpt (s : sx) : option (Z * option Z) :=
  match xL s with
  | [] => None
  | [a] => Some (xZ a, None)
  | a :: b :: _ => Some (xZ a, Some (xZ b))
  end.
Definition xDeg (s : sx) : Z * option Z * Z :=
  match xL s with
  | v :: t :: a :: _ => (xZ v, Some (xZ a), xZ t)
  | _ => (xZ (xnth 0 s), None, xZ (xnth 1 s))
  end.

Definition xTok (s : sx) : tok :=
  let a := fun n => xnth n s in
  match xZ (a 0%nat) with
  | 5 => TDiv (xZ (a 1%nat))
  | 6 => TKey (xZ (a 1%nat)) (xZ (a 2%nat))
  | 7 => TTime (xZ (a 1%nat)) (xZ (a 2%nat))
  | 8 => TTranspose (xZ (a 1%nat))
  | 9 => TNote (xB (a 1%nat)) (xB (a 2%nat)) (xZ (a 3%nat)) (xZ (a 4%nat)) (xZ (a 5%nat))
               (xZ (a 6%nat)) (xZ (a 7%nat)) (xZ (a 8%nat)) (xZ (a 9%nat)) (xZ (a 10%nat)) (xZ (a 11%nat))
  | 10 => TBackup (xZ (a 1%nat))
  | 11 => TForward (xZ (a 1%nat))
  | 13 => THarmony (xPitchOpt (a 1%nat)) (xZ (a 2%nat)) (map xDeg (xL (a 3%nat))) (xPitchOpt (a 4%nat))
                   (xOptZ (a 5%nat))
  | _ => TTempo (xQ (a 1%nat) (a 2%nat))
  end.

Definition xPart (s : sx) : part :=
  mkPart (xZ (xnth 0 s)) (xZ (xnth 1 s)) (map (fun m => map xTok (xL m)) (xL (xnth 2 s))).

Definition oNote (n : onote) : sx :=
  L [I (o_part n); I (o_voice n); I (o_instr n); I (o_prog n); I (o_pitch n);
     oQ (o_start n); oQ (o_end n); I (o_num n); I (o_den n)].

Definition run (s : sx) : sx :=
  match xZ (xnth 0 s) with
  | 1 =>
      match run_doc (map xPart (xL (xnth 1 s))) with
      | inl e => oErr e
      | inr o =>
          L [I 0;
             L (map (fun x => let '(t, n, d) := x in L [oQ t; I n; I d]) (q_tsigs o));
             L (map (fun x => let '(t, k, m) := x in L [oQ t; I k; I m]) (q_ksigs o));
             L (map (fun x => let '(t, q) := x in L [oQ t; oQ q]) (q_tempos o));
             L (map oNote (q_notes o));
             oQ (q_total o);
             L (map (fun x => let '(t, f) := x in L [oQ t; oZs f]) (q_chords o))]
      end
  | _ => oErr 99
  end.
