(** Run/C19.v — wire entry for the C19 models.
    Scores cross the wire as [()] (= -inf) or [(z)]. *)
From Coq Require Import ZArith List Bool.
From NS Require Import Base.Sx Model.Viterbi Model.InferWrite.
Import ListNotations.
Local Open Scope Z_scope.

Definition xRow (s : sx) : list (option Z) := map xOptZ (xL s).
Definition xMat (s : sx) : list (list (option Z)) := map xRow (xL s).
Definition oPath (p : list nat) : sx := L (map oN p).

Definition xMev (s : sx) : mev :=
  match xZ (xnth 0 s) with
  | 0 => Rest
  | 1 => Onset (xZ (xnth 1 s))
  | _ => Sustain (xZ (xnth 1 s))
  end.
Definition oMev (e : mev) : sx :=
  match e with
  | Rest => L [I 0; I 0]
  | Onset p => L [I 1; I p]
  | Sustain p => L [I 2; I p]
  end.
Definition xNotes (s : sx) : list fnote :=
  map (fun r => mkF (xZ (xnth 0 r)) (xZ (xnth 1 r)) (xZ (xnth 2 r)) (xB (xnth 3 r)) (xZ (xnth 4 r))) (xL s).
Definition oPairs (l : list (Z * Z)) : sx := L (map (fun tf => L [I (fst tf); I (snd tf)]) l).

Definition run (s : sx) : sx :=
  let a := fun n => xnth n s in
  match xZ (a 0%nat) with
  | 1 => (* melody viterbi: cols emit0 frames(t>=1) pitches -> (path score events) *)
      let cols := xMat (a 1%nat) in
      let init := melody_init cols (xRow (a 2%nat)) in
      let frames := xMat (a 3%nat) in
      let p := viterbi_x init cols frames in
      L [oPath p; oOptZ (score_x init cols (rev frames) (rev p));
         L (map (fun i => oMev (index_to_event (xZs (a 4%nat)) i)) p)]
  | 2 => (* chord viterbi: nkeys kc cols frames(t>=0) -> (path score) *)
      let nkeys := xN (a 1%nat) in
      let kc := xMat (a 2%nat) in
      let cols := xMat (a 3%nat) in
      let fr := xMat (a 4%nat) in
      let init := chord_init kc (hd [] fr) in
      let frames := chord_frames nkeys (tl fr) in
      let p := viterbi_x init cols frames in
      L [oPath p; oOptZ (score_x init cols (rev frames) (rev p))]
  | 3 => (* chord writer: mode(0 fixed | 1 beats) spc-or-beats total figs keys -> (chords keys times) *)
      let figs := xZs (a 4%nat) in
      let times := match xZ (a 1%nat) with
                   | 0 => frame_times_fixed (xZ (a 2%nat)) (length figs)
                   | _ => frame_times_beats (xZs (a 2%nat)) (xZ (a 3%nat))
                   end in
      L [oPairs (chords_written times figs); oPairs (chords_written times (xZs (a 5%nat))); oZs times]
  | 4 => (* melody writer: events notes((pitch start end drum program)...) total -> notes | assertion failure *)
      let total := xZ (a 3%nat) in
      match infer_melody_write (map xMev (xL (a 1%nat))) (xNotes (a 2%nat)) total with
      | Some ns => oOk (L (map (fun n => L [I (m_start n); I (m_end n); I (m_pitch n)]) ns))
      | None => oErr 1
      end
  | 5 => (* plain-integer instance of the same generic Viterbi: cols init frames -> path *)
      let z := fun m => map xZs (xL m) in
      oPath (viterbi_z (xZs (a 2%nat)) (z (a 1%nat)) (z (a 3%nat)))
  | 6 => (* sequence_note_frames: notes((pitch start end drum program)...) total -> (pitches event_times has_onsets has_notes) *)
      let total := xZ (a 2%nat) in
      let ns := frame_notes (xNotes (a 1%nat)) total in
      let et := note_event_times ns total in
      let ps := note_pitches ns in
      let frames := seq 0 (Datatypes.S (length et)) in
      L [oZs ps; oZs et;
         L (map (fun f => L (map (fun p => oB (has_onset ns et f p)) ps)) frames);
         L (map (fun f => L (map (fun p => oB (has_note ns et f p)) ps)) frames)]
  | _ => oErr 0
  end.
