(** Run/C19.v — wire entry for the C19 models.
    Scores cross the wire as [()] (= -inf) or [(z)]. *)
From Coq Require Import ZArith List Bool.
From NS Require Import Base.Sx Model.Viterbi Model.InferWrite.
Import ListNotations.
Local Open Scope Z_scope.

Definition xRow (s : sx) : list (option Z) := map xOptZ (xL s).
Definition xMat (s : sx) : list (list (option Z)) := map xRow (xL s).
Definition oPath (p : list nat) : sx := L (map oN p).

Definition xMev (s : sx) : mev * Z :=
  let t := xZ (xnth 2 s) in
  match xZ (xnth 0 s) with
  | 0 => (Rest, t)
  | 1 => (Onset (xZ (xnth 1 s)), t)
  | _ => (Sustain (xZ (xnth 1 s)), t)
  end.

Definition run (s : sx) : sx :=
  let a := fun n => xnth n s in
  match xZ (a 0%nat) with
  | 1 => (* melody viterbi: cols emit0 frames(t>=1) -> (path score) *)
      let cols := xMat (a 1%nat) in
      let init := melody_init cols (xRow (a 2%nat)) in
      let frames := xMat (a 3%nat) in
      let p := viterbi_x init cols frames in
      L [oPath p; oOptZ (score_x init cols (rev frames) (rev p))]
  | 2 => (* chord viterbi: nkeys kc cols frames(t>=0) *)
      let nkeys := xN (a 1%nat) in
      let kc := xMat (a 2%nat) in
      let cols := xMat (a 3%nat) in
      let fr := xMat (a 4%nat) in
      let init := chord_init kc (hd [] fr) in
      let frames := chord_frames nkeys (tl fr) in
      let p := viterbi_x init cols frames in
      L [oPath p; oOptZ (score_x init cols (rev frames) (rev p))]
  | 3 => (* chord writer: ((time figure)...) *)
      L (map (fun tf => L [I (fst tf); I (snd tf)])
             (write_chords None (map (fun r => (xZ (xnth 0 r), xZ (xnth 1 r))) (xL (a 1%nat)))))
  | 4 => (* melody writer: ((kind pitch time)...) total *)
      match write_melody None (map xMev (xL (a 1%nat))) (xZ (a 2%nat)) with
      | Some ns => oOk (L (map (fun n => L [I (m_start n); I (m_end n); I (m_pitch n)]) ns))
      | None => oErr 1
      end
  | _ => oErr 0
  end.
