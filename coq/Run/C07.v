(** Run/C07.v — wire-format entry point for the C07 models (from_quantized_sequence of
    Melody, DrumTrack, ChordProgression, PianorollSequence, Performance/MetricPerformance,
    NotePerformance).  (op seq args...) ; results: (0 payload) or (-1000 code). *)
From Coq Require Import ZArith List Bool.
From NS Require Import Base.Sx Base.NoteSeq Gen.G07 Model.FqCommon Model.FqMelody Model.FqDrums
  Model.FqChords Model.FqPianoroll Model.FqPerformance.
Import ListNotations.
Local Open Scope Z_scope.

Definition oRes {A} (f : A -> sx) (r : res A) : sx :=
  match r with Ok a => oOk (f a) | Err c => oErr c end.

Definition oOptB (o : option bool) : sx :=
  match o with Some b => L [oB b] | None => L [] end.

Definition oSnotes (l : list snote) : sx :=
  L (map (fun x => let '(q, s, e, v) := x in L [I q; I s; I e; I v]) l).

Definition run (s : sx) : sx :=
  let a := fun n => xnth n s in
  let sq := xSeq (a 1%nat) in
  match xZ (a 0%nat) with
  | 1 => (* melody: seq search_start instrument gap_bars ignore_poly pad_end filter_drums *)
      let p := mkMelParams (xZ (a 2%nat)) (xZ (a 3%nat)) (xZ (a 4%nat)) (xB (a 5%nat))
                           (xB (a 6%nat)) (xB (a 7%nat)) in
      oRes (fun r => L [oZs (me_events r); I (me_start r); I (me_end r); I (me_spb r); I (me_spq r)])
           (mel_from_quantized p sq)
  | 2 => (* drums: seq search_start gap_bars pad_end ignore_is_drum *)
      let p := mkDrParams (xZ (a 2%nat)) (xZ (a 3%nat)) (xB (a 4%nat)) (xB (a 5%nat)) in
      oRes (fun r => L [L (map oZs (de_events r)); I (de_start r); I (de_end r); I (de_spb r); I (de_spq r)])
           (dr_from_quantized p sq)
  | 3 => (* chords: seq start_step end_step *)
      oRes (fun r => L [L (map oZs (ce_events r)); I (ce_start r); I (ce_end r); I (ce_spb r); I (ce_spq r)])
           (ch_from_quantized sq (xZ (a 2%nat)) (xZ (a 3%nat)))
  | 4 => (* pianoroll: seq start_step min_pitch max_pitch split_repeats *)
      let p := mkPrParams (xZ (a 2%nat)) (xZ (a 3%nat)) (xZ (a 4%nat)) (xB (a 5%nat)) in
      oRes (fun r => L [L (map oZs (pe_events r)); I (pe_start r); I (pe_spq r)])
           (pr_from_quantized p sq)
  | 5 => (* performance: seq start_step bins max_shift (instrument)? default_velocity *)
      let p := mkPfParams (xZ (a 2%nat)) (xZ (a 3%nat)) (xZ (a 4%nat)) (xOptZ (a 5%nat)) in
      let evs := pf_from_quantized p (s_notes sq) in
      let pd := pf_program_is_drum (fp_instrument p) (s_notes sq) in
      oOk (L [L (map (fun e => L [I (fst e); I (snd e)]) evs); oOptZ (fst pd); oOptB (snd pd);
              oSnotes (pf_to_step_notes p (xZ (a 6%nat)) evs)])
  | 6 => (* note performance: seq start_step bins max_shift max_duration (instrument)? *)
      let p := mkPfParams (xZ (a 2%nat)) (xZ (a 3%nat)) (xZ (a 4%nat)) (xOptZ (a 6%nat)) in
      let pd := pf_program_is_drum (fp_instrument p) (s_notes sq) in
      oRes (fun evs =>
              L [L (map (fun e => let '(sh, q, b, du) := e in L [I sh; I q; I b; I du]) evs);
                 oOptZ (fst pd); oOptB (snd pd); oSnotes (np_to_step_notes p evs)])
           (np_from_quantized p (xZ (a 5%nat)) (s_notes sq))
  | _ => oErr 0
  end.
