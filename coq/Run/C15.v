(** Run/C15.v — wire-format entry point for the chord-symbol model. *)
From Coq Require Import ZArith List Bool.
From NS Require Import Base.Sx Gen.G15 Model.ChordSym.
Import ListNotations.
Local Open Scope Z_scope.

Definition exn_code (e : exn) : Z :=
  match e with
  | E_ChordSymbol => 1 | E_Key => 2 | E_Index => 3 | E_Assertion => 4 | E_NoTermination => 5
  end.

Definition oRes {A} (f : A -> sx) (r : res A) : sx :=
  match r with Ok a => L [I 0; f a] | Err e => oErr (exn_code e) end.

(* _parse_pitch_class on a string matched by [A-G](#*|b* ): glue, like the regex split *)
Definition parse_pitch_class (s : list Z) : Z * Z :=
  match s with
  | [] => (0, 0)
  | step :: alter => (step, len alter * (if zmem CH_SHARP alter then 1 else -1))
  end.

Definition xSym (root kind mods bass : sx) : sym :=
  mkSym (parse_pitch_class (xZs root)) (xZs kind)
        (map (fun m => (xZs (xnth 0 m), xZ (xnth 1 m))) (xL mods))
        (match xZs bass with [] => None | b => Some (parse_pitch_class b) end).

Definition oInterp (s : sym) : sx :=
  L [oRes I (sym_root s); oRes I (sym_bass s); oRes oZs (sym_pitches s); oRes I (sym_quality s)].

Definition run (s : sx) : sx :=
  let a := fun n => xnth n s in
  match xZ (a 0%nat) with
  | 1 => (* name: pitches *)
      match name_pitches (xZs (a 1%nat)) with
      | Err e => oErr (exn_code e)
      | Ok NoChord => L [I 1; oZs (render NoChord)]
      | Ok (Fig sy) => L [I 0; oZs (render (Fig sy)); oInterp sy]
      end
  | 2 => (* parse: root kind mods bass (already split) *)
      oInterp (xSym (a 1%nat) (a 2%nat) (a 3%nat) (a 4%nat))
  | 3 => (* CPython set order: list(set(l)), list(set(l) - {l[0]}) *)
      let l := xZs (a 1%nat) in
      let o := pyset_iter l in
      L [oZs o; oZs (match l with [] => [] | b :: _ => pyset_iter (filter (fun x => negb (x =? b)) o) end)]
  | 4 => (* name, with either repair of notes/C15-fix-{1,2}.diff switched off: fix1 fix2 pitches *)
      match name_pitches_v (xB (a 1%nat)) (xB (a 2%nat)) (xZs (a 3%nat)) with
      | Err e => oErr (exn_code e)
      | Ok NoChord => L [I 1; oZs (render NoChord)]
      | Ok (Fig sy) => L [I 0; oZs (render (Fig sy)); oInterp sy]
      end
  | _ => oErr 1
  end.
