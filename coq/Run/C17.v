(** Run/C17.v — wire-format entry point for the C17 models.

    input  : (cls init ops)
      cls 1 SimpleEventSequence  2 Melody  3 DrumTrack  4 ChordProgression
          5 LeadSheet            6 PianorollSequence    7 Performance
      init: 1        (pad)                  -- SimpleEventSequence(pad_event=pad)
            2,3,4,5  ()                     -- Cls()
            6        (start minp maxp)      -- PianorollSequence(steps_per_quarter=4, start_step, min_pitch, max_pitch)
            7        (start max_shift kind) -- kind 0: Performance(steps_per_second=100, start_step, max_shift_steps)
                                               kind 1: MetricPerformance with steps_per_quarter * max_shift_quarters = max_shift
      ops : list of (code args...), see the decoders below.
    output : one observation per op:
      (outcome events start end len steps index extra...)
      with index = [obj[i] for i in -len-1 .. len], IndexError as ();
      extra = (steps_per_bar steps_per_quarter) for classes 1-5, then for the
      LeadSheet its melody events, chord events and the chords' (start end);
      num_steps for classes 6, 7. *)
From Coq Require Import ZArith List Bool.
From NS Require Import Base.Sx Gen.G17 Model.Events Model.EventsPoly.
Import ListNotations.
Local Open Scope Z_scope.

Definition oOutcome (o : outcome) : sx :=
  I (match o with
     | Done => 0 | ValueError => 1 | MismatchError => 2
     | NotImplementedError => 3 | AssertionError => 4 end).

Definition xOpt (s : sx) : option Z := xOptZ s.
Definition a_ (n : nat) (s : sx) : sx := xnth n s.

Definition index_probe {A} (get : Z -> option A) (enc : A -> sx) (len : Z) : sx :=
  L (map (fun i => match get i with Some e => L [enc e] | None => L [] end)
         (py_range (- len - 1) (len + 1))).

(* ---- SimpleEventSequence family ---- *)
Section SimpleWire.
  Variable E : Type.
  Variable xE : sx -> E.
  Variable oE : E -> sx.

  Definition xEsOpt (s : sx) : option (list E) :=
    match xL s with
    | [_; es] => Some (map xE (xL es))
    | _ => None
    end.

  Definition xOp (s : sx) : op E :=
    match xZ (a_ 0 s) with
    | 1 => OAppend (xE (a_ 1 s))
    | 2 => OSetLength (xZ (a_ 1 s)) (xB (a_ 2 s))
    | 3 => OSlice (xOpt (a_ 1 s)) (xOpt (a_ 2 s))
    | 4 => OIncRes (xZ (a_ 1 s))
    | 5 => ODeepcopy
    | 6 => OReinit (xE (a_ 1 s)) (xEsOpt (a_ 2 s)) (xZ (a_ 3 s)) (xZ (a_ 4 s)) (xZ (a_ 5 s))
    | _ => OReset
    end.

  (* classes 1 and 4: (4 k (f)) is increase_resolution(k, fill_event=f) *)
  Definition xOpF (s : sx) : option E * op E :=
    (if xZ (a_ 0 s) =? 4 then match xL (a_ 2 s) with [f] => Some (xE f) | _ => None end else None, xOp s).

  Definition oObs (so : st E * outcome) : sx :=
    let s := fst so in
    L [oOutcome (snd so); L (map oE (iter s)); I (start s); I (stop s); I (len s);
       oZs (steps s); index_probe (getitem s) oE (len s); L [I (spb s); I (spq s)]].
End SimpleWire.

Definition xDrum (s : sx) : list Z := xZs s.

(* ---- LeadSheet ---- *)
Definition xLsOp (s : sx) : LeadSheet.op :=
  match xZ (a_ 0 s) with
  | 1 => LeadSheet.LAppend (xZ (a_ 1 s)) (xZ (a_ 2 s))
  | 2 => LeadSheet.LSetLength (xZ (a_ 1 s))
  | 3 => LeadSheet.LSlice (xOpt (a_ 1 s)) (xOpt (a_ 2 s))
  | 4 => LeadSheet.LIncRes (xZ (a_ 1 s))
  | 5 => LeadSheet.LDeepcopy
  | 6 => LeadSheet.LReinit (xZs (a_ 1 s)) (xZ (a_ 2 s)) (xZ (a_ 3 s)) (xZ (a_ 4 s))
                           (xZs (a_ 5 s)) (xZ (a_ 6 s)) (xZ (a_ 7 s)) (xZ (a_ 8 s))
  | _ => LeadSheet.LReset
  end.

Definition oPairZ (p : Z * Z) : sx := L [I (fst p); I (snd p)].

Definition oLsObs (so : LeadSheet.ls * outcome) : sx :=
  let s := fst so in
  L [oOutcome (snd so); L (map oPairZ (LeadSheet.iter s)); I (LeadSheet.start s); I (LeadSheet.stop s);
     I (LeadSheet.len s); oZs (LeadSheet.steps s);
     index_probe (LeadSheet.getitem s) oPairZ (LeadSheet.len s);
     L [I (spb (LeadSheet.mel s)); I (spq (LeadSheet.mel s))];
     (* the two wrapped sequences, so that lock step is observed and not inferred *)
     oZs (events (LeadSheet.mel s)); oZs (events (LeadSheet.chd s));
     L [I (start (LeadSheet.chd s)); I (stop (LeadSheet.chd s))]].

(* ---- PianorollSequence ---- *)
Definition xPrOp (s : sx) : Pianoroll.op :=
  match xZ (a_ 0 s) with
  | 1 => Pianoroll.PAppend (xZs (a_ 1 s)) (xB (a_ 2 s))
  | 2 => Pianoroll.PSetLength (xZ (a_ 1 s)) (xB (a_ 2 s))
  | 6 => Pianoroll.PReinit (map xZs (xL (a_ 1 s))) (xZ (a_ 2 s)) (xZ (a_ 3 s)) (xZ (a_ 4 s)) (xB (a_ 5 s))
  | _ => Pianoroll.PDeepcopy
  end.

Definition oPrObs (so : Pianoroll.st * outcome) : sx :=
  let s := fst so in
  L [oOutcome (snd so); L (map oZs (Pianoroll.iter s)); I (Pianoroll.start s); I (Pianoroll.stop s);
     I (Pianoroll.len s); oZs (Pianoroll.steps s);
     index_probe (Pianoroll.getitem s) oZs (Pianoroll.len s); I (Pianoroll.num_steps s)].

(* ---- Performance ---- *)
Definition xPfOp (s : sx) : Perf.op :=
  match xZ (a_ 0 s) with
  | 1 => Perf.FAppend (xZ (a_ 1 s)) (xZ (a_ 2 s))
  | 2 => Perf.FSetLength (xZ (a_ 1 s)) (xB (a_ 2 s))
  | 8 => Perf.FTruncate (xZ (a_ 1 s))
  | 6 => Perf.FReinit (xZ (a_ 1 s)) (xZ (a_ 2 s)) (xZ (a_ 4 s))   (* (6 start max_shift kind nvb ...) *)
  | _ => Perf.FDeepcopy
  end.

Definition oPfObs (so : Perf.st * outcome) : sx :=
  let s := fst so in
  L [oOutcome (snd so); L (map oPairZ (Perf.iter s)); I (Perf.start s); I (Perf.stop s);
     I (Perf.len s); oZs (Perf.steps s);
     index_probe (Perf.getitem s) oPairZ (Perf.len s); I (Perf.num_steps s)].

Definition run (s : sx) : sx :=
  let init := a_ 1 s in
  let ops := xL (a_ 2 s) in
  match xZ (a_ 0 s) with
  | 1 => L (map (oObs Z I) (trace_f None Plain.valid (fun l => l) None no_fix
                                    (empty_st (xZ (a_ 0 init))) (map (xOpF Z xZ) ops)))
  | 2 => L (map (oObs Z I) (Melody.trace (empty_st MELODY_NO_EVENT) (map (xOp Z xZ) ops)))
  | 3 => L (map (oObs (list Z) oZs) (Drums.trace (empty_st []) (map (xOp (list Z) xDrum) ops)))
  | 4 => L (map (oObs Z I) (trace_f (Some NO_CHORD_CODE) Chords.valid (fun l => l) None no_fix
                                    (empty_st NO_CHORD_CODE) (map (xOpF Z xZ) ops)))
  | 5 => L (map oLsObs (LeadSheet.trace LeadSheet.empty (map xLsOp ops)))
  | 6 => L (map oPrObs (Pianoroll.trace
                          (Pianoroll.mk [] (xZ (a_ 0 init)) (xZ (a_ 1 init)) (xZ (a_ 2 init)))
                          (map xPrOp ops)))
  | 7 => L (map oPfObs (Perf.trace (Perf.mk [] (xZ (a_ 0 init)) (xZ (a_ 1 init))) (map xPfOp ops)))
  | _ => oErr 1
  end.
