(** Props/C12.v — C12: results do not depend on the storage order of notes and events.
    Only statements, [exact], and [Print Assumptions].

    Vocabulary (Model/PermDefs.v):
      [seq_perm s s']        s' is s with every repeated field (notes, tempos, time signatures, key
                             signatures, text annotations, control changes, pitch bends, section
                             annotations) stored in another order ([Permutation]); scalars equal.
                             The same relation compares RESULTS ("equal as multisets").
      [distinct_on key l]    no two elements of l share [key]  — the quantifier's hypotheses, named
                             per theorem; [seq_distinct] / [seq_qdistinct] are the whole quantifier
                             (in seconds / in quantized steps) and imply every one of them
                             ([C12_quantifier_implies_hypotheses]).
    Every theorem is about the Gallina model of another property (C10 transpose, C13 stretch /
    shift, C01 quantize, C02 extract / split, C07 event extractors, C14 sustain, C03 MIDI glue)
    and holds for ALL sequences and ALL permutations of each repeated field. *)
From Coq Require Import ZArith List Bool Permutation Sorted.
From NS Require Import Base.NoteSeq Model.PermDefs Proofs.PermTools Proofs.PermHyps.
From NS Require Gen.G10 Model.Transpose Model.TimeOps Model.Quantize Proofs.PermSimple.
From NS Require Gen.G02 Model.Extract Model.Split Proofs.PermExtract.
From NS Require Gen.G07 Model.FqCommon Model.FqMelody Model.FqDrums Model.FqChords Model.FqPianoroll
  Model.FqPerformance Proofs.PermFq.
From NS Require Proofs.PermCompose.
From NS Require Gen.G14 Model.Sustain Proofs.PermSustain Proofs.PermSustainSpec Proofs.PermSustainTotal
  Proofs.PermSustainFull.
From NS Require Gen.G03 Model.TempoMap Model.MidiGlue Proofs.PermMidi.
Import ListNotations.
Local Open Scope Z_scope.

Module S := NS.Proofs.PermSimple.
Module E := NS.Proofs.PermExtract.
Module F := NS.Proofs.PermFq.
Module T := NS.Model.TimeOps.
Module Q := NS.Model.Quantize.
Module X := NS.Model.Extract.
Module Sp := NS.Model.Split.
Module Su := NS.Model.Sustain.
Module PS := NS.Proofs.PermSustain.
Module PM := NS.Proofs.PermMidi.

(** * The relation itself *)
Theorem C12_seq_perm_equivalence :
  (forall s, seq_perm s s) /\ (forall a b, seq_perm a b -> seq_perm b a) /\
  (forall a b c, seq_perm a b -> seq_perm b c -> seq_perm a c).
Proof. exact (conj seq_perm_refl (conj seq_perm_sym seq_perm_trans)). Qed.
Print Assumptions C12_seq_perm_equivalence.

(** The quantifier implies every hypothesis used below, and is itself independent of the storage order. *)
Theorem C12_quantifier_implies_hypotheses : forall s, seq_distinct s ->
  distinct_on tp_time (s_tempos s) /\ distinct_on ts_time (s_tsigs s) /\ distinct_on ks_time (s_ksigs s) /\
  distinct_on tx_time (X.chords_of s) /\ distinct_on cc_kind_time (s_ccs s) /\
  distinct_on F.start_pitch (s_notes s).
Proof. exact seq_distinct_hyps. Qed.
Print Assumptions C12_quantifier_implies_hypotheses.

Theorem C12_quantized_quantifier_implies_hypotheses : forall s, seq_qdistinct s ->
  distinct_on F.qstart_pitch (s_notes s) /\ distinct_on tx_qstep (filter F.is_chord (s_texts s)).
Proof. exact seq_qdistinct_hyps. Qed.
Print Assumptions C12_quantized_quantifier_implies_hypotheses.

Theorem C12_quantifier_is_order_independent : forall s s', seq_perm s s' -> seq_distinct s -> seq_distinct s'.
Proof. exact seq_distinct_perm. Qed.
Print Assumptions C12_quantifier_is_order_independent.

(** The stable sort of a list with distinct keys is the same list for every storage order. *)
Theorem C12_sort_of_distinct_keys : forall (A : Type) (key : A -> Z) (l l' : list A),
  Permutation l l' -> distinct_on key l -> ksort key l = ksort key l'.
Proof. exact @ksort_perm_invariant. Qed.
Print Assumptions C12_sort_of_distinct_keys.

(** * transpose_note_sequence (no hypothesis): same exception, or same number of deleted notes and
      the same sequence as a multiset *)
Theorem perm_invariant_transpose : forall s s' k lo hi transpose_chords, seq_perm s s' ->
  opt_rel S.transpose_rel (Transpose.transpose_ns s k lo hi transpose_chords)
                          (Transpose.transpose_ns s' k lo hi transpose_chords).
Proof. exact S.perm_transpose. Qed.
Print Assumptions perm_invariant_transpose.

(** * stretch_note_sequence, shift_sequence_times (no hypothesis) *)
Theorem perm_invariant_stretch : forall fn fd s s', seq_perm s s' ->
  S.timeops_rel (T.stretch fn fd s) (T.stretch fn fd s').
Proof. exact S.perm_stretch. Qed.
Print Assumptions perm_invariant_stretch.

Theorem perm_invariant_shift : forall d s s', seq_perm s s' ->
  S.timeops_rel (T.shift d s) (T.shift d s').
Proof. exact S.perm_shift. Qed.
Print Assumptions perm_invariant_shift.

(** * quantization.  The per-element pass, for every step function (no hypothesis) ... *)
Theorem perm_invariant_quantize_notes : forall q s s', seq_perm s s' ->
  S.quantize_rel_res (Q.quantize_notes q s) (Q.quantize_notes q s').
Proof. exact S.perm_quantize_notes. Qed.
Print Assumptions perm_invariant_quantize_notes.

Theorem perm_invariant_quantize_absolute : forall sps s s', seq_perm s s' ->
  S.quantize_rel_res (Q.quantize_abs sps s) (Q.quantize_abs sps s').
Proof. exact S.perm_quantize_abs. Qed.
Print Assumptions perm_invariant_quantize_absolute.

(** ... the validation verdict and the normalised entry (tempos / time signatures at distinct times) ... *)
Theorem perm_invariant_tempo_validation : forall tps tps', Permutation tps tps' -> distinct_on tp_time tps ->
  Q.check_tempos false tps = Q.check_tempos false tps'.
Proof. exact S.perm_check_tempos. Qed.
Print Assumptions perm_invariant_tempo_validation.

Theorem perm_invariant_time_signature_validation : forall tss tss', Permutation tss tss' -> distinct_on ts_time tss ->
  Q.check_tsigs false tss = Q.check_tsigs false tss'.
Proof. exact S.perm_check_tsigs. Qed.
Print Assumptions perm_invariant_time_signature_validation.

(** ... and quantize_note_sequence as a whole: same error, or the same quantized sequence as a multiset
    (float arithmetic included: the step function is the bit-exact one of the C01 model). *)
Theorem perm_invariant_quantize : forall spq s s', seq_perm s s' ->
  distinct_on tp_time (s_tempos s) -> distinct_on ts_time (s_tsigs s) ->
  S.quantize_rel_res (Q.quantize_rel spq s) (Q.quantize_rel spq s').
Proof. exact S.perm_quantize_rel. Qed.
Print Assumptions perm_invariant_quantize.

(** * _extract_subsequences: same ValueError / QuantizationStatusError, or piece by piece the same notes,
      text annotations and pedal events as multisets and the same tempos / signatures / total_time /
      subsequence_info. *)
Theorem perm_invariant_extract : forall pres s s' ts, seq_perm s s' ->
  distinct_on tp_time (s_tempos s) -> distinct_on ts_time (s_tsigs s) -> distinct_on ks_time (s_ksigs s) ->
  distinct_on tx_time (X.chords_of s) -> distinct_on cc_kind_time (s_ccs s) ->
  E.extract_rel (X.extract_subsequences pres s ts) (X.extract_subsequences pres s' ts).
Proof. exact E.perm_extract. Qed.
Print Assumptions perm_invariant_extract.

(** extract_subsequence (one window) and trim_note_sequence (no hypothesis) *)
Theorem perm_invariant_extract_one : forall pres s s' a b, seq_perm s s' ->
  distinct_on tp_time (s_tempos s) -> distinct_on ts_time (s_tsigs s) -> distinct_on ks_time (s_ksigs s) ->
  distinct_on tx_time (X.chords_of s) -> distinct_on cc_kind_time (s_ccs s) ->
  E.extract1_rel (X.extract_subsequence pres s a b) (X.extract_subsequence pres s' a b).
Proof. exact E.perm_extract_one. Qed.
Print Assumptions perm_invariant_extract_one.

Theorem perm_invariant_trim : forall s s' a b, seq_perm s s' -> E.extract1_rel (X.trim s a b) (X.trim s' a b).
Proof. exact E.perm_trim. Qed.
Print Assumptions perm_invariant_trim.

(** * the splitters: the chosen split points are equal, then as for extraction *)
Theorem perm_invariant_split_points : forall s s', seq_perm s s' ->
  (forall sts skip, StronglySorted Z.le sts -> Sp.hop_valid s sts skip = Sp.hop_valid s' sts skip) /\
  (forall skip, distinct_on ts_time (s_tsigs s) -> distinct_on tp_time (s_tempos s) ->
                Sp.tc_valid s skip = Sp.tc_valid s' skip) /\
  (forall gap, 0 <= gap -> Forall (fun n => n_start n <= n_end n) (s_notes s) ->
               Sp.silence_valid s gap = Sp.silence_valid s' gap).
Proof.
  exact (fun s s' P => conj (fun sts skip Z => E.hop_valid_perm s s' sts skip Z P)
                      (conj (fun skip D1 D2 => E.tc_valid_perm s s' skip P D1 D2)
                            (fun gap G W => E.silence_valid_perm s s' gap P G W))).
Qed.
Print Assumptions perm_invariant_split_points.

Theorem perm_invariant_split_hop : forall s s' hop skip, seq_perm s s' ->
  distinct_on tp_time (s_tempos s) -> distinct_on ts_time (s_tsigs s) -> distinct_on ks_time (s_ksigs s) ->
  distinct_on tx_time (X.chords_of s) -> distinct_on cc_kind_time (s_ccs s) ->
  E.extract_rel (Sp.split_hop s hop skip) (Sp.split_hop s' hop skip).
Proof. exact E.perm_split_hop. Qed.
Print Assumptions perm_invariant_split_hop.

Theorem perm_invariant_split_list : forall s s' l skip, seq_perm s s' ->
  distinct_on tp_time (s_tempos s) -> distinct_on ts_time (s_tsigs s) -> distinct_on ks_time (s_ksigs s) ->
  distinct_on tx_time (X.chords_of s) -> distinct_on cc_kind_time (s_ccs s) ->
  E.extract_rel (Sp.split_list s l skip) (Sp.split_list s' l skip).
Proof. exact E.perm_split_list. Qed.
Print Assumptions perm_invariant_split_list.

Theorem perm_invariant_split_time_changes : forall s s' skip, seq_perm s s' ->
  distinct_on tp_time (s_tempos s) -> distinct_on ts_time (s_tsigs s) -> distinct_on ks_time (s_ksigs s) ->
  distinct_on tx_time (X.chords_of s) -> distinct_on cc_kind_time (s_ccs s) ->
  E.extract_rel (Sp.split_time_changes s skip) (Sp.split_time_changes s' skip).
Proof. exact E.perm_split_time_changes. Qed.
Print Assumptions perm_invariant_split_time_changes.

Theorem perm_invariant_split_silence : forall s s' gap, seq_perm s s' -> 0 <= gap ->
  Forall (fun n => n_start n <= n_end n) (s_notes s) ->
  distinct_on tp_time (s_tempos s) -> distinct_on ts_time (s_tsigs s) -> distinct_on ks_time (s_ksigs s) ->
  distinct_on tx_time (X.chords_of s) -> distinct_on cc_kind_time (s_ccs s) ->
  E.extract_rel (Sp.split_silence s gap) (Sp.split_silence s' gap).
Proof. exact E.perm_split_silence. Qed.
Print Assumptions perm_invariant_split_silence.

(** * event-sequence extraction from a quantized sequence.
      [tsigs_agree]: steps_per_bar reads time_signatures[0]; a quantized sequence has exactly one
      (C01), stated here as "all stored time signatures have the same numerator and denominator". *)

(** PianorollSequence: the extracted object is EQUAL (no hypothesis at all — notes are painted in start order) *)
Theorem perm_invariant_pianoroll_sequence : forall p s s', seq_perm s s' ->
  FqPianoroll.pr_from_quantized p s' = FqPianoroll.pr_from_quantized p s.
Proof. exact F.perm_pianorollseq. Qed.
Print Assumptions perm_invariant_pianoroll_sequence.

(** DrumTrack: same error, or same start / end / steps per bar and at every step the same SET of pitches *)
Theorem perm_invariant_drum_track : forall p s s', seq_perm s s' -> F.tsigs_agree s ->
  (forall spb, FqCommon.steps_per_bar s = FqCommon.Ok spb -> 0 < spb) ->
  F.fq_rel F.dr_rel (FqDrums.dr_from_quantized p s) (FqDrums.dr_from_quantized p s').
Proof. exact F.perm_drums. Qed.
Print Assumptions perm_invariant_drum_track.

(** ChordProgression: EQUAL, when no two chord annotations share a quantized step *)
Theorem perm_invariant_chord_progression : forall s s' a b, seq_perm s s' -> F.tsigs_agree s ->
  distinct_on tx_qstep (filter F.is_chord (s_texts s)) ->
  FqChords.ch_from_quantized s' a b = FqChords.ch_from_quantized s a b.
Proof. exact F.perm_chords. Qed.
Print Assumptions perm_invariant_chord_progression.

(** Melody: EQUAL (events, start, end, or the same PolyphonicMelodyError), when no two notes of one pitch
    start on the same step *)
Theorem perm_invariant_melody : forall p s s', seq_perm s s' -> F.tsigs_agree s ->
  distinct_on F.qstart_pitch (s_notes s) ->
  FqMelody.mel_from_quantized p s' = FqMelody.mel_from_quantized p s.
Proof. exact F.perm_melody. Qed.
Print Assumptions perm_invariant_melody.

(** Performance / MetricPerformance: the event list is EQUAL, when no two notes of one pitch start at the
    same time; the (program, is_drum) stamped on it needs no hypothesis *)
Theorem perm_invariant_performance : forall p ns ns', Permutation ns ns' -> distinct_on F.start_pitch ns ->
  FqPerformance.pf_from_quantized p ns' = FqPerformance.pf_from_quantized p ns.
Proof. exact F.perm_performance. Qed.
Print Assumptions perm_invariant_performance.

Theorem perm_invariant_performance_program : forall instr ns ns', Permutation ns ns' ->
  FqPerformance.pf_program_is_drum instr ns' = FqPerformance.pf_program_is_drum instr ns.
Proof. exact F.perm_performance_program. Qed.
Print Assumptions perm_invariant_performance_program.

(** End to end: quantize_note_sequence on the sequence as stored and on a re-ordered copy, then extract.
    Both calls raise the same error, or the quantized sequences are the same multiset and every extractor
    returns the same object ([tsigs_agree] is discharged: the quantizer returns exactly one time signature). *)
Theorem perm_invariant_quantize_then_extract : forall spq s s', seq_perm s s' ->
  distinct_on tp_time (s_tempos s) -> distinct_on ts_time (s_tsigs s) ->
  match Q.quantize_rel spq s, Q.quantize_rel spq s' with
  | Q.Ok q, Q.Ok q' =>
      seq_perm q q' /\
      (forall p, FqPianoroll.pr_from_quantized p q' = FqPianoroll.pr_from_quantized p q) /\
      (forall p, distinct_on F.qstart_pitch (s_notes q) ->
                 FqMelody.mel_from_quantized p q' = FqMelody.mel_from_quantized p q) /\
      (forall a b, distinct_on tx_qstep (filter F.is_chord (s_texts q)) ->
                   FqChords.ch_from_quantized q' a b = FqChords.ch_from_quantized q a b) /\
      (forall p, (forall spb, FqCommon.steps_per_bar q = FqCommon.Ok spb -> 0 < spb) ->
                 F.fq_rel F.dr_rel (FqDrums.dr_from_quantized p q) (FqDrums.dr_from_quantized p q')) /\
      (forall p, distinct_on F.start_pitch (s_notes s) ->
                 FqPerformance.pf_from_quantized p (s_notes q') = FqPerformance.pf_from_quantized p (s_notes q))
  | Q.Err e, Q.Err e' => e = e'
  | _, _ => False
  end.
Proof. exact PermCompose.perm_quantize_then_extract. Qed.
Print Assumptions perm_invariant_quantize_then_extract.

(** * apply_sustain_control_changes (C14 model, which C14 proves equal to its declarative specification
      [spec_notes] inside the quantifier).  Hypotheses = C14's quantifier: non-drum notes have start <= end
      ([ordered_b]), no two non-drum notes of one pitch on one instrument overlap or start together
      ([no_clash]); for total_time also: every note ends by total_time ([covered_b], part of a well-formed
      sequence).  No hypothesis on the control changes is needed (coinciding pedal events included). *)

(** the specification itself: new end times included, the specified notes are the same multiset for every
    storage order of the notes and of the control changes *)
Theorem perm_invariant_sustain_specification : forall ctl ns ns' ccs ccs',
  Su.no_clash ns = true -> Su.no_clash ns' = true -> Permutation ns ns' -> Permutation ccs ccs' ->
  Permutation (Su.spec_notes ctl ns ccs) (Su.spec_notes ctl ns' ccs').
Proof. exact PermSustainSpec.spec_notes_perm. Qed.
Print Assumptions perm_invariant_sustain_specification.

(** total_time of the result = max(old total_time, latest new end) — a function of the returned multiset *)
Theorem C12_sustain_total_time : forall ctl s r,
  Su.ordered_b (s_notes s) = true -> Su.no_clash (s_notes s) = true ->
  Su.covered_b (s_total s) (s_notes s) = true -> Su.apply_sustain ctl s = Some r ->
  s_total r = PermSustainTotal.max_end_from (s_total s) (s_notes r).
Proof. exact PermSustainTotal.sustain_total_is_max. Qed.
Print Assumptions C12_sustain_total_time.

(** FULL statement: same QuantizationStatusError, or the same sequence as a multiset — notes with their new
    end times, total_time, every other field *)
Theorem perm_invariant_sustain : forall ctl s s', seq_perm s s' ->
  Su.ordered_b (s_notes s) = true -> Su.no_clash (s_notes s) = true ->
  Su.covered_b (s_total s) (s_notes s) = true ->
  opt_rel seq_perm (Su.apply_sustain ctl s) (Su.apply_sustain ctl s').
Proof. exact PermSustainFull.perm_sustain. Qed.
Print Assumptions perm_invariant_sustain.

(** without the total_time hypothesis: everything but total_time *)
Theorem perm_invariant_sustain_notes : forall ctl s s', seq_perm s s' ->
  Su.ordered_b (s_notes s) = true -> Su.no_clash (s_notes s) = true ->
  match Su.apply_sustain ctl s, Su.apply_sustain ctl s' with
  | Some r, Some r' => Permutation (s_notes r) (s_notes r') /\
                       seq_perm (PS.without_notes_total r) (PS.without_notes_total r')
  | None, None => True
  | _, _ => False
  end.
Proof. exact PermSustainFull.perm_sustain_notes. Qed.
Print Assumptions perm_invariant_sustain_notes.

(** pedal never pressed: no [no_clash] / [covered_b] needed *)
Theorem perm_invariant_sustain_no_pedal : forall ctl s s', seq_perm s s' -> Su.ordered_b (s_notes s) = true ->
  (forall c, In c (s_ccs s) -> cc_num c = ctl -> Su.is_on c = false) ->
  opt_rel seq_perm (Su.apply_sustain ctl s) (Su.apply_sustain ctl s').
Proof. exact PS.perm_sustain_no_pedal. Qed.
Print Assumptions perm_invariant_sustain_no_pedal.

(** the sustain hypotheses are themselves independent of the storage order *)
Theorem perm_invariant_sustain_hypotheses : forall tot ns ns', Permutation ns ns' ->
  Su.ordered_b ns = Su.ordered_b ns' /\ (Su.no_clash ns = true -> Su.no_clash ns' = true) /\
  Su.covered_b tot ns = Su.covered_b tot ns'.
Proof.
  exact (fun tot ns ns' P => conj (PS.ordered_perm ns ns' P)
                             (conj (PS.no_clash_perm ns ns' P) (PermSustainFull.covered_perm tot ns ns' P))).
Qed.
Print Assumptions perm_invariant_sustain_hypotheses.

(** * MIDI export (the note_sequence_to_pretty_midi glue): same resolution, initial tempo and tempo map;
      instruments for the same (instrument, program, is_drum) keys in the same order, each with the same
      notes, pitch bends and control changes as multisets; time / key signatures the same multisets. *)
Theorem perm_invariant_midi_export : forall s s', seq_perm s s' -> distinct_on tp_time (s_tempos s) ->
  PM.pm_rel (MidiGlue.write s) (MidiGlue.write s').
Proof. exact PM.perm_midi_write. Qed.
Print Assumptions perm_invariant_midi_export.

(** * Non-vacuity: a sequence inside the quantifier and the same music stored back to front; the
      results of extraction on the two are different lists (so the theorems above are not equalities
      in disguise) that agree as multisets. *)
Example C12_nonvacuous :
  seq_distinct ex_a /\ seq_perm ex_a (rev_fields ex_a) /\ s_notes ex_a <> s_notes (rev_fields ex_a) /\
  exists p q p' q',
    X.extract_subsequences [64] ex_a [0; 6; 12] = X.Ok [p; q] /\
    X.extract_subsequences [64] (rev_fields ex_a) [0; 6; 12] = X.Ok [p'; q'] /\
    s_notes p <> s_notes p' /\ Permutation (s_notes p) (s_notes p') /\
    s_tempos q = [mkTempo 0 (90 * 2 ^ 20)] /\ s_tempos q' = [mkTempo 0 (90 * 2 ^ 20)] /\
    s_ccs q = [mkCc 0 0 64 127 0 0 false; mkCc 3 2 64 0 0 0 false] /\ s_ccs q' = s_ccs q.
Proof.
  split; [exact ex_a_distinct|]. split; [apply rev_fields_perm|]. split; [discriminate|].
  vm_compute. do 4 eexists. repeat split; try reflexivity; try discriminate. apply perm_swap.
Qed.
Print Assumptions C12_nonvacuous.
