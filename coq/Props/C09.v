(** Props/C09.v — C09: every one-hot event encoding is a bijection onto its
    class range.  Only statements, [exact], and [Print Assumptions]. *)
From Coq Require Import ZArith List Bool.
From NS Require Import Gen.G09 Model.OneHot Proofs.OneHot Model.ChordOneHot Proofs.ChordOneHot Gen.Tr Proofs.TrEquiv09 Proofs.TrCode09.
Import ListNotations.
Local Open Scope Z_scope.

(** Melody: all legal (min_note, max_note), all indices, all events. *)
Theorem C09_melody_decode_encode : forall mn mx i,
  mel_cfg_ok mn mx = true -> 0 <= i < mel_num_classes mn mx ->
  mel_encode mn mx (mel_decode mn i) = Some i.
Proof. exact mel_dec_enc. Qed.
Print Assumptions C09_melody_decode_encode.

Theorem C09_melody_encode_in_range : forall mn mx e c,
  mel_cfg_ok mn mx = true -> mel_encode mn mx e = Some c -> 0 <= c < mel_num_classes mn mx.
Proof. exact mel_enc_range. Qed.
Print Assumptions C09_melody_encode_in_range.

Theorem C09_melody_encode_decode : forall mn mx e c,
  mel_cfg_ok mn mx = true -> mel_encode mn mx e = Some c -> mel_decode mn c = e.
Proof. exact mel_enc_dec. Qed.
Print Assumptions C09_melody_encode_decode.

Theorem C09_melody_valid_events_accepted : forall mn mx e,
  mel_cfg_ok mn mx = true ->
  (mel_encode mn mx e <> None <-> (- NUM_SPECIAL_MELODY_EVENTS <= e < 0 \/ mn <= e < mx)).
Proof. exact mel_enc_total. Qed.
Print Assumptions C09_melody_valid_events_accepted.

(** Performance: all bin counts >= 0, all max_shift >= 1, all pitch ranges. *)
Theorem C09_performance_decode_encode : forall nb ms minp maxp i,
  perf_cfg_ok nb ms minp maxp ->
  0 <= i < oh_num_classes (perf_ranges nb ms minp maxp) ->
  exists t v, oh_decode (perf_ranges nb ms minp maxp) 0 i = Some (t, v) /\
              oh_encode (perf_ranges nb ms minp maxp) 0 t v = Some i /\
              perf_valid nb ms minp maxp t v.
Proof. exact perf_dec_enc. Qed.
Print Assumptions C09_performance_decode_encode.

Theorem C09_performance_encode_decode : forall nb ms minp maxp ty v,
  perf_cfg_ok nb ms minp maxp -> perf_valid nb ms minp maxp ty v ->
  exists c, oh_encode (perf_ranges nb ms minp maxp) 0 ty v = Some c /\
            0 <= c < oh_num_classes (perf_ranges nb ms minp maxp) /\
            oh_decode (perf_ranges nb ms minp maxp) 0 c = Some (ty, v).
Proof. exact perf_enc_dec. Qed.
Print Assumptions C09_performance_encode_decode.

(** Any event-range encoding with non-empty ranges of distinct types. *)
Theorem C09_ranges_decode_encode : forall rs, ranges_ok rs -> forall off i,
  off <= i < off + oh_num_classes rs ->
  exists t v, oh_decode rs off i = Some (t, v) /\ oh_encode rs off t v = Some i /\
              exists mn mx, In (t, mn, mx) rs /\ mn <= v <= mx.
Proof. exact oh_dec_enc. Qed.
Print Assumptions C09_ranges_decode_encode.

(** Velocity bins. *)
Theorem C09_velocity_bin_in_range : forall nb v,
  1 <= nb <= 127 -> 1 <= v <= 127 -> 1 <= vel_to_bin v nb <= nb.
Proof. exact vel_bin_range. Qed.
Print Assumptions C09_velocity_bin_in_range.

Theorem C09_velocity_bin_monotone : forall nb v1 v2,
  1 <= nb <= 127 -> v1 <= v2 -> vel_to_bin v1 nb <= vel_to_bin v2 nb.
Proof. exact vel_bin_mono. Qed.
Print Assumptions C09_velocity_bin_monotone.

Theorem C09_bin_to_velocity_right_inverse : forall nb b,
  1 <= nb <= 127 -> vel_to_bin (bin_to_vel b nb) nb = b.
Proof. exact bin_vel_right_inverse. Qed.
Print Assumptions C09_bin_to_velocity_right_inverse.

Theorem C09_velocity_bin_lower_bound : forall nb v,
  1 <= nb <= 127 -> 1 <= v <= 127 ->
  bin_to_vel (vel_to_bin v nb) nb <= v < bin_to_vel (vel_to_bin v nb) nb + bin_size nb.
Proof. exact bin_vel_lower_bound. Qed.
Print Assumptions C09_velocity_bin_lower_bound.

(** Multi-drum: the shipped table, complete enumeration of its class range in
    the kernel; range lemma for any table and any pitch set. *)
Theorem C09_drums_decode_encode : forall ign i,
  0 <= i < drum_num_classes DEFAULT_DRUM_TYPE_PITCHES ->
  drum_encode DEFAULT_DRUM_TYPE_PITCHES ign (drum_decode DEFAULT_DRUM_TYPE_PITCHES i) = Some i.
Proof. exact drum_dec_enc_default. Qed.
Print Assumptions C09_drums_decode_encode.

Theorem C09_drums_encode_in_range : forall types ign ev c,
  drum_encode types ign ev = Some c -> 0 <= c < drum_num_classes types.
Proof. exact drum_enc_range. Qed.
Print Assumptions C09_drums_encode_in_range.

Theorem C09_drums_canonical_representative : forall ign ev c,
  drum_encode DEFAULT_DRUM_TYPE_PITCHES ign ev = Some c ->
  drum_encode DEFAULT_DRUM_TYPE_PITCHES ign (drum_decode DEFAULT_DRUM_TYPE_PITCHES c) = Some c.
Proof. exact drum_enc_dec_canonical. Qed.
Print Assumptions C09_drums_canonical_representative.

(** Note density: any strictly increasing positive boundary list. *)
Theorem C09_density_decode_encode : forall bs i,
  strictly_inc 0 bs -> 0 <= i < dens_num_classes bs -> dens_encode bs (dens_decode bs i) = i.
Proof. exact dens_dec_enc. Qed.
Print Assumptions C09_density_decode_encode.

Theorem C09_density_encode_in_range : forall bs e, 0 <= dens_encode bs e < dens_num_classes bs.
Proof. exact dens_enc_range. Qed.
Print Assumptions C09_density_encode_in_range.

Theorem C09_density_bin_lower_bound : forall bs e,
  strictly_inc 0 bs -> 0 <= e -> dens_decode bs (dens_encode bs e) <= e.
Proof. exact dens_enc_dec_lower. Qed.
Print Assumptions C09_density_bin_lower_bound.

(** Chord one-hot encodings (major/minor: 25 classes; triads: 49).  An event is NO_CHORD ([None]) or the
    (root, quality) chord_symbols_lib reads from the figure; decoding returns the meaning of the produced name. *)
Theorem C09_chord_majmin_decode_encode : forall i, 0 <= i < ch_num_classes 2 ->
  exists ev, mm_decode i = ChOk ev /\ mm_encode ev = ChOk i.
Proof. exact mm_decode_encode. Qed.
Print Assumptions C09_chord_majmin_decode_encode.

Theorem C09_chord_triad_decode_encode : forall i, 0 <= i < ch_num_classes 4 ->
  exists ev, triad_decode i = ChOk ev /\ triad_encode ev = ChOk i.
Proof. exact triad_decode_encode. Qed.
Print Assumptions C09_chord_triad_decode_encode.

Theorem C09_chord_majmin_decode_injective : forall i j,
  0 <= i < ch_num_classes 2 -> 0 <= j < ch_num_classes 2 -> mm_decode i = mm_decode j -> i = j.
Proof. exact mm_decode_injective. Qed.
Print Assumptions C09_chord_majmin_decode_injective.

Theorem C09_chord_triad_decode_injective : forall i j,
  0 <= i < ch_num_classes 4 -> 0 <= j < ch_num_classes 4 -> triad_decode i = triad_decode j -> i = j.
Proof. exact triad_decode_injective. Qed.
Print Assumptions C09_chord_triad_decode_injective.

Theorem C09_chord_majmin_encode_decode : forall r q c, 0 <= r < 12 -> 0 <= q < 5 ->
  mm_encode (Some (r, q)) = ChOk c ->
  0 <= c < ch_num_classes 2 /\ mm_decode c = ChOk (Some (r, q)) /\ mm_accepts q = true.
Proof. exact mm_encode_decode. Qed.
Print Assumptions C09_chord_majmin_encode_decode.

Theorem C09_chord_triad_encode_decode : forall r q c, 0 <= r < 12 -> 0 <= q < 5 ->
  triad_encode (Some (r, q)) = ChOk c ->
  0 <= c < ch_num_classes 4 /\ triad_decode c = ChOk (Some (r, q)) /\ triad_accepts q = true.
Proof. exact triad_encode_decode. Qed.
Print Assumptions C09_chord_triad_encode_decode.

Theorem C09_chord_encode_rejects_only_other_qualities : forall r q, 0 <= r < 12 -> 0 <= q < 5 ->
  (mm_encode (Some (r, q)) = ChErr -> mm_accepts q = false) /\
  (triad_encode (Some (r, q)) = ChErr -> triad_accepts q = false).
Proof. intros r q Hr Hq. split; [exact (mm_encode_rejects r q Hr Hq) | exact (triad_encode_rejects r q Hr Hq)]. Qed.
Print Assumptions C09_chord_encode_rejects_only_other_qualities.

Theorem C09_chord_no_chord_is_class_zero : mm_encode None = ChOk 0 /\ triad_encode None = ChOk 0 /\
  mm_decode 0 = ChOk None /\ triad_decode 0 = ChOk None.
Proof. exact no_chord_is_class_zero. Qed.
Print Assumptions C09_chord_no_chord_is_class_zero.

(** Source-level tie (second kind): the Gallina text re-translated from the SOURCE of the Python functions on
    every run (Gen/Tr.v, harness/vt/pytr.py) equals the hand-written model, for all arguments. *)
Theorem C09_source_velocity_bin_size : forall nb, 0 < nb -> tr_velocity_bin_size nb = Some (bin_size nb).
Proof. exact tr_bin_size_eq. Qed.
Print Assumptions C09_source_velocity_bin_size.

Theorem C09_source_velocity_to_bin : forall v nb, 0 < nb -> tr_velocity_to_bin v nb = Some (vel_to_bin v nb).
Proof. exact tr_velocity_to_bin_eq. Qed.
Print Assumptions C09_source_velocity_to_bin.

Theorem C09_source_velocity_bin_to_velocity : forall b nb, 0 < nb ->
  tr_velocity_bin_to_velocity b nb = Some (bin_to_vel b nb).
Proof. exact tr_velocity_bin_to_velocity_eq. Qed.
Print Assumptions C09_source_velocity_bin_to_velocity.

Theorem C09_source_melody_init : forall mn mx,
  tr_melody_init mn mx = if mel_cfg_ok mn mx then Some tt else None.
Proof. exact tr_melody_init_eq. Qed.
Print Assumptions C09_source_melody_init.

Theorem C09_source_melody_num_classes : forall mn mx, tr_melody_num_classes mx mn = Some (mel_num_classes mn mx).
Proof. exact tr_melody_num_classes_eq. Qed.
Print Assumptions C09_source_melody_num_classes.

Theorem C09_source_melody_encode_event : forall mn mx e, tr_melody_encode_event mx mn e = mel_encode mn mx e.
Proof. exact tr_melody_encode_eq. Qed.
Print Assumptions C09_source_melody_encode_event.

Theorem C09_source_melody_decode_event : forall mn i, tr_melody_decode_event mn i = Some (mel_decode mn i).
Proof. exact tr_melody_decode_eq. Qed.
Print Assumptions C09_source_melody_decode_event.

(** Non-vacuity: the hypotheses are met by the shipped defaults. *)
Example C09_nonvacuous :
  mel_cfg_ok 48 84 = true /\ perf_cfg_ok 32 100 0 127 /\ ranges_ok (perf_ranges 32 100 21 108) /\
  strictly_inc 0 [1; 2; 4; 8; 16; 32; 64] /\
  oh_decode (perf_ranges 32 100 0 127) 0 300 = Some (EV_TIME_SHIFT, 45).
Proof.
  split; [reflexivity|]. split; [unfold perf_cfg_ok; intuition discriminate|].
  split; [apply perf_ranges_ok; unfold perf_cfg_ok; intuition discriminate|].
  split; [cbn; intuition reflexivity | reflexivity].
Qed.
Print Assumptions C09_nonvacuous.

(** The same clauses stated DIRECTLY on the code as it reads now (Gen/Tr.v, re-translated from the source on every
    run): no hand-written model occurs in these statements. *)
Theorem C09_code_melody_decode_encode : forall mn mx nc i,
  tr_melody_init mn mx = Some tt -> tr_melody_num_classes mx mn = Some nc -> 0 <= i < nc ->
  exists e, tr_melody_decode_event mn i = Some e /\ tr_melody_encode_event mx mn e = Some i.
Proof. exact code_melody_decode_encode. Qed.
Print Assumptions C09_code_melody_decode_encode.

Theorem C09_code_melody_encode_decode : forall mn mx nc e c,
  tr_melody_init mn mx = Some tt -> tr_melody_num_classes mx mn = Some nc ->
  tr_melody_encode_event mx mn e = Some c -> 0 <= c < nc /\ tr_melody_decode_event mn c = Some e.
Proof. exact code_melody_encode_decode. Qed.
Print Assumptions C09_code_melody_encode_decode.

Theorem C09_code_velocity_bins : forall nb v, 1 <= nb <= 127 -> 1 <= v <= 127 ->
  exists b v0, tr_velocity_to_bin v nb = Some b /\ 1 <= b <= nb /\
               tr_velocity_bin_to_velocity b nb = Some v0 /\ v0 <= v /\ tr_velocity_to_bin v0 nb = Some b.
Proof. exact code_velocity_bins. Qed.
Print Assumptions C09_code_velocity_bins.

Theorem C09_code_velocity_monotone : forall nb v1 v2 b1 b2, 1 <= nb <= 127 -> v1 <= v2 ->
  tr_velocity_to_bin v1 nb = Some b1 -> tr_velocity_to_bin v2 nb = Some b2 -> b1 <= b2.
Proof. exact code_velocity_monotone. Qed.
Print Assumptions C09_code_velocity_monotone.
