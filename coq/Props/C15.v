(** Props/C15.v — C15: a chord symbol computed from pitches denotes exactly
    those pitches.  Only statements, [exact], and [Print Assumptions].

    [name_pitches] models pitches_to_chord_symbol (with notes/C15-fix-1.diff and
    C15-fix-2.diff applied), [sym_pitches]/[sym_bass]/[sym_root]/[sym_quality]
    model chord_symbol_pitches/_bass/_root/_quality on the regex-split figure. *)
From Coq Require Import ZArith List Bool.
From NS Require Import Gen.G15 Model.ChordSym Proofs.ChordSym Proofs.ChordSymMain.
Import ListNotations.
Local Open Scope Z_scope.

(** For EVERY non-empty list of integer pitches (any length, order, octaves,
    duplicates, negative values): the namer raises ChordSymbolError and nothing
    else, or returns a figure whose interpretation is exactly the supplied
    pitch classes, with the lowest supplied pitch as bass.  Proved by complete
    enumeration in the kernel of the 4095 pitch-class sets x every bass (x every
    first-occurrence order for sets of up to 4 classes, on which the CPython set
    order and hence the name depends), lifted to all lists. *)
Theorem C15_name_roundtrip : forall pitches, pitches <> [] ->
  exists m, In m pitches /\ (forall x, In x pitches -> m <= x) /\
    match name_pitches pitches with
    | Err e => e = E_ChordSymbol
    | Ok NoChord => False
    | Ok (Fig s) =>
        exists ps, sym_pitches s = Ok ps /\ sym_bass s = Ok (m mod 12) /\
                   forall x, (In x ps \/ x = m mod 12) <-> In x (pcs_of pitches)
    end.
Proof. exact name_roundtrip. Qed.
Print Assumptions C15_name_roundtrip.

(** Every produced name is accepted by the interpreter (all four functions
    return) and consists of a root/bass letter, a kind abbreviation and
    modification prefixes of the tables. *)
Theorem C15_names_parse : forall pitches s, name_pitches pitches = Ok (Fig s) ->
  sym_lexable s = true /\
  exists d r b ps q, sym_degrees s = Ok d /\ sym_root s = Ok r /\ sym_bass s = Ok b /\
                     sym_pitches s = Ok ps /\ sym_quality s = Ok q.
Proof. exact names_parse. Qed.
Print Assumptions C15_names_parse.

Theorem C15_name_empty : name_pitches [] = Ok NoChord /\ render NoChord = NO_CHORD.
Proof. exact name_empty. Qed.
Print Assumptions C15_name_empty.

(** Layout independence: the name is a function of the first-occurrence order
    of the pitch classes and of the lowest pitch class (octaves and doublings
    are irrelevant), and of the SET of pitch classes once there are five. *)
Theorem C15_name_layout_independent : forall p q, p <> [] -> q <> [] ->
  dedup (pcs_of p) = dedup (pcs_of q) -> lowest p mod 12 = lowest q mod 12 ->
  name_pitches p = name_pitches q.
Proof. exact name_layout_independent. Qed.
Print Assumptions C15_name_layout_independent.

Theorem C15_name_set_independent : forall p q, p <> [] -> q <> [] ->
  (forall x, In x (pcs_of p) <-> In x (pcs_of q)) -> 5 <= len (dedup (pcs_of p)) ->
  lowest p mod 12 = lowest q mod 12 ->
  name_pitches p = name_pitches q.
Proof. exact name_set_independent. Qed.
Print Assumptions C15_name_set_independent.

(** Consistency of the interpreter for EVERY structured symbol (any root
    spelling, kind, modification list, bass). *)
Theorem C15_parse_consistent : forall s,
  (forall r, sym_root s = Ok r -> 0 <= r < 12) /\
  (forall b, sym_bass s = Ok b -> 0 <= b < 12) /\
  (forall ps x, sym_pitches s = Ok ps -> In x ps -> 0 <= x < 12) /\
  (forall q r ps, sym_quality s = Ok q -> sym_root s = Ok r -> sym_pitches s = Ok ps ->
     (q = CHORD_QUALITY_MAJOR -> triad_in r 4 7 ps) /\
     (q = CHORD_QUALITY_MINOR -> triad_in r 3 7 ps) /\
     (q = CHORD_QUALITY_AUGMENTED -> triad_in r 4 8 ps) /\
     (q = CHORD_QUALITY_DIMINISHED -> triad_in r 3 6 ps)).
Proof. exact parse_consistent. Qed.
Print Assumptions C15_parse_consistent.

(** On any symbol the regex split can deliver, root and bass always return and
    pitches/quality either both return or both raise ChordSymbolError. *)
Theorem C15_interp_only_chord_symbol_error : forall s, sym_lexable s = true ->
  (exists r, sym_root s = Ok r) /\ (exists b, sym_bass s = Ok b) /\
  ((exists ps q, sym_pitches s = Ok ps /\ sym_quality s = Ok q) \/
   (sym_pitches s = Err E_ChordSymbol /\ sym_quality s = Err E_ChordSymbol)).
Proof. exact interp_only_chord_symbol_error. Qed.
Print Assumptions C15_interp_only_chord_symbol_error.

(** The model of the code AS FOUND in /repo ([name_pitches_v false false]: _SCALE_DEGREES
    indexed by the absolute bass, added sevenths spelled absolutely) violates the round
    trip, and so does each single repair alone; with both repairs it is [name_pitches]. *)
Theorem C15_as_found_refuted : ~ roundtrip_holds (name_pitches_v false false).
Proof. exact as_found_refuted. Qed.
Print Assumptions C15_as_found_refuted.

Theorem C15_fix1_only_refuted : ~ roundtrip_holds (name_pitches_v true false).
Proof. exact fix1_only_refuted. Qed.
Print Assumptions C15_fix1_only_refuted.

Theorem C15_fix2_only_refuted : ~ roundtrip_holds (name_pitches_v false true).
Proof. exact fix2_only_refuted. Qed.
Print Assumptions C15_fix2_only_refuted.

Theorem C15_both_fixes_hold : roundtrip_holds (name_pitches_v true true).
Proof. exact fixed_holds. Qed.
Print Assumptions C15_both_fixes_hold.

(** Non-vacuity and documented behaviour. *)
Example C15_nonvacuous_c_major :
  option_map render (match name_pitches [60; 64; 67] with Ok f => Some f | Err _ => None end) = Some [67].
Proof. exact ex_c_major. Qed.
Print Assumptions C15_nonvacuous_c_major.

Example C15_nonvacuous_f13_witness :
  match name_pitches [12; 1] with
  | Ok (Fig s) => render_sym s = [68; 98; 112; 101; 100; 40; 97; 100; 100; 35; 55; 41] /\
                  sym_pitches s = Ok [1; 0] /\ sym_bass s = Ok 1
  | _ => False
  end.
Proof. exact ex_f13_witness. Qed.
Print Assumptions C15_nonvacuous_f13_witness.

Example C15_nonvacuous_unnameable :
  name_pitches [60; 61; 62; 63; 64; 65; 66; 67; 68; 69; 70; 71] = Err E_ChordSymbol.
Proof. exact ex_unnameable. Qed.
Print Assumptions C15_nonvacuous_unnameable.

Example C15_name_depends_on_list_order :
  name_pitches [48; 61; 69] <> name_pitches [48; 69; 61] /\
  (forall x, In x (pcs_of [48; 61; 69]) <-> In x (pcs_of [48; 69; 61])).
Proof. exact ex_name_depends_on_list_order. Qed.
Print Assumptions C15_name_depends_on_list_order.
