(** placeholder; replaced below *)
From Coq Require Import ZArith.
Example C18_placeholder : (1 + 1 = 2)%Z. Proof. reflexivity. Qed.
Print Assumptions C18_placeholder.
