(** Props/C18.v — C18: frame pianorolls and note sequences convert back and
    forth without drift.  Only statements, [exact], and [Print Assumptions].

    Notation used in the statements (all defined in Model/FramesRoll.v and
    Proofs/FramesRoll*.v):
      sframe fps t = int(t * fps)            eframe fps t = int(math.ceil(t * fps))
      ftime fps i  = i * (1 / fps)           frames_from_times = the nested helper
      decode_spans F On Off = every (pitch index, start frame, end frame) handed
                              to end_pitch by pianoroll_to_note_sequence
      mget m i p   = cell (frame i, pitch p) of a matrix, silent outside it
      eff F On Off p i = (frames OR onset predictions) AND NOT offset predictions
      grid_roundtrip fps mn F = sequence_to_pianoroll(pianoroll_to_note_sequence(F)).active

    The unconditional round-trip statement

      forall fps in {8,16,31.25,32,50,62.5,100}, forall rectangular F,
        forall i p, mget (grid_roundtrip fps mn F) i p = mget F i p

    is FALSE of the code as it is (finding F14): see [C18_grid_roundtrip_refuted].
    It is proved under the explicit boolean premise [grid_premise] (frame index
    arithmetic exact at every run boundary), and the premise is proved for every
    power-of-two frame rate. *)
From Coq Require Import ZArith List Bool Reals.
From Flocq Require Import Core.
From NS Require Gen.TrF Proofs.TrEquivF18 Proofs.TrCode18.
From NS Require Import Base.FloatBridge Gen.G18 Model.FramesRoll
  Proofs.FramesRoll Proofs.FramesRollFloat Proofs.FramesRollGrid Proofs.FramesRollPaint Proofs.FramesRollRolls.
Import ListNotations.
Local Open Scope Z_scope.

(** ** frames_basic: frame index arithmetic of sequence_to_pianoroll *)

(* every note fills at least one frame, whatever the times, rate and occupancy threshold *)
Theorem C18_frames_at_least_one : forall fps occ s e,
  fst (frames_from_times fps occ s e) + 1 <= snd (frames_from_times fps occ s e).
Proof. exact frames_at_least_one_proof. Qed.
Print Assumptions C18_frames_at_least_one.

(* with the occupancy test off (threshold not > 0.0): start = int(s*fps), end = max(start+1, ceil(e*fps)) *)
Theorem C18_frames_no_occupancy : forall fps occ s e, gt0 occ = false ->
  frames_from_times fps occ s e = (sframe fps s, Z.max (sframe fps s + 1) (eframe fps e)).
Proof. exact fft_no_occupancy. Qed.
Print Assumptions C18_frames_no_occupancy.

(* with any occupancy threshold the start moves by at most one frame and the end by at most one *)
Theorem C18_frames_bounds : forall fps occ s e,
  let sf := fst (frames_from_times fps occ s e) in
  let ef := snd (frames_from_times fps occ s e) in
  sframe fps s <= sf <= sframe fps s + 1 /\ sf + 1 <= ef /\
  (ef = sf + 1 \/ eframe fps e - 1 <= ef <= eframe fps e).
Proof. exact fft_bounds. Qed.
Print Assumptions C18_frames_bounds.

(* int(x) is the floor of the rounded product for non-negative times *)
Theorem C18_start_frame_is_floor : forall fps s,
  (0 <= R_of (PrimFloat.mul s fps))%R -> sframe fps s = Zfloor (R_of (PrimFloat.mul s fps)).
Proof. exact (fun fps s => trunc_floor (PrimFloat.mul s fps)). Qed.
Print Assumptions C18_start_frame_is_floor.

(* int(math.ceil(x)) is the ceiling of the rounded product (frame numbers below 2^53) *)
Theorem C18_end_frame_is_ceil : forall fps e,
  fin (PrimFloat.mul e fps) -> (Rabs (R_of (PrimFloat.mul e fps)) < bpow radix2 53)%R ->
  eframe fps e = Zceil (R_of (PrimFloat.mul e fps)).
Proof. exact (fun fps e => fceil_Zceil (PrimFloat.mul e fps)). Qed.
Print Assumptions C18_end_frame_is_ceil.

(* frame numbers are monotone in the time *)
Theorem C18_start_frame_monotone : forall fps s s',
  fin fps -> fin s -> fin s' -> (0 <= R_of fps)%R -> (R_of s <= R_of s')%R ->
  (Rabs (R_of s * R_of fps) <= bpow radix2 1000)%R -> (Rabs (R_of s' * R_of fps) <= bpow radix2 1000)%R ->
  sframe fps s <= sframe fps s'.
Proof. exact sframe_mono. Qed.
Print Assumptions C18_start_frame_monotone.

Theorem C18_end_frame_monotone : forall fps e e',
  fin fps -> fin e -> fin e' -> (0 <= R_of fps)%R -> (R_of e <= R_of e')%R ->
  (Rabs (R_of e * R_of fps) <= bpow radix2 52)%R -> (Rabs (R_of e' * R_of fps) <= bpow radix2 52)%R ->
  eframe fps e <= eframe fps e'.
Proof. exact eframe_mono. Qed.
Print Assumptions C18_end_frame_monotone.

(** ** The active roll painted by sequence_to_pianoroll, for any note list *)

(* occupancy test off, onsets overlapping, no blank frame, non-negative start frames: a cell is active
   iff it lies inside the roll and some note with min_pitch <= pitch <= max_pitch covers it with
   [int(s*fps), max(int(s*fps)+1, ceil(e*fps))) — out-of-range pitches are ignored *)
Theorem C18_active_frames : forall c notes,
  c_blank c = false -> c_overlap c = true -> gt0 (c_occ c) = false ->
  0 <= rows_of c -> 0 <= cols_of c ->
  (forall n, In n notes -> in_range c n = true -> 0 <= sframe (c_fps c) (n_start n)) ->
  forall i p, 0 <= i -> 0 <= p ->
  (mget (active_roll c notes) i p = true <->
   (i < rows_of c /\
    exists n, In n notes /\ in_range c n = true /\ p = n_pitch n - c_min_pitch c /\
              sframe (c_fps c) (n_start n) <= i <
              Z.max (sframe (c_fps c) (n_start n) + 1) (eframe (c_fps c) (n_end n)))).
Proof. exact active_frames_proof. Qed.
Print Assumptions C18_active_frames.

(* the roll has int(total_time*fps + 1) rows and max_pitch - min_pitch + 1 columns *)
Theorem C18_active_roll_shape : forall c notes,
  c_blank c = false -> c_overlap c = true -> gt0 (c_occ c) = false ->
  0 <= rows_of c -> 0 <= cols_of c ->
  (forall n, In n notes -> in_range c n = true -> 0 <= sframe (c_fps c) (n_start n)) ->
  rect (active_roll c notes) (Z.to_nat (roll_rows (c_fps c) (c_total c))) (Z.to_nat (c_max_pitch c - c_min_pitch c + 1)).
Proof. exact active_roll_shape_proof. Qed.
Print Assumptions C18_active_roll_shape.

(** ** The onset, offset and velocity rolls, for any note list
    (onset_t0 c n = start + onset_delay_ms/1000, onset_t1 c n = end + onset_delay_ms/1000,
     offset_t0 c n = min(end, total_time - offset_length_ms/1000); float arithmetic as in the code).
    Onset frames are clamped at 0 (repo commit 05c4d11), so the onset theorems hold for every delay:
    the set cells are "range intersected with the roll".  The remaining "0 <= frame" hypotheses concern
    note / offset frames, which are negative only for negative times. *)

(* any onset mode, any occupancy: a cell is set iff it lies in the roll and inside the onset frame
   range the loop computed for some in-range note *)
Theorem C18_onset_cells : forall c notes,
  0 <= rows_of c -> 0 <= cols_of c ->
  forall i p, 0 <= i -> 0 <= p ->
  (mget (onset_roll c notes) i p = true <->
   (i < rows_of c /\
    exists n, In n notes /\ in_range c n = true /\ p = n_pitch n - c_min_pitch c /\
              fst (onset_frames c n) <= i < snd (onset_frames c n))).
Proof. exact onset_cells_proof. Qed.
Print Assumptions C18_onset_cells.

(* onset_mode 'window' (occupancy test off): exactly the frames w - window .. w + window inside the roll,
   w = int((start + delay/1000) * fps) *)
Theorem C18_onset_frames : forall c notes,
  c_mode c = 0 -> gt0 (c_occ c) = false -> 0 <= rows_of c -> 0 <= cols_of c ->
  forall i p, 0 <= i -> 0 <= p ->
  (mget (onset_roll c notes) i p = true <->
   (i < rows_of c /\
    exists n, In n notes /\ in_range c n = true /\ p = n_pitch n - c_min_pitch c /\
              sframe (c_fps c) (onset_t0 c n) - c_window c <= i <= sframe (c_fps c) (onset_t0 c n) + c_window c)).
Proof. exact onset_window_proof. Qed.
Print Assumptions C18_onset_frames.

(* onset_mode 'length_ms': [int(t0*fps), max(int(t0*fps)+1, ceil(min(t1, t0 + length/1000)*fps))) inside the roll *)
Theorem C18_onset_frames_length : forall c notes,
  c_mode c <> 0 -> gt0 (c_occ c) = false -> 0 <= rows_of c -> 0 <= cols_of c ->
  forall i p, 0 <= i -> 0 <= p ->
  (mget (onset_roll c notes) i p = true <->
   (i < rows_of c /\
    exists n, In n notes /\ in_range c n = true /\ p = n_pitch n - c_min_pitch c /\
              sframe (c_fps c) (onset_t0 c n) <= i <
              Z.max (sframe (c_fps c) (onset_t0 c n) + 1)
                    (eframe (c_fps c) (fmin (onset_t1 c n)
                       (PrimFloat.add (onset_t0 c n) (PrimFloat.div (c_onset_len_ms c) f1000)))))).
Proof. exact onset_length_proof. Qed.
Print Assumptions C18_onset_frames_length.

(* the unclamped variant (the code before 05c4d11) marked onsets from the END of the roll: note at time 0,
   100 fps, delay -50 ms, window 1 -> raw frames (0, -3), slice [0:-3] sets frame 20; the clamped code sets nothing
   there and does not raise *)
Theorem C18_unclamped_onset_refuted :
  onset_frames_raw early_cfg early_note = (0, -3) /\
  mget (paint (blank (rows_of early_cfg) 1 false) 0 (-3) 0 (fun _ => true)) 20 0 = true /\
  onset_frames early_cfg early_note = (0, 0) /\
  s2p early_cfg [early_note] [] <> inl 1 /\
  forall i, In i [0; 1; 5; 20; 27; 30] -> mget (onset_roll early_cfg [early_note]) i 0 = false.
Proof. exact unclamped_onset_refuted_proof. Qed.
Print Assumptions C18_unclamped_onset_refuted.

(* offsets: [int(t*fps), max(int(t*fps)+1, ceil((t + length/1000)*fps))) inside the roll, t = offset_t0 *)
Theorem C18_offset_frames : forall c notes,
  gt0 (c_occ c) = false -> 0 <= rows_of c -> 0 <= cols_of c ->
  (forall n, In n notes -> in_range c n = true -> 0 <= sframe (c_fps c) (offset_t0 c n)) ->
  forall i p, 0 <= i -> 0 <= p ->
  (mget (offset_roll c notes) i p = true <->
   (i < rows_of c /\
    exists n, In n notes /\ in_range c n = true /\ p = n_pitch n - c_min_pitch c /\
              sframe (c_fps c) (offset_t0 c n) <= i <
              Z.max (sframe (c_fps c) (offset_t0 c n) + 1)
                    (eframe (c_fps c) (PrimFloat.add (offset_t0 c n) (PrimFloat.div (c_offset_len_ms c) f1000))))).
Proof. exact offset_cells_proof. Qed.
Print Assumptions C18_offset_frames.

(* velocity roll (the model stores the integer velocity v; the Python cell is float32(v / max_velocity)):
   every cell of the roll holds the velocity of the LAST note, in stable start-time order, whose
   frame range covers it, and 0 if there is none *)
Theorem C18_velocity_cells : forall c notes,
  0 <= rows_of c -> 0 <= cols_of c ->
  (forall n, In n notes -> in_range c n = true ->
             0 <= f_start (note_frames c n) /\ 0 <= f_end (note_frames c n)) ->
  forall i p, 0 <= i < rows_of c -> 0 <= p ->
  zget (velocity_roll c notes) i p =
  match last_cover (fun n => in_cell c n i p) (painted_notes c notes) with
  | Some n => n_vel n
  | None => 0
  end.
Proof. exact velocity_cells_proof. Qed.
Print Assumptions C18_velocity_cells.

(* with velocities >= 1 and no blank frame the velocity is non-zero in exactly the active frames *)
Theorem C18_velocity_on_active_frames : forall c notes,
  c_blank c = false -> 0 <= rows_of c -> 0 <= cols_of c ->
  (forall n, In n notes -> in_range c n = true ->
             0 <= f_start (note_frames c n) /\ 0 <= f_end (note_frames c n)) ->
  (forall n, In n notes -> in_range c n = true -> 1 <= n_vel n) ->
  forall i p, 0 <= i < rows_of c -> 0 <= p ->
  (zget (velocity_roll c notes) i p <> 0 <-> mget (active_roll c notes) i p = true).
Proof. exact velocity_active_proof. Qed.
Print Assumptions C18_velocity_on_active_frames.

(* the painted value velocity / max_velocity, as the binary64 quotient Python computes before numpy casts it
   to float32, is finite and lies in (0, 1] for 1 <= velocity <= max_velocity; also the exact rational *)
Theorem C18_velocity_in_unit_interval : forall v mv, 1 <= v <= mv -> mv < 2 ^ 53 ->
  fin (PrimFloat.div (fz v) (fz mv)) /\ (0 < R_of (PrimFloat.div (fz v) (fz mv)) <= 1)%R /\
  (0 < IZR v / IZR mv <= 1)%R.
Proof. exact (fun v mv H Hm => conj (proj1 (velocity_unit_float v mv H Hm))
                                 (conj (proj2 (velocity_unit_float v mv H Hm)) (velocity_unit_real v mv H))). Qed.
Print Assumptions C18_velocity_in_unit_interval.

(* weights roll (the model stores code 0 for 1.0 and code k >= 1 for onset_upweight / k): every painted note
   performs, in order, the assignments [weight_ops] (onset frames <- upweight; the frames from the onset end
   to the note end <- upweight/1, upweight/2, ...; blank frame <- 1.0) and every cell holds what the last
   assignment touching it wrote *)
Theorem C18_weights_cells : forall c notes,
  0 <= rows_of c -> 0 <= cols_of c ->
  (forall n, In n notes -> in_range c n = true ->
     0 <= f_start (note_frames c n) /\ 0 <= f_end (note_frames c n)) ->
  forall i p, 0 <= i -> 0 <= p ->
  zget (weights_roll c notes) i p =
  last_write wop (fun o => o) (Z.to_nat (rows_of c)) (Z.to_nat i) (Z.to_nat p)
             (flat_map (weight_ops c (Z.to_nat (rows_of c))) (painted_notes c notes)) 0.
Proof. exact weights_cells_proof. Qed.
Print Assumptions C18_weights_cells.

Example C18_weights_single_note :
  let c := grid_cfg (fz 16) (fz 1) 60 1 in
  let n := {| n_pitch := 60; n_vel := 80; n_start := ftime (fz 16) 2; n_end := ftime (fz 16) 8 |} in
  map (fun i => zget (weights_roll c [n]) i 0) [0; 1; 2; 3; 4; 5; 6; 7; 8; 9] = [0; 1; 1; 1; 1; 2; 3; 4; 0; 0].
Proof. exact weights_single_note_demo. Qed.
Print Assumptions C18_weights_single_note.

(** ** runs_decoded: the run-length decoder (all matrices, all onset / offset predictions) *)

(* For every pitch the spans handed to end_pitch are exactly the declarative note spans
   (a note starts exactly where "active and onset predicted" rises, runs while the pitch stays
   active and no new start occurs, and stops there), and each is emitted once. *)
Theorem C18_runs_decoded : forall F On Off T P,
  (0 < T)%nat -> rect F T P -> orect On T P -> orect Off T P ->
  forall p, 0 <= p < Z.of_nat P ->
  NoDup (pitch_spans p (decode_spans F On Off)) /\
  forall a b, In (p, a, b) (decode_spans F On Off) <-> note_span (eff F On Off p) (onf On p) a b.
Proof. exact runs_decoded_proof. Qed.
Print Assumptions C18_runs_decoded.

(* nothing is emitted for a pitch outside the matrix *)
Theorem C18_decoded_pitch_in_range : forall F On Off T P,
  (0 < T)%nat -> rect F T P -> orect On T P -> orect Off T P ->
  forall p a b, In (p, a, b) (decode_spans F On Off) -> 0 <= p < Z.of_nat P.
Proof. exact decode_spans_pitch_range. Qed.
Print Assumptions C18_decoded_pitch_in_range.

(* without predictions: exactly the maximal runs of active frames of each pitch
   (a run touching the last frame is closed by the appended silent frame) *)
Theorem C18_runs_decoded_plain : forall F T P, (0 < T)%nat -> rect F T P ->
  forall p a b, In (p, a, b) (decode_spans F None None) <->
                (0 <= p < Z.of_nat P /\ maximal_run (fun i => mget F i p) a b).
Proof. exact runs_decoded_plain_proof. Qed.
Print Assumptions C18_runs_decoded_plain.

(* notes of the result = spans that pass the minimum-duration test, with times frame * (1/fps) *)
Theorem C18_min_duration : forall fps md mmp F On Off d,
  In d (snd (p2s fps md mmp F On Off)) <->
  exists p a b, In (p, a, b) (decode_spans F On Off) /\
                PrimFloat.leb md (PrimFloat.mul (PrimFloat.sub (ftime fps b) (ftime fps a)) f1000) = true /\
                d = {| d_pitch := p + mmp; d_start := ftime fps a; d_end := ftime fps b |}.
Proof. exact p2s_notes_proof. Qed.
Print Assumptions C18_min_duration.

(* pianoroll_onsets_to_note_sequence: one note of fixed duration per set cell *)
Theorem C18_onsets_one_note_per_cell : forall fps dur mmp m d,
  In d (snd (onsets2s fps dur mmp m)) <->
  exists i p, mget m i p = true /\
              d = {| d_pitch := p + mmp; d_start := ftime fps i; d_end := PrimFloat.add (ftime fps i) dur |}.
Proof. exact onsets2s_notes_proof. Qed.
Print Assumptions C18_onsets_one_note_per_cell.

(** ** The grid round trip *)

(* roll -> notes -> roll is the identity (up to trailing silent frames) whenever the frame
   index arithmetic is exact at every run boundary *)
Theorem C18_grid_roundtrip_exact : forall fps mn F T P,
  (0 < T)%nat -> rect F T P -> grid_premise fps F = true ->
  forall i p, mget (grid_roundtrip fps mn F) i p = mget F i p.
Proof. exact grid_roundtrip_exact_proof. Qed.
Print Assumptions C18_grid_roundtrip_exact.

(* power-of-two frame rates (8, 16, 32, ...): every frame below 2^53 is exact *)
Theorem C18_grid_exact_pow2 : forall fps k, fin fps -> R_of fps = bpow radix2 k -> -64 <= k <= 64 ->
  forall a, 0 <= a < 2 ^ 53 -> frame_exact fps a = true.
Proof. exact frame_exact_pow2. Qed.
Print Assumptions C18_grid_exact_pow2.

(* ... hence the premise holds for every roll ... *)
Theorem C18_grid_premise_pow2 : forall fps k F T P,
  fin fps -> R_of fps = bpow radix2 k -> -64 <= k <= 64 ->
  (0 < T)%nat -> rect F T P -> Z.of_nat T < 2 ^ 52 ->
  grid_premise fps F = true.
Proof. exact grid_premise_pow2. Qed.
Print Assumptions C18_grid_premise_pow2.

(* ... and the round trip is exact, unconditionally, at those rates *)
Theorem C18_grid_roundtrip_pow2 : forall fps k mn F T P,
  fin fps -> R_of fps = bpow radix2 k -> -64 <= k <= 64 ->
  (0 < T)%nat -> rect F T P -> Z.of_nat T < 2 ^ 52 ->
  forall i p, mget (grid_roundtrip fps mn F) i p = mget F i p.
Proof. exact grid_roundtrip_pow2_proof. Qed.
Print Assumptions C18_grid_roundtrip_pow2.

(* the converse: notes on the frame grid (times frame * (1/fps)), exact boundaries, at least one silent frame
   between notes of the same pitch -> roll -> notes gives back exactly those notes *)
Theorem C18_grid_converse : forall fps total mn P (N : list (Z * Z * Z)),
  let c := grid_cfg fps total mn (Z.of_nat P) in
  0 < rows_of c ->
  (forall p a b, In (p, a, b) N ->
     0 <= p < Z.of_nat P /\ 0 <= a < b /\ b <= rows_of c /\ frame_exact fps a = true /\ frame_exact fps b = true) ->
  (forall p a b a' b', In (p, a, b) N -> In (p, a', b') N -> (a = a' /\ b = b') \/ b < a' \/ b' < a) ->
  forall p a b,
    In (p, a, b) (decode_spans (active_roll c (map (grid_note fps mn) N)) None None) <-> In (p, a, b) N.
Proof. exact grid_converse_proof. Qed.
Print Assumptions C18_grid_converse.

Theorem C18_grid_converse_pow2 : forall fps k total mn P (N : list (Z * Z * Z)),
  fin fps -> R_of fps = bpow radix2 k -> -64 <= k <= 64 ->
  let c := grid_cfg fps total mn (Z.of_nat P) in
  0 < rows_of c < 2 ^ 53 ->
  (forall p a b, In (p, a, b) N -> 0 <= p < Z.of_nat P /\ 0 <= a < b /\ b <= rows_of c) ->
  (forall p a b a' b', In (p, a, b) N -> In (p, a', b') N -> (a = a' /\ b = b') \/ b < a' \/ b' < a) ->
  forall p a b,
    In (p, a, b) (decode_spans (active_roll c (map (grid_note fps mn) N)) None None) <-> In (p, a, b) N.
Proof. exact grid_converse_pow2_proof. Qed.
Print Assumptions C18_grid_converse_pow2.

(* F14: at 100 fps a note starting at frame 29 (0.29 s) comes back starting at frame 28 *)
Theorem C18_grid_roundtrip_refuted :
  rect f14_roll 31 1 /\
  mget f14_roll 28 0 = false /\ mget (grid_roundtrip fps100 21 f14_roll) 28 0 = true /\
  grid_premise fps100 f14_roll = false.
Proof. exact grid_roundtrip_refuted_proof. Qed.
Print Assumptions C18_grid_roundtrip_refuted.

Theorem C18_frame_inexact_100 :
  sframe fps100 (ftime fps100 29) = 28 /\ eframe fps100 (ftime fps100 7) = 8 /\
  frame_exact fps100 29 = false /\ frame_exact fps100 7 = false.
Proof. exact frame_inexact_100. Qed.
Print Assumptions C18_frame_inexact_100.

(** ** Non-vacuity *)
Example C18_premise_nonvacuous :
  rect demo_roll 5 2 /\ grid_premise (fz 16) demo_roll = true /\
  decode_spans demo_roll None None = [(0, 0, 2); (0, 3, 4); (1, 2, 5)] /\
  grid_premise (fz 50) demo_roll = true.
Proof. exact grid_premise_nonvacuous_proof. Qed.
Print Assumptions C18_premise_nonvacuous.

Example C18_pow2_rate_nonvacuous : fin (fz 16) /\ R_of (fz 16) = bpow radix2 4.
Proof. exact pow2_rate_nonvacuous_proof. Qed.
Print Assumptions C18_pow2_rate_nonvacuous.

(** Source-level tie (second kind): the nested function frames_from_times of sequence_to_pianoroll, re-translated
    from its SOURCE on every run into PrimFloat terms (Gen/TrF.v, harness/vt/pytr.py; the closure's free variables
    are parameters), equals the hand-written model for all arguments, bit for bit. *)
Theorem C18_source_frames_from_times : forall fps occ s e,
  finb (PrimFloat.mul s fps) = true -> finb (PrimFloat.mul e fps) = true ->
  NS.Gen.TrF.trf_frames_from_times fps occ s e = Some (frames_from_times fps occ s e).
Proof. exact NS.Proofs.TrEquivF18.trf_frames_from_times_eq. Qed.
Print Assumptions C18_source_frames_from_times.

(** Two clauses stated DIRECTLY on the code as it reads now (Gen/TrF.v, re-translated from the source of the nested
    frames_from_times on every run): every note fills at least one frame; its first frame is int(start*fps) or, only
    with a positive minimum occupancy, the frame after it. *)
Theorem C18_code_frames_at_least_one : forall fps occ s e a b,
  NS.Gen.TrF.trf_frames_from_times fps occ s e = Some (a, b) -> a < b.
Proof. exact NS.Proofs.TrCode18.code_frames_at_least_one. Qed.
Print Assumptions C18_code_frames_at_least_one.

Theorem C18_code_frames_start : forall fps occ s e a b,
  NS.Gen.TrF.trf_frames_from_times fps occ s e = Some (a, b) ->
  a = trunc (PrimFloat.mul s fps) \/ (a = trunc (PrimFloat.mul s fps) + 1 /\ PrimFloat.ltb PrimFloat.zero occ = true).
Proof. exact NS.Proofs.TrCode18.code_frames_start. Qed.
Print Assumptions C18_code_frames_start.
