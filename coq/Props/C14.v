(** Props/C14.v — C14: applying the sustain pedal holds exactly the notes the
    pedal holds.  Only statements, [exact], and [Print Assumptions].

    [sustain_cells ctl notes ccs total] is the model of the body of
    apply_sustain_control_changes: it returns one cell (note, alive) per input
    note, in storage order, and the new total_time; the returned sequence has
    the notes of the alive cells ([live_notes]) and is otherwise the input
    ([C14_result]).  The model follows the code as repaired by
    notes/C14-fix-1.diff; [C14_total_time_original_code_refuted] is the
    defect of the code before the repair. *)
From Coq Require Import ZArith List Bool.
From NS Require Import Base.NoteSeq Gen.G14 Model.Sustain Proofs.Sustain Proofs.SustainIdent Proofs.SustainFrame
  Proofs.SustainMono Proofs.SustainSpecA Proofs.SustainSpecB Proofs.SustainSpec.
Import ListNotations.
Local Open Scope Z_scope.

(** The event-type constants of the module order events at equal times as
    pedal down < pedal up < note on < note off (re-checked against the
    constants regenerated from the code on every run). *)
Theorem C14_event_order_constants :
  SUSTAIN_ON < SUSTAIN_OFF /\ SUSTAIN_OFF < NOTE_ON /\ NOTE_ON < NOTE_OFF.
Proof. exact code_order. Qed.
Print Assumptions C14_event_order_constants.

(** Quantized input is rejected, and only quantized input. *)
Theorem C14_quantized_rejected : forall ctl s,
  apply_sustain ctl s = None <-> (0 < s_spq s \/ 0 < s_sps s).
Proof. exact sustain_quantized_rejected. Qed.
Print Assumptions C14_quantized_rejected.

(** Only [notes] and [total_time] of the copy differ from the argument. *)
Theorem C14_result : forall ctl s s', apply_sustain ctl s = Some s' ->
  s' = with_notes_total s (live_notes (fst (sustain_cells ctl (s_notes s) (s_ccs s) (s_total s))))
                          (snd (sustain_cells ctl (s_notes s) (s_ccs s) (s_total s))).
Proof. exact apply_sustain_result. Qed.
Print Assumptions C14_result.

(** Every note keeps its start, pitch, velocity, instrument, program, drum flag
    and every other field; only its end time may differ (all inputs). *)
Theorem C14_only_end_times_change : forall ctl ns ccs tot,
  Forall2 (fun n c => c_n c = set_end n (n_end (c_n c))) ns (fst (sustain_cells ctl ns ccs tot)).
Proof. exact sustain_shape. Qed.
Print Assumptions C14_only_end_times_change.

(** Drum notes are returned exactly as they were (all inputs). *)
Theorem C14_drums_unchanged : forall ctl ns ccs tot,
  Forall2 (fun n c => n_drum n = true -> c = mkCell n true) ns (fst (sustain_cells ctl ns ccs tot)).
Proof. exact sustain_drums_unchanged. Qed.
Print Assumptions C14_drums_unchanged.

(** An instrument whose pedal is never pressed is unchanged, whatever the other
    instruments and their pedals do (all inputs with start <= end). *)
Theorem C14_instrument_without_pedal_unchanged : forall ctl i ns ccs tot,
  ordered_b ns = true -> no_pedal_down ctl i ccs = true ->
  Forall2 (fun n c => n_instr n = i -> c = mkCell n true) ns (fst (sustain_cells ctl ns ccs tot)).
Proof. exact sustain_instrument_without_pedal. Qed.
Print Assumptions C14_instrument_without_pedal_unchanged.

(** Without pedal-down events the result equals the input. *)
Theorem C14_no_pedal_identity : forall ctl s,
  is_quantized s = false -> ordered_b (s_notes s) = true ->
  (forall c, In c (s_ccs s) -> cc_num c = ctl -> is_on c = false) ->
  apply_sustain ctl s = Some s.
Proof. exact sustain_no_pedal_identity. Qed.
Print Assumptions C14_no_pedal_identity.

(** total_time never shrinks and still covers every note. *)
Theorem C14_total_time_covers : forall ctl s s',
  ordered_b (s_notes s) = true -> covered_b (s_total s) (s_notes s) = true ->
  apply_sustain ctl s = Some s' ->
  s_total s <= s_total s' /\ forall n, In n (s_notes s') -> n_end n <= s_total s'.
Proof. exact apply_sustain_total_covers. Qed.
Print Assumptions C14_total_time_covers.

(** ... which the closing loop before the repair violated (finding F2). *)
Theorem C14_total_time_original_code_refuted :
  exists ctl s s', ordered_b (s_notes s) = true /\ covered_b (s_total s) (s_notes s) = true /\
    apply_sustain_orig ctl s = Some s' /\ exists n, In n (s_notes s') /\ s_total s' < n_end n.
Proof. exact sustain_total_covers_orig_refuted. Qed.
Print Assumptions C14_total_time_original_code_refuted.

(** Inside the property's quantifier — start <= end, and no two notes of one
    pitch on one instrument overlap or start together — every note is returned,
    in storage order, with every field but its end unchanged and an end that is
    not earlier (nothing is dropped, nothing is shortened). *)
Theorem C14_ends_monotone : forall ctl s s',
  ordered_b (s_notes s) = true -> no_clash (s_notes s) = true ->
  apply_sustain ctl s = Some s' ->
  Forall2 (fun n n' => n' = set_end n (n_end n') /\ n_end n <= n_end n') (s_notes s) (s_notes s').
Proof. exact apply_sustain_monotone. Qed.
Print Assumptions C14_ends_monotone.

(** Events of other instruments do not touch instrument [i]: after any run of
    events that all belong to instruments other than [i], from any state, the
    cells of [i], the held/sounding entries of [i] (in order) and the pedal flag
    of [i] are what they were. *)
Theorem C14_other_instrument_events : forall i evs s,
  Forall (fun e => ev_instr_ok (cells s) e /\ e_instr e <> i) evs ->
  (forall j, iof (cells s) j = i ->
     nth j (cells (run_events evs s)) dummy_cell = nth j (cells s) dummy_cell) /\
  filter (fun a => iof (cells s) a =? i) (active (run_events evs s)) =
  filter (fun a => iof (cells s) a =? i) (active s) /\
  is_sus i (sus (run_events evs s)) = is_sus i (sus s).
Proof. exact run_other_instruments. Qed.
Print Assumptions C14_other_instrument_events.

(** THE FUNCTIONAL CHARACTERISATION.  Inside the quantifier the returned notes
    are exactly the declarative specification [spec_notes] (Model/Sustain.v):
    note k keeps every field and gets the end [spec_end k]:
      - a drum note, or a note that ends while the pedal of its own instrument
        is up (pedal state after every pedal event of that instrument with
        time <= end, presses applied before releases at equal times): its end;
      - otherwise the minimum of the first release of that pedal strictly after
        the end and the first start >= end of ANOTHER note of the same pitch
        on the same instrument;
      - the time of the last note/pedal event if neither exists.
    Proved by a simulation invariant over the stably sorted event list (every
    note is pending / sounding / held / finished-with-its-specified-end; the
    pedal flags are the declarative pedal states of the processed prefix). *)
Theorem C14_sustain_refines_spec : forall ctl s s',
  ordered_b (s_notes s) = true -> no_clash (s_notes s) = true ->
  apply_sustain ctl s = Some s' ->
  s_notes s' = spec_notes ctl (s_notes s) (s_ccs s).
Proof. exact sustain_refines_spec. Qed.
Print Assumptions C14_sustain_refines_spec.

(** The same, note by note. *)
Theorem C14_end_is_spec_end : forall ctl s s' k n,
  ordered_b (s_notes s) = true -> no_clash (s_notes s) = true ->
  apply_sustain ctl s = Some s' -> nth_error (s_notes s) k = Some n ->
  nth_error (s_notes s') k = Some (set_end n (spec_end ctl (s_notes s) (s_ccs s) k n)).
Proof. exact sustain_end_is_spec_end. Qed.
Print Assumptions C14_end_is_spec_end.

(** Non-vacuity: the hypotheses are satisfiable by an input on which the pedal
    does something, and the result is the specified one: instrument 0 holds
    pitch 60 from 4 to the restrike at 6, the restruck note to the release at
    12, pitch 64 (ended before the pedal went down) is untouched; instrument 1
    has no pedal and the drum note is beyond every other event. *)
Definition c14_example : seq :=
  mkSeq [mkNote 60 100 0 4 0 0 false 0 0 0; mkNote 60 90 6 8 0 0 false 0 0 0;
         mkNote 64 80 0 1 0 0 false 0 0 0; mkNote 60 70 0 4 1 0 false 0 0 0;
         mkNote 36 100 0 20 9 0 true 0 0 0]
        [] [] [] [] [mkCc 2 0 64 127 0 0 false; mkCc 12 0 64 0 0 0 false; mkCc 3 0 7 100 1 0 false] [] []
        20 0 0 0 (0, 0) 220 0.

Example C14_nonvacuous :
  ordered_b (s_notes c14_example) = true /\ no_clash (s_notes c14_example) = true /\
  covered_b (s_total c14_example) (s_notes c14_example) = true /\
  no_pedal_down 64 1 (s_ccs c14_example) = true /\
  (exists s', apply_sustain 64 c14_example = Some s' /\
     map n_end (s_notes s') = [6; 12; 1; 4; 20] /\ s_total s' = 20 /\
     s_notes s' = spec_notes 64 (s_notes c14_example) (s_ccs c14_example)).
Proof. exact c14_example_ok. Qed.
Print Assumptions C14_nonvacuous.
