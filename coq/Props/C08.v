(** Props/C08.v -- C08: decoding the labels an encoder produced reconstructs the
    event sequence.  Only statements, [exact], and [Print Assumptions].
    All statements are for arbitrary sequence length, position, lookback
    distance list, counter width and configuration (no bound, no sampling). *)
From Coq Require Import ZArith List Bool.
From NS Require Import Gen.G09 Gen.G08 Model.OneHot Model.EncDec Model.Lookback Model.KeyMelody Model.NotePerfEnc
  Model.PianorollEnc Model.EncInst Proofs.OneHot Proofs.EncDec Proofs.Lookback Proofs.KeyMelody Proofs.NotePerfEnc
  Proofs.PianorollEnc Proofs.LookbackInput Proofs.KeyMelodyInput Proofs.EncInst.
Import ListNotations.
Local Open Scope Z_scope.

(** encode returns len-1 aligned (input, label) pairs: inputs[i] = events_to_input(events, i), labels[i] = events_to_label(events, i+1) -- for EVERY encoder (the loop is inherited from the base class). *)
Theorem C08_encode_aligned :
  forall (E L : Type) (ed : encdec E L) (es : list E) (ins : list (list Z)) (labs : list L),
  encode ed es = Some (ins, labs) ->
  zlen ins = Z.max 0 (zlen es - 1) /\
  zlen labs = Z.max 0 (zlen es - 1) /\
  (forall i : Z,
   0 <= i < zlen es - 1 ->
   ed_input ed es i = nth_error ins (Z.to_nat i) /\ ed_label ed es (i + 1) = nth_error labs (Z.to_nat i)).
Proof. exact @encode_aligned. Qed.
Print Assumptions C08_encode_aligned.

(** encode raises exactly when one of those calls raises. *)
Theorem C08_encode_fails_iff :
  forall (E L : Type) (ed : encdec E L) (es : list E),
  encode ed es = None <->
  (exists i : Z, 0 <= i < zlen es - 1 /\ (ed_input ed es i = None \/ ed_label ed es (i + 1) = None)).
Proof. exact @encode_fails_iff. Qed.
Print Assumptions C08_encode_fails_iff.

(** The title of C08, for any encoder: if the label at every position decodes against the events before it to the event there, the labels returned by encode drive the generation loop from events[:1] back to the whole sequence. *)
Theorem C08_roundtrip_generic :
  forall (E L : Type) (ed : encdec E L) (es : list E) (ins : list (list Z)) (labs : list L),
  encode ed es = Some (ins, labs) ->
  (forall p : Z,
   1 <= p < zlen es ->
   exists (l : L) (e : E),
     ed_label ed es p = Some l /\
     nth_error es (Z.to_nat p) = Some e /\ ed_decode ed l (firstn (Z.to_nat p) es) = Some e) ->
  generate (ed_decode ed) labs (firstn 1 es) = Some es.
Proof. exact @roundtrip_generic. Qed.
Print Assumptions C08_roundtrip_generic.

(** Lookback: the label is the one the documented precedence selects -- the initial-default rule first, then the LAST-LISTED matching lookback (the farthest for an increasing list), the plain one-hot class only if no lookback matches. Generic in the event type, the wrapped one-hot encoding (any bijection onto [0,n) on the valid events) and the distance list (any positive integers). *)
Theorem C08_lookback_precedence :
  forall (E : Type) (eqb : E -> E -> bool) (n : Z) (enc : E -> option Z) (dec : Z -> option E)
    (dflt : E) (dists : list Z),
  (forall a b : E, eqb a b = true <-> a = b) ->
  forall valid : E -> Prop,
  (forall e : E, valid e -> exists c : Z, enc e = Some c /\ 0 <= c < n /\ dec c = Some e) ->
  Forall (fun d : Z => 1 <= d) dists ->
  forall (es : list E) (p : Z) (a : E),
  0 <= p ->
  nth_error es (Z.to_nat p) = Some a ->
  valid a ->
  exists l : Z,
    lb_label E eqb n enc dflt dists es p = Some l /\
    (lb_init_cond E dflt dists a p /\ l = n + zlen dists - 1 \/
     ~ lb_init_cond E dflt dists a p /\
     (exists r : option Z,
        scan_result E dists es p r /\ match r with
                                      | Some i => l = n + i
                                      | None => enc a = Some l
                                      end)).
Proof. exact @lookback_precedence. Qed.
Print Assumptions C08_lookback_precedence.

(** Lookback: the label of position p lies in [0, num_classes) and, decoded against events[:p], is events[p]. *)
Theorem C08_lookback_decode_label :
  forall (E : Type) (eqb : E -> E -> bool) (n : Z) (enc : E -> option Z) (dec : Z -> option E)
    (dflt : E) (dists : list Z),
  (forall a b : E, eqb a b = true <-> a = b) ->
  forall valid : E -> Prop,
  (forall e : E, valid e -> exists c : Z, enc e = Some c /\ 0 <= c < n /\ dec c = Some e) ->
  Forall (fun d : Z => 1 <= d) dists ->
  forall (es : list E) (p : Z) (a : E),
  0 <= p ->
  nth_error es (Z.to_nat p) = Some a ->
  valid a ->
  exists l : Z,
    lb_label E eqb n enc dflt dists es p = Some l /\
    0 <= l < lb_num_classes n dists /\ lb_decode E n dec dflt dists l (firstn (Z.to_nat p) es) = Some a.
Proof. exact @lookback_decode_label. Qed.
Print Assumptions C08_lookback_decode_label.

Theorem C08_lookback_label_range :
  forall (E : Type) (eqb : E -> E -> bool) (n : Z) (enc : E -> option Z) (dec : Z -> option E)
    (dflt : E) (dists : list Z),
  (forall a b : E, eqb a b = true <-> a = b) ->
  forall valid : E -> Prop,
  (forall e : E, valid e -> exists c : Z, enc e = Some c /\ 0 <= c < n /\ dec c = Some e) ->
  Forall (fun d : Z => 1 <= d) dists ->
  forall (es : list E) (p : Z) (a : E) (l : Z),
  0 <= p ->
  nth_error es (Z.to_nat p) = Some a ->
  valid a -> lb_label E eqb n enc dflt dists es p = Some l -> 0 <= l < lb_num_classes n dists.
Proof. exact @lookback_label_range. Qed.
Print Assumptions C08_lookback_label_range.

(** Lookback: every in-range class index decodes against every history (no IndexError however short the history). *)
Theorem C08_lookback_decode_total :
  forall (E : Type) (eqb : E -> E -> bool) (n : Z) (enc : E -> option Z) (dec : Z -> option E)
    (dflt : E) (dists : list Z),
  (forall a b : E, eqb a b = true <-> a = b) ->
  forall valid : E -> Prop,
  (forall e : E, valid e -> exists c : Z, enc e = Some c /\ 0 <= c < n /\ dec c = Some e) ->
  Forall (fun d : Z => 1 <= d) dists ->
  forall (l : Z) (evs : list E),
  (forall c : Z, 0 <= c < n -> dec c <> None) ->
  0 <= l < lb_num_classes n dists -> lb_decode E n dec dflt dists l evs <> None.
Proof. exact @lookback_decode_total. Qed.
Print Assumptions C08_lookback_decode_total.

(** Lookback: an out-of-range class index falls through to the wrapped decode_event. *)
Theorem C08_lookback_decode_out_of_range :
  forall (E : Type) (eqb : E -> E -> bool) (n : Z) (enc : E -> option Z) (dec : Z -> option E)
    (dflt : E) (dists : list Z),
  (forall a b : E, eqb a b = true <-> a = b) ->
  forall valid : E -> Prop,
  (forall e : E, valid e -> exists c : Z, enc e = Some c /\ 0 <= c < n /\ dec c = Some e) ->
  forall (l : Z) (evs : list E),
  l < n \/ lb_num_classes n dists <= l -> lb_decode E n dec dflt dists l evs = dec l.
Proof. exact @lookback_decode_out_of_range. Qed.
Print Assumptions C08_lookback_decode_out_of_range.

(** Lookback: any list of in-range labels drives the generation loop without error from any history, and labels_to_num_steps is the sum of event_to_num_steps over the sequence generated from []. *)
Theorem C08_lookback_generation_total :
  forall (E : Type) (eqb : E -> E -> bool) (n : Z) (enc : E -> option Z) (dec : Z -> option E)
    (dflt : E) (dists : list Z),
  (forall a b : E, eqb a b = true <-> a = b) ->
  forall valid : E -> Prop,
  (forall e : E, valid e -> exists c : Z, enc e = Some c /\ 0 <= c < n /\ dec c = Some e) ->
  Forall (fun d : Z => 1 <= d) dists ->
  forall (steps : E -> Z) (ls : list Z) (evs : list E),
  (forall c : Z, 0 <= c < n -> dec c <> None) ->
  Forall (fun l : Z => 0 <= l < lb_num_classes n dists) ls ->
  (exists out : list E,
     generate (lb_decode E n dec dflt dists) ls evs = Some out /\
     length out = (length evs + length ls)%nat) /\
  (exists g : list E,
     generate (lb_decode E n dec dflt dists) ls [] = Some g /\
     length g = length ls /\
     steps_by_generation (lb_decode E n dec dflt dists) steps ls = Some (zsum (map steps g))).
Proof. exact @lookback_generation_total. Qed.
Print Assumptions C08_lookback_generation_total.

(** Lookback: decoding the labels encode produced reconstructs the sequence. *)
Theorem C08_lookback_roundtrip :
  forall (E : Type) (eqb : E -> E -> bool) (n : Z) (enc : E -> option Z) (dec : Z -> option E)
    (dflt : E) (dists : list Z),
  (forall a b : E, eqb a b = true <-> a = b) ->
  forall valid : E -> Prop,
  (forall e : E, valid e -> exists c : Z, enc e = Some c /\ 0 <= c < n /\ dec c = Some e) ->
  Forall (fun d : Z => 1 <= d) dists ->
  forall (steps : E -> Z) (bits : Z) (es : list E) (ins : list (list Z)) (labs : list Z),
  Forall valid es ->
  encode (lb E eqb n enc dec dflt steps dists bits) es = Some (ins, labs) ->
  generate (lb_decode E n dec dflt dists) labs (firstn 1 es) = Some es.
Proof. exact @lookback_roundtrip. Qed.
Print Assumptions C08_lookback_roundtrip.

(** Lookback: the input vector is exactly one-hot(current) ++ one-hot(next event of each lookback) ++ counter bits ++ repeat flags: input_size entries, exactly one 1 per one-hot block, counter bits +-1, flags 0/1 that say whether the event repeats the one d steps back. *)
Theorem C08_lookback_input_shape :
  forall (E : Type) (eqb : E -> E -> bool) (n : Z) (enc : E -> option Z) (dflt : E),
  (forall a b : E, eqb a b = true <-> a = b) ->
  0 <= n ->
  forall valid : E -> Prop,
  (forall e : E, valid e -> exists c : Z, enc e = Some c /\ 0 <= c < n) ->
  valid dflt ->
  forall (dists : list Z) (bits : Z),
  Forall (fun d : Z => 1 <= d) dists ->
  0 <= bits ->
  forall (es : list E) (p : Z) (a : E),
  0 <= p ->
  nth_error es (Z.to_nat p) = Some a ->
  Forall valid es ->
  exists (c : Z) (cs : list Z) (fs : list bool) (v : list Z),
    lb_input E eqb n enc dflt dists bits es p = Some v /\
    v =
    onehot n c ++
    concat (map (onehot n) cs) ++ map (counter_bit (p + 1)) (EncDec.zrange bits) ++ map b2z fs /\
    zlen v = lb_input_size n dists bits /\
    enc a = Some c /\
    0 <= c < n /\
    Forall2 (next_class E n enc dflt es p) dists cs /\
    Forall2 (fun (d : Z) (f : bool) => f = true <-> lb_match E es p d) dists fs /\
    Forall is_one_hot (onehot n c :: map (onehot n) cs) /\
    Forall (fun x : Z => x = 1 \/ x = -1) (map (counter_bit (p + 1)) (EncDec.zrange bits)) /\
    Forall (fun x : Z => x = 0 \/ x = 1) (map b2z fs).
Proof. exact @lookback_input_shape. Qed.
Print Assumptions C08_lookback_input_shape.

(** The same with the abstract premises discharged for the melody one-hot encoding (every legal min/max note) ... *)
Theorem C08_lookback_melody_decode_label :
  forall (mn mx : Z) (ds : list Z) (bits : Z),
  mel_cfg_ok mn mx = true ->
  pos_dists ds = true ->
  forall (es : list Z) (p a : Z),
  0 <= p ->
  nth_error es (Z.to_nat p) = Some a ->
  mel_event_ok mn mx a = true ->
  exists l : Z,
    ed_label (lb_mel mn mx ds bits) es p = Some l /\
    0 <= l < mel_num_classes mn mx + zlen ds /\
    ed_decode (lb_mel mn mx ds bits) l (firstn (Z.to_nat p) es) = Some a.
Proof. exact @lookback_melody_decode_label. Qed.
Print Assumptions C08_lookback_melody_decode_label.

Theorem C08_lookback_melody_roundtrip :
  forall (mn mx : Z) (ds : list Z) (bits : Z),
  mel_cfg_ok mn mx = true ->
  pos_dists ds = true ->
  forall (es : list Z) (ins : list (list Z)) (labs : list Z),
  forallb (mel_event_ok mn mx) es = true ->
  encode (lb_mel mn mx ds bits) es = Some (ins, labs) ->
  generate (ed_decode (lb_mel mn mx ds bits)) labs (firstn 1 es) = Some es.
Proof. exact @lookback_melody_roundtrip. Qed.
Print Assumptions C08_lookback_melody_roundtrip.

Theorem C08_lookback_melody_generation_total :
  forall (mn mx : Z) (ds : list Z) (bits : Z),
  mel_cfg_ok mn mx = true ->
  pos_dists ds = true ->
  forall ls evs : list Z,
  forallb (fun l : Z => (0 <=? l) && (l <? mel_num_classes mn mx + zlen ds)) ls = true ->
  (exists out : list Z,
     generate (ed_decode (lb_mel mn mx ds bits)) ls evs = Some out /\
     length out = (length evs + length ls)%nat) /\
  ed_num_steps (lb_mel mn mx ds bits) ls = Some (zlen ls).
Proof. exact @lookback_melody_generation_total. Qed.
Print Assumptions C08_lookback_melody_generation_total.

Theorem C08_lookback_melody_input_shape :
  forall (mn mx : Z) (ds : list Z) (bits : Z),
  mel_cfg_ok mn mx = true ->
  pos_dists ds = true ->
  forall (es : list Z) (p a : Z),
  0 <= bits ->
  0 <= p ->
  nth_error es (Z.to_nat p) = Some a ->
  forallb (mel_event_ok mn mx) es = true ->
  exists (c : Z) (cs : list Z) (fs : list bool) (v : list Z),
    ed_input (lb_mel mn mx ds bits) es p = Some v /\
    v =
    onehot (mel_num_classes mn mx) c ++
    concat (map (onehot (mel_num_classes mn mx)) cs) ++
    map (counter_bit (p + 1)) (EncDec.zrange bits) ++ map b2z fs /\
    zlen v = ed_input_size (lb_mel mn mx ds bits) /\
    mel_encode mn mx a = Some c /\
    zlen cs = zlen ds /\
    zlen fs = zlen ds /\
    Forall is_one_hot (onehot (mel_num_classes mn mx) c :: map (onehot (mel_num_classes mn mx)) cs) /\
    Forall2 (fun (d : Z) (f : bool) => f = true <-> lb_match Z es p d) ds fs.
Proof. exact @lookback_melody_input_shape. Qed.
Print Assumptions C08_lookback_melody_input_shape.

(** One-hot and one-hot-index wrappers over the melody one-hot: label range, inverse, input of exactly input_size entries with exactly one 1 (at the class index), index input = [class]. *)
Theorem C08_onehot_melody_decode_label :
  forall mn mx : Z,
  list Z ->
  mel_cfg_ok mn mx = true ->
  forall (es : list Z) (p a : Z),
  0 <= p ->
  nth_error es (Z.to_nat p) = Some a ->
  mel_event_ok mn mx a = true ->
  exists (l : Z) (v : list Z),
    ed_label (ohs_mel mn mx) es p = Some l /\
    0 <= l < mel_num_classes mn mx /\
    ed_decode (ohs_mel mn mx) l (firstn (Z.to_nat p) es) = Some a /\
    ed_input (ohs_mel mn mx) es p = Some v /\
    zlen v = ed_input_size (ohs_mel mn mx) /\
    is_one_hot v /\
    nth (Z.to_nat l) v 0 = 1 /\
    ed_input (ohi_mel mn mx) es p = Some [l] /\ ed_label (ohi_mel mn mx) es p = Some l.
Proof. exact @onehot_melody_decode_label. Qed.
Print Assumptions C08_onehot_melody_decode_label.

(** ... and for the performance one-hot encoding (every bin count, shift limit and pitch range). *)
Theorem C08_lookback_perf_decode_label :
  forall (nb ms minp maxp : Z) (ds : list Z) (bits : Z),
  (0 <=? nb) && (1 <=? ms) && (minp <=? maxp) = true ->
  pos_dists ds = true ->
  forall (es : list pevent) (p : Z) (a : pevent),
  0 <= p ->
  nth_error es (Z.to_nat p) = Some a ->
  perf_event_ok nb ms minp maxp a = true ->
  exists l : Z,
    ed_label (lb_perf nb ms minp maxp ds bits) es p = Some l /\
    0 <= l < oh_num_classes (perf_ranges nb ms minp maxp) + zlen ds /\
    ed_decode (lb_perf nb ms minp maxp ds bits) l (firstn (Z.to_nat p) es) = Some a.
Proof. exact @lookback_perf_decode_label. Qed.
Print Assumptions C08_lookback_perf_decode_label.

Theorem C08_lookback_perf_roundtrip :
  forall (nb ms minp maxp : Z) (ds : list Z) (bits : Z),
  (0 <=? nb) && (1 <=? ms) && (minp <=? maxp) = true ->
  pos_dists ds = true ->
  forall (es : list pevent) (ins : list (list Z)) (labs : list Z),
  forallb (perf_event_ok nb ms minp maxp) es = true ->
  encode (lb_perf nb ms minp maxp ds bits) es = Some (ins, labs) ->
  generate (ed_decode (lb_perf nb ms minp maxp ds bits)) labs (firstn 1 es) = Some es.
Proof. exact @lookback_perf_roundtrip. Qed.
Print Assumptions C08_lookback_perf_roundtrip.

Theorem C08_lookback_perf_generation_total :
  forall (nb ms minp maxp : Z) (ds : list Z) (bits : Z),
  (0 <=? nb) && (1 <=? ms) && (minp <=? maxp) = true ->
  pos_dists ds = true ->
  forall ls : list Z,
  forallb (fun l : Z => (0 <=? l) && (l <? oh_num_classes (perf_ranges nb ms minp maxp) + zlen ds)) ls =
  true ->
  exists g : list pevent,
    generate (ed_decode (lb_perf nb ms minp maxp ds bits)) ls [] = Some g /\
    length g = length ls /\
    ed_num_steps (lb_perf nb ms minp maxp ds bits) ls = Some (zsum (map perf_steps g)).
Proof. exact @lookback_perf_generation_total. Qed.
Print Assumptions C08_lookback_perf_generation_total.

(** One-hot wrapper, generic in the wrapped encoding. *)
Theorem C08_onehot_decode_label :
  forall (E : Type) (n : Z) (enc : E -> option Z) (dec : Z -> option E) (valid : E -> Prop),
  (forall e : E, valid e -> exists c : Z, enc e = Some c /\ 0 <= c < n /\ dec c = Some e) ->
  forall (es : list E) (p : Z) (e : E),
  nth_error es (Z.to_nat p) = Some e ->
  0 <= p ->
  valid e ->
  exists l : Z,
    ohs_label E enc es p = Some l /\ 0 <= l < n /\ ohs_decode E dec l (firstn (Z.to_nat p) es) = Some e.
Proof. exact @onehot_decode_label. Qed.
Print Assumptions C08_onehot_decode_label.

Theorem C08_onehot_input_shape :
  forall (E : Type) (n : Z) (enc : E -> option Z) (dec : Z -> option E) (valid : E -> Prop),
  (forall e : E, valid e -> exists c : Z, enc e = Some c /\ 0 <= c < n /\ dec c = Some e) ->
  forall (es : list E) (p : Z) (e : E),
  nth_error es (Z.to_nat p) = Some e ->
  0 <= p ->
  valid e ->
  exists (v : list Z) (c : Z),
    ohs_input E n enc es p = Some v /\
    enc e = Some c /\ zlen v = n /\ is_one_hot v /\ nth (Z.to_nat c) v 0 = 1.
Proof. exact @onehot_input_shape. Qed.
Print Assumptions C08_onehot_input_shape.

Theorem C08_onehot_index_input :
  forall (E : Type) (n : Z) (enc : E -> option Z) (dec : Z -> option E) (valid : E -> Prop),
  (forall e : E, valid e -> exists c : Z, enc e = Some c /\ 0 <= c < n /\ dec c = Some e) ->
  forall (es : list E) (p : Z) (e : E),
  nth_error es (Z.to_nat p) = Some e ->
  0 <= p ->
  valid e ->
  exists c : Z, ohi_input E enc es p = Some [c] /\ ohs_label E enc es p = Some c /\ 0 <= c < n.
Proof. exact @onehot_index_input. Qed.
Print Assumptions C08_onehot_index_input.

Theorem C08_onehot_generation_total :
  forall (E : Type) (n : Z) (dec : Z -> option E) (steps : E -> Z),
  (forall c : Z, 0 <= c < n -> dec c <> None) ->
  forall (ls : list Z) (evs : list E),
  Forall (fun l : Z => 0 <= l < n) ls ->
  (exists out : list E,
     generate (ohs_decode E dec) ls evs = Some out /\ length out = (length evs + length ls)%nat) /\
  (exists g : list E,
     generate (ohs_decode E dec) ls [] = Some g /\
     length g = length ls /\ steps_by_generation (ohs_decode E dec) steps ls = Some (zsum (map steps g))).
Proof. exact @onehot_generation_total. Qed.
Print Assumptions C08_onehot_generation_total.

(** KeyMelody (events in [min,max) U {-1,-2}; with notes/C08-fix-1.diff): precedence, inverse, range, generation, round trip. *)
Theorem C08_keymelody_precedence :
  forall (min_note note_range : Z) (dists : list Z),
  Forall (fun d : Z => 1 <= d) dists ->
  forall (es : list Z) (p a : Z),
  0 <= p ->
  nth_error es (Z.to_nat p) = Some a ->
  exists l : Z,
    km_label min_note note_range dists es p = Some l /\
    (km_init_cond dists a p /\ l = note_range + 2 + zlen dists - 1 \/
     ~ km_init_cond dists a p /\
     (exists r : option Z,
        scan_result Z dists es p r /\
        match r with
        | Some i => l = note_range + 2 + i
        | None => l = km_plain min_note note_range a
        end)).
Proof. exact @keymelody_precedence. Qed.
Print Assumptions C08_keymelody_precedence.

Theorem C08_keymelody_decode_label :
  forall (min_note note_range : Z) (dists : list Z),
  0 <= min_note ->
  Forall (fun d : Z => 1 <= d) dists ->
  forall (es : list Z) (p a : Z),
  0 <= p ->
  nth_error es (Z.to_nat p) = Some a ->
  km_valid min_note note_range a = true ->
  0 <= note_range ->
  exists l : Z,
    km_label min_note note_range dists es p = Some l /\
    0 <= l < km_num_classes note_range dists /\
    km_decode min_note note_range dists l (firstn (Z.to_nat p) es) = Some a.
Proof. exact @keymelody_decode_label. Qed.
Print Assumptions C08_keymelody_decode_label.

Theorem C08_keymelody_label_range :
  forall (min_note note_range : Z) (dists : list Z),
  0 <= min_note ->
  Forall (fun d : Z => 1 <= d) dists ->
  forall (es : list Z) (p a l : Z),
  0 <= p ->
  nth_error es (Z.to_nat p) = Some a ->
  km_valid min_note note_range a = true ->
  0 <= note_range ->
  km_label min_note note_range dists es p = Some l -> 0 <= l < km_num_classes note_range dists.
Proof. exact @keymelody_label_range. Qed.
Print Assumptions C08_keymelody_label_range.

Theorem C08_keymelody_decode_total :
  forall (min_note note_range : Z) (dists : list Z),
  Forall (fun d : Z => 1 <= d) dists ->
  forall (l : Z) (evs : list Z),
  0 <= l < km_num_classes note_range dists ->
  Forall (fun a : Z => km_valid min_note note_range a = true) evs ->
  exists e : Z,
    km_decode min_note note_range dists l evs = Some e /\ km_valid min_note note_range e = true.
Proof. exact @keymelody_decode_total. Qed.
Print Assumptions C08_keymelody_decode_total.

Theorem C08_keymelody_generation_total :
  forall (min_note note_range : Z) (dists : list Z),
  Forall (fun d : Z => 1 <= d) dists ->
  forall (bits : Z) (ls evs : list Z),
  Forall (fun l : Z => 0 <= l < km_num_classes note_range dists) ls ->
  Forall (fun a : Z => km_valid min_note note_range a = true) evs ->
  exists out : list Z,
    generate (km_decode min_note note_range dists) ls evs = Some out /\
    length out = (length evs + length ls)%nat /\
    Forall (fun a : Z => km_valid min_note note_range a = true) out /\
    ed_num_steps (km min_note note_range dists bits) ls = Some (zlen out - zlen evs).
Proof. exact @keymelody_generation_total. Qed.
Print Assumptions C08_keymelody_generation_total.

Theorem C08_keymelody_roundtrip :
  forall (min_note note_range : Z) (dists : list Z),
  0 <= min_note ->
  Forall (fun d : Z => 1 <= d) dists ->
  forall (bits : Z) (es : list Z) (ins : list (list Z)) (labs : list Z),
  Forall (fun a : Z => km_valid min_note note_range a = true) es ->
  0 <= note_range ->
  encode (km min_note note_range dists bits) es = Some (ins, labs) ->
  generate (km_decode min_note note_range dists) labs (firstn 1 es) = Some es.
Proof. exact @keymelody_roundtrip. Qed.
Print Assumptions C08_keymelody_roundtrip.

(** KeyMelody input: exactly input_size entries whenever the call returns, for ANY events (valid or not); totality and block structure for valid melodies: C08_keymelody_input_shape below. *)
Theorem C08_keymelody_input_length_any :
  forall (min_note note_range : Z) (dists : list Z) (bits : Z) (es : list Z) (p : Z) (v : list Z),
  0 <= km_input_size note_range dists bits ->
  km_input min_note note_range dists bits es p = Some v -> zlen v = km_input_size note_range dists bits.
Proof. exact @keymelody_input_length_any. Qed.
Print Assumptions C08_keymelody_input_length_any.

(** Conditional wrapper: input = control input at p+1 ++ target input at p, sizes add; labels, decoding and num_steps are the target's; encode rejects unequal lengths and otherwise returns len-1 aligned pairs. *)
Theorem C08_conditional_input :
  forall (C LC T LT : Type) (ctl : encdec C LC) (tgt : encdec T LT) (cs : list C) 
    (ts : list T) (p : Z) (a b : list Z),
  ed_input ctl cs (p + 1) = Some a ->
  ed_input tgt ts p = Some b ->
  zlen a = ed_input_size ctl ->
  zlen b = ed_input_size tgt ->
  cond_input ctl tgt cs ts p = Some (a ++ b) /\ zlen (a ++ b) = cond_input_size ctl tgt.
Proof. exact @conditional_input. Qed.
Print Assumptions C08_conditional_input.

Theorem C08_conditional_input_fails :
  forall (C LC T LT : Type) (ctl : encdec C LC) (tgt : encdec T LT) (cs : list C) (ts : list T) (p : Z),
  cond_input ctl tgt cs ts p = None <-> ed_input ctl cs (p + 1) = None \/ ed_input tgt ts p = None.
Proof. exact @conditional_input_fails. Qed.
Print Assumptions C08_conditional_input_fails.

Theorem C08_conditional_encode_aligned :
  forall (C LC T LT : Type) (ctl : encdec C LC) (tgt : encdec T LT) (cs : list C) 
    (ts : list T) (ins : list (list Z)) (labs : list LT),
  cond_encode ctl tgt cs ts = Some (ins, labs) ->
  zlen cs = zlen ts /\
  zlen ins = Z.max 0 (zlen ts - 1) /\
  zlen labs = Z.max 0 (zlen ts - 1) /\
  (forall i : Z,
   0 <= i < zlen ts - 1 ->
   cond_input ctl tgt cs ts i = nth_error ins (Z.to_nat i) /\
   ed_label tgt ts (i + 1) = nth_error labs (Z.to_nat i)).
Proof. exact @conditional_encode_aligned. Qed.
Print Assumptions C08_conditional_encode_aligned.

Theorem C08_conditional_encode_rejects :
  forall (C LC T LT : Type) (ctl : encdec C LC) (tgt : encdec T LT) (cs : list C) (ts : list T),
  zlen cs <> zlen ts -> cond_encode ctl tgt cs ts = None.
Proof. exact @conditional_encode_rejects. Qed.
Print Assumptions C08_conditional_encode_rejects.

Theorem C08_conditional_roundtrip :
  forall (C LC T LT : Type) (ctl : encdec C LC) (tgt : encdec T LT) (cs : list C) 
    (ts : list T) (ins : list (list Z)) (labs : list LT),
  cond_encode ctl tgt cs ts = Some (ins, labs) ->
  (forall p : Z,
   1 <= p < zlen ts ->
   exists (l : LT) (e : T),
     ed_label tgt ts p = Some l /\
     nth_error ts (Z.to_nat p) = Some e /\ ed_decode tgt l (firstn (Z.to_nat p) ts) = Some e) ->
  generate (cond_decode tgt) labs (firstn 1 ts) = Some ts.
Proof. exact @conditional_roundtrip. Qed.
Print Assumptions C08_conditional_roundtrip.

(** Note-performance: optimal_num_segments returns a divisor; the constructor raises ValueError exactly for limits <= 1 and AssertionError exactly when a limit has no divisor strictly between 1 and itself; otherwise segments * steps_per_segment = limit. *)
Theorem C08_opt_seg_divides :
  forall steps s : Z, optimal_num_segments steps = Some s -> 1 <= s < steps /\ steps mod s = 0.
Proof. exact @opt_seg_divides. Qed.
Print Assumptions C08_opt_seg_divides.

Theorem C08_opt_seg_none_iff :
  forall steps : Z, optimal_num_segments steps = None <-> steps <= 1.
Proof. exact @opt_seg_none_iff. Qed.
Print Assumptions C08_opt_seg_none_iff.

Theorem C08_opt_seg_one_iff :
  forall steps : Z,
  2 <= steps ->
  optimal_num_segments steps = Some 1 <-> (forall i : Z, 1 < i < steps -> steps mod i <> 0).
Proof. exact @opt_seg_one_iff. Qed.
Print Assumptions C08_opt_seg_one_iff.

Theorem C08_np_make_ok :
  forall (nvb max_shift max_dur minp maxp : Z) (c : np_cfg),
  np_make nvb max_shift max_dur minp maxp = NpOk c -> np_cfg_ok c nvb max_shift max_dur minp maxp.
Proof. exact @np_make_ok. Qed.
Print Assumptions C08_np_make_ok.

Theorem C08_np_make_rejects :
  forall nvb max_shift max_dur minp maxp : Z,
  (np_make nvb max_shift max_dur minp maxp = NpValueError <->
   max_shift + 1 <= 1 \/ optimal_num_segments (max_shift + 1) <> Some 1 /\ max_dur <= 1) /\
  (np_make nvb max_shift max_dur minp maxp = NpAssert <->
   optimal_num_segments (max_shift + 1) = Some 1 \/
   2 <= max_shift + 1 /\
   optimal_num_segments (max_shift + 1) <> Some 1 /\ optimal_num_segments max_dur = Some 1).
Proof. exact @np_make_rejects. Qed.
Print Assumptions C08_np_make_rejects.

(** Note-performance events (0 <= shift <= max_shift, pitch range, 1 <= velocity <= bins, 1 <= duration <= max_duration): the six label components are in range, decode inverts encode and conversely, the generation loop is total and labels_to_num_steps = sum of shifts + last duration (0 for no labels; notes/C08-fix-2.diff). *)
Theorem C08_noteperf_label_range :
  forall (nvb max_shift max_dur minp maxp : Z) (c : np_cfg),
  np_cfg_ok c nvb max_shift max_dur minp maxp ->
  forall e : npevent,
  np_valid nvb max_shift max_dur minp maxp e = true -> in_ranges (np_encode_event c e) (np_classes c).
Proof. exact @noteperf_label_range. Qed.
Print Assumptions C08_noteperf_label_range.

Theorem C08_noteperf_decode_label :
  forall (nvb max_shift max_dur minp maxp : Z) (c : np_cfg),
  np_cfg_ok c nvb max_shift max_dur minp maxp ->
  K_PERF_MIN_PITCH <= minp ->
  maxp <= K_PERF_MAX_PITCH ->
  nvb <= K_MAX_NUM_VELOCITY_BINS ->
  forall (e : npevent) (hist : list npevent),
  np_valid nvb max_shift max_dur minp maxp e = true -> np_decode c (np_encode_event c e) hist = Some e.
Proof. exact @noteperf_decode_label. Qed.
Print Assumptions C08_noteperf_decode_label.

Theorem C08_noteperf_decode_label_seq :
  forall (nvb max_shift max_dur minp maxp : Z) (c : np_cfg),
  np_cfg_ok c nvb max_shift max_dur minp maxp ->
  K_PERF_MIN_PITCH <= minp ->
  maxp <= K_PERF_MAX_PITCH ->
  nvb <= K_MAX_NUM_VELOCITY_BINS ->
  forall (es : list npevent) (p : Z) (e : npevent),
  0 <= p ->
  nth_error es (Z.to_nat p) = Some e ->
  np_valid nvb max_shift max_dur minp maxp e = true ->
  exists l : list Z,
    np_label c es p = Some l /\
    in_ranges l (np_classes c) /\ np_decode c l (firstn (Z.to_nat p) es) = Some e.
Proof. exact @noteperf_decode_label_seq. Qed.
Print Assumptions C08_noteperf_decode_label_seq.

Theorem C08_noteperf_decode_total :
  forall (nvb max_shift max_dur minp maxp : Z) (c : np_cfg),
  np_cfg_ok c nvb max_shift max_dur minp maxp ->
  K_PERF_MIN_PITCH <= minp ->
  maxp <= K_PERF_MAX_PITCH ->
  nvb <= K_MAX_NUM_VELOCITY_BINS ->
  forall (l : list Z) (hist : list npevent),
  in_ranges l (np_classes c) ->
  exists e : npevent,
    np_decode c l hist = Some e /\
    np_valid nvb max_shift max_dur minp maxp e = true /\ np_encode_event c e = l.
Proof. exact @noteperf_decode_total. Qed.
Print Assumptions C08_noteperf_decode_total.

Theorem C08_noteperf_generation_total :
  forall (nvb max_shift max_dur minp maxp : Z) (c : np_cfg),
  np_cfg_ok c nvb max_shift max_dur minp maxp ->
  K_PERF_MIN_PITCH <= minp ->
  maxp <= K_PERF_MAX_PITCH ->
  nvb <= K_MAX_NUM_VELOCITY_BINS ->
  forall ls : list (list Z),
  Forall (fun l : list Z => in_ranges l (np_classes c)) ls ->
  exists evs : list npevent,
    generate (np_decode c) ls [] = Some evs /\
    length evs = length ls /\
    Forall (fun e : npevent => np_valid nvb max_shift max_dur minp maxp e = true) evs /\
    np_num_steps c ls =
    Some (zsum (map np_shift_of evs) + match rev evs with
                                       | [] => 0
                                       | e :: _ => np_dur_of e
                                       end).
Proof. exact @noteperf_generation_total. Qed.
Print Assumptions C08_noteperf_generation_total.

Theorem C08_noteperf_num_steps_nil :
  forall c : np_cfg, np_num_steps c [] = Some 0.
Proof. exact @noteperf_num_steps_nil. Qed.
Print Assumptions C08_noteperf_num_steps_nil.

Theorem C08_noteperf_roundtrip :
  forall (nvb max_shift max_dur minp maxp : Z) (c : np_cfg),
  np_cfg_ok c nvb max_shift max_dur minp maxp ->
  K_PERF_MIN_PITCH <= minp ->
  maxp <= K_PERF_MAX_PITCH ->
  nvb <= K_MAX_NUM_VELOCITY_BINS ->
  forall (es : list npevent) (ins labs : list (list Z)),
  Forall (fun e : npevent => np_valid nvb max_shift max_dur minp maxp e = true) es ->
  encode (np c) es = Some (ins, labs) -> generate (np_decode c) labs (firstn 1 es) = Some es.
Proof. exact @noteperf_roundtrip. Qed.
Print Assumptions C08_noteperf_roundtrip.

(** Modulo-performance: labels are the performance one-hot's. *)
Theorem C08_modulo_decode_label :
  forall (nb ms : Z) (es : list pevent) (p : Z) (e : pevent),
  0 <= nb ->
  1 <= ms ->
  0 <= p ->
  nth_error es (Z.to_nat p) = Some e ->
  perf_valid nb ms K_PERF_MIN_PITCH K_PERF_MAX_PITCH (fst e) (snd e) ->
  exists l : Z,
    mp_label nb ms es p = Some l /\
    0 <= l < mp_num_classes nb ms /\ mp_decode nb ms l (firstn (Z.to_nat p) es) = Some e.
Proof. exact @modulo_decode_label. Qed.
Print Assumptions C08_modulo_decode_label.

Theorem C08_modulo_decode_total :
  forall (nb ms l : Z) (hist : list pevent),
  0 <= nb ->
  1 <= ms ->
  0 <= l < mp_num_classes nb ms ->
  exists e : pevent,
    mp_decode nb ms l hist = Some e /\
    perf_valid nb ms K_PERF_MIN_PITCH K_PERF_MAX_PITCH (fst e) (snd e).
Proof. exact @modulo_decode_total. Qed.
Print Assumptions C08_modulo_decode_total.

(** Pianoroll: for every size and every strictly increasing tuple below it, the label (sum of 2^pitch) is in [0, 2^size) and decodes to the tuple; every in-range index decodes, nothing else does; the input marks exactly the pitches. *)
Theorem C08_pianoroll_decode_label :
  forall size : Z,
  0 <= size ->
  forall (es : list (list Z)) (p : Z) (ev : list Z),
  0 <= p ->
  nth_error es (Z.to_nat p) = Some ev ->
  pr_valid size ev = true ->
  exists l : Z,
    pr_label es p = Some l /\
    0 <= l < pr_num_classes size /\ pr_decode size l (firstn (Z.to_nat p) es) = Some ev.
Proof. exact @pianoroll_decode_label. Qed.
Print Assumptions C08_pianoroll_decode_label.

Theorem C08_pianoroll_decode_total :
  forall size : Z,
  0 <= size ->
  forall (l : Z) (hist : list (list Z)),
  0 <= l < pr_num_classes size -> exists ev : list Z, pr_decode size l hist = Some ev.
Proof. exact @pianoroll_decode_total. Qed.
Print Assumptions C08_pianoroll_decode_total.

Theorem C08_pianoroll_decode_rejects :
  forall size : Z,
  0 <= size ->
  forall (l : Z) (hist : list (list Z)),
  l < 0 \/ pr_num_classes size <= l -> pr_decode size l hist = None.
Proof. exact @pianoroll_decode_rejects. Qed.
Print Assumptions C08_pianoroll_decode_rejects.

Theorem C08_pianoroll_generation_total :
  forall size : Z,
  0 <= size ->
  forall (ls : list Z) (evs : list (list Z)),
  Forall (fun l : Z => 0 <= l < pr_num_classes size) ls ->
  exists out : list (list Z),
    generate (pr_decode size) ls evs = Some out /\
    length out = (length evs + length ls)%nat /\ ed_num_steps (pr size) ls = Some (zlen out - zlen evs).
Proof. exact @pianoroll_generation_total. Qed.
Print Assumptions C08_pianoroll_generation_total.

Theorem C08_pianoroll_input_shape :
  forall size : Z,
  0 <= size ->
  forall (es : list (list Z)) (p : Z) (ev : list Z),
  0 <= p ->
  nth_error es (Z.to_nat p) = Some ev ->
  pr_valid size ev = true ->
  exists v : list Z,
    pr_input size es p = Some v /\
    zlen v = size /\ (forall k : nat, nth k v 0 = (if existsb (Z.eqb (Z.of_nat k)) ev then 1 else 0)).
Proof. exact @pianoroll_input_shape. Qed.
Print Assumptions C08_pianoroll_input_shape.

(** KeyMelody input at full strength: for every valid melody and every position the call RETURNS a vector of exactly input_size entries laid out as [pitch cells][playing; silence][attack][ascending][repeat flag per lookback][counter bits][bar start][12 key flags][12 recent-key flags]; the pitch cells are one-hot at the sounding pitch with playing=1 (or all zero with silence=1 - also for pitch 0, which the code treats as falsy); ascending is 0/+1/-1; repeat flags say whether the event repeats the one d steps back; counter bits are +-1 of position+1; each key block has 12 flags of which at least one is set. *)
Theorem C08_keymelody_input_shape :
  forall min_note note_range : Z,
  0 <= min_note ->
  0 <= note_range ->
  min_note + note_range <= K_MAX_MELODY_EVENT + 1 ->
  forall (dists : list Z) (bits : Z),
  Forall (fun d : Z => 1 <= d) dists ->
  0 <= bits ->
  forall (es : list Z) (p : Z),
  Forall (fun a : Z => km_valid min_note note_range a = true) es ->
  0 <= p < zlen es ->
  let sub := km_clean (firstn (Z.to_nat (p + 1)) es) in
  let s := km_scan sub in
  exists (head : list Z) (asc : Z) (fs keys1 keys2 : list bool),
    km_input min_note note_range dists bits es p =
    Some
      (head ++
       [b2z (km_attack s)] ++
       [asc] ++
       map b2z fs ++
       map (counter_bit (p + 1)) (EncDec.zrange bits) ++
       [b2z ((p + 1) mod K_STEPS_PER_BAR =? 0)] ++ map b2z keys1 ++ map b2z keys2) /\
    zlen
      (head ++
       [b2z (km_attack s)] ++
       [asc] ++
       map b2z fs ++
       map (counter_bit (p + 1)) (EncDec.zrange bits) ++
       [b2z ((p + 1) mod K_STEPS_PER_BAR =? 0)] ++ map b2z keys1 ++ map b2z keys2) =
    km_input_size note_range dists bits /\
    zlen head = note_range + 2 /\
    ((exists c : Z,
        km_cur s = Some c /\
        c <> 0 /\
        pitch_ok min_note note_range c /\
        head = onehot note_range (c - min_note) ++ [1; 0] /\
        is_one_hot (onehot note_range (c - min_note))) \/
     (km_cur s = None \/ km_cur s = Some 0) /\ head = zeros note_range ++ [0; 1]) /\
    (asc = 0 \/ asc = 1 \/ asc = -1) /\
    Forall2 (fun (d : Z) (f : bool) => f = true <-> lb_match Z es p d) dists fs /\
    Forall (fun x : Z => x = 1 \/ x = -1) (map (counter_bit (p + 1)) (EncDec.zrange bits)) /\
    zlen keys1 = K_NOTES_PER_OCTAVE /\
    zlen keys2 = K_NOTES_PER_OCTAVE /\
    existsb (fun b : bool => b) keys1 = true /\ existsb (fun b : bool => b) keys2 = true.
Proof. exact @keymelody_input_shape. Qed.
Print Assumptions C08_keymelody_input_shape.

(** Note-performance input: the concatenation of six one-hot vectors, one per label component, of sizes num_classes[i]: exactly input_size entries, exactly one 1 in each block, at the index of the label component. *)
Theorem C08_noteperf_input_shape :
  forall (nvb max_shift max_dur minp maxp : Z) (c : np_cfg),
  np_cfg_ok c nvb max_shift max_dur minp maxp ->
  forall (es : list npevent) (p : Z) (e : npevent),
  0 <= p ->
  nth_error es (Z.to_nat p) = Some e ->
  np_valid nvb max_shift max_dur minp maxp e = true ->
  exists hs : list (list Z),
    np_input c es p = Some (concat hs) /\
    zlen (concat hs) = np_input_size c /\
    hs = map (fun ic : Z * Z => onehot (snd ic) (fst ic)) (combine (np_encode_event c e) (np_classes c)) /\
    Forall is_one_hot hs /\
    Forall2 (fun (h : list Z) (m : Z) => zlen h = m) hs (np_classes c) /\
    Forall2 (fun (h : list Z) (i : Z) => nth (Z.to_nat i) h 0 = 1) hs (np_encode_event c e).
Proof. exact @noteperf_input_shape. Qed.
Print Assumptions C08_noteperf_input_shape.

(** Modulo-performance input: COUNT and BLOCK STRUCTURE only (the cos/sin cell values are floats and are tied by correspondence, not modelled): input_size = sum of the encoder widths of the event ranges; the cells written (valid bit + 2 per cos/sin pair: 5 for notes, 3 for shifts / velocities) are exactly the block of the event's own range, inside the vector, and the lookup row is inside the table indexed. *)
Theorem C08_modulo_input_size_count :
  forall nb ms : Z,
  mp_input_size nb ms =
  zsum (map mp_width K_MODULO_EVENT_RANGES) + K_MODULO_TIME_SHIFT_WIDTH +
  (if 0 <? nb then K_MODULO_VELOCITY_WIDTH else 0).
Proof. exact @modulo_input_size_count. Qed.
Print Assumptions C08_modulo_input_size_count.

Theorem C08_modulo_input_layout :
  forall (nb ms : Z) (es : list pevent) (p : Z) (e : pevent),
  0 <= nb ->
  1 <= ms ->
  0 <= p ->
  nth_error es (Z.to_nat p) = Some e ->
  perf_valid nb ms K_PERF_MIN_PITCH K_PERF_MAX_PITCH (fst e) (snd e) ->
  exists (off t row : Z) (k : nat) (mn mx : Z),
    mp_input nb ms es p = Some [mp_input_size nb ms; off; t; row; if t =? 0 then row mod 12 else 0] /\
    nth_error (mp_ranges nb ms) k = Some (fst e, mn, mx, mp_written t) /\
    off = zsum (map mp_width (firstn k (mp_ranges nb ms))) /\
    row = snd e - mn /\
    0 <= off /\
    off + mp_written t <= mp_input_size nb ms /\
    (t = 0 /\ (fst e = EV_NOTE_ON \/ fst e = EV_NOTE_OFF) /\ 0 <= row < 144 \/
     t = 1 /\ fst e = EV_TIME_SHIFT /\ 0 <= row < ms \/ t = 2 /\ fst e = EV_VELOCITY /\ 0 <= row < nb).
Proof. exact @modulo_input_layout. Qed.
Print Assumptions C08_modulo_input_layout.

Example C08_keymelody_input_nonvacuous :
  forallb (km_valid 60 3) [60; -2; 62; 60] = true /\
  km_input 60 3 [1; 2] 2 [60; -2; 62; 60] 3 =
    Some [1; 0; 0; 1; 0; 1; -1; 0; 0; -1; -1; 0; 1; 0; 0; 1; 0; 1; 0; 1; 0;
          0; 1; 0; 1; 0; 0; 1; 0; 1; 0; 1; 0; 0; 1; 0] /\
  km_input_size 3 [1; 2] 2 = 36.
Proof. exact keymelody_input_nonvacuous. Qed.
Print Assumptions C08_keymelody_input_nonvacuous.

(** default_event_label: an in-range class index that decodes, against any history, to the default event (lookback generic + melody instance, key melody, note performance when pitch 60 is in range, pianoroll). *)
Theorem C08_lookback_default_label :
  forall (E : Type) (eqb : E -> E -> bool) (n : Z) (enc : E -> option Z) (dec : Z -> option E)
    (dflt : E) (dists : list Z),
  (forall a b : E, eqb a b = true <-> a = b) ->
  forall valid : E -> Prop,
  (forall e : E, valid e -> exists c : Z, enc e = Some c /\ 0 <= c < n /\ dec c = Some e) ->
  forall evs : list E,
  valid dflt ->
  exists c : Z,
    lb_default_label E enc dflt = Some c /\
    0 <= c < lb_num_classes n dists /\ lb_decode E n dec dflt dists c evs = Some dflt.
Proof. exact @lookback_default_label. Qed.
Print Assumptions C08_lookback_default_label.

Theorem C08_lookback_melody_default_label :
  forall (mn mx : Z) (ds : list Z) (bits : Z),
  mel_cfg_ok mn mx = true ->
  forall evs : list Z,
  exists c : Z,
    lb_mel_default_label mn mx = Some c /\
    0 <= c < mel_num_classes mn mx + zlen ds /\
    ed_decode (lb_mel mn mx ds bits) c evs = Some MELODY_NO_EVENT.
Proof. exact @lookback_melody_default_label. Qed.
Print Assumptions C08_lookback_melody_default_label.

Theorem C08_keymelody_default_label :
  forall (min_note note_range : Z) (dists evs : list Z),
  0 <= note_range ->
  0 <= km_default_label note_range < km_num_classes note_range dists /\
  km_decode min_note note_range dists (km_default_label note_range) evs = Some K_NO_EVENT.
Proof. exact @keymelody_default_label. Qed.
Print Assumptions C08_keymelody_default_label.

Theorem C08_noteperf_default_label :
  forall (nvb max_shift max_dur minp maxp : Z) (c : np_cfg),
  np_cfg_ok c nvb max_shift max_dur minp maxp ->
  K_PERF_MIN_PITCH <= minp ->
  maxp <= K_PERF_MAX_PITCH ->
  nvb <= K_MAX_NUM_VELOCITY_BINS ->
  forall hist : list npevent,
  minp <= 60 <= maxp ->
  1 <= nvb ->
  in_ranges (np_default_label c) (np_classes c) /\
  np_decode c (np_default_label c) hist = Some np_default_event.
Proof. exact @noteperf_default_label. Qed.
Print Assumptions C08_noteperf_default_label.

Theorem C08_pianoroll_default_label :
  forall size : Z,
  0 <= size ->
  forall hist : list (list Z),
  0 <= pr_default_label < pr_num_classes size /\ pr_decode size pr_default_label hist = Some [].
Proof. exact @pianoroll_default_label. Qed.
Print Assumptions C08_pianoroll_default_label.

(** Non-vacuity: concrete configurations, sequences, labels and round trips (the docstring example of the lookback encoder). *)
Example C08_lookback_instances_nonvacuous :
  mel_cfg_ok 48 84 = true /\
  pos_dists [2; 4] = true /\
  forallb (mel_event_ok 48 84) [-2; -2; 60; -1; 60; -1; 60; 62; 60] = true /\
  map (ed_label (lb_mel 48 84 [2; 4] 5) [-2; -2; 60; -1; 60; -1; 60; 62; 60])
    [0; 1; 2; 3; 4; 5; 6; 7; 8] =
  [Some 39; Some 39; Some 14; Some 1; Some 38; Some 38; Some 39; Some 16; Some 39] /\
  (exists (ins : list (list Z)) (labs : list Z),
     encode (lb_mel 48 84 [2; 4] 5) [-2; -2; 60; -1; 60; -1; 60; 62; 60] = Some (ins, labs) /\
     generate (ed_decode (lb_mel 48 84 [2; 4] 5)) labs [-2] = Some [-2; -2; 60; -1; 60; -1; 60; 62; 60]).
Proof. exact @lookback_instances_nonvacuous. Qed.
Print Assumptions C08_lookback_instances_nonvacuous.

Example C08_noteperf_nonvacuous :
  exists c : np_cfg,
    np_make 4 15 16 0 127 = NpOk c /\
    np_shift_seg c = 4 /\
    np_shift_per c = 4 /\
    np_dur_seg c = 4 /\
    np_dur_per c = 4 /\
    (let e := (EV_TIME_SHIFT, 7, (EV_NOTE_ON, 60), (EV_VELOCITY, 3), (EV_DURATION, 10)) in
     np_valid 4 15 16 0 127 e = true /\
     np_encode_event c e = [1; 3; 60; 2; 2; 1] /\
     np_decode c [1; 3; 60; 2; 2; 1] [] = Some e /\
     np_make 4 16 16 0 127 = NpAssert /\ np_make 4 0 16 0 127 = NpValueError).
Proof. exact @noteperf_nonvacuous. Qed.
Print Assumptions C08_noteperf_nonvacuous.

Example C08_pianoroll_nonvacuous :
  pr_valid 5 [0; 2; 4] = true /\
  pr_event_to_label [0; 2; 4] 0 = Some 21 /\
  pr_decode 5 21 [] = Some [0; 2; 4] /\ pr_decode 5 32 [] = None /\ pr_decode 5 (-1) [] = None.
Proof. exact @pianoroll_nonvacuous. Qed.
Print Assumptions C08_pianoroll_nonvacuous.

