(** Props/C17.v — C17: event sequences keep length, step range and indexing
    consistent under any edit history.  Only statements, [exact], and
    [Print Assumptions].

    The models follow note_seq with notes/C17-fix-1..3.diff applied.  The
    claim is made for set_length(n) with n >= 0, increase_resolution(k) with
    k >= 1, max_shift_steps >= 1 and unit-step slices ([op_ok]); validity of
    events holds for every history without that restriction. *)
From Coq Require Import ZArith List Bool.
From NS Require Gen.TrS Proofs.TrEquivS Gen.Tr Proofs.TrEquiv17 Proofs.TrCode17.
From NS Require Import Gen.G17 Model.Events Model.EventsPoly
                       Proofs.Events Proofs.EventsClasses Proofs.EventsPoly.
Import ListNotations.
Local Open Scope Z_scope.

(* ================================================================== *)
(** * SimpleEventSequence, ChordProgression, DrumTrack (any event type, any
      validator, any pad / fill event; constructor and set_length of the base
      class) and Melody *)

(** len = end_step - start_step after every op of every history *)
Theorem C17_inv_reachable : forall E class_pad valid fill ops (s : st E),
  Inv s -> forallb op_ok ops = true ->
  Forall (fun so => Inv (fst so)) (trace E class_pad valid (fun l => l) fill no_fix s ops).
Proof. exact id_inv_trace. Qed.
Print Assumptions C17_inv_reachable.

(** the same when increase_resolution is given an explicit fill event per call
    (SimpleEventSequence, ChordProgression) *)
Theorem C17_inv_reachable_explicit_fill : forall E class_pad valid fill ops (s : st E),
  Inv s -> forallb (fun fo => op_ok (snd fo)) ops = true ->
  Forall (fun so => Inv (fst so)) (trace_f class_pad valid (fun l => l) fill no_fix s ops).
Proof. exact id_inv_trace_f. Qed.
Print Assumptions C17_inv_reachable_explicit_fill.

Theorem C17_melody_inv_reachable : forall ops (s : st Z),
  Inv s -> forallb op_ok ops = true -> Forall (fun so => Inv (fst so)) (Melody.trace s ops).
Proof. exact MelodyP.inv_trace. Qed.
Print Assumptions C17_melody_inv_reachable.

(** len(), iteration and indexing agree (any state) *)
Theorem C17_iter_index_len_agree : forall E (s : st E),
  len s = zlen (iter s) /\
  (forall i, 0 <= i < len s ->
     exists e, nth_error (iter s) (Z.to_nat i) = Some e /\
               getitem s i = Some e /\ getitem s (i - len s) = Some e) /\
  (forall i, i < - len s \/ len s <= i -> getitem s i = None).
Proof. exact iter_index_len_agree. Qed.
Print Assumptions C17_iter_index_len_agree.

(** steps lists one step per event: start, start+1, ... *)
Theorem C17_steps_one_per_event : forall E (s : st E), Inv s ->
  length (steps s) = length (events s) /\
  forall j, (j < length (events s))%nat -> nth_error (steps s) j = Some (start s + Z.of_nat j).
Proof. exact steps_one_per_event. Qed.
Print Assumptions C17_steps_one_per_event.

(** set_length(n) yields exactly n steps anchored at the retained end ... *)
Theorem C17_set_length_exact : forall E (s : st E) n fl, 0 <= n ->
  let s' := set_length E no_fix s n fl in
  len s' = n /\ stop s' - start s' = n /\ Inv s' /\
  (if fl then stop s' = stop s else start s' = start s).
Proof. exact id_set_length_exact. Qed.
Print Assumptions C17_set_length_exact.

(** ... is this list operation (the abstract list model) ... *)
Theorem C17_set_length_events : forall E (s : st E) n fl, 0 <= n ->
  events (set_length E no_fix s n fl) =
    if len s <? n then
      if fl then repeat (pad s) (Z.to_nat (n - len s)) ++ events s
      else events s ++ repeat (pad s) (Z.to_nat (n - len s))
    else if fl then skipn (Z.to_nat (len s - n)) (events s)
         else firstn (Z.to_nat n) (events s).
Proof. exact id_set_length_events. Qed.
Print Assumptions C17_set_length_events.

(** ... keeps the event at every step common to the old and the new range ... *)
Theorem C17_set_length_keeps : forall E (s : st E) n fl, Inv s -> 0 <= n ->
  let s' := set_length E no_fix s n fl in
  forall t, start s <= t < stop s -> start s' <= t < stop s' -> event_at s' t = event_at s t.
Proof. exact id_set_length_keeps. Qed.
Print Assumptions C17_set_length_keeps.

(** ... and fills every new step with the pad event *)
Theorem C17_set_length_pads : forall E (s : st E) n fl, Inv s -> 0 <= n ->
  let s' := set_length E no_fix s n fl in
  forall t, start s' <= t < stop s' -> ~ (start s <= t < stop s) -> event_at s' t = Some (pad s).
Proof. exact id_set_length_pads. Qed.
Print Assumptions C17_set_length_pads.

Theorem C17_melody_set_length_exact : forall (s : st Z) n fl, 0 <= n ->
  let s' := Melody.set_length s n fl in
  len s' = n /\ stop s' - start s' = n /\ Inv s' /\
  (if fl then stop s' = stop s else start s' = start s).
Proof. exact MelodyP.set_length_exact. Qed.
Print Assumptions C17_melody_set_length_exact.

Theorem C17_melody_set_length_keeps : forall (s : st Z) n fl, Inv s -> 0 <= n ->
  let s' := Melody.set_length s n fl in
  forall t, start s <= t < stop s -> start s' <= t < stop s' -> event_at s' t = event_at s t.
Proof. exact MelodyP.set_length_keeps. Qed.
Print Assumptions C17_melody_set_length_keeps.

(** padding a melody on the right ends a sounding note and is silent otherwise *)
Theorem C17_melody_padding_ends_note : forall (s : st Z) n,
  pad s = MELODY_NO_EVENT -> len s < n ->
  events (Melody.set_length s n false) =
    events s ++ (if Melody.sustained_rev (rev (events s)) then MELODY_NOTE_OFF else MELODY_NO_EVENT)
             :: repeat MELODY_NO_EVENT (Z.to_nat (n - len s - 1)).
Proof. exact MelodyP.padding_ends_note. Qed.
Print Assumptions C17_melody_padding_ends_note.

Theorem C17_melody_sustained_spec : forall l,
  Melody.sustained_rev (rev l) = true <->
  exists pre e post, l = pre ++ e :: post /\ e <> MELODY_NOTE_OFF /\ e <> MELODY_NO_EVENT /\
                     Forall (fun x => x = MELODY_NO_EVENT) post.
Proof. exact MelodyP.sustained_spec. Qed.
Print Assumptions C17_melody_sustained_spec.

(** slices start at the clamped, non-negative start of the slice, inside the
    old range (F4), and carry at each of their steps the event the original
    had at that step *)
Theorem C17_slice_offset : forall E class_pad valid (s : st E) a b s',
  Inv s -> slice E class_pad valid (fun l => l) s a b = Some s' ->
  let lo := slice_lo (len s) a in
  Inv s' /\ 0 <= lo <= len s /\ start s' = start s + lo /\
  start s <= start s' /\ stop s' <= stop s /\
  events s' = py_slice (events s) a b.
Proof. exact id_slice_offset. Qed.
Print Assumptions C17_slice_offset.

Theorem C17_slice_elements : forall E class_pad valid (s : st E) a b s',
  Inv s -> slice E class_pad valid (fun l => l) s a b = Some s' ->
  forall t, start s' <= t < stop s' -> exists e, event_at s' t = Some e /\ event_at s t = Some e.
Proof. exact id_slice_elements. Qed.
Print Assumptions C17_slice_elements.

Theorem C17_melody_slice_offset : forall (s : st Z) a b s',
  Inv s -> slice Z (Some MELODY_NO_EVENT) Melody.valid Melody.clean s a b = Some s' ->
  let lo := slice_lo (len s) a in
  Inv s' /\ 0 <= lo <= len s /\ start s' = start s + lo /\
  start s <= start s' /\ stop s' <= stop s /\
  events s' = Melody.clean (py_slice (events s) a b).
Proof. exact MelodyP.slice_offset. Qed.
Print Assumptions C17_melody_slice_offset.

(** (the Melody constructor turns a NOTE_OFF before the first note into NO_EVENT) *)
Theorem C17_melody_slice_elements : forall (s : st Z) a b s',
  Inv s -> slice Z (Some MELODY_NO_EVENT) Melody.valid Melody.clean s a b = Some s' ->
  forall t, start s' <= t < stop s' ->
    exists e' e, event_at s' t = Some e' /\ event_at s t = Some e /\
                 (e' = e \/ (e' = MELODY_NO_EVENT /\ e = MELODY_NOTE_OFF)).
Proof. exact MelodyP.slice_elements. Qed.
Print Assumptions C17_melody_slice_elements.

Theorem C17_increase_resolution : forall E fill (s : st E) k, 1 <= k ->
  let s' := increase_resolution E fill s k in
  len s' = k * len s /\ start s' = start s * k /\ stop s' = stop s * k /\ (Inv s -> Inv s').
Proof. exact increase_resolution_spec. Qed.
Print Assumptions C17_increase_resolution.

(** Melody events stay within MIN_MELODY_EVENT..MAX_MELODY_EVENT = -2..127
    under ANY history (no restriction on arguments) *)
Theorem C17_melody_range : forall ops,
  Forall (fun e => MIN_MELODY_EVENT <= e <= MAX_MELODY_EVENT)
         (events (Melody.run_ops (empty_st MELODY_NO_EVENT) ops)).
Proof. exact MelodyP.range_reachable_from_empty. Qed.
Print Assumptions C17_melody_range.

Theorem C17_melody_range_constants : MIN_MELODY_EVENT = -2 /\ MAX_MELODY_EVENT = 127.
Proof. split; reflexivity. Qed.
Print Assumptions C17_melody_range_constants.

Theorem C17_drums_range : forall ops (s : st (list Z)),
  VInv (list Z) Drums.valid s -> VInv (list Z) Drums.valid (Drums.run_ops s ops).
Proof. exact DrumsP.range_reachable. Qed.
Print Assumptions C17_drums_range.

(* ================================================================== *)
(** * LeadSheet *)

(** melody and chords have the same length, step range and resolution (and
    each satisfies its own invariant) after every op of every history *)
Theorem C17_leadsheet_lockstep : forall ops s,
  LeadSheetP.LsInv s -> forallb LeadSheetP.ls_op_ok ops = true ->
  Forall (fun so => LeadSheetP.LsInv (fst so)) (LeadSheet.trace s ops).
Proof. exact LeadSheetP.lockstep_trace. Qed.
Print Assumptions C17_leadsheet_lockstep.

Theorem C17_leadsheet_no_mismatch : forall s, LeadSheetP.LsInv s ->
  (forall a b, snd (LeadSheet.step s (LeadSheet.LSlice a b)) <> MismatchError) /\
  snd (LeadSheet.step s LeadSheet.LDeepcopy) <> MismatchError.
Proof. exact LeadSheetP.no_mismatch. Qed.
Print Assumptions C17_leadsheet_no_mismatch.

(** iteration yields len (melody, chord) pairs, indexing agrees with it (F5) *)
Theorem C17_leadsheet_observables : forall s, LeadSheetP.LsInv s ->
  LeadSheet.len s = zlen (LeadSheet.iter s) /\
  (forall i, 0 <= i < LeadSheet.len s ->
     exists m c, nth_error (events (LeadSheet.mel s)) (Z.to_nat i) = Some m /\
                 nth_error (events (LeadSheet.chd s)) (Z.to_nat i) = Some c /\
                 nth_error (LeadSheet.iter s) (Z.to_nat i) = Some (m, c) /\
                 LeadSheet.getitem s i = Some (m, c) /\
                 LeadSheet.getitem s (i - LeadSheet.len s) = Some (m, c)) /\
  (forall i, i < - LeadSheet.len s \/ LeadSheet.len s <= i -> LeadSheet.getitem s i = None) /\
  LeadSheet.start s = start (LeadSheet.chd s) /\ LeadSheet.stop s = stop (LeadSheet.chd s) /\
  LeadSheet.stop s - LeadSheet.start s = LeadSheet.len s.
Proof. exact LeadSheetP.observables_agree. Qed.
Print Assumptions C17_leadsheet_observables.

(* ================================================================== *)
(** * PianorollSequence *)

Theorem C17_pianoroll_range_is_len : forall s : Pianoroll.st,
  Pianoroll.stop s - Pianoroll.start s = Pianoroll.len s /\
  Pianoroll.num_steps s = Pianoroll.len s /\ Pianoroll.len s = zlen (Pianoroll.iter s) /\
  length (Pianoroll.steps s) = length (Pianoroll.events s) /\
  forall j, (j < length (Pianoroll.events s))%nat ->
    nth_error (Pianoroll.steps s) j = Some (Pianoroll.start s + Z.of_nat j).
Proof. exact PianorollP.range_is_len. Qed.
Print Assumptions C17_pianoroll_range_is_len.

Theorem C17_pianoroll_index_agrees : forall s : Pianoroll.st,
  (forall i, 0 <= i < Pianoroll.len s ->
     exists e, nth_error (Pianoroll.iter s) (Z.to_nat i) = Some e /\
               Pianoroll.getitem s i = Some e /\ Pianoroll.getitem s (i - Pianoroll.len s) = Some e) /\
  (forall i, i < - Pianoroll.len s \/ Pianoroll.len s <= i -> Pianoroll.getitem s i = None).
Proof. exact PianorollP.index_agrees. Qed.
Print Assumptions C17_pianoroll_index_agrees.

Theorem C17_pianoroll_set_length_exact : forall (s : Pianoroll.st) n, 0 <= n ->
  exists s', Pianoroll.set_length s n false = (s', Done) /\
    Pianoroll.len s' = n /\ Pianoroll.start s' = Pianoroll.start s /\
    Pianoroll.stop s' - Pianoroll.start s' = n /\
    Pianoroll.events s' =
      firstn (Z.to_nat n) (Pianoroll.events s) ++ repeat [] (Z.to_nat (n - Pianoroll.len s)).
Proof. exact PianorollP.set_length_exact. Qed.
Print Assumptions C17_pianoroll_set_length_exact.

Theorem C17_pianoroll_no_assert : forall ops s, forallb PianorollP.op_ok ops = true ->
  Forall (fun so => snd so <> AssertionError) (Pianoroll.trace s ops).
Proof. exact PianorollP.no_assert. Qed.
Print Assumptions C17_pianoroll_no_assert.

(* ================================================================== *)
(** * Performance / MetricPerformance *)

(** end - start is the sum of the time shifts; steps has one entry per event,
    the j-th being start + the shifts before event j (any state) *)
Theorem C17_performance_range_is_sum : forall s : Perf.st,
  Perf.stop s - Perf.start s = Perf.num_steps s /\
  Perf.num_steps s = Perf.sum_shifts (Perf.events s) /\
  Perf.len s = zlen (Perf.iter s) /\ length (Perf.steps s) = length (Perf.events s) /\
  (forall j, (j < length (Perf.events s))%nat ->
     nth_error (Perf.steps s) j = Some (Perf.start s + Perf.sum_shifts (firstn j (Perf.events s)))).
Proof. exact PerfP.range_is_sum. Qed.
Print Assumptions C17_performance_range_is_sum.

Theorem C17_performance_index_agrees : forall s : Perf.st,
  (forall i, 0 <= i < Perf.len s ->
     exists e, nth_error (Perf.iter s) (Z.to_nat i) = Some e /\
               Perf.getitem s i = Some e /\ Perf.getitem s (i - Perf.len s) = Some e) /\
  (forall i, i < - Perf.len s \/ Perf.len s <= i -> Perf.getitem s i = None).
Proof. exact PerfP.index_agrees. Qed.
Print Assumptions C17_performance_index_agrees.

(** _append_steps: the loop terminates (the model's fuel is never exhausted)
    and emits n div m maximal shifts and the remainder; it adds exactly n
    steps and touches nothing but a trailing non-maximal time shift *)
Theorem C17_performance_append_loop : forall fuel m n,
  1 <= m -> 0 <= n -> (Z.to_nat n <= fuel)%nat ->
  Perf.shift_loop fuel m n =
    repeat (Perf.shift m) (Z.to_nat (n / m)) ++ (if 0 <? n mod m then [Perf.shift (n mod m)] else []).
Proof. exact PerfP.shift_loop_spec. Qed.
Print Assumptions C17_performance_append_loop.

Theorem C17_performance_append_steps_exact : forall m l n, 1 <= m -> 0 <= n ->
  Perf.sum_shifts (Perf.append_steps m l n) = Perf.sum_shifts l + n.
Proof. exact PerfP.append_steps_sum. Qed.
Print Assumptions C17_performance_append_steps_exact.

Theorem C17_performance_append_steps_shape : forall m l n,
  (Perf.append_steps m l n = l ++ Perf.shift_loop (Z.to_nat n) m n /\
     (l = [] \/ exists pre e, l = pre ++ [e] /\ Perf.is_shift e && (snd e <? m) = false)) \/
  (exists pre v, l = pre ++ [Perf.shift v] /\ v < m /\
     Perf.append_steps m l n =
       pre ++ [Perf.shift (v + Z.min n (m - v))] ++
       Perf.shift_loop (Z.to_nat (n - Z.min n (m - v))) m (n - Z.min n (m - v))).
Proof. exact PerfP.append_steps_cases. Qed.
Print Assumptions C17_performance_append_steps_shape.

(** _trim_steps removes exactly num steps whenever that many are there *)
Theorem C17_performance_trim_steps_exact : forall l num, 0 <= num <= Perf.sum_shifts l ->
  Perf.sum_shifts (Perf.trim_steps l num) = Perf.sum_shifts l - num.
Proof. exact PerfP.trim_steps_sum. Qed.
Print Assumptions C17_performance_trim_steps_exact.

(** ... keeping a prefix of the events, possibly followed by a shortened
    version of the time shift that came next *)
Theorem C17_performance_trim_steps_shape : forall l num, exists pre post, l = pre ++ post /\
  (Perf.trim_steps l num = pre \/
   exists v w post', post = Perf.shift v :: post' /\ 0 < w < v /\
                     Perf.trim_steps l num = pre ++ [Perf.shift w]).
Proof. exact PerfP.trim_steps_shape. Qed.
Print Assumptions C17_performance_trim_steps_shape.

(** set_length(n): exactly n steps from the same start; the assert holds *)
Theorem C17_performance_set_length_exact : forall (s : Perf.st) n,
  1 <= Perf.max_shift s -> 0 <= n ->
  exists s', Perf.set_length s n false = (s', Done) /\
    Perf.num_steps s' = n /\ Perf.stop s' - Perf.start s' = n /\
    Perf.start s' = Perf.start s /\ Perf.max_shift s' = Perf.max_shift s.
Proof. exact PerfP.set_length_exact. Qed.
Print Assumptions C17_performance_set_length_exact.

(** in no history does the assert fire, and no op builds an event that
    PerformanceEvent's validator rejects *)
Theorem C17_performance_no_assert : forall ops s, PerfP.PInv s -> forallb PerfP.op_ok ops = true ->
  Forall (fun so => snd so <> AssertionError) (Perf.trace s ops).
Proof. exact PerfP.no_assert. Qed.
Print Assumptions C17_performance_no_assert.

Theorem C17_performance_events_valid : forall ops s, PerfP.PInv s -> forallb PerfP.op_ok ops = true ->
  PerfP.PInv (Perf.run_ops s ops).
Proof. exact PerfP.pinv_reachable. Qed.
Print Assumptions C17_performance_events_valid.

Theorem C17_performance_set_length_in_history : forall ops s n,
  PerfP.PInv s -> forallb PerfP.op_ok ops = true -> 0 <= n ->
  let s1 := Perf.run_ops s ops in
  exists s2, Perf.step s1 (Perf.FSetLength n false) = (s2, Done) /\
             Perf.num_steps s2 = n /\ Perf.stop s2 - Perf.start s2 = n /\ Perf.start s2 = Perf.start s1.
Proof. exact PerfP.set_length_in_history. Qed.
Print Assumptions C17_performance_set_length_in_history.

(** outside the claim, as in the code: a negative length trips the assert *)
Theorem C17_performance_negative_length_asserts : forall (s : Perf.st) n,
  PerfP.PInv s -> n < 0 -> snd (Perf.set_length s n false) = AssertionError.
Proof. exact PerfP.set_length_negative. Qed.
Print Assumptions C17_performance_negative_length_asserts.

(* ================================================================== *)
(** * The unrepaired methods violate the property (F3, F4): kernel-checked
      witnesses, replayed on the real code by the harness corpus *)

Theorem C17_set_length_exact_unfixed_refuted :
  exists (s : st Z) n fl, Inv s /\ 0 <= n /\
    let s' := base_set_length_unfixed s n fl in
    len s' = 4 /\ stop s' - start s' = 0 /\ ~ Inv s'.
Proof. exact set_length_exact_unfixed_refuted. Qed.
Print Assumptions C17_set_length_exact_unfixed_refuted.

Theorem C17_slice_offset_unfixed_refuted :
  exists (s : st Z) a, Inv s /\
    slice_start_unfixed s a < start s /\ start s + slice_lo (len s) a = 6.
Proof. exact slice_offset_unfixed_refuted. Qed.
Print Assumptions C17_slice_offset_unfixed_refuted.

(* ================================================================== *)
(** * Non-vacuity: the hypotheses are met by the objects histories start
      from, and the models compute what the repaired code does on the three
      defect witnesses *)
Example C17_nonvacuous :
  (forall p : Z, Inv (empty_st p)) /\ LeadSheetP.LsInv LeadSheet.empty /\
  PerfP.PInv (Perf.mk [] 0 100) /\
  (* F3: set_length(0, from_left=True) of [1,2,3,4] at steps 4..8 *)
  (let s := Plain.run_ops (empty_st 0) [OReinit 0 (Some [1; 2; 3; 4]) 4 16 4; OSetLength 0 true] in
   (events s, start s, stop s) = ([], 8, 8)) /\
  (* F4: s[-2:] of the same sequence *)
  (let s := Plain.run_ops (empty_st 0) [OReinit 0 (Some [1; 2; 3; 4]) 4 16 4; OSlice (Some (-2)) None] in
   (events s, start s, stop s) = ([3; 4], 6, 8)) /\
  (* F5: iterating and slicing a lead sheet *)
  (let s := LeadSheet.run_ops LeadSheet.empty
              [LeadSheet.LAppend 60 1; LeadSheet.LAppend (-2) 1; LeadSheet.LAppend 62 2;
               LeadSheet.LSlice (Some 1) None] in
   (LeadSheet.iter s, LeadSheet.start s, LeadSheet.stop s) = ([(-2, 1); (62, 2)], 1, 3)) /\
  (* melody padding ends the sounding note *)
  events (Melody.run_ops (empty_st MELODY_NO_EVENT) [OAppend 60; OSetLength 3 false]) = [60; -1; -2] /\
  (* performance: 250 steps with max_shift 100, then trimmed to 120 *)
  Perf.events (Perf.run_ops (Perf.mk [] 0 100) [Perf.FAppend 1 60; Perf.FSetLength 250 false;
                                                 Perf.FSetLength 120 false])
    = [(1, 60); (3, 100); (3, 20)].
Proof.
  split; [intros p; reflexivity|]. split; [exact LeadSheetP.empty_inv|].
  split; [split; [discriminate|constructor]|]. repeat split; reflexivity.
Qed.
Print Assumptions C17_nonvacuous.

(** Source-level tie (second kind): SimpleEventSequence.append and SimpleEventSequence.set_length, re-translated
    from their SOURCE on every run (Gen/TrS.v, harness/vt/pytr.py, stateful-method mode), equal the hand-written
    state-machine model for every state and every argument (events, end step, start step); the remaining state
    components are untouched by the model. *)
Theorem C17_source_append : forall (s : st Z) (e : Z),
  NS.Gen.TrS.trs_append (events s) (stop s) e =
  Some (events (fst (append Z (fun _ => true) s e)), stop (fst (append Z (fun _ => true) s e))).
Proof. exact NS.Proofs.TrEquivS.trs_append_eq. Qed.
Print Assumptions C17_source_append.

Theorem C17_source_set_length : forall (s : st Z) (n : Z) (from_left : bool),
  NS.Gen.TrS.trs_set_length (events s) (stop s) (pad s) (start s) n from_left =
  Some (events (base_set_length Z s n from_left), stop (base_set_length Z s n from_left),
        start (base_set_length Z s n from_left)).
Proof. exact NS.Proofs.TrEquivS.trs_set_length_eq. Qed.
Print Assumptions C17_source_set_length.

Theorem C17_source_performance_event_validator : forall t v a b,
  NS.Gen.Tr.tr_performance_event_validate t v a b = if Perf.ev_valid (t, v) then Some tt else None.
Proof. exact NS.Proofs.TrEquiv17.tr_performance_event_validate_eq. Qed.
Print Assumptions C17_source_performance_event_validator.

(** The consistency clause stated DIRECTLY on the code as it reads now (Gen/TrS.v, re-translated from the source of
    SimpleEventSequence.append / set_length on every run): no hand-written model occurs in these statements. *)
Theorem C17_code_append_consistent : forall ev s0 s1 e ev' s1',
  zlen ev = s1 - s0 ->
  NS.Gen.TrS.trs_append ev s1 e = Some (ev', s1') ->
  ev' = ev ++ [e] /\ zlen ev' = s1' - s0.
Proof. exact NS.Proofs.TrCode17.code_append_consistent. Qed.
Print Assumptions C17_code_append_consistent.

Theorem C17_code_set_length_consistent : forall ev s0 s1 pd n fl ev' s1' s0',
  0 <= n ->
  NS.Gen.TrS.trs_set_length ev s1 pd s0 n fl = Some (ev', s1', s0') ->
  zlen ev' = n /\ s1' - s0' = n /\ (if fl then s1' = s1 else s0' = s0).
Proof. exact NS.Proofs.TrCode17.code_set_length_consistent. Qed.
Print Assumptions C17_code_set_length_consistent.
