(** Props/C02.v — stub, replaced below. *)
From Coq Require Import ZArith List Bool.
From NS Require Import Base.NoteSeq Gen.G02 Model.Extract Model.Split.
Example C02_constants : G_CHORD_SYMBOL = ANN_CHORD_SYMBOL /\ G_BEAT = ANN_BEAT.
Proof. split; reflexivity. Qed.
Print Assumptions C02_constants.
