(** Props/C02.v — C02: extracting or splitting a sequence partitions its notes and
    carries state over.  Only statements, [exact], and [Print Assumptions].

    Vocabulary (Model/Extract.v, Model/Split.v):
      [extract_subsequences pres s ts]  model of [_extract_subsequences(s, ts, pres)]
      [intervals ts]                    the pieces [(t_0,t_1); (t_1,t_2); ...]
      [in_piece a b x]                  a <= x < b
      [clipshift a b n]                 n with start - a and min(end, b) - a
      [in_effect time set evs t]        the last event in stable time order with time <= t, time erased
      [with_key (instr, num) ccs]       the control changes of one instrument and control number
      [state_spec], [notes_spec], [beats_spec], [pedal_spec]   the filter/map/last specification
      [finish total valid]              valid ++ [total] if total > last valid
      [split_allowed skip notes t]      not (skip and some note has start < t < end) *)
From Coq Require Import ZArith List Bool Permutation Sorted.
From NS Require Import Base.NoteSeq Gen.G02 Model.Extract Model.Split
     Proofs.ExtractSort Proofs.ExtractWalk Proofs.Extract Proofs.Split.
Import ListNotations.
Local Open Scope Z_scope.

(** The annotation-type constants the model uses are the ones the code uses now. *)
Example C02_constants :
  G_CHORD_SYMBOL = ANN_CHORD_SYMBOL /\ G_BEAT = ANN_BEAT /\ G_UNKNOWN = ANN_UNKNOWN /\
  DEFAULT_PRESERVE = [64; 66; 67] /\ DEFAULT_QPM = 120 * 2 ^ 20.
Proof. repeat split; reflexivity. Qed.
Print Assumptions C02_constants.

(** * Which arguments are rejected *)
Theorem C02_extract_accepts_iff : forall pres s ts,
  (exists ps, extract_subsequences pres s ts = Ok ps) <->
  is_quantized s = false /\ (2 <= length ts)%nat /\ StronglySorted Z.le ts /\
  Forall (fun t => t < s_total s) (removelast ts).
Proof. exact extract_ok_iff. Qed.
Print Assumptions C02_extract_accepts_iff.

Theorem C02_extract_error_cases : forall pres s ts e,
  extract_subsequences pres s ts = Err e ->
  match e with
  | ErrQuantized => is_quantized s = true
  | ErrTooFew => (length ts < 2)%nat
  | ErrUnsorted => ~ StronglySorted Z.le ts
  | ErrPastEnd => ~ Forall (fun t => t < s_total s) (removelast ts)
  | ErrZeroHop => False
  end.
Proof. exact extract_error_cases. Qed.
Print Assumptions C02_extract_error_cases.

(** * Refinement: every piece is the filter/map/last specification of its interval *)
Theorem C02_extract_refines_spec : forall pres s ts ps,
  extract_subsequences pres s ts = Ok ps ->
  length ps = length (intervals ts) /\
  forall i a b p, nth_error (intervals ts) i = Some (a, b) -> nth_error ps i = Some p ->
    s_notes p = notes_spec a b (sort_by n_start (s_notes s)) /\
    s_tempos p = state_spec tp_time tempo_with_time a b (s_tempos s) /\
    s_tsigs p = state_spec ts_time tsig_with_time a b (s_tsigs s) /\
    s_ksigs p = state_spec ks_time ksig_with_time a b (s_ksigs s) /\
    s_texts p = state_spec tx_time text_with_time a b (chords_of s) ++ beats_spec a b (beats_of s) /\
    (forall kk, with_key kk (s_ccs p) = pedal_spec pres kk a b s) /\
    s_total p = max_end (s_notes p) /\
    s_sub p = (a, s_total s - a - s_total p).
Proof. exact extract_refines_spec. Qed.
Print Assumptions C02_extract_refines_spec.

(** * Notes are partitioned *)
Theorem C02_extract_notes_partition : forall pres s ts ps,
  extract_subsequences pres s ts = Ok ps ->
  forall i a b p, nth_error (intervals ts) i = Some (a, b) -> nth_error ps i = Some p ->
  Permutation (s_notes p)
              (map (clipshift a b) (filter (fun n => in_piece a b (n_start n)) (s_notes s))).
Proof. exact extract_notes_partition. Qed.
Print Assumptions C02_extract_notes_partition.

Theorem C02_clipshift_changes_only_times : forall a b n,
  let m := clipshift a b n in
  n_start m = n_start n - a /\ n_end m = Z.min (n_end n) b - a /\
  n_pitch m = n_pitch n /\ n_vel m = n_vel n /\ n_instr m = n_instr n /\ n_prog m = n_prog n /\
  n_drum m = n_drum n /\ n_qstart m = n_qstart n /\ n_qend m = n_qend n /\ n_rest m = n_rest n.
Proof. exact clipshift_fields. Qed.
Print Assumptions C02_clipshift_changes_only_times.

Theorem C02_pieces_disjoint : forall ts, StronglySorted Z.le ts ->
  forall i j a b a' b' x,
    nth_error (intervals ts) i = Some (a, b) -> nth_error (intervals ts) j = Some (a', b') ->
    in_piece a b x = true -> in_piece a' b' x = true -> i = j.
Proof. exact intervals_disjoint. Qed.
Print Assumptions C02_pieces_disjoint.

Theorem C02_pieces_cover : forall ts x, ts <> [] -> nth 0 ts 0 <= x < last ts 0 ->
  exists i a b, nth_error (intervals ts) i = Some (a, b) /\ in_piece a b x = true.
Proof. exact intervals_cover. Qed.
Print Assumptions C02_pieces_cover.

(** * State carried over: the value in effect at every instant of every piece *)
Theorem C02_extract_state_in_effect : forall pres s ts ps,
  extract_subsequences pres s ts = Ok ps ->
  forall i a b p, nth_error (intervals ts) i = Some (a, b) -> nth_error ps i = Some p ->
  forall tau, 0 <= tau < b - a ->
    in_effect tp_time tempo_with_time (s_tempos p) tau
      = in_effect tp_time tempo_with_time (s_tempos s) (a + tau) /\
    in_effect ts_time tsig_with_time (s_tsigs p) tau
      = in_effect ts_time tsig_with_time (s_tsigs s) (a + tau) /\
    in_effect ks_time ksig_with_time (s_ksigs p) tau
      = in_effect ks_time ksig_with_time (s_ksigs s) (a + tau) /\
    in_effect tx_time text_with_time (chords_of p) tau
      = in_effect tx_time text_with_time (chords_of s) (a + tau) /\
    forall kk, in_effect cc_time cc_with_time (with_key kk (s_ccs p)) tau
               = in_effect cc_time cc_with_time (with_key kk (pedals_of pres s)) (a + tau).
Proof. exact extract_state_in_effect. Qed.
Print Assumptions C02_extract_state_in_effect.

(** * Beats, total_time, subsequence_info *)
Theorem C02_extract_beats : forall pres s ts ps,
  extract_subsequences pres s ts = Ok ps ->
  forall i a b p, nth_error (intervals ts) i = Some (a, b) -> nth_error ps i = Some p ->
  Permutation (beats_of p)
              (map (fun e => text_with_time e (tx_time e - a))
                   (filter (fun e => in_piece a b (tx_time e)) (beats_of s))).
Proof. exact extract_beats. Qed.
Print Assumptions C02_extract_beats.

Theorem C02_extract_total_time : forall pres s ts ps,
  extract_subsequences pres s ts = Ok ps ->
  forall i a b p, nth_error (intervals ts) i = Some (a, b) -> nth_error ps i = Some p ->
  s_total p = max_end (s_notes p) /\
  s_sub p = (a, s_total s - a - s_total p).
Proof. exact extract_total_time. Qed.
Print Assumptions C02_extract_total_time.

Theorem C02_max_end_is_last_note_end : forall ns,
  Forall (fun n => n_end n <= max_end ns) ns /\
  (max_end ns = 0 \/ exists n, In n ns /\ n_end n = max_end ns).
Proof. exact max_end_spec. Qed.
Print Assumptions C02_max_end_is_last_note_end.

Theorem C02_extract_events_inside_piece : forall pres s ts ps,
  extract_subsequences pres s ts = Ok ps ->
  forall i a b p, nth_error (intervals ts) i = Some (a, b) -> nth_error ps i = Some p ->
  Forall (fun e => tp_time e = 0 \/ 0 < tp_time e < b - a) (s_tempos p) /\
  Forall (fun e => ts_time e = 0 \/ 0 < ts_time e < b - a) (s_tsigs p) /\
  Forall (fun e => ks_time e = 0 \/ 0 < ks_time e < b - a) (s_ksigs p) /\
  Forall (fun e => tx_time e = 0 \/ 0 < tx_time e < b - a) (chords_of p) /\
  Forall (fun e => 0 <= tx_time e < b - a) (beats_of p) /\
  Forall (fun e => cc_time e = 0 \/ 0 < cc_time e < b - a) (s_ccs p) /\
  Forall (fun n => 0 <= n_start n < b - a /\ n_end n <= b - a) (s_notes p).
Proof. exact extract_events_inside. Qed.
Print Assumptions C02_extract_events_inside_piece.

Theorem C02_extract_notes_order_independent : forall pres s s' ts ps ps',
  Permutation (s_notes s) (s_notes s') ->
  extract_subsequences pres s ts = Ok ps -> extract_subsequences pres s' ts = Ok ps' ->
  forall i p p', nth_error ps i = Some p -> nth_error ps' i = Some p' ->
  Permutation (s_notes p) (s_notes p').
Proof. exact extract_notes_order_independent. Qed.
Print Assumptions C02_extract_notes_order_independent.

(** * trim_note_sequence *)
Theorem C02_trim_spec : forall s a b,
  (is_quantized s = true -> trim s a b = Err ErrQuantized) /\
  (is_quantized s = false ->
   exists p, trim s a b = Ok p /\
     s_notes p = map (fun n => note_with_times n (n_start n) (Z.min (n_end n) b))
                     (filter (fun n => in_piece a b (n_start n)) (s_notes s)) /\
     s_total p = Z.min (s_total s) b /\
     s_tempos p = s_tempos s /\ s_tsigs p = s_tsigs s /\ s_ksigs p = s_ksigs s /\
     s_texts p = s_texts s /\ s_ccs p = s_ccs s /\ s_bends p = s_bends s /\ s_sects p = s_sects s).
Proof. exact trim_spec. Qed.
Print Assumptions C02_trim_spec.

Theorem C02_trim_agrees_with_extract : forall pres s a b p q,
  trim s a b = Ok p -> extract_subsequence pres s a b = Ok q ->
  Permutation (s_notes q)
              (map (fun n => note_with_times n (n_start n - a) (n_end n - a)) (s_notes p)).
Proof. exact trim_vs_extract. Qed.
Print Assumptions C02_trim_agrees_with_extract.

(** * Split points: list form and hop form of split_note_sequence *)
Theorem C02_split_list_points : forall s l skip,
  split_list s l skip =
  extract_valid s (finish (s_total s)
                          (0 :: filter (split_allowed skip (s_notes s)) (sort_by (fun t => t) l))).
Proof. exact split_list_spec. Qed.
Print Assumptions C02_split_list_points.

Theorem C02_hop_multiples : forall hop total t, 0 < hop ->
  (In t (arange hop total) <-> exists k, 1 <= k /\ t = k * hop /\ t < total).
Proof. exact arange_In. Qed.
Print Assumptions C02_hop_multiples.

Theorem C02_split_hop_points : forall s hop skip, 0 < hop ->
  let valid := finish (s_total s) (0 :: filter (split_allowed skip (s_notes s)) (arange hop (s_total s))) in
  split_hop s hop skip = extract_valid s valid /\ strictly_inc valid /\
  (is_quantized s = false -> exists ps, split_hop s hop skip = Ok ps).
Proof. exact split_hop_spec. Qed.
Print Assumptions C02_split_hop_points.

Theorem C02_split_hop_nonpositive : forall s hop skip,
  (hop = 0 -> split_hop s hop skip = Err ErrZeroHop) /\
  (hop < 0 -> split_hop s hop skip = extract_valid s (finish (s_total s) [0])).
Proof. exact split_hop_nonpositive. Qed.
Print Assumptions C02_split_hop_nonpositive.

(** * Split points: time-signature and tempo changes *)
Theorem C02_split_time_change_points : forall s skip,
  exists pts,
    tc_valid s skip = finish (s_total s) (0 :: pts) /\
    strictly_inc (0 :: pts) /\
    (forall t, In t pts <->
               In t (map tc_time (genuine tc_init (tc_events s))) /\ 0 < t /\
               split_allowed skip (s_notes s) t = true) /\
    strictly_inc (tc_valid s skip) /\
    (is_quantized s = false -> exists ps, split_time_changes s skip = Ok ps).
Proof. exact tc_valid_points. Qed.
Print Assumptions C02_split_time_change_points.

Theorem C02_time_change_candidates_before_total : forall s t,
  In t (map tc_time (genuine tc_init (tc_events s))) -> t < s_total s.
Proof. exact tc_candidates_before_total. Qed.
Print Assumptions C02_time_change_candidates_before_total.

(** * Split points: silence *)
Theorem C02_split_silence_points : forall s gap,
  exists pts,
    silence_valid s gap = finish (s_total s) (0 :: pts) /\
    (forall t, In t pts <->
               exists pre n post, sort_by n_start (s_notes s) = pre ++ n :: post /\
                                  t = n_start n /\ n_start n > active 0 pre + gap).
Proof. exact silence_valid_points. Qed.
Print Assumptions C02_split_silence_points.

Theorem C02_active_is_latest_end : forall pre la,
  la <= active la pre /\ Forall (fun n => n_end n <= active la pre) pre /\
  (active la pre = la \/ exists n, In n pre /\ n_end n = active la pre).
Proof. exact active_spec. Qed.
Print Assumptions C02_active_is_latest_end.

Theorem C02_split_silence_increasing_and_accepted : forall s gap,
  0 <= gap -> Forall (fun n => n_start n <= n_end n /\ n_end n <= s_total s) (s_notes s) ->
  strictly_inc (silence_valid s gap) /\
  (is_quantized s = false -> exists ps, split_silence s gap = Ok ps).
Proof. exact silence_valid_spec. Qed.
Print Assumptions C02_split_silence_increasing_and_accepted.

(** * Sorting facts the statements above rely on *)
Theorem C02_sort_is_stable_permutation : forall (l : list note),
  Permutation (sort_by n_start l) l /\ StronglySorted (fun x y => n_start x <= n_start y) (sort_by n_start l) /\
  forall p, filter p (sort_by n_start l) = sort_by n_start (filter p l).
Proof. exact (fun l => conj (sort_by_perm n_start l) (conj (sort_by_sorted n_start l) (fun p => filter_sort_by n_start p l))). Qed.
Print Assumptions C02_sort_is_stable_permutation.

(** * Non-vacuity: a concrete sequence is accepted, is cut in three pieces, the 90-qpm tempo set
    before the first cut is carried into every piece, the pedal of instrument 1 likewise, the
    note crossing the second cut is clipped. *)
Definition ex_seq : seq :=
  mkSeq [mkNote 60 100 10 40 0 0 false 0 0 0; mkNote 62 90 35 70 1 0 false 0 0 7]
        [mkTempo 0 120; mkTempo 5 90] [mkTsig 0 4 4; mkTsig 50 3 4] [] []
        [mkCc 2 0 64 127 1 0 false; mkCc 45 0 64 0 1 0 false] [] []
        80 0 0 0 (0, 0) 220 0.

Example C02_nonvacuous :
  exists p0 p1 p2,
    extract_subsequences [64] ex_seq [10; 40; 60; 80] = Ok [p0; p1; p2] /\
    s_notes p0 = [mkNote 60 100 0 30 0 0 false 0 0 0; mkNote 62 90 25 30 1 0 false 0 0 7] /\
    s_tempos p0 = [mkTempo 0 90] /\ s_tempos p2 = [mkTempo 0 90] /\
    s_tsigs p1 = [mkTsig 0 4 4; mkTsig 10 3 4] /\
    s_ccs p0 = [mkCc 0 0 64 127 1 0 false] /\ s_ccs p1 = [mkCc 0 0 64 127 1 0 false; mkCc 5 0 64 0 1 0 false] /\
    s_total p0 = 30 /\ s_sub p1 = (40, 40) /\
    tc_valid ex_seq false = [0; 5; 50; 80] /\
    silence_valid (mkSeq [mkNote 60 100 0 10 0 0 false 0 0 0; mkNote 60 100 50 60 0 0 false 0 0 0]
                         [] [] [] [] [] [] [] 60 0 0 0 (0, 0) 220 0) 30 = [0; 50; 60].
Proof. vm_compute. do 3 eexists. repeat split; reflexivity. Qed.
Print Assumptions C02_nonvacuous.
