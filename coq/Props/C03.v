(** Props/C03.v — C03: writing a NoteSequence to MIDI and reading it back
    preserves the music.  Only statements, [exact], and [Print Assumptions].

    Scope.  The theorems are about  read ∘ pm_roundtrip wr ∘ write  where [write]
    and [read] model note_seq/midi_io.py (after notes/C03-fix-1.diff and
    notes/C03-fix-2.diff) and [pm_roundtrip] is an IDEALISED model of
    pretty_midi + mido that is an assumption, tied to the real library only by
    the differential run (the claim is partial).  Times are integers in units of
    1/(10^6 * resolution) s; a tempo is its MIDI value (microseconds per
    quarter) = the length of one tick in those units.  [chan_exact wr s] says the
    channel writes every tempo of [s] exactly (F19: the real pretty_midi does
    not, for about a fifth of the values; see the [_refuted] theorem). *)
From Coq Require Import ZArith List Bool Permutation.
From NS Require Import Base.NoteSeq Gen.G03 Model.TempoMap Model.MidiGlue
  Proofs.TempoMap Proofs.MidiGlue Proofs.MidiGlueEx Proofs.MidiGlueExt Proofs.MidiGlueSig.
Import ListNotations.
Local Open Scope Z_scope.

(** The tempo map the writer builds for ANY valid sequence (any storage order
    of the tempos) is well formed: positive tempos, non-decreasing ticks. *)
Theorem C03_writer_tempo_map_wellformed : forall s, valid s = true ->
  0 < write_u0 s /\ wf (write_scales s).
Proof. exact writer_map_wf. Qed.
Print Assumptions C03_writer_tempo_map_wellformed.

(** tick -> time of a well-formed map is strictly increasing. *)
Theorem C03_tempo_map_monotone : forall u0 l, 0 < u0 -> wf l ->
  forall k k', k < k' -> tt u0 l k < tt u0 l k'.
Proof. exact tt_mono. Qed.
Print Assumptions C03_tempo_map_monotone.

(** time -> tick -> time moves a time by at most half a tick of some tempo of
    the map (so by less than one tick), and the tick is non-negative. *)
Theorem C03_tick_roundtrip_within_one_tick : forall u0 l, 0 < u0 -> wf l -> forall t, 0 <= t ->
  0 <= ttt u0 l t /\
  exists us, In us (all_us u0 l) /\
    2 * (tt u0 l (ttt u0 l t) - t) <= us /\ - us <= 2 * (tt u0 l (ttt u0 l t) - t).
Proof. exact tick_roundtrip. Qed.
Print Assumptions C03_tick_roundtrip_within_one_tick.

(** tick times are fixed points: a second round trip changes nothing. *)
Theorem C03_tick_times_are_fixed_points : forall u0 l, 0 < u0 -> wf l -> forall k, 0 <= k ->
  ttt u0 l (tt u0 l k) = k.
Proof. exact ttt_tt. Qed.
Print Assumptions C03_tick_times_are_fixed_points.

(** time -> tick is monotone, and two ticks of real time give distinct ticks:
    a note at least two (longest) ticks long keeps a positive length, and notes
    that do not overlap in time do not overlap in ticks. *)
Theorem C03_time_to_tick_monotone : forall u0 l, 0 < u0 -> wf l ->
  forall t t', 0 <= t -> t <= t' -> ttt u0 l t <= ttt u0 l t'.
Proof. exact ttt_mono. Qed.
Print Assumptions C03_time_to_tick_monotone.

Theorem C03_two_ticks_long_stays_positive : forall u0 l U, 0 < u0 -> wf l ->
  (forall us, In us (all_us u0 l) -> us <= U) ->
  forall s e, 0 <= s -> s + 2 * U <= e -> ttt u0 l s < ttt u0 l e.
Proof. exact two_ticks_distinct. Qed.
Print Assumptions C03_two_ticks_long_stays_positive.

(** With an exact channel the loader rebuilds the writer's tick -> time function
    (dropping repeated tempos and tick-0 predecessors does not change it). *)
Theorem C03_loader_rebuilds_tempo_map : forall u0 l, 0 < u0 -> wf l -> forall k, 0 <= k ->
  tt (fst (load_tempos (tempo_events (fun x => x) u0 l)))
     (snd (load_tempos (tempo_events (fun x => x) u0 l))) k = tt u0 l k.
Proof. exact load_tempos_exact. Qed.
Print Assumptions C03_loader_rebuilds_tempo_map.

(** NOTES.  For every valid sequence (any tempo order, any assignment of
    (instrument, program, is_drum) incl. several programs on instrument 0) the
    notes read back are, up to a permutation [l] of the input notes, the same
    notes with pitch / velocity / program / is_drum unchanged, start and end
    snapped to the tick grid (within half a tick), and the instrument number
    replaced by [idx (instrument, program, is_drum)] where [idx] is injective on
    the keys that occur: nothing dropped, duplicated, or moved to another
    program; two notes share an output instrument iff they shared a key. *)
Theorem C03_midi_roundtrip_notes : forall wr s, valid s = true -> chan_exact wr s ->
  exists out l idx, roundtrip wr s = Some out /\
    Permutation (s_notes s) l /\
    s_notes out = map (fun n => conv_note (snap_of s) (idx (note_key n)) n) l /\
    (forall n1 n2, In n1 (s_notes s) -> In n2 (s_notes s) ->
       (idx (note_key n1) = idx (note_key n2) <-> note_key n1 = note_key n2)) /\
    (forall n, In n (s_notes s) -> 0 <= n_start n -> 0 <= n_end n ->
       near_some (write_u0 s) (write_scales s) (snap_of s (n_start n)) (n_start n) /\
       near_some (write_u0 s) (write_scales s) (snap_of s (n_end n)) (n_end n)).
Proof. exact roundtrip_notes_bijection. Qed.
Print Assumptions C03_midi_roundtrip_notes.

(** EVENTS.  The result is organised in output instruments [gs] = (number, key)
    with distinct numbers and distinct keys, one for exactly every key that has
    a note; each carries that key's notes, control changes and pitch bends
    (times snapped, values unchanged) and nothing else; ticks_per_quarter is
    the writer's resolution; and the tempo list read back, placed on the
    writer's tick grid, yields the writer's tick -> time function, i.e. the same
    tempo at every tick (120 qpm may have become explicit, repeated tempos may
    have been merged). *)
Theorem C03_midi_roundtrip_events : forall wr s, valid s = true -> chan_exact wr s ->
  exists out gs, roundtrip wr s = Some out /\
    NoDup (map fst gs) /\ NoDup (map snd gs) /\
    (forall k, In k (map snd gs) <-> exists n, In n (s_notes s) /\ note_key n = k) /\
    s_notes out = flat_map (fun jk => map (conv_note (snap_of s) (fst jk)) (grp_notes s (snd jk))) gs /\
    s_ccs out = flat_map (fun jk => map (conv_cc (snap_of s) (fst jk)) (grp_ccs s (snd jk))) gs /\
    s_bends out = flat_map (fun jk => map (conv_bend (snap_of s) (fst jk)) (grp_bends s (snd jk))) gs /\
    s_tpq out = write_res s /\
    (forall k, 0 <= k ->
       tt (tp_qpm (hd (mkTempo 0 0) (s_tempos out)))
          (rev (map (fun t => (ttt (write_u0 s) (write_scales s) (tp_time t), tp_qpm t)) (tl (s_tempos out)))) k
       = tt (write_u0 s) (write_scales s) k).
Proof. exact roundtrip_structure. Qed.
Print Assumptions C03_midi_roundtrip_events.

(** Key signatures: key + 12 for minor is undone by % 12 and // 12. *)
Theorem C03_key_signature_roundtrip : forall key mode tm, 0 <= key <= 11 ->
  read_ksig (mkPksig (if mode =? KEY_MODE_MINOR then key + MAJOR_TO_MINOR_OFFSET else key) tm)
  = Some (mkKsig tm key (if mode =? KEY_MODE_MINOR then KEY_MODE_MINOR else KEY_MODE_MAJOR)).
Proof. exact ksig_roundtrip. Qed.
Print Assumptions C03_key_signature_roundtrip.

(** The hypotheses are satisfiable by a non-trivial sequence, and the round
    trip of that sequence is what the theorems say. *)
Example C03_roundtrip_nonvacuous :
  valid ex_seq = true /\ chan_exact (fun x => x) ex_seq /\
  match roundtrip (fun x => x) ex_seq with
  | Some out =>
      map (fun n => (n_instr n, n_prog n, n_drum n, n_pitch n, n_vel n)) (s_notes out) =
        [(0, 0, false, 60, 80); (1, 0, true, 36, 82); (2, 5, false, 62, 81); (3, 33, false, 64, 83)] /\
      map (fun c => (cc_instr c, cc_num c, cc_val c)) (s_ccs out) = [(2, 64, 127)] /\
      map (fun b => (pb_instr b, pb_bend b)) (s_bends out) = [(3, -100)] /\
      map (fun k => (ks_key k, ks_mode k)) (s_ksigs out) = [(9, 1)] /\
      map tp_qpm (s_tempos out) = [400000; 600000]
  | None => False
  end.
Proof. exact ex_nonvacuous. Qed.
Print Assumptions C03_roundtrip_nonvacuous.

(** F9 (repaired by notes/C03-fix-2.diff): the note theorem is FALSE of the
    code as it was — every group on instrument 0 reused the one pre-created
    Instrument and only the last survived. *)
Theorem C03_instrument0_reuse_old_code_refuted :
  exists s out, valid s = true /\ chan_exact (fun x => x) s /\
    read (pm_roundtrip (fun x => x) (write_gen false s)) = Some out /\
    (length (s_notes out) < length (s_notes s))%nat.
Proof. exact f9_old_code_loses_notes. Qed.
Print Assumptions C03_instrument0_reuse_old_code_refuted.

(** F19 (third-party, known finding): without [chan_exact] the statement is
    false — a channel that writes 819249 us as 819248 us returns another tempo
    and times that are no longer the snapped originals. *)
Theorem C03_inexact_channel_refuted :
  exists wr s out, valid s = true /\ ~ chan_exact wr s /\ roundtrip wr s = Some out /\
    map tp_qpm (s_tempos out) <> map tp_qpm (s_tempos s) /\
    map n_end (s_notes out) <> map (fun n => snap_of s (n_end n)) (s_notes s).
Proof. exact f19_inexact_channel_changes_tempo. Qed.
Print Assumptions C03_inexact_channel_refuted.

(** [ext] "the result does not depend on the order in which tempos are stored":
    for tempos at distinct times the written tempo map is the same for every
    storage order (false before notes/C03-fix-1.diff, F8). *)
Theorem C03_tempo_storage_order_irrelevant : forall s s', Permutation (s_tempos s) (s_tempos s') ->
  NoDup (map tp_time (s_tempos s)) ->
  write_u0 s = write_u0 s' /\ write_scales s = write_scales s'.
Proof. exact tempo_order_irrelevant. Qed.
Print Assumptions C03_tempo_storage_order_irrelevant.

(** [ext] The property's quantifier (every note at least two ticks of the
    slowest tempo long, no two overlapping notes of one pitch in one
    (instrument, program, is_drum) group) implies the precondition under which
    the idealised channel describes pretty_midi's note-on / note-off pairing. *)
Theorem C03_quantifier_implies_channel_precondition : forall U s, valid s = true -> us_bound U s = true ->
  forallb (long_enough U) (s_notes s) = true -> rt_no_overlap (s_notes s) = true ->
  chan_pre (write s) = true.
Proof. exact chan_pre_holds. Qed.
Print Assumptions C03_quantifier_implies_channel_precondition.

Example C03_quantifier_nonvacuous :
  us_bound 600000 ex_seq = true /\ forallb (long_enough 600000) (s_notes ex_seq) = true /\
  rt_no_overlap (s_notes ex_seq) = true /\ chan_pre (write ex_seq) = true /\
  NoDup (map tp_time (s_tempos ex_seq)).
Proof. exact ex_quantifier_ok. Qed.
Print Assumptions C03_quantifier_nonvacuous.

(** [ext] Time and key signatures: the lists read back are the input lists in
    stable tick order (a default 4/4 first when no signature has time <= 0),
    times snapped to the tick grid, numerator / denominator / key unchanged, the
    mode normalised to MAJOR / MINOR (the +12 offset undone).  Hence the
    signature in effect from each tick on is the input's (the one stored later
    wins among signatures that share a tick). *)
Theorem C03_midi_roundtrip_signatures : forall wr s out, valid s = true -> chan_exact wr s ->
  roundtrip wr s = Some out ->
  s_tsigs out = map (fun e => mkTsig (tt (write_u0 s) (write_scales s) (fst e)) (fst (snd e)) (snd (snd e)))
                    (tsort (tsig_events s)) /\
  s_ksigs out = map (fun e => mkKsig (tt (write_u0 s) (write_scales s) (fst e)) (fst (snd e)) (norm_mode (snd (snd e))))
                    (tsort (ksig_events s)).
Proof. exact roundtrip_signatures. Qed.
Print Assumptions C03_midi_roundtrip_signatures.
