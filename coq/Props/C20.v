(** Props/C20.v — C20: audio sample helpers are lossless on 16-bit PCM and
    exact about lengths.  Only statements, [exact], and [Print Assumptions]. *)
From Coq Require Import ZArith List Bool Reals SpecFloat.
From Coq Require PrimFloat.
(* PrimFloat is deliberately not imported: Print Assumptions then prints the primitives
   with their qualified names (PrimFloat.mul, ...), which is what the engine's allow-list matches. *)
From Flocq Require Import Core.
From NS Require Gen.TrF Proofs.TrEquivF20.
From NS Require Import Base.FloatBridge Model.Audio Proofs.AudioPcm Proofs.Audio Proofs.AudioFloat.
Import ListNotations.
Local Open Scope Z_scope.

(** int16 -> float32 (IEEE binary32 division by 32767) -> int16 (binary32
    multiplication by 32767, truncation) is the identity on ALL 65536 values
    (complete enumeration in the kernel). *)
Theorem C20_pcm_roundtrip : forall v,
  I16_MIN <= v <= I16_MAX -> f32_to_i16 (i16_to_f32 v) = Some v.
Proof. exact pcm_roundtrip. Qed.
Print Assumptions C20_pcm_roundtrip.

Theorem C20_pcm_injective : forall v w,
  I16_MIN <= v <= I16_MAX -> I16_MIN <= w <= I16_MAX -> i16_to_f32 v = i16_to_f32 w -> v = w.
Proof. exact pcm_injective. Qed.
Print Assumptions C20_pcm_injective.

(** The float32 sample is the binary32 number nearest to v/32767: a normal 24-bit
    float +-m*2^e with |m*2^e - v/32767| < 2^e/2 (stated in Z, scaled by 32767*2^-e),
    for ALL 65536 values — an integer-only check independent of SFdiv. *)
Theorem C20_pcm_f32_is_nearest : forall v, I16_MIN <= v <= I16_MAX ->
  match i16_to_f32 v with
  | S754_zero _ => v = 0
  | S754_finite s m e =>
      2 ^ 23 <= Zpos m < 2 ^ 24 /\ -149 <= e < 0 /\
      2 * Z.abs ((if s then Zneg m else Zpos m) * I16_MAX - v * 2 ^ (- e)) < I16_MAX
  | _ => False
  end.
Proof. exact pcm_f32_nearest_prop. Qed.
Print Assumptions C20_pcm_f32_is_nearest.

(** samples_to_wav_data then wav_data_to_samples at the same rate, minus the
    container: a mono 16-bit signal of any length is reproduced exactly, both
    as PCM and as float32 samples. *)
Theorem C20_wav_pcm_roundtrip : forall xs,
  Forall (fun v => I16_MIN <= v <= I16_MAX) xs -> f32s_to_i16s (i16s_to_f32s xs) = Some xs.
Proof. exact pcm_roundtrip_list. Qed.
Print Assumptions C20_wav_pcm_roundtrip.

Theorem C20_wav_float_roundtrip : forall xs,
  Forall (fun v => I16_MIN <= v <= I16_MAX) xs ->
  wav_roundtrip (i16s_to_f32s xs) = Some (i16s_to_f32s xs).
Proof. exact wav_roundtrip_id. Qed.
Print Assumptions C20_wav_float_roundtrip.

(** crop_samples: with a = int(fl(begin*rate)) >= 0 and n = int(fl(length*rate)) >= 0
    the result is exactly the samples with index in [a, a+n) /\ [0, len), in order. *)
Theorem C20_crop_spec : forall (A : Type) (x : list A) rate b t a n,
  crop_bounds rate b t = Ok (a, n) -> 0 <= a -> 0 <= n ->
  exists out, crop x rate b t = Ok out /\
    zlen out = Z.max 0 (Z.min (a + n) (zlen x) - a) /\
    forall i, 0 <= i -> znth out i = if i <? n then znth x (a + i) else None.
Proof. exact @crop_spec. Qed.
Print Assumptions C20_crop_spec.

(** the two sample counts are the truncations of the correctly rounded real
    products, for every rate 1..2^18 and every finite time within +-2^31 s *)
Theorem C20_crop_bounds_total : forall rate b t,
  rate_ok rate = true -> time_ok b = true -> time_ok t = true ->
  crop_bounds rate b t = Ok (Ztrunc (rnd (R_of b * IZR rate)), Ztrunc (rnd (R_of t * IZR rate))).
Proof. exact crop_bounds_total. Qed.
Print Assumptions C20_crop_bounds_total.

(** crop_samples raises only OverflowError, exactly when a product is infinite *)
Theorem C20_crop_error : forall (A : Type) (x : list A) rate b t c,
  crop x rate b t = Err c ->
  c = E_OVERFLOW /\ (finb (PrimFloat.mul b (f_of_Z rate)) = false \/ finb (PrimFloat.mul t (f_of_Z rate)) = false).
Proof. exact @crop_error. Qed.
Print Assumptions C20_crop_error.

(** repeat_samples_to_duration (with notes/C20-fix-1.diff): for every signal of
    1..2^32 samples, every integer rate 1..2^18 (the property's five rates
    included) and every finite duration 0 <= d <= 2^31 s, the result has exactly
    int(fl(d*rate)) samples and sample i is x[i mod len]. *)
Theorem C20_repeat_spec : forall (A : Type) (x : list A) rate d,
  len_ok (zlen x) = true -> rate_ok rate = true -> dur_ok d = true ->
  exists out, repeat_to_duration x rate d = Ok out /\
    zlen out = trunc (PrimFloat.mul d (f_of_Z rate)) /\
    forall i, 0 <= i < zlen out -> znth out i = znth x (i mod zlen x).
Proof. exact @repeat_spec. Qed.
Print Assumptions C20_repeat_spec.

(** the float premise behind it: the concatenated copies cover the request *)
Theorem C20_repeat_copies_cover_request : forall len rate d,
  len_ok len = true -> rate_ok rate = true -> dur_ok d = true ->
  exists k n, num_repeats len rate d = Ok k /\ crop_bounds rate PrimFloat.zero d = Ok (0, n) /\
              0 <= n <= k * len /\ n = trunc (PrimFloat.mul d (f_of_Z rate)).
Proof. exact repeat_lengths. Qed.
Print Assumptions C20_repeat_copies_cover_request.

(** ... and for any inputs whatever, IF the copies cover the request the result is right *)
Theorem C20_repeat_spec_given_lengths : forall (A : Type) (x : list A) rate d k n,
  0 < zlen x ->
  num_repeats (zlen x) rate d = Ok k -> crop_bounds rate PrimFloat.zero d = Ok (0, n) ->
  0 <= n <= k * zlen x ->
  exists out, repeat_to_duration x rate d = Ok out /\
    zlen out = n /\ forall i, 0 <= i < n -> znth out i = znth x (i mod zlen x).
Proof. exact @repeat_spec_given_lengths. Qed.
Print Assumptions C20_repeat_spec_given_lengths.

(** without the size bound the premise is false (needs > 2^52 samples) *)
Theorem C20_repeat_premise_unbounded_refuted :
  exists (len rate : Z) d (k n : Z), len_ok len = true /\ rate = 8000 /\ finb d = true /\ PrimFloat.leb PrimFloat.zero d = true /\
    num_repeats len rate d = Ok k /\ crop_bounds rate PrimFloat.zero d = Ok (0, n) /\ k * len < n.
Proof. exact repeat_premise_unbounded_refuted. Qed.
Print Assumptions C20_repeat_premise_unbounded_refuted.

(** which inputs repeat_samples_to_duration rejects, and with what *)
Theorem C20_repeat_error : forall (A : Type) (x : list A) rate d c,
  repeat_to_duration x rate d = Err c ->
  (c = E_ZERODIV /\ (rate = 0 \/ PrimFloat.eqb (seq_duration (zlen x) rate) PrimFloat.zero = true)) \/
  (c = E_OVERFLOW /\ (finb (PrimFloat.div d (seq_duration (zlen x) rate)) = false \/
                      finb (PrimFloat.mul PrimFloat.zero (f_of_Z rate)) = false \/
                      finb (PrimFloat.mul d (f_of_Z rate)) = false)) \/
  (c = E_CONCAT_EMPTY /\ exists k, num_repeats (zlen x) rate d = Ok k /\ k < 0).
Proof. exact @repeat_error. Qed.
Print Assumptions C20_repeat_error.

(** the code before C20-fix-1 raises on duration 0 where 0 samples are requested *)
Theorem C20_repeat_zero_unfixed_refuted :
  exists (x : list Z) rate d, x <> [] /\ crop_bounds rate PrimFloat.zero d = Ok (0, 0) /\
    repeat_to_duration_unfixed x rate d = Err E_CONCAT_EMPTY /\
    repeat_to_duration x rate d = Ok [].
Proof. exact repeat_zero_unfixed_refuted. Qed.
Print Assumptions C20_repeat_zero_unfixed_refuted.

(** make_stereo: max length, both channels in order, zeros as padding *)
Theorem C20_stereo_spec : forall d l r,
  exists out, make_stereo d d l r = Ok out /\
    length out = Nat.max (length l) (length r) /\
    forall i, (i < Nat.max (length l) (length r))%nat ->
      nth_error out i = Some (nth i l 0, nth i r 0).
Proof. exact stereo_spec. Qed.
Print Assumptions C20_stereo_spec.

Theorem C20_stereo_dtype_mismatch : forall dl dr l r,
  dl <> dr -> make_stereo dl dr l r = Err E_DTYPE.
Proof. exact stereo_dtype_mismatch. Qed.
Print Assumptions C20_stereo_dtype_mismatch.

(** Non-vacuity: the hypotheses are met by ordinary values, and the conclusions are not trivial there. *)
Example C20_nonvacuous :
  len_ok 100000 = true /\ rate_ok 44100 = true /\ rate_ok 22050 = true /\
  dur_ok (f_of_me 5 (-1)) = true /\ time_ok (f_of_me 3 (-2)) = true /\
  repeat_to_duration [7; 8; 9] 8000 (f_of_me 1 (-10)) = Ok [7; 8; 9; 7; 8; 9; 7] /\
  crop [0; 1; 2; 3; 4; 5; 6; 7; 8; 9] 8000 (f_of_me 1 (-11)) (f_of_me 1 (-10)) = Ok [3; 4; 5; 6; 7; 8; 9] /\
  i16_to_f32 1 = S754_finite false 8388864 (-38) /\
  make_stereo 1 1 [1; 2; 3] [7] = Ok [(1, 7); (2, 0); (3, 0)].
Proof. vm_compute. repeat split; reflexivity. Qed.
Print Assumptions C20_nonvacuous.

(** Source-level tie (second kind): the sample-count arithmetic of crop_samples and repeat_samples_to_duration,
    re-translated from the SOURCE on every run into PrimFloat terms (Gen/TrF.v, harness/vt/pytr.py; `len(samples)`
    is a parameter), equals the hand-written model, error cases included ([None] = the Python code raises). *)
Theorem C20_source_crop_bounds : forall rate b t,
  NS.Proofs.TrEquivF20.slice_of_bounds (NS.Proofs.TrEquivF20.opt_of_res (crop_bounds rate b t)) =
  NS.Gen.TrF.trf_crop_slice rate b t.
Proof. exact NS.Proofs.TrEquivF20.trf_crop_bounds_eq. Qed.
Print Assumptions C20_source_crop_bounds.

Theorem C20_source_num_repeats : forall len rate d,
  NS.Proofs.TrEquivF20.rate_zero_agrees rate = true ->
  NS.Proofs.TrEquivF20.opt_of_res (num_repeats len rate d) = NS.Gen.TrF.trf_num_repeats len rate d.
Proof. exact NS.Proofs.TrEquivF20.trf_num_repeats_eq. Qed.
Print Assumptions C20_source_num_repeats.

Theorem C20_source_quantifier_rates :
  forallb NS.Proofs.TrEquivF20.rate_zero_agrees (0 :: 8000 :: 16000 :: 22050 :: 44100 :: 48000 :: nil) = true.
Proof. exact NS.Proofs.TrEquivF20.quantifier_rates_agree. Qed.
Print Assumptions C20_source_quantifier_rates.
