(** Props/C06.v — C06: rendering an event sequence to notes (to_sequence), quantizing at the same
    resolution and extracting again is the identity on canonical event sequences, at any tempo.
    Only statements, [exact], and [Print Assumptions].

    Step level (pure Z / lists, closed under the global context): for each type a BOOLEAN predicate
    [canonical_T] (Model/Render*.v), [roundtrip_steps_T] (canonical => extraction (render es) = es, same start
    step and resolution) and [extraction_canonical_T] (whatever extraction returns is canonical), plus a
    non-trivial canonical value.  Float level (binary64, Flocq): quantize_to_step of the rendered time of a step
    is the step, for the three seconds_per_step formulas of the code.  Composition: the re-quantized rendering
    IS the step-level sequence, hence the round trip holds through the floats at any tempo in range.

    The chord models follow note_seq AFTER notes/C06-fix-1.diff (ChordProgression.to_sequence honours its
    start_step); [C06_chords_legacy_refuted] records that the theorem is false of the code before it.
    The pianoroll theorems are parametric in [legacy] (before / after notes/C06-fix-2.diff);
    [C06_pianoroll_legacy_refuted] records what the code before it loses. *)
From Coq Require Import ZArith List Bool Reals.
From NS Require Gen.TrF Proofs.TrEquivF06 Proofs.TrEquivF.
From NS Require Import Base.NoteSeq Base.FloatBridge Gen.G01 Gen.G06 Gen.G07 Model.Quantize Model.FqCommon Model.FqMelody
  Model.FqDrums Model.FqChords Model.FqPianoroll Model.FqPerformance Model.FqSpec
  Model.RenderCommon Model.RenderMelody Model.RenderDrums Model.RenderChords Model.RenderPianoroll
  Model.RenderPerformance Model.RenderFloat
  Proofs.FqCommon Proofs.RenderMelody Proofs.RenderDrums Proofs.RenderChords Proofs.RenderPianoroll
  Proofs.RenderPerformance Proofs.RenderPerfCanon Proofs.RenderPerfWide Proofs.RenderFloat Proofs.RenderSamples Proofs.RenderCompose.
Import ListNotations.
Local Open Scope Z_scope.

(** * Melody *)
Theorem C06_roundtrip_steps_melody : forall s spb p v i pr s0 es,
  s_notes s = mel_to_step_notes v i pr s0 es ->
  steps_per_bar s = Ok spb ->
  mp_instrument p = i -> v <> 0 ->
  canonical_melody spb (mp_search_start p) (mp_gap_bars p) (mp_pad_end p) s0 es = true ->
  mel_from_quantized p s = Ok (mkMelResult es s0 (s0 + len es) spb (s_spq s)).
Proof. exact roundtrip_steps_melody. Qed.
Print Assumptions C06_roundtrip_steps_melody.

Theorem C06_extraction_canonical_melody : forall p s spb r,
  steps_per_bar s = Ok spb -> 0 < spb -> 0 < mp_gap_bars p -> 0 <= mp_search_start p ->
  Forall (fun n => MIN_MIDI_PITCH <= n_pitch n <= MAX_MIDI_PITCH /\ n_qstart n < n_qend n) (s_notes s) ->
  mel_from_quantized p s = Ok r ->
  canonical_melody spb (mp_search_start p) (mp_gap_bars p) (mp_pad_end p) (me_start r) (me_events r) = true
  /\ me_end r = me_start r + len (me_events r).
Proof. exact extraction_canonical_melody. Qed.
Print Assumptions C06_extraction_canonical_melody.

(** * DrumTrack *)
Theorem C06_roundtrip_steps_drums : forall s spb p v i pr s0 es,
  s_notes s = dr_to_step_notes v i pr s0 es ->
  steps_per_bar s = Ok spb ->
  v <> 0 ->
  canonical_drums spb (dp_search_start p) (dp_gap_bars p) (dp_pad_end p) s0 es = true ->
  dr_from_quantized p s = Ok (mkDrResult es s0 (s0 + len es) spb (s_spq s)).
Proof. exact roundtrip_steps_drums. Qed.
Print Assumptions C06_roundtrip_steps_drums.

Theorem C06_extraction_canonical_drums : forall p s spb r,
  steps_per_bar s = Ok spb -> 0 < spb -> 0 <= dp_search_start p ->
  dr_from_quantized p s = Ok r ->
  canonical_drums spb (dp_search_start p) (dp_gap_bars p) (dp_pad_end p) (de_start r) (de_events r) = true
  /\ de_end r = de_start r + len (de_events r).
Proof. exact extraction_canonical_drums. Qed.
Print Assumptions C06_extraction_canonical_drums.

(** * ChordProgression (after notes/C06-fix-1.diff) *)
Theorem C06_roundtrip_steps_chords : forall s spb s0 e0 es,
  s_texts s = ch_to_step_texts false s0 es ->
  steps_per_bar s = Ok spb ->
  canonical_chords s0 e0 es = true ->
  ch_from_quantized s s0 e0 = Ok (mkChResult es s0 e0 spb (s_spq s)).
Proof. exact roundtrip_steps_chords. Qed.
Print Assumptions C06_roundtrip_steps_chords.

Theorem C06_extraction_canonical_chords : forall s a b r,
  0 <= a -> ch_from_quantized s a b = Ok r ->
  canonical_chords (ce_start r) (ce_end r) (ce_events r) = true /\ ce_start r = a /\ ce_end r = b.
Proof. exact extraction_canonical_chords. Qed.
Print Assumptions C06_extraction_canonical_chords.

(** the code before the fix renders chord annotations without the progression's start_step: the round trip is
    FALSE for a canonical progression that starts at a later bar (witness: spq 4, 4/4, start 16, C C G G) *)
Theorem C06_chords_legacy_refuted : exists spq ts spb s0 e0 es,
  steps_per_bar (ch_rseq true spq ts s0 es) = Ok spb /\ canonical_chords s0 e0 es = true /\
  ch_from_quantized (ch_rseq true spq ts s0 es) s0 e0 <> Ok (mkChResult es s0 e0 spb spq).
Proof. exact chords_legacy_refuted. Qed.
Print Assumptions C06_chords_legacy_refuted.

(** * LeadSheet = melody + chords of one sequence, re-extracted melody first *)
Theorem C06_roundtrip_steps_leadsheet : forall s spb p v i s0 mel chs,
  s_notes s = mel_to_step_notes v i 0 s0 mel ->
  s_texts s = ch_to_step_texts false s0 chs ->
  steps_per_bar s = Ok spb ->
  mp_instrument p = i -> v <> 0 ->
  canonical_leadsheet spb (mp_search_start p) (mp_gap_bars p) (mp_pad_end p) s0 mel chs = true ->
  ls_from_quantized p s
  = Ok (mkMelResult mel s0 (s0 + len mel) spb (s_spq s), mkChResult chs s0 (s0 + len mel) spb (s_spq s)).
Proof. exact roundtrip_steps_leadsheet. Qed.
Print Assumptions C06_roundtrip_steps_leadsheet.

(** * PianorollSequence.  [legacy = false]: the code after notes/C06-fix-2.diff (to_sequence spans all frames);
    [legacy = true]: the code before it, where a canonical sequence must end with a non-empty frame. *)
Theorem C06_roundtrip_steps_pianoroll : forall legacy spq ts v i pr minp maxp split s0 es,
  0 < spq -> minp <= maxp + 1 ->
  canonical_pianoroll legacy minp maxp s0 es = true ->
  pr_from_quantized (mkPrParams s0 minp maxp split) (pr_rseq legacy spq ts v i pr minp s0 es)
  = Ok (mkPrResult es s0 spq).
Proof. exact roundtrip_steps_pianoroll. Qed.
Print Assumptions C06_roundtrip_steps_pianoroll.

(** [pr_tight]: total_quantized_steps is the end of a kept note (or there is no frame at all), i.e. the
    quantized sequence has no trailing silence — needed for the legacy code only *)
Theorem C06_extraction_canonical_pianoroll : forall legacy p s r,
  0 <= pp_start p ->
  (forall n, In n (s_notes s) -> n_qend n <= s_qsteps s /\ n_qstart n < n_qend n) ->
  (legacy = true -> pr_tight p s) ->
  pr_from_quantized p s = Ok r ->
  canonical_pianoroll legacy (pp_min_pitch p) (pp_max_pitch p) (pe_start r) (pe_events r) = true.
Proof. exact extraction_canonical_pianoroll. Qed.
Print Assumptions C06_extraction_canonical_pianoroll.

(** the code before the fix loses the last frame of a sequence that ends in silence (witness [[1];[];[]]) *)
Theorem C06_pianoroll_legacy_refuted : exists spq ts v i pr minp maxp split s0 es,
  0 < spq /\ minp <= maxp + 1 /\ canonical_pianoroll false minp maxp s0 es = true /\
  pr_from_quantized (mkPrParams s0 minp maxp split) (pr_rseq true spq ts v i pr minp s0 es)
  <> Ok (mkPrResult es s0 spq).
Proof. exact pianoroll_legacy_refuted. Qed.
Print Assumptions C06_pianoroll_legacy_refuted.

(** * NotePerformance *)
Theorem C06_roundtrip_steps_noteperf : forall p md i pr drum evs,
  (match fp_instrument p with None => True | Some j => j = i end) ->
  canonical_noteperf (fp_bins p) (fp_max_shift p) md evs = true ->
  np_from_quantized p md (np_rnotes p i pr drum evs) = Ok evs.
Proof. exact roundtrip_steps_noteperf. Qed.
Print Assumptions C06_roundtrip_steps_noteperf.

Theorem C06_extraction_canonical_noteperf : forall p md ns evs,
  0 <= fp_bins p ->
  Forall (fun n => MIN_MIDI_VELOCITY <= n_vel n) ns ->
  times_follow_steps (pf_selected p ns) ->
  np_from_quantized p md ns = Ok evs ->
  canonical_noteperf (fp_bins p) (fp_max_shift p) md evs = true.
Proof. exact extraction_canonical_noteperf. Qed.
Print Assumptions C06_extraction_canonical_noteperf.

(** * Performance / MetricPerformance (MetricPerformance passes max_shift_steps = spq * max_shift_quarters) *)
(** the property as literally stated — "canonical means what extraction itself produces": whatever
    extraction returned for a well-formed quantized note list is a fixpoint of render-then-extract *)
Theorem C06_roundtrip_extracted_perf : forall p dv i pr drum ns,
  perf_input_ok p ns ->
  (match fp_instrument p with None => True | Some j => j = i end) ->
  let es := pf_from_quantized p ns in
  pf_from_quantized p (pf_rnotes p dv i pr drum es) = es.
Proof. exact roundtrip_extracted_perf. Qed.
Print Assumptions C06_roundtrip_extracted_perf.

(** structural version: [canonical_perf] is a boolean scan of the event list (shifts in 1..max with only the last
    of a run non-maximal, note-offs matching earlier note-ons in (start, pitch) order before the note-ons in
    pitch order, VELOCITY only on a change and right before a NOTE_ON, every note closed at the end) *)
Theorem C06_roundtrip_steps_perf : forall p dv i pr drum es,
  1 <= fp_max_shift p -> (fp_bins p = 0 \/ 1 <= fp_bins p) ->
  (match fp_instrument p with None => True | Some j => j = i end) ->
  canonical_perf (fp_bins p) (fp_max_shift p) es = true ->
  pf_from_quantized p (pf_rnotes p dv i pr drum es) = es.
Proof. exact roundtrip_steps_perf. Qed.
Print Assumptions C06_roundtrip_steps_perf.

Theorem C06_extraction_canonical_perf : forall p ns,
  perf_input_ok p ns ->
  canonical_perf (fp_bins p) (fp_max_shift p) (pf_from_quantized p ns) = true.
Proof. exact extraction_canonical_perf. Qed.
Print Assumptions C06_extraction_canonical_perf.

(** ** the wider class: one pitch may sound twice at once.  [_to_sequence] pairs NOTE_OFFs with pending NOTE_ONs
    first-in-first-out; [canonical_perf_w] = [canonical_perf] with re-opening of an open pitch allowed and the order
    rules of a step non-strict.  The extractor's input may contain overlapping notes of one pitch as long as they
    are not NESTED ([no_nested_same_pitch], a boolean); for nested ones the claim is false
    ([C06_perf_nested_refuted]), so the boundary is a theorem on both sides. *)
Theorem C06_roundtrip_steps_perf_w : forall p dv i pr drum es,
  1 <= fp_max_shift p -> (fp_bins p = 0 \/ 1 <= fp_bins p) ->
  (match fp_instrument p with None => True | Some j => j = i end) ->
  canonical_perf_w (fp_bins p) (fp_max_shift p) es = true ->
  pf_from_quantized p (pf_rnotes p dv i pr drum es) = es.
Proof. exact roundtrip_steps_perf_w. Qed.
Print Assumptions C06_roundtrip_steps_perf_w.

Theorem C06_extraction_canonical_perf_w : forall p ns,
  1 <= fp_max_shift p -> (fp_bins p = 0 \/ 1 <= fp_bins p) ->
  Forall (fun n => n_qstart n < n_qend n /\ MIN_MIDI_VELOCITY <= n_vel n) ns ->
  no_nested_same_pitch (pf_selected p ns) = true -> times_follow_steps (pf_selected p ns) ->
  canonical_perf_w (fp_bins p) (fp_max_shift p) (pf_from_quantized p ns) = true.
Proof. exact extraction_canonical_perf_w_flat. Qed.
Print Assumptions C06_extraction_canonical_perf_w.

Theorem C06_roundtrip_extracted_perf_w : forall p dv i pr drum ns,
  1 <= fp_max_shift p -> (fp_bins p = 0 \/ 1 <= fp_bins p) ->
  Forall (fun n => n_qstart n < n_qend n /\ MIN_MIDI_VELOCITY <= n_vel n) ns ->
  no_nested_same_pitch (pf_selected p ns) = true -> times_follow_steps (pf_selected p ns) ->
  (match fp_instrument p with None => True | Some j => j = i end) ->
  let es := pf_from_quantized p ns in
  pf_from_quantized p (pf_rnotes p dv i pr drum es) = es.
Proof. exact roundtrip_extracted_perf_w_flat. Qed.
Print Assumptions C06_roundtrip_extracted_perf_w.

Theorem C06_canonical_perf_implies_w : forall nb ms es,
  canonical_perf nb ms es = true -> canonical_perf_w nb ms es = true.
Proof. exact canonical_perf_implies_w. Qed.
Print Assumptions C06_canonical_perf_implies_w.

(** nested same-pitch notes (60@0..8, 64@1..6, 60@2..6; every other hypothesis holding): the extracted performance
    is not canonical and is NOT a fixpoint of render-then-extract, on the model of the unchanged code *)
Theorem C06_perf_nested_refuted : exists p dv i pr drum ns,
  1 <= fp_max_shift p /\ (fp_bins p = 0 \/ 1 <= fp_bins p) /\
  Forall (fun n => n_qstart n < n_qend n /\ MIN_MIDI_VELOCITY <= n_vel n) ns /\
  times_follow_steps (pf_selected p ns) /\
  no_nested_same_pitch (pf_selected p ns) = false /\
  canonical_perf_w (fp_bins p) (fp_max_shift p) (pf_from_quantized p ns) = false /\
  pf_from_quantized p (pf_rnotes p dv i pr drum (pf_from_quantized p ns)) <> pf_from_quantized p ns.
Proof. exact perf_nested_refuted. Qed.
Print Assumptions C06_perf_nested_refuted.

(** * Float level: step -> seconds -> step, for the three seconds_per_step formulas *)
Theorem C06_step_time_roundtrip_rel : forall qpm spq n s0,
  fin qpm -> (10 <= R_of qpm <= 480)%R -> 1 <= spq <= 96 ->
  0 <= n -> 0 <= s0 -> n + s0 <= 2 ^ 31 ->
  rt_rel qpm spq n s0 = n + s0.
Proof. exact step_time_roundtrip_rel. Qed.
Print Assumptions C06_step_time_roundtrip_rel.

Theorem C06_step_time_roundtrip_metric : forall qpm spq n s0,
  fin qpm -> (10 <= R_of qpm <= 480)%R -> 1 <= spq <= 96 ->
  0 <= n -> 0 <= s0 -> n + s0 <= 2 ^ 31 ->
  rt_metric qpm spq n s0 = n + s0.
Proof. exact step_time_roundtrip_metric. Qed.
Print Assumptions C06_step_time_roundtrip_metric.

Theorem C06_step_time_roundtrip_abs : forall sps n s0,
  1 <= sps <= 1000 ->
  0 <= n -> 0 <= s0 -> n + s0 <= 2 ^ 31 ->
  rt_abs sps n s0 = n + s0.
Proof. exact step_time_roundtrip_abs. Qed.
Print Assumptions C06_step_time_roundtrip_abs.

(** rendered times are strictly increasing in the step: sorting by (start_time, pitch) is sorting by
    (step, pitch), the only use the extractors make of note.start_time *)
Theorem C06_step_time_strict_rel : forall qpm spq n1 n2 s0,
  fin qpm -> (10 <= R_of qpm <= 480)%R -> 1 <= spq <= 96 ->
  0 <= n1 < n2 -> 0 <= s0 -> n2 + s0 <= 2 ^ 31 ->
  (R_of (step_time (sigma_rel qpm spq) n1 s0) < R_of (step_time (sigma_rel qpm spq) n2 s0))%R.
Proof. exact step_time_strict_rel. Qed.
Print Assumptions C06_step_time_strict_rel.

Theorem C06_step_time_strict_metric : forall qpm spq n1 n2 s0,
  fin qpm -> (10 <= R_of qpm <= 480)%R -> 1 <= spq <= 96 ->
  0 <= n1 < n2 -> 0 <= s0 -> n2 + s0 <= 2 ^ 31 ->
  (R_of (step_time (sigma_metric qpm spq) n1 s0) < R_of (step_time (sigma_metric qpm spq) n2 s0))%R.
Proof. exact step_time_strict_metric. Qed.
Print Assumptions C06_step_time_strict_metric.

Theorem C06_step_time_strict_abs : forall sps n1 n2 s0,
  1 <= sps <= 1000 ->
  0 <= n1 < n2 -> 0 <= s0 -> n2 + s0 <= 2 ^ 31 ->
  (R_of (step_time (sigma_abs sps) n1 s0) < R_of (step_time (sigma_abs sps) n2 s0))%R.
Proof. exact step_time_strict_abs. Qed.
Print Assumptions C06_step_time_strict_abs.

(** the float model reproduces, bit for bit, the times the REAL to_sequence produced, the real
    steps_per_quarter_to_steps_per_second values and the real quantize_to_step results of the table regenerated
    from /repo on every run (Gen/G06.v) *)
Theorem C06_float_model_matches_samples :
  forallb sample_ok float_samples = true /\ (150 <=? Z.of_nat (length float_samples)) = true.
Proof. exact float_samples_ok. Qed.
Print Assumptions C06_float_model_matches_samples.

(** the constants of the reused C07 models are the ones /repo has now *)
Theorem C06_constants_agree :
  [C6_MELODY_NOTE_OFF; C6_MELODY_NO_EVENT; C6_MIN_MIDI_PITCH; C6_MAX_MIDI_PITCH; C6_MIN_MIDI_VELOCITY;
   C6_MAX_MIDI_VELOCITY; C6_EV_NOTE_ON; C6_EV_NOTE_OFF; C6_EV_TIME_SHIFT; C6_EV_VELOCITY; C6_EV_DURATION;
   C6_CHORD_SYMBOL]
  = [MELODY_NOTE_OFF; MELODY_NO_EVENT; MIN_MIDI_PITCH; MAX_MIDI_PITCH; MIN_MIDI_VELOCITY;
     MAX_MIDI_VELOCITY; EV_NOTE_ON; EV_NOTE_OFF; EV_TIME_SHIFT; EV_VELOCITY; EV_DURATION; CHORD_SYMBOL]
  /\ C6_NO_CHORD = NO_CHORD
  /\ (C6_QUANTIZE_CUTOFF_M, C6_QUANTIZE_CUTOFF_E) = (QUANTIZE_CUTOFF_M, QUANTIZE_CUTOFF_E).
Proof. exact consts_agree. Qed.
Print Assumptions C06_constants_agree.

(** * Composition: re-quantizing the rendered notes / annotations through the floats changes nothing *)
Theorem C06_requantized_notes_are_the_step_notes_rel : forall qpm spq s0 ns,
  fin qpm -> (10 <= R_of qpm <= 480)%R -> 1 <= spq <= 96 ->
  0 <= s0 -> steps_in_range s0 ns = true ->
  map (requant_note (rt_rel qpm spq) s0) ns = ns.
Proof. intros; apply requant_notes_fixed; auto using rt_rel_exact. Qed.
Print Assumptions C06_requantized_notes_are_the_step_notes_rel.

Theorem C06_requantized_notes_are_the_step_notes_metric : forall qpm spq s0 ns,
  fin qpm -> (10 <= R_of qpm <= 480)%R -> 1 <= spq <= 96 ->
  0 <= s0 -> steps_in_range s0 ns = true ->
  map (requant_note (rt_metric qpm spq) s0) ns = ns.
Proof. intros; apply requant_notes_fixed; auto using rt_metric_exact. Qed.
Print Assumptions C06_requantized_notes_are_the_step_notes_metric.

Theorem C06_requantized_notes_are_the_step_notes_abs : forall sps s0 ns,
  1 <= sps <= 1000 ->
  0 <= s0 -> steps_in_range s0 ns = true ->
  map (requant_note (rt_abs sps) s0) ns = ns.
Proof. intros; apply requant_notes_fixed; auto using rt_abs_exact. Qed.
Print Assumptions C06_requantized_notes_are_the_step_notes_abs.

(** fully composed: melody, drum track, chords, lead sheet rendered at ANY finite
    tempo in [10, 480], re-quantized in binary64, extracted again *)
Theorem C06_roundtrip_melody : forall qpm spq ts qsteps spb p v i pr s0 es,
  fin qpm -> (10 <= R_of qpm <= 480)%R -> 1 <= spq <= 96 -> s0 + len es <= 2 ^ 31 ->
  let s := rseq spq ts (map (requant_note (rt_rel qpm spq) s0) (mel_to_step_notes v i pr s0 es)) [] qsteps in
  steps_per_bar s = Ok spb -> mp_instrument p = i -> v <> 0 ->
  canonical_melody spb (mp_search_start p) (mp_gap_bars p) (mp_pad_end p) s0 es = true ->
  mel_from_quantized p s = Ok (mkMelResult es s0 (s0 + len es) spb spq).
Proof. exact roundtrip_melody_float. Qed.
Print Assumptions C06_roundtrip_melody.

Theorem C06_roundtrip_drums : forall qpm spq ts qsteps spb p v i pr s0 es,
  fin qpm -> (10 <= R_of qpm <= 480)%R -> 1 <= spq <= 96 -> s0 + len es <= 2 ^ 31 ->
  let s := rseq spq ts (map (requant_note (rt_rel qpm spq) s0) (dr_to_step_notes v i pr s0 es)) [] qsteps in
  steps_per_bar s = Ok spb -> v <> 0 ->
  canonical_drums spb (dp_search_start p) (dp_gap_bars p) (dp_pad_end p) s0 es = true ->
  dr_from_quantized p s = Ok (mkDrResult es s0 (s0 + len es) spb spq).
Proof. exact roundtrip_drums_float. Qed.
Print Assumptions C06_roundtrip_drums.

Theorem C06_roundtrip_chords : forall qpm spq ts spb s0 e0 es,
  fin qpm -> (10 <= R_of qpm <= 480)%R -> 1 <= spq <= 96 -> s0 + len es <= 2 ^ 31 ->
  let s := rseq spq ts [] (map (requant_text (rt_rel qpm spq) s0) (ch_to_step_texts false s0 es)) 0 in
  steps_per_bar s = Ok spb ->
  canonical_chords s0 e0 es = true ->
  ch_from_quantized s s0 e0 = Ok (mkChResult es s0 e0 spb spq).
Proof. exact roundtrip_chords_float. Qed.
Print Assumptions C06_roundtrip_chords.

Theorem C06_roundtrip_leadsheet : forall qpm spq ts qsteps spb p v i s0 mel chs,
  fin qpm -> (10 <= R_of qpm <= 480)%R -> 1 <= spq <= 96 -> s0 + len mel <= 2 ^ 31 ->
  let s := rseq spq ts (map (requant_note (rt_rel qpm spq) s0) (mel_to_step_notes v i 0 s0 mel))
                (map (requant_text (rt_rel qpm spq) s0) (ch_to_step_texts false s0 chs)) qsteps in
  steps_per_bar s = Ok spb -> mp_instrument p = i -> v <> 0 ->
  canonical_leadsheet spb (mp_search_start p) (mp_gap_bars p) (mp_pad_end p) s0 mel chs = true ->
  ls_from_quantized p s
  = Ok (mkMelResult mel s0 (s0 + len mel) spb spq, mkChResult chs s0 (s0 + len mel) spb spq).
Proof. exact roundtrip_leadsheet_float. Qed.
Print Assumptions C06_roundtrip_leadsheet.

Theorem C06_roundtrip_pianoroll : forall legacy qpm spq ts v i pr minp maxp split s0 es,
  fin qpm -> (10 <= R_of qpm <= 480)%R -> 1 <= spq <= 96 -> minp <= maxp + 1 ->
  canonical_pianoroll legacy minp maxp s0 es = true ->
  let nf := pr_to_step_notes legacy v i pr minp s0 es in
  steps_in_range s0 (fst nf) = true -> s0 <= snd nf <= 2 ^ 31 ->
  let ns' := map (requant_note (rt_rel qpm spq) s0) (fst nf) in
  let total := rt_rel qpm spq (snd nf - s0) s0 in
  pr_from_quantized (mkPrParams s0 minp maxp split) (rseq spq ts ns' [] (max_end total ns'))
  = Ok (mkPrResult es s0 spq).
Proof. exact roundtrip_pianoroll_float. Qed.
Print Assumptions C06_roundtrip_pianoroll.

Theorem C06_roundtrip_performance : forall sps p dv i pr drum es,
  1 <= sps <= 1000 -> 0 <= fp_start p ->
  1 <= fp_max_shift p -> (fp_bins p = 0 \/ 1 <= fp_bins p) ->
  (match fp_instrument p with None => True | Some j => j = i end) ->
  canonical_perf_w (fp_bins p) (fp_max_shift p) es = true ->
  steps_in_range (fp_start p) (pf_rnotes p dv i pr drum es) = true ->
  pf_from_quantized p (map (requant_note (rt_abs sps) (fp_start p)) (pf_rnotes p dv i pr drum es)) = es.
Proof. exact roundtrip_perf_float. Qed.
Print Assumptions C06_roundtrip_performance.

Theorem C06_roundtrip_metric_performance : forall qpm spq p dv i pr drum es,
  fin qpm -> (10 <= R_of qpm <= 480)%R -> 1 <= spq <= 96 -> 0 <= fp_start p ->
  1 <= fp_max_shift p -> (fp_bins p = 0 \/ 1 <= fp_bins p) ->
  (match fp_instrument p with None => True | Some j => j = i end) ->
  canonical_perf_w (fp_bins p) (fp_max_shift p) es = true ->
  steps_in_range (fp_start p) (pf_rnotes p dv i pr drum es) = true ->
  pf_from_quantized p (map (requant_note (rt_metric qpm spq) (fp_start p)) (pf_rnotes p dv i pr drum es)) = es.
Proof. exact roundtrip_metric_float. Qed.
Print Assumptions C06_roundtrip_metric_performance.

Theorem C06_roundtrip_note_performance : forall sps p md i pr drum evs,
  1 <= sps <= 1000 -> 0 <= fp_start p ->
  (match fp_instrument p with None => True | Some j => j = i end) ->
  canonical_noteperf (fp_bins p) (fp_max_shift p) md evs = true ->
  steps_in_range (fp_start p) (np_rnotes p i pr drum evs) = true ->
  np_from_quantized p md (map (requant_note (rt_abs sps) (fp_start p)) (np_rnotes p i pr drum evs)) = Ok evs.
Proof. exact roundtrip_noteperf_float. Qed.
Print Assumptions C06_roundtrip_note_performance.

(** * Non-vacuity: a non-trivial canonical value per type, with its round trip evaluated *)
Example C06_melody_nonvacuous : ltac:(let t := type of melody_canonical_example in exact t).
Proof. exact melody_canonical_example. Qed.
Print Assumptions C06_melody_nonvacuous.

Example C06_drums_nonvacuous : ltac:(let t := type of drums_canonical_example in exact t).
Proof. exact drums_canonical_example. Qed.
Print Assumptions C06_drums_nonvacuous.

Example C06_chords_nonvacuous : ltac:(let t := type of chords_canonical_example in exact t).
Proof. exact chords_canonical_example. Qed.
Print Assumptions C06_chords_nonvacuous.

Example C06_pianoroll_nonvacuous : ltac:(let t := type of pianoroll_canonical_example in exact t).
Proof. exact pianoroll_canonical_example. Qed.
Print Assumptions C06_pianoroll_nonvacuous.

Example C06_noteperf_nonvacuous : ltac:(let t := type of noteperf_canonical_example in exact t).
Proof. exact noteperf_canonical_example. Qed.
Print Assumptions C06_noteperf_nonvacuous.

Example C06_perf_nonvacuous : ltac:(let t := type of perf_roundtrip_example in exact t).
Proof. exact perf_roundtrip_example. Qed.
Print Assumptions C06_perf_nonvacuous.

Example C06_perf_canonical_nonvacuous : ltac:(let t := type of perf_canonical_example in exact t).
Proof. exact perf_canonical_example. Qed.
Print Assumptions C06_perf_canonical_nonvacuous.

Example C06_perf_wide_nonvacuous : ltac:(let t := type of perf_wide_example in exact t).
Proof. exact perf_wide_example. Qed.
Print Assumptions C06_perf_wide_nonvacuous.

Example C06_step_time_nonvacuous : ltac:(let t := type of step_time_roundtrip_nonvacuous in exact t).
Proof. exact step_time_roundtrip_nonvacuous. Qed.
Print Assumptions C06_step_time_nonvacuous.

(** Source-level tie (second kind): the seconds_per_step expression of each to_sequence method, re-translated
    from the SOURCE on every run into PrimFloat terms (Gen/TrF.v, harness/vt/pytr.py), is the sigma the step-time
    round-trip theorems above are stated for — bit for bit, for all arguments. *)
Theorem C06_source_seconds_per_step : forall (spq sps : Z) (qpm : PrimFloat.float),
  let guard_rel := NS.Proofs.TrEquivF06.guard_rel in
  NS.Gen.TrF.trf_sigma_melody spq qpm = guard_rel spq qpm (sigma_rel qpm spq) /\
  NS.Gen.TrF.trf_sigma_drums spq qpm = guard_rel spq qpm (sigma_rel qpm spq) /\
  NS.Gen.TrF.trf_sigma_chords spq qpm = guard_rel spq qpm (sigma_rel qpm spq) /\
  NS.Gen.TrF.trf_sigma_pianoroll spq qpm = guard_rel spq qpm (sigma_rel qpm spq) /\
  NS.Gen.TrF.trf_sigma_metric spq qpm =
    (if PrimFloat.eqb (PrimFloat.mul (f_of_Z spq) qpm) PrimFloat.zero then None else Some (sigma_metric qpm spq)) /\
  NS.Gen.TrF.trf_sigma_performance sps =
    (if PrimFloat.eqb (f_of_Z sps) PrimFloat.zero then None else Some (sigma_abs sps)) /\
  NS.Gen.TrF.trf_sigma_noteperformance sps =
    (if PrimFloat.eqb (f_of_Z sps) PrimFloat.zero then None else Some (sigma_abs sps)).
Proof.
  intros spq sps qpm.
  exact (conj (NS.Proofs.TrEquivF06.trf_sigma_melody_eq spq qpm)
        (conj (NS.Proofs.TrEquivF06.trf_sigma_drums_eq spq qpm)
        (conj (NS.Proofs.TrEquivF06.trf_sigma_chords_eq spq qpm)
        (conj (NS.Proofs.TrEquivF06.trf_sigma_pianoroll_eq spq qpm)
        (conj (NS.Proofs.TrEquivF06.trf_sigma_metric_eq spq qpm)
        (conj (NS.Proofs.TrEquivF06.trf_sigma_performance_eq sps)
              (NS.Proofs.TrEquivF06.trf_sigma_noteperformance_eq sps))))))).
Qed.
Print Assumptions C06_source_seconds_per_step.

(** ... and so are the quantizer functions the round trip goes back through (shared with C01);
    [None] = int() of a non-finite float raises. *)
Theorem C06_source_quantize_to_step : forall t sps,
  NS.Gen.TrF.trf_quantize_to_step t sps NS.Model.Quantize.cutoff =
  if finb (PrimFloat.add (PrimFloat.mul t sps) NS.Model.Quantize.one_minus_cutoff) then Some (NS.Model.Quantize.q2s t sps) else None.
Proof. exact NS.Proofs.TrEquivF.trf_quantize_to_step_eq. Qed.
Print Assumptions C06_source_quantize_to_step.
