(** Props/C11.v — C11: sequence operations return well-formed sequences and invent no note.
    Only statements, [exact], and [Print Assumptions].

    This is the half of C11 a theorem can carry.  The other half (the argument is left
    byte-for-byte unchanged, also when the operation raises; the same result when called
    again; the result does not alias the argument) is about Python aliasing and protobuf
    copying, is NOT modelled, and is monitored at run time on every generated call by
    harness/vt/props/c11.py — the claim as a whole is therefore PARTIAL.

    Vocabulary (Model/Wf.v):
      [wf s]    0 <= total_time; every note has 0 <= start <= end <= total_time; no tempo,
                time signature, key signature, text annotation, control change, pitch bend or
                section annotation has a negative time.  [wfb] is its boolean form (the one
                Run/C11.v evaluates on the results of the REAL operations).
      [qwf s]   every note has 0 <= quantized_start_step <= quantized_end_step <=
                total_quantized_steps; no control change / annotation has a negative step.
      [came_from R ins outs]   every note of [outs] is [R]-related to some note of [ins].
      [same_but_times n n']    n' is n with other start / end times and nothing else changed.

    The operations are the executable models of the other properties, imported read-only and
    tied to note_seq by those properties' own correspondence checks:
      TimeOps.*  (C13)  Extract.* / Split.*  (C02)  Transpose.*  (C10)  Sustain.*  (C14)
      Quantize.* (C01, times are float codes)  WfOps.merge_sequences / expand_section_groups (here).
    The two developments C02 and C13 define clashing names, so every name is qualified. *)
From Coq Require Import ZArith List Bool.
From NS Require Import Base.Sx Base.NoteSeq Gen.G02 Model.Wf Model.WfOps.
From NS Require Model.TimeOps Model.Extract Model.Split Model.Transpose Model.Sustain Model.Quantize.
From NS Require Proofs.Quantize Proofs.QuantizeTop Proofs.Transpose Proofs.TimeOps Proofs.TimeOpsAdjust.
From NS Require Proofs.WfBase Proofs.WfTime Proofs.WfExtract Proofs.WfTranspose Proofs.WfSustain
     Proofs.WfQuantize Proofs.WfExpand Proofs.WfExamples.
Import ListNotations.
Local Open Scope Z_scope.

(** * The predicate *)

(** the boolean predicate evaluated on real results decides the proposition of the theorems *)
Theorem C11_wfb_decides_wf : forall s, wfb s = true <-> wf s.
Proof. exact WfBase.wfb_iff. Qed.
Print Assumptions C11_wfb_decides_wf.

Theorem C11_qwfb_decides_qwf : forall s, qwfb s = true <-> qwf s.
Proof. exact WfBase.qwfb_iff. Qed.
Print Assumptions C11_qwfb_decides_qwf.

(** * shift_sequence_times *)
Theorem C11_wf_preserved_shift : forall d s r, wf s -> TimeOps.shift d s = TimeOps.Ok r -> wf r.
Proof. exact WfTime.wf_shift. Qed.
Print Assumptions C11_wf_preserved_shift.

Theorem C11_no_invention_shift : forall d s r, TimeOps.shift d s = TimeOps.Ok r ->
  s_notes r = map (TimeOps.note_t (fun t => t + d)) (s_notes s).
Proof. exact WfTime.inv_shift. Qed.
Print Assumptions C11_no_invention_shift.

(** * stretch_note_sequence (factor fn/fd > 0) *)
Theorem C11_wf_preserved_stretch : forall fn fd s r,
  0 < fn -> 0 < fd -> wf s -> TimeOps.stretch fn fd s = TimeOps.Ok r -> wf r.
Proof. exact WfTime.wf_stretch. Qed.
Print Assumptions C11_wf_preserved_stretch.

Theorem C11_no_invention_stretch : forall fn fd s r,
  0 < fn -> 0 < fd -> TimeOps.stretch fn fd s = TimeOps.Ok r ->
  s_notes r = map (TimeOps.note_t (TimeOps.mulf fn fd)) (s_notes s).
Proof. exact WfTime.inv_stretch. Qed.
Print Assumptions C11_no_invention_stretch.

(** * remove_redundant_data *)
Theorem C11_wf_preserved_remove_redundant_data : forall s, wf s -> wf (TimeOps.remove_redundant s).
Proof. exact WfTime.wf_remove_redundant. Qed.
Print Assumptions C11_wf_preserved_remove_redundant_data.

Theorem C11_no_invention_remove_redundant_data : forall s, s_notes (TimeOps.remove_redundant s) = s_notes s.
Proof. exact WfTime.inv_remove_redundant. Qed.
Print Assumptions C11_no_invention_remove_redundant_data.

(** * concatenate_sequences: any number of well-formed unquantized pieces, with or without
      explicit durations (a duration shorter than its piece is the ValueError branch) *)
Theorem C11_wf_preserved_concatenate : forall ss ds r,
  Forall wf ss -> Forall (fun s => TimeOps.is_quantized s = false) ss ->
  TimeOps.concatenate ss ds = TimeOps.Ok r -> wf r.
Proof. exact WfTime.wf_concatenate. Qed.
Print Assumptions C11_wf_preserved_concatenate.

Theorem C11_no_invention_concatenate : forall ss ds r,
  Forall wf ss -> Forall (fun s => TimeOps.is_quantized s = false) ss ->
  TimeOps.concatenate ss ds = TimeOps.Ok r ->
  came_from (fun n n' => exists off, 0 <= off /\ n' = TimeOps.note_t (fun t => t + off) n)
            (all_notes ss) (s_notes r).
Proof. exact WfTime.inv_concatenate. Qed.
Print Assumptions C11_no_invention_concatenate.

(** * merge_sequences *)
Theorem C11_wf_preserved_merge : forall ss, Forall wf ss -> wf (merge_sequences ss).
Proof. exact WfTime.wf_merge_sequences. Qed.
Print Assumptions C11_wf_preserved_merge.

Theorem C11_no_invention_merge : forall ss, s_notes (merge_sequences ss) = all_notes ss.
Proof. exact WfTime.inv_merge_sequences. Qed.
Print Assumptions C11_no_invention_merge.

(** the statement is false of the code before the repair /repo 0c555ce (total_time of the LAST input) *)
Theorem C11_merge_original_code_refuted :
  exists ss, forallb wfb ss = true /\ wfb (merge_sequences_orig ss) = false /\ wfb (merge_sequences ss) = true.
Proof. exact WfExamples.merge_orig_refuted. Qed.
Print Assumptions C11_merge_original_code_refuted.

(** * repeat_sequence_to_duration: every target duration, with or without sequence_duration *)
Theorem C11_wf_preserved_repeat : forall s d osd r,
  wf s -> TimeOps.is_quantized s = false -> TimeOps.repeat_to_duration s d osd = TimeOps.Ok r -> wf r.
Proof. exact WfTime.wf_repeat. Qed.
Print Assumptions C11_wf_preserved_repeat.

Theorem C11_no_invention_repeat : forall s d osd r,
  wf s -> TimeOps.is_quantized s = false -> TimeOps.repeat_to_duration s d osd = TimeOps.Ok r ->
  came_from (fun n n' => exists off, 0 <= off /\
               n' = note_with_times n (n_start n + off) (Z.min (n_end n + off) d) /\ 0 <= n_start n + off < d)
            (s_notes s) (s_notes r).
Proof. exact WfTime.inv_repeat. Qed.
Print Assumptions C11_no_invention_repeat.

(** * adjust_notesequence_times: for EVERY time function (monotone or not) and every input
      (well-formed or not), whatever the function accepts is well-formed — the three
      rejection tests are exactly what well-formedness needs *)
Theorem C11_wf_preserved_adjust : forall (f : Z -> Z) md s r skipped,
  TimeOps.adjust f md s = TimeOps.Ok (r, skipped) -> wf r.
Proof. exact WfTime.wf_adjust. Qed.
Print Assumptions C11_wf_preserved_adjust.

Theorem C11_no_invention_adjust : forall (f : Z -> Z) md s r skipped,
  TimeOps.adjust f md s = TimeOps.Ok (r, skipped) ->
  came_from (fun n n' => same_but_times n n' /\ n_start n' = f (n_start n)) (s_notes s) (s_notes r).
Proof. exact WfTime.inv_adjust. Qed.
Print Assumptions C11_no_invention_adjust.

(** * rectify_beats *)
Theorem C11_wf_preserved_rectify : forall bpm s r xs S,
  TimeOps.rectify bpm s = TimeOps.Ok (r, xs, S) -> wf r.
Proof. exact WfTime.wf_rectify. Qed.
Print Assumptions C11_wf_preserved_rectify.

Theorem C11_no_invention_rectify : forall bpm s r xs S,
  TimeOps.rectify bpm s = TimeOps.Ok (r, xs, S) ->
  came_from (fun n n' => same_but_times n n' /\ n_start n' = TimeOps.rect_fun xs S (n_start n))
            (s_notes s) (s_notes r).
Proof. exact WfTime.inv_rectify. Qed.
Print Assumptions C11_no_invention_rectify.

(** * trim_note_sequence (end_time not negative) *)
Theorem C11_wf_preserved_trim : forall s a b r, 0 <= b -> wf s -> Extract.trim s a b = Extract.Ok r -> wf r.
Proof. exact WfExtract.wf_trim. Qed.
Print Assumptions C11_wf_preserved_trim.

Theorem C11_no_invention_trim : forall s a b r, Extract.trim s a b = Extract.Ok r ->
  s_notes r = map (fun n => note_with_times n (n_start n) (Z.min (n_end n) b))
                  (filter (fun n => Extract.in_piece a b (n_start n)) (s_notes s)).
Proof. exact WfExtract.inv_trim. Qed.
Print Assumptions C11_no_invention_trim.

(** * extract_subsequence and _extract_subsequences: every accepted split vector, every piece *)
Theorem C11_wf_preserved_extract : forall pres s a b p,
  wf s -> Extract.extract_subsequence pres s a b = Extract.Ok p -> wf p.
Proof. exact WfExtract.wf_extract_subsequence. Qed.
Print Assumptions C11_wf_preserved_extract.

Theorem C11_no_invention_extract : forall pres s a b p,
  Extract.extract_subsequence pres s a b = Extract.Ok p ->
  came_from (fun n n' => Extract.in_piece a b (n_start n) = true /\ n' = Extract.clipshift a b n)
            (s_notes s) (s_notes p).
Proof. exact WfExtract.inv_extract_subsequence. Qed.
Print Assumptions C11_no_invention_extract.

Theorem C11_wf_preserved_extract_subsequences : forall pres s ts ps,
  wf s -> Extract.extract_subsequences pres s ts = Extract.Ok ps -> Forall wf ps.
Proof. exact WfExtract.wf_extract_subsequences. Qed.
Print Assumptions C11_wf_preserved_extract_subsequences.

(** [from_piece n n']: for some interval [a, b) containing the start of n, n' is n moved to
    the interval's origin and clipped at its end *)
Theorem C11_no_invention_extract_subsequences : forall pres s ts ps,
  Extract.extract_subsequences pres s ts = Extract.Ok ps ->
  forall p, In p ps -> came_from WfExtract.from_piece (s_notes s) (s_notes p).
Proof. exact WfExtract.inv_extract_subsequences. Qed.
Print Assumptions C11_no_invention_extract_subsequences.

Theorem C11_from_piece_changes_only_times : forall n n', WfExtract.from_piece n n' -> same_but_times n n'.
Proof. exact WfExtract.from_piece_same_but_times. Qed.
Print Assumptions C11_from_piece_changes_only_times.

(** * split_note_sequence (hop and list form), ..._on_time_changes, ..._on_silence:
      every hop / list / gap / skip flag *)
Theorem C11_wf_preserved_split_hop : forall s hop skip ps,
  wf s -> Split.split_hop s hop skip = Extract.Ok ps -> Forall wf ps.
Proof. exact WfExtract.wf_split_hop. Qed.
Print Assumptions C11_wf_preserved_split_hop.

Theorem C11_wf_preserved_split_list : forall s l skip ps,
  wf s -> Split.split_list s l skip = Extract.Ok ps -> Forall wf ps.
Proof. exact WfExtract.wf_split_list. Qed.
Print Assumptions C11_wf_preserved_split_list.

Theorem C11_wf_preserved_split_on_time_changes : forall s skip ps,
  wf s -> Split.split_time_changes s skip = Extract.Ok ps -> Forall wf ps.
Proof. exact WfExtract.wf_split_time_changes. Qed.
Print Assumptions C11_wf_preserved_split_on_time_changes.

Theorem C11_wf_preserved_split_on_silence : forall s gap ps,
  wf s -> Split.split_silence s gap = Extract.Ok ps -> Forall wf ps.
Proof. exact WfExtract.wf_split_silence. Qed.
Print Assumptions C11_wf_preserved_split_on_silence.

Theorem C11_no_invention_split_hop : forall s hop skip ps, Split.split_hop s hop skip = Extract.Ok ps ->
  forall p, In p ps -> came_from WfExtract.from_piece (s_notes s) (s_notes p).
Proof. exact WfExtract.inv_split_hop. Qed.
Print Assumptions C11_no_invention_split_hop.

Theorem C11_no_invention_split_list : forall s l skip ps, Split.split_list s l skip = Extract.Ok ps ->
  forall p, In p ps -> came_from WfExtract.from_piece (s_notes s) (s_notes p).
Proof. exact WfExtract.inv_split_list. Qed.
Print Assumptions C11_no_invention_split_list.

Theorem C11_no_invention_split_on_time_changes : forall s skip ps,
  Split.split_time_changes s skip = Extract.Ok ps ->
  forall p, In p ps -> came_from WfExtract.from_piece (s_notes s) (s_notes p).
Proof. exact WfExtract.inv_split_time_changes. Qed.
Print Assumptions C11_no_invention_split_on_time_changes.

Theorem C11_no_invention_split_on_silence : forall s gap ps, Split.split_silence s gap = Extract.Ok ps ->
  forall p, In p ps -> came_from WfExtract.from_piece (s_notes s) (s_notes p).
Proof. exact WfExtract.inv_split_silence. Qed.
Print Assumptions C11_no_invention_split_on_silence.

(** * transpose_note_sequence: every amount, pitch range and chord flag *)
Theorem C11_wf_preserved_transpose : forall s k lo hi tc r deleted,
  wf s -> Transpose.transpose_ns s k lo hi tc = Some (r, deleted) -> wf r.
Proof. exact WfTranspose.wf_transpose. Qed.
Print Assumptions C11_wf_preserved_transpose.

Theorem C11_no_invention_transpose : forall s k lo hi tc r deleted,
  Transpose.transpose_ns s k lo hi tc = Some (r, deleted) ->
  s_notes r = map (Transpose.note_shift k) (filter (Transpose.note_keep k lo hi) (s_notes s)).
Proof. exact WfTranspose.inv_transpose. Qed.
Print Assumptions C11_no_invention_transpose.

(** a drum note is always kept and always inside the new total_time (what seeded change C11-2 breaks) *)
Theorem C11_transpose_total_covers_drums : forall s k lo hi tc r deleted n,
  Transpose.transpose_ns s k lo hi tc = Some (r, deleted) -> In n (s_notes s) -> n_drum n = true ->
  In n (s_notes r) /\ n_end n <= s_total r.
Proof. exact WfTranspose.transpose_total_covers_drums. Qed.
Print Assumptions C11_transpose_total_covers_drums.

(** * apply_sustain_control_changes: every well-formed input — overlapping notes of one pitch,
      zero-length notes, several instruments, any control number (no no-overlap hypothesis) *)
Theorem C11_wf_preserved_sustain : forall ctl s s', wf s -> Sustain.apply_sustain ctl s = Some s' -> wf s'.
Proof. exact WfSustain.wf_sustain. Qed.
Print Assumptions C11_wf_preserved_sustain.

Theorem C11_no_invention_sustain : forall ctl s s', Sustain.apply_sustain ctl s = Some s' ->
  came_from (fun n n' => n' = Sustain.set_end n (n_end n')) (s_notes s) (s_notes s').
Proof. exact WfSustain.inv_sustain. Qed.
Print Assumptions C11_no_invention_sustain.

(** no note of the result ends before it starts, for every input whose notes do not *)
Theorem C11_sustain_never_reverses_a_note : forall ctl ns ccs tot,
  Forall (fun n => n_start n <= n_end n) ns ->
  Forall (fun c => n_start (Sustain.c_n c) <= n_end (Sustain.c_n c)) (fst (Sustain.sustain_cells ctl ns ccs tot)).
Proof. exact WfSustain.sustain_ord. Qed.
Print Assumptions C11_sustain_never_reverses_a_note.

(** * expand_section_groups *)
Theorem C11_wf_preserved_expand_section_groups : forall s has_groups ids r,
  wf s -> expand_section_groups s has_groups ids = EOk r -> wf r.
Proof. exact WfExpand.wf_expand. Qed.
Print Assumptions C11_wf_preserved_expand_section_groups.

Theorem C11_no_invention_expand_section_groups : forall s ids r,
  wf s -> expand_section_groups s true ids = EOk r ->
  came_from (fun n n' => exists m off, WfExtract.from_piece n m /\ 0 <= off /\
                                       n' = TimeOps.note_t (fun t => t + off) m)
            (s_notes s) (s_notes r).
Proof. exact WfExpand.inv_expand. Qed.
Print Assumptions C11_no_invention_expand_section_groups.

(** which errors escape on a well-formed input: concatenate_sequences never rejects the section
    pieces; what remains is an error of extract_subsequence on some section (quantized input,
    annotations out of time order, a section starting at or after total_time) or a KeyError *)
Theorem C11_expand_section_groups_errors : forall s ids e,
  wf s -> expand_section_groups s true ids = EErr e ->
  section_pieces s (s_sects s) = EErr e \/
  (e = XKey /\ exists tbl, section_pieces s (s_sects s) = EOk tbl /\ lookup_all tbl ids = None).
Proof. exact WfExpand.expand_errors. Qed.
Print Assumptions C11_expand_section_groups_errors.

Theorem C11_expand_section_errors_are_extract_errors : forall s sects e,
  section_pieces s sects = EErr e ->
  exists a b x, Extract.extract_subsequence DEFAULT_PRESERVE s a b = Extract.Err x /\ e = of_xerr x.
Proof. exact WfExpand.section_pieces_errors. Qed.
Print Assumptions C11_expand_section_errors_are_extract_errors.

(** * Quantization.  First for EVERY step function q: times are not touched, and the
      quantized fields are well-formed as soon as q does not put a note's end before its
      start (closed under the global context) ... *)
Theorem C11_wf_preserved_quantize_any_step_function : forall q spq sps tps tss s,
  wf s -> Forall (fun t => 0 <= tp_time t) tps -> Forall (fun t => 0 <= ts_time t) tss ->
  wf (Quantize.result_of q spq sps tps tss s).
Proof. exact WfQuantize.wf_result_of. Qed.
Print Assumptions C11_wf_preserved_quantize_any_step_function.

Theorem C11_quantized_wf_any_step_function : forall q spq sps tps tss s,
  Quantize.seq_neg q s = false -> (forall n, In n (s_notes s) -> q (n_start n) <= q (n_end n)) ->
  qwf (Quantize.result_of q spq sps tps tss s).
Proof. exact WfQuantize.qwf_result_of. Qed.
Print Assumptions C11_quantized_wf_any_step_function.

(** ... then for the two entry points with their bit-exact binary64 step functions
    (times are float codes: code order = float order, code 0 = 0.0 s; in range = finite,
    at most 2^40 s; tempos 1..1024 qpm). *)
Theorem C11_wf_preserved_quantize_absolute : forall sps s s',
  0 <= sps <= 2 ^ 20 -> wf s -> WfQuantize.times_in_range s ->
  Quantize.quantize_abs sps s = Quantize.Ok s' -> wf s' /\ qwf s'.
Proof. exact WfQuantize.wf_quantize_abs. Qed.
Print Assumptions C11_wf_preserved_quantize_absolute.

Theorem C11_wf_preserved_quantize : forall spq s s',
  1 <= spq <= 1024 -> wf s -> WfQuantize.times_in_range s ->
  (forall t, In t (s_tempos s) -> WfQuantize.qpm_in_range (tp_qpm t)) ->
  Quantize.quantize_rel spq s = Quantize.Ok s' -> wf s' /\ qwf s'.
Proof. exact WfQuantize.wf_quantize_rel. Qed.
Print Assumptions C11_wf_preserved_quantize.

Theorem C11_no_invention_quantize_absolute : forall sps s s', Quantize.quantize_abs sps s = Quantize.Ok s' ->
  s_notes s' = map (Quantize.qnote (Quantize.abs_q sps)) (s_notes s).
Proof. exact WfQuantize.inv_quantize_abs. Qed.
Print Assumptions C11_no_invention_quantize_absolute.

Theorem C11_no_invention_quantize : forall spq s s', Quantize.quantize_rel spq s = Quantize.Ok s' ->
  exists qpm, s_notes s' = map (Quantize.qnote (Quantize.rel_q spq qpm)) (s_notes s).
Proof. exact WfQuantize.inv_quantize_rel. Qed.
Print Assumptions C11_no_invention_quantize.

Theorem C11_quantized_note_changes_only_steps : forall q n, same_but_qsteps n (Quantize.qnote q n).
Proof. exact WfQuantize.qnote_same_but_qsteps. Qed.
Print Assumptions C11_quantized_note_changes_only_steps.

(** * Non-vacuity: a sequence with every repeated field populated (tempos stored out of time
      order, a drum note that ends last, a pedal) is well-formed, the predicate rejects three
      ill-formed ones, and each operation returns a well-formed result computed in the kernel. *)
Example C11_nonvacuous :
  let ex := WfExamples.ex in
  wfb ex = true /\
  wfb (with_total ex 11) = false /\
  wfb (mkSeq [mkNote 60 100 4 3 0 0 false 0 0 0] [] [] [] [] [] [] [] 12 0 0 0 (0, 0) 220 0) = false /\
  wfb (mkSeq [] [] [] [] [] [mkCc (-1) 0 64 0 0 0 false] [] [] 12 0 0 0 (0, 0) 220 0) = false /\
  (exists r, TimeOps.shift 3 ex = TimeOps.Ok r /\ wfb r = true /\ s_total r = 15) /\
  (exists r, TimeOps.stretch 3 2 ex = TimeOps.Ok r /\ wfb r = true /\ s_total r = 18) /\
  (exists r, Extract.trim ex 5 10 = Extract.Ok r /\ wfb r = true /\
             map (fun n => (n_start n, n_end n)) (s_notes r) = [(6, 10)] /\ s_total r = 10) /\
  (exists p q, Split.split_hop ex 7 false = Extract.Ok [p; q] /\ wfb p = true /\ wfb q = true /\
               map (fun n => (n_start n, n_end n)) (s_notes p) = [(4, 7); (6, 7)] /\ s_notes q = []) /\
  (exists r, Transpose.transpose_ns ex 80 0 127 false = Some (r, 1) /\ wfb r = true /\
             map n_pitch (s_notes r) = [36] /\ s_total r = 12) /\
  (exists r, Sustain.apply_sustain 64 ex = Some r /\ wfb r = true /\
             map (fun n => (n_start n, n_end n)) (s_notes r) = [(4, 10); (6, 12)]) /\
  (exists r, TimeOps.concatenate [ex; ex] [] = TimeOps.Ok r /\ wfb r = true /\ s_total r = 24 /\
             length (s_notes r) = 4%nat /\ map tp_time (s_tempos r) = [0; 6; 12; 18]) /\
  (exists r, TimeOps.repeat_to_duration ex 20 None = TimeOps.Ok r /\ wfb r = true /\
             map (fun n => (n_start n, n_end n)) (s_notes r) = [(4, 8); (6, 12); (16, 20); (18, 20)]) /\
  wfb (TimeOps.remove_redundant ex) = true /\
  wfb (merge_sequences [ex; with_total ex 20]) = true /\ s_total (merge_sequences [ex; with_total ex 20]) = 20 /\
  (exists r, expand_section_groups ex true [2; 1; 2] = EOk r /\ wfb r = true /\ s_total r = 18 /\
             map (fun n => (n_start n, n_end n)) (s_notes r) = [(0, 6); (10, 12); (12, 18)]) /\
  expand_section_groups ex true [3] = EErr XKey /\
  (exists r, TimeOps.adjust (fun t => 2 * t + 1) None ex = TimeOps.Ok (r, 0) /\ wfb r = true /\ s_total r = 25) /\
  TimeOps.adjust (fun t => 10 - t) None ex = TimeOps.Err TimeOps.EAdjust.
Proof. exact WfExamples.examples. Qed.
Print Assumptions C11_nonvacuous.
