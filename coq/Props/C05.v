(** Props/C05.v — C05: MusicXML scores parse to the notes, key, meter and tempo
    they declare.  Only statements, [exact], and [Print Assumptions].

    Vocabulary (Proofs/MusicXmlSpec.v): a score is flattened to its
    document-order token stream [tokens sc]; for a token, [r] is the REVERSED
    prefix before it.  [div_at r], [qpm_at r] / [qpm_proper q0 r], [transp_at r]
    are "the most recent declaration"; [cursor qf r] is 0 where the part opens
    plus the signed sum of the earlier notes' / rests' / <forward>s' / <backup>s'
    durations, each divided by the divisions in force and multiplied by
    60 / tempo in force; [spec_ev qf r t] is the note or tempo event token [t]
    must produce (a chord member takes onset and duration from the chord's first
    member); [spec_from qf [] ts] lists them for the whole stream.  [ev_eq]
    compares events with rationals up to [==]. *)
From Coq Require Import ZArith QArith List Bool.
From NS Require Gen.Tr Proofs.TrEquiv05.
From NS Require Import Gen.G05 Model.MusicXml Proofs.MusicXmlSpec Proofs.MusicXml.
Import ListNotations.
Local Open Scope Z_scope.

(** ** mxl_pitch — every step, any alteration, octave and transposition. *)
Theorem C05_mxl_pitch : forall stp alter octave transp,
  0 <= stp <= 6 ->
  exists pc, step_class stp = Some pc /\ pc = nth (Z.to_nat stp) STEP_TABLE 0 /\
             midi_pitch pc alter octave + transp = 12 * (octave + 1) + pc + alter + transp /\
             base_class stp = pc.
Proof. exact pitch_formula. Qed.
Print Assumptions C05_mxl_pitch.

Theorem C05_mxl_pitch_unknown_step_rejected : forall stp, ~ (0 <= stp <= 6) -> step_class stp = None.
Proof. exact pitch_step_rejected. Qed.
Print Assumptions C05_mxl_pitch_unknown_step_rejected.

(** ** mxl_cursor_state — for EVERY score: one event per <note> (pitch
    [12*(octave+1) + base + alter + transposition in force], voice, part index,
    channel, program, onset = cursor, duration = <duration>/divisions*60/tempo)
    and one per tempo mark (at the cursor), with "tempo in force" read as the
    parser's state (most recent mark of the document). *)
Theorem C05_mxl_cursor_state : forall sc : score,
  Forall2 ev_eq (filter is_nt (snd (run_toks init_st (tokens sc)))) (spec_from qpm_at [] (tokens sc)).
Proof. exact (fun sc => cursor_state_refines (tokens sc)). Qed.
Print Assumptions C05_mxl_cursor_state.

(** ** mxl_cursor — the same with the PROPER tempo in force (marks of the part
    itself, the score's initial tempo before them), for every score whose tempo
    state does not leak across a part boundary.
    Full-strength statement (false of note_seq today, finding F21):
      forall sc, Forall2 ev_eq (filter is_nt (snd (run_toks init_st (tokens sc))))
                               (spec_from (qpm_proper (initial_tempo (tokens sc))) [] (tokens sc)). *)
Theorem C05_mxl_cursor : forall sc : score,
  leak_free (tokens sc) = true ->
  Forall2 ev_eq (filter is_nt (snd (run_toks init_st (tokens sc))))
                (spec_from (qpm_proper (initial_tempo (tokens sc))) [] (tokens sc)).
Proof. exact (fun sc => cursor_refines (tokens sc)). Qed.
Print Assumptions C05_mxl_cursor.

Theorem C05_mxl_cursor_refuted :
  exists ts, ~ Forall2 ev_eq (filter is_nt (snd (run_toks init_st ts)))
                             (spec_from (qpm_proper (initial_tempo ts)) [] ts).
Proof. exact cursor_refuted. Qed.
Print Assumptions C05_mxl_cursor_refuted.

Theorem C05_mxl_cursor_refuted_witness :
  match run_doc f21_score with
  | inr o => map (fun n => (o_part n, Qred (o_start n), Qred (o_end n))) (q_notes o) =
             [(0, 0%Q, (1 # 2)%Q); (0, (1 # 2)%Q, (3 # 2)%Q); (1, 0%Q, 1%Q); (1, 1%Q, 2%Q)] /\
             q_tempos o = [((1 # 2)%Q, 60%Q)] /\ leak_free (tokens f21_score) = false
  | inl _ => False
  end.
Proof. exact cursor_refuted_witness. Qed.
Print Assumptions C05_mxl_cursor_refuted_witness.

Theorem C05_tempo_in_force_proper : forall ts pre post,
  leak_free ts = true -> ts = pre ++ post ->
  (qpm_at (rev pre) == qpm_proper (initial_tempo ts) (rev pre))%Q.
Proof. exact tempo_in_force_proper. Qed.
Print Assumptions C05_tempo_in_force_proper.

(** ** mxl_key — each measure reports its most recent <key> at the cursor time
    of the <key>: the written key, or the sounding key when a <transpose>
    follows it in the measure; mode MINOR iff <mode> is "minor"; the reader's
    table turns it into the pitch class [7*fifths (+ chromatic) mod 12]. *)
Theorem C05_mxl_key_events : forall sc : score,
  Forall2 ev_eq (filter is_key (snd (run_toks init_st (tokens sc)))) (keys_from [] (tokens sc)).
Proof. exact (fun sc => key_events_refine (tokens sc)). Qed.
Print Assumptions C05_mxl_key_events.

Theorem C05_mxl_key_written : forall r1 f m r2,
  forallb key_neutral r1 = true ->
  key_at (r1 ++ TKey f m :: r2) = Some (f, (if m =? 2 then 1 else 0), cursor qpm_at r2).
Proof. exact key_written. Qed.
Print Assumptions C05_mxl_key_written.

Theorem C05_mxl_key_sounding : forall r1 c r1' f m r2,
  forallb key_neutral r1 = true -> forallb key_neutral r1' = true ->
  key_at (r1 ++ TTranspose c :: r1' ++ TKey f m :: r2) =
  Some (transpose_key f c, (if m =? 2 then 1 else 0), cursor qpm_at r2).
Proof. exact key_sounding. Qed.
Print Assumptions C05_mxl_key_sounding.

Theorem C05_mxl_key_table : forall f, -7 <= f <= 7 -> proto_key f = Some ((7 * f) mod 12).
Proof. exact key_table. Qed.
Print Assumptions C05_mxl_key_table.

Theorem C05_mxl_key_transposed : forall f c,
  -7 <= f <= 7 -> proto_key (transpose_key f c) = Some ((7 * f + c) mod 12).
Proof. exact key_transposed. Qed.
Print Assumptions C05_mxl_key_transposed.

(** ** mxl_time_complete — complete measures with an integral beat: the
    time-signature events are exactly the declared <time> elements at the
    cursor times of their declarations. *)
Theorem C05_mxl_time_complete : forall sc : score,
  all_complete [] (tokens sc) = true ->
  Forall2 ev_eq (filter is_time (snd (run_toks init_st (tokens sc)))) (times_from [] (tokens sc)).
Proof. exact (fun sc => time_complete (tokens sc)). Qed.
Print Assumptions C05_mxl_time_complete.

(** ** mxl_harmony [ext] — every well-formed <harmony> yields its figure string
    (root ++ kind abbreviation ++ "(degree)"* ++ "/bass", a function of the
    element and of the transposition in force: [harmony_figure]) at the cursor
    plus <offset> divisions; a malformed one yields no event (it raises). *)
Theorem C05_mxl_harmony_events : forall sc : score,
  Forall2 ev_eq (filter is_chord (snd (run_toks init_st (tokens sc)))) (chords_from [] (tokens sc)).
Proof. exact (fun sc => chord_events_refine (tokens sc)). Qed.
Print Assumptions C05_mxl_harmony_events.

(** C#m7(add9)(b5)(no3)/Eb; and the rejections: transposing part, no root,
    unknown kind, alteration by zero semitones. *)
Example C05_mxl_harmony_figure_example :
  harmony_figure 0 (Some (0, Some 1)) (kind_index MINOR_SEVENTH)
                 [(9, None, 0); (5, Some (-1), 2); (3, None, 1)] (Some (2, Some (-1))) =
  Some [67; 35; 109; 55; 40; 97; 100; 100; 57; 41; 40; 98; 53; 41; 40; 110; 111; 51; 41; 47; 69; 98] /\
  harmony_figure (-2) (Some (0, None)) (kind_index MINOR_SEVENTH) [] None = None /\
  harmony_figure 0 None (kind_index MINOR_SEVENTH) [] None = None /\
  harmony_figure 0 (Some (0, None)) (-2) [] None = None /\
  harmony_figure 0 (Some (0, None)) (kind_index MINOR_SEVENTH) [(5, None, 2)] None = None.
Proof. exact figure_example. Qed.
Print Assumptions C05_mxl_harmony_figure_example.

(** ** The reader: what musicxml_to_sequence_proto does with the events
    (notes of non-rests with start = max(onset, 0); the first part's tempo marks
    or one default entry; de-duplicated time and key signatures; key table). *)
Theorem C05_reader : forall sc o,
  run_doc sc = inr o ->
  let es := snd (run_toks init_st (tokens sc)) in
  q_notes o = ev_notes es /\
  q_tempos o = (match ev_tempos0 es with [] => [(0%Q, qpm_at (rev (tokens sc)))] | l => l end) /\
  q_tsigs o = map (fun x => let '(n, d, t) := x in (t, n, d)) (dedup (ev_times es)) /\
  conv_keys (match dedup (ev_keys es) with [] => [(0, 0, 0%Q)] | l => l end) = Some (q_ksigs o) /\
  q_chords o = ev_chords es /\
  s_err (fst (run_toks init_st (tokens sc))) = 0.
Proof. exact run_doc_ok. Qed.
Print Assumptions C05_reader.

Theorem C05_reader_error : forall sc e,
  run_doc sc = inl e ->
  s_err (fst (run_toks init_st (tokens sc))) = e /\ e <> 0 \/
  s_err (fst (run_toks init_st (tokens sc))) = 0 /\ e = E_INDEX.
Proof. exact run_doc_error. Qed.
Print Assumptions C05_reader_error.

(** ** mxl_tempo — marks are events of [C05_mxl_cursor_state] (at the cursor);
    with no mark in the first part the single default entry is the score's
    initial tempo, provided the tempo state did not leak (F21 again). *)
Theorem C05_mxl_tempo_default : forall sc o,
  run_doc sc = inr o ->
  ev_tempos0 (snd (run_toks init_st (tokens sc))) = [] ->
  leak_free_end (tokens sc) = true ->
  exists q, q_tempos o = [(0%Q, q)] /\ (q == initial_tempo (tokens sc))%Q.
Proof. exact tempo_default. Qed.
Print Assumptions C05_mxl_tempo_default.

Theorem C05_mxl_tempo_default_refuted :
  exists sc o, run_doc sc = inr o /\ ev_tempos0 (snd (run_toks init_st (tokens sc))) = [] /\
               q_tempos o = [(0%Q, 60%Q)] /\ (initial_tempo (tokens sc) == 120)%Q.
Proof. exact tempo_default_refuted. Qed.
Print Assumptions C05_mxl_tempo_default_refuted.

(** ** Non-vacuity: a two-part score (C-flat-4 with a B-sharp-3 chord member, a
    rest, a second voice after <backup>, a minor key, a transposing part in
    C-sharp major sounding a tone lower, a dotted note, tempo 90) meets every
    hypothesis and parses to the expected notes, keys, meter and tempo. *)
Example C05_nonvacuous :
  leak_free (tokens demo_score) = true /\ all_complete [] (tokens demo_score) = true /\
  match run_doc demo_score with
  | inr o => map (fun n => (o_part n, o_pitch n, Qred (o_start n), Qred (o_end n))) (q_notes o) =
             [(0, 59, 0%Q, (2 # 3)%Q); (0, 60, 0%Q, (2 # 3)%Q); (0, 55, 0%Q, (4 # 3)%Q); (1, 58, 0%Q, 1%Q); (1, 60, 1%Q, (4 # 3)%Q)] /\
             q_ksigs o = [(0%Q, 1, 1); (0%Q, 11, 0)] /\ q_tsigs o = [(0%Q, 2, 4)] /\ q_tempos o = [(0%Q, 90%Q)]
  | inl _ => False
  end.
Proof. exact demo_nonvacuous. Qed.
Print Assumptions C05_nonvacuous.

(** Source-level tie (second kind): Note.pitch_to_midi_pitch re-translated from its SOURCE on every run
    (Gen/Tr.v, harness/vt/pytr.py) equals the hand-written model for every step letter (index 0..6 = C D E F G A B,
    passed as its code point), alteration and octave, and rejects every other step character. *)
Theorem C05_source_pitch_to_midi_pitch : forall i alter octave, 0 <= i <= 6 ->
  NS.Gen.Tr.tr_pitch_to_midi_pitch (NS.Proofs.TrEquiv05.step_code i) alter octave =
  option_map (fun pc => midi_pitch pc alter octave) (step_class i).
Proof. exact NS.Proofs.TrEquiv05.tr_pitch_to_midi_pitch_eq. Qed.
Print Assumptions C05_source_pitch_to_midi_pitch.

Theorem C05_source_pitch_rejects_unknown_step : forall c alter octave,
  ~ (65 <= c <= 71) -> NS.Gen.Tr.tr_pitch_to_midi_pitch c alter octave = None.
Proof. exact NS.Proofs.TrEquiv05.tr_pitch_to_midi_pitch_rejects. Qed.
Print Assumptions C05_source_pitch_rejects_unknown_step.
