(** Props/C04.v — C04: ABC tunes parse to the pitches, durations, keys and
    repeats they notate.  Only statements, [exact], and [Print Assumptions].
    The tables (SIG_TO_KEYS, KEY_TO_SIG, KEY_TO_PROTO_KEY, ABC_NOTE_TO_MIDI, mode
    enum values, MIDI range) are regenerated from note_seq/abc_parser.py on
    every run (Gen/G04.v). *)
From Coq Require Import ZArith QArith List Bool.
From NS Require Import Gen.G04 Model.Abc Proofs.AbcKeys Proofs.AbcPitch Proofs.AbcTime Proofs.AbcBook Proofs.AbcRepeat Proofs.AbcGrammar Proofs.AbcRepeatTokens Model.AbcUnroll Proofs.AbcUnroll.
Import ListNotations.
Local Open Scope Z_scope.

(** * Keys: every signature x mode x accepted spelling of the module's own table
      (complete enumeration in the kernel) *)
Theorem abc_key_table_sound :
  forall sig keys key m sp,
    In (sig, keys) SIG_TO_KEYS -> In key keys ->
    mode_of_suffix (snd (key_split key)) = Some m -> In sp (spellings m) ->
    exists a pk pm,
      parse_key (fst (key_split key)) sp false [] = Ok (a, pk, pm) /\
      (forall c, In c letters -> aget c a = Some (spec_acc sig c)) /\
      pk = tonic_pc (fst (key_split key)) /\
      pk = (7 * sig + mi_semitones m) mod 12 /\
      pm = mi_enum m /\ -7 <= sig <= 7.
Proof. exact key_table_sound. Qed.
Print Assumptions abc_key_table_sound.

Theorem abc_key_table_complete :
  table_complete = true /\
  forall sig keys key, In (sig, keys) SIG_TO_KEYS -> In key keys ->
    exists m, mode_of_suffix (snd (key_split key)) = Some m.
Proof. exact (conj table_is_complete key_table_modes_known). Qed.
Print Assumptions abc_key_table_complete.

Example abc_key_table_nonvacuous :
  exists sig keys key m sp,
    In (sig, keys) SIG_TO_KEYS /\ In key keys /\
    mode_of_suffix (snd (key_split key)) = Some m /\ In sp (spellings m) /\
    sig = -7 /\ mi_enum m = MODE_LYDIAN /\ sp = [76; 89; 68] (* "LYD" *).
Proof.
  exists (-7), (nth 14 (map snd SIG_TO_KEYS) []), (nth 5 (nth 14 (map snd SIG_TO_KEYS) []) []),
         (nth 5 modes (mkMode [] 0 0 [])), [76; 89; 68].
  vm_compute. repeat split; try reflexivity; tauto.
Qed.
Print Assumptions abc_key_table_nonvacuous.

(** explicit accidentals and 'exp' after any key the table accepts *)
Theorem abc_key_explicit_accidentals : forall tonic mode exp eacc a pk pm,
  parse_key tonic mode false [] = Ok (a, pk, pm) ->
  (forallb (fun p => eacc_single (fst p)) eacc = true ->
   exists a', parse_key tonic mode exp eacc = Ok (a', pk, pm) /\
     forall name, aget name a' =
       match last_explicit eacc name None with
       | Some v => Some v
       | None => if exp then aget name (sig_to_accidentals 0) else aget name a
       end) /\
  (forallb (fun p => eacc_single (fst p)) eacc = false ->
   parse_key tonic mode exp eacc = Err EParse).
Proof.
  intros tonic mode exp eacc a pk pm H. split.
  - exact (parse_key_explicit tonic mode exp eacc a pk pm H).
  - exact (parse_key_double_rejected tonic mode exp eacc a pk pm H).
Qed.
Print Assumptions abc_key_explicit_accidentals.

(** * Pitch: explicit accidental > accidental earlier in the bar on the same
      letter > key signature in force; octave marks; MIDI range *)
Theorem abc_pitch_rule : forall pre s a l octs len base,
  run_items st0 pre = Ok s ->
  assoc_z l ABC_NOTE_TO_MIDI = Some base ->
  match acc_in_force (rev pre) a l with
  | None => step_item s (ITok (TNote a l octs len)) = Err EParse
  | Some d =>
      let p := base + d + 12 * (count_b true octs - count_b false octs) in
      if (p <? MIN_MIDI_PITCH) || (MAX_MIDI_PITCH <? p)
      then step_item s (ITok (TNote a l octs len)) = Err EParse
      else forall s', step_item s (ITok (TNote a l octs len)) = Ok s' ->
           exists n rest, notes s' = n :: rest /\ n_pitch n = p
  end.
Proof. exact pitch_rule. Qed.
Print Assumptions abc_pitch_rule.

Theorem abc_base_pitch : forall l base, assoc_z l ABC_NOTE_TO_MIDI = Some base ->
  base = base_spec l /\ In (upper_c l) letters.
Proof. exact base_pitch_rule. Qed.
Print Assumptions abc_base_pitch.

Theorem abc_key_accidentals_total : forall h c, In c letters -> exists v, aget c (key_hist h) = Some v.
Proof. exact key_hist_total. Qed.
Print Assumptions abc_key_accidentals_total.

(* F natural in the bar after ^F (key C), sharp again only inside the bar *)
Example abc_pitch_rule_nonvacuous :
  let n a := ITok (TNote a 70 [] (mkLen None 0 None)) in
  acc_in_force (rev [ILine; n ASharp; n ANone]) ANone 70 = Some 1 /\
  acc_in_force (rev [ILine; n ASharp; ITok (TBar 0 1 0)]) ANone 70 = Some 0 /\
  acc_in_force (rev [ILine; n ASharp; ITok (TColons 2)]) ANone 70 = Some 0 /\
  exists s, run_items st0 [ILine; n ASharp; n ANone] = Ok s /\ map n_pitch (notes s) = [66; 66].
Proof. vm_compute. repeat split; try reflexivity. eexists; split; reflexivity. Qed.
Print Assumptions abc_pitch_rule_nonvacuous.

(** * Durations and onsets *)
Theorem abc_note_length : forall u l m, len_mult l = Some m ->
  exists q, note_length u l = Ok q /\ (q == u * m)%Q.
Proof. exact note_length_rule. Qed.
Print Assumptions abc_note_length.

Theorem abc_note_clock : forall s a l octs len s',
  step_note s a l octs len = Ok s' -> broken s = None ->
  exists p u ln,
    unit_len s = Some u /\ note_length u len = Ok ln /\ ~ (cur_qpm s == 0)%Q /\
    notes s' = mkN p (cur s) (cur s') :: notes s /\
    (cur s' == cur s + (60 / cur_qpm s) * (ln * 4))%Q.
Proof. exact step_note_clock. Qed.
Print Assumptions abc_note_clock.

Theorem abc_broken_rhythm : forall s gt k n2 n1 rest,
  notes s = n2 :: n1 :: rest -> 0 <= k ->
  let d1 := (n_end n1 - n_start n1)%Q in
  let d2 := (n_end n2 - n_start n2)%Q in
  (~ (d1 == d2)%Q -> apply_broken s (gt, k) = Err EParse) /\
  ((d1 == d2)%Q ->
   exists s' n2' n1', apply_broken s (gt, k) = Ok s' /\ notes s' = n2' :: n1' :: rest /\
     cur s' = cur s /\
     n_pitch n1' = n_pitch n1 /\ n_pitch n2' = n_pitch n2 /\
     n_start n1' = n_start n1 /\ n_end n2' = n_end n2 /\
     let move := (d1 - d1 / inject_Z (2 ^ k))%Q in
     (n_end n1' == n_end n1 + (if gt then move else - move))%Q /\
     (n_start n2' == n_start n2 + (if gt then move else - move))%Q).
Proof. exact apply_broken_rule. Qed.
Print Assumptions abc_broken_rhythm.

Theorem abc_durations : forall is t, parse_items is = Ok t ->
  (forall before n after, t_notes t = before ++ n :: after -> (n_start n == sumdur before)%Q) /\
  (t_total t == sumdur (t_notes t))%Q.
Proof. exact parsed_onsets. Qed.
Print Assumptions abc_durations.

Theorem abc_default_unit_length : forall s,
  match tsigs s with
  | [] => exists u, default_unit s = Ok u /\ (u == 1 / 8)%Q
  | [(_, n, d)] =>
      0 < d ->
      exists u, default_unit s = Ok u /\
        (u == (if 4 * n <? 3 * d then 1 / 16 else 1 / 8))%Q
  | _ => default_unit s = Err EParse
  end.
Proof. exact default_unit_rule. Qed.
Print Assumptions abc_default_unit_length.

Theorem abc_tempo_rule : forall s u rate,
  match (match u with Some x => Some x | None => unit_len s end) with
  | None => add_tempo s u rate = Err ETypeError
  | Some x => exists s', add_tempo s u rate = Ok s' /\
      exists q, tempos s' = (cur s, q) :: tempos s /\ (q == x * 4 * inject_Z rate)%Q /\ cur_qpm s' = q
  end.
Proof. exact add_tempo_rule. Qed.
Print Assumptions abc_tempo_rule.

(* L:1/8 (default), Q:1/4=100: A B c>d  — three eighths of 0.3 s; c dotted, d halved *)
Example abc_durations_nonvacuous :
  let n l := ITok (TNote ANone l [] (mkLen None 0 None)) in
  exists t, parse_items [IField (FQ (QFrac [(1, 4)] 100)); ILine; n 65; n 66; n 99; ITok (TBroken true 1); n 100] = Ok t /\
    map (fun x => (n_start x, n_end x)) (t_notes t) =
      [(0, 3 # 10); (3 # 10, 3 # 5); (3 # 5, 21 # 20); (21 # 20, 6 # 5)]%Q.
Proof. eexists. split; vm_compute; reflexivity. Qed.
Print Assumptions abc_durations_nonvacuous.

(** * Tune isolation *)
Theorem abc_tune_isolation : forall h t0 ts,
  existsb is_x_line h = false ->
  no_foreign_in h (t0 :: ts) -> NoDup (map t_ref (oks h (t0 :: ts))) ->
  parse_book (h :: t0 :: ts) = BookOk (oks h (t0 :: ts)) (errs h (t0 :: ts)) /\
  forall t, In t (t0 :: ts) ->
    parse_book [h; t] = match parse_tune (h ++ t) with
                        | Ok tn => BookOk [tn] []
                        | Err e => BookOk [] [e]
                        end.
Proof. exact book_isolation_header. Qed.
Print Assumptions abc_tune_isolation.

Theorem abc_tune_isolation_no_header : forall ts,
  match ts with h :: _ :: _ => existsb is_x_line h = true | _ => True end ->
  no_foreign_in [] ts -> NoDup (map t_ref (oks [] ts)) ->
  parse_book ts = BookOk (oks [] ts) (errs [] ts) /\
  forall t, In t ts ->
    parse_book [t] = match parse_tune t with
                     | Ok tn => BookOk [tn] []
                     | Err e => BookOk [] [e]
                     end.
Proof. exact book_isolation_plain. Qed.
Print Assumptions abc_tune_isolation_no_header.

Theorem abc_foreign_exception_aborts_tunebook : forall h ts tunes excs t e,
  In t ts -> parse_tune (h ++ t) = Err e -> foreign e = true ->
  exists e', book_loop h ts tunes excs = BookRaise e'.
Proof. exact book_loop_foreign. Qed.
Print Assumptions abc_foreign_exception_aborts_tunebook.

Theorem abc_unsupported_reported : forall pre u post s,
  run_items st0 pre = Ok s ->
  parse_items (pre ++ ITok (TUnsup u) :: post) = Err (unsup_exn u) /\ foreign (unsup_exn u) = false.
Proof. exact unsupported_token_reported. Qed.
Print Assumptions abc_unsupported_reported.

Theorem abc_parts_and_voices_reported : forall pre post s,
  run_items st0 pre = Ok s ->
  parse_items (pre ++ IField FP :: post) = Err EPart /\
  parse_items (pre ++ IField FV :: post) = Err EMultiVoice /\
  parse_items (pre ++ ITok (TInline FP) :: post) = Err EPart /\
  parse_items (pre ++ ITok (TInline FV) :: post) = Err EMultiVoice.
Proof. exact unsupported_field_reported. Qed.
Print Assumptions abc_parts_and_voices_reported.

(** * Repeats: for every well-formed sequence of positive clock advances and bar /
      repeat symbols (sp_run accepts it: matching counts, every backward repeat
      has notes since the previous boundary; nothing left open), the parser's
      time-comparison bookkeeping (step_bar / step_colons / finalize of the model)
      yields sections 0..n-1 and one group per section with the notated count, so
      expand_section_groups plays segment i exactly c_i times, in order.
      Full statement over token lists (each advance = the notes between two bar
      symbols): see notes/C04.md; proved here for the section machine. *)
Theorem abc_repeat_expansion : forall evs p,
  sp_run sp0 evs = Some p -> opn p = None ->
  exists s s', srun st0 evs = Ok s /\ finalize s = Ok s' /\
    groups s' = (if anyb p then gnum (final_segs p) else []) /\
    (anyb p = true -> map snd (sects s') = desc (length (final_segs p) - 1)) /\
    (anyb p = false -> sects s' = []).
Proof. exact repeat_expansion. Qed.
Print Assumptions abc_repeat_expansion.

Theorem abc_expansion_order : forall cs, group_ids (rev (gnum cs)) = unroll (rev cs).
Proof. exact expansion_order. Qed.
Print Assumptions abc_expansion_order.

(* A |: B :| C ::: D :::|   ->   A B B C D D D *)
Example abc_repeat_expansion_nonvacuous :
  let evs := [EAdv 1; EBar 0 1 1; EAdv 1; EBar 1 1 0; EAdv 1; EBar 0 1 2; EAdv 1; EBar 2 1 0] in
  exists p, sp_run sp0 evs = Some p /\ opn p = None /\ anyb p = true /\
    unroll (rev (final_segs p)) = [0; 1; 1; 2; 3; 3; 3].
Proof. eexists. vm_compute. repeat split; reflexivity. Qed.
Print Assumptions abc_repeat_expansion_nonvacuous.

(** between bar symbols the parser does not touch the section state, and bar
    tokens are exactly the steps of the section machine above *)
Theorem abc_sections_only_at_bars : forall s i s',
  step_item s i = Ok s' -> is_bar_item i = false -> same_sec s s'.
Proof. exact non_bar_items_keep_sections. Qed.
Print Assumptions abc_sections_only_at_bars.

Theorem abc_bar_tokens_are_section_steps : forall s lc bl rc n,
  step_item s (ITok (TBar lc bl rc)) = sstep s (EBar lc bl rc) /\
  step_item s (ITok (TColons n)) = sstep s (EColons n).
Proof. exact bar_items_are_section_steps. Qed.
Print Assumptions abc_bar_tokens_are_section_steps.

(* the clock invariant used for the advances: the last note ends at the clock *)
Theorem abc_last_note_ends_at_clock : forall is s s', run_items s is = Ok s' ->
  chain (notes s) (cur s) -> chain (notes s') (cur s').
Proof. exact run_items_chain. Qed.
Print Assumptions abc_last_note_ends_at_clock.

(** * The supported grammar as a boolean predicate on token lists, and the two
      statements over raw token lists *)

(** No tune of the grammar — header fields with positive numbers, any key the
    regenerated tables know (in particular every key x mode spelling of
    SIG_TO_KEYS, next theorem), notes with any accidental / octave marks / every
    length form that is not a division by zero or the A//3 form, any bar lines,
    broken rhythm, repeats, inline fields, and any unsupported construct — can
    raise anything but an ABCParseError-family exception. *)
Theorem abc_supported_grammar_no_foreign_exception : forall ls,
  supported_tune ls = true ->
  match parse_tune ls with Ok _ => True | Err e => foreign e = false end.
Proof. exact supported_no_foreign. Qed.
Print Assumptions abc_supported_grammar_no_foreign_exception.

Theorem abc_table_keys_in_grammar : forall sig keys key m sp exp eacc,
  In (sig, keys) SIG_TO_KEYS -> In key keys ->
  mode_of_suffix (snd (key_split key)) = Some m -> In sp (spellings m) ->
  field_ok (FK (fst (key_split key)) sp exp eacc) = true.
Proof. exact table_keys_supported. Qed.
Print Assumptions abc_table_keys_in_grammar.

(* so the hypothesis of the isolation theorems holds for every tunebook of the grammar *)
Theorem abc_supported_tunebook_no_foreign : forall h ts,
  supported_tune h = true -> forallb supported_tune ts = true -> no_foreign_in h ts.
Proof. exact supported_book_no_foreign. Qed.
Print Assumptions abc_supported_tunebook_no_foreign.

Example abc_supported_grammar_nonvacuous :
  let n a l := TNote a l [true] (mkLen (Some 3) 1 (Some 2)) in
  let ls := [LField (FX 1); LField (FM (MFrac 6 8)); LField (FQ (QFrac [(3, 8)] 100));
             LField (FK [67; 98] [76; 121; 100] false [(ASharp, 102)]);       (* K:GbLyd ^f *)
             LMusic [TBar 0 1 1; n ASharp 99; TBroken true 2; n ANone 100; TUnsup UChord; TBar 1 1 0]] in
  supported_tune ls = true /\ parse_tune ls = Err EChord.
Proof. vm_compute. split; reflexivity. Qed.
Print Assumptions abc_supported_grammar_nonvacuous.

(** Repeat expansion over raw token lists: for every tune of the strict grammar
    (the grammar above, every note with a positive notated length) whose bar /
    repeat symbols are well nested with non-empty repeated bodies (sp_items reads
    the play counts off the token list, without any clock, and accepts it; no
    repeat left open), if the tune parses then its section groups are exactly
    (segment i, count c_i) in order and the model of expand_section_groups
    succeeds and plays the sections in the notated order. *)
Theorem abc_repeat_expansion_tokens : forall ls p t,
  strict_tune ls = true ->
  sp_items sp0 (flatten ls) = Some p -> opn p = None ->
  parse_tune ls = Ok t ->
  let counts := rev (final_segs p) in
  t_groups t = (if anyb p then numbered 0 counts else []) /\
  exists ns, expand t = Ok ((if anyb p then unroll counts else []), ns).
Proof. exact repeat_expansion_tokens. Qed.
Print Assumptions abc_repeat_expansion_tokens.

(* A |: B c :| d ::: e :::|   ->   0 1 1 2 3 3 3 *)
Example abc_repeat_expansion_tokens_nonvacuous :
  let n l := TNote ANone l [] (mkLen None 0 None) in
  let ls := [LField (FX 1); LField (FK [67] [] false []);
             LMusic [n 65; TBar 0 1 1; n 66; n 99; TBar 1 1 0; n 100; TBar 0 1 2; n 101; TBar 2 1 0]] in
  let same (a b : list Z) := if list_eq_dec Z.eq_dec a b then true else false in
  strict_tune ls = true /\
  match sp_items sp0 (flatten ls), parse_tune ls with
  | Some p, Ok t =>
      match expand t with
      | Ok (ids, ns) =>
          (match opn p with None => true | Some _ => false end) && anyb p &&
          same ids [0; 1; 1; 2; 3; 3; 3] &&
          same (map n_pitch ns) [69; 71; 72; 71; 72; 74; 76; 76; 76]
      | Err _ => false
      end
  | _, _ => false
  end = true.
Proof. vm_compute. split; reflexivity. Qed.
Print Assumptions abc_repeat_expansion_tokens_nonvacuous.

(** * Note level: expanded notes vs the notes of the UNROLLED token list
      (Model/AbcUnroll.v: every bar / repeat symbol becomes a plain bar line; a repeated
      body, from its first note to the closing symbol, is written out the notated number
      of times).  The general statement

        no_inline_fields_in_repeats is = true -> broken_between_notes false is = true ->
        parse_items is = Ok t ->
        exists ids ns t', expand t = Ok (ids, ns) /\ parse_items (unroll_items is) = Ok t' /\
                          notes_eqb ns (t_notes t') = true

      is NOT proved for all item lists.  Established: the two hypotheses are necessary
      (refutations), the replay theorem that drives it, complete enumeration for all lists
      of <= 5 tokens over a 13-symbol alphabet, and the runner evaluates the statement on
      every generated tune of every check run. *)

(* |: A [Q:1/4=60] B :| ,  |: A [L:1/4] B :| ,  |: F [K:G] F :|  — a field inside a body
   played twice: the expansion replays the first pass, the unrolled reading keeps the
   changed tempo / unit length / key *)
Theorem abc_expansion_notes_inline_tempo_refuted :
  let is := [ILine; ITok (TBar 0 1 1); nt 65; ITok (TInline (FQ (QFrac [(1, 4)] 60))); nt 66; ITok (TBar 1 1 0)] in
  no_inline_fields_in_repeats is = false /\ broken_between_notes false is = true /\ readings_differ is = true.
Proof. exact expansion_notes_inline_tempo_refuted. Qed.
Print Assumptions abc_expansion_notes_inline_tempo_refuted.

Theorem abc_expansion_notes_inline_unit_length_refuted :
  let is := [ILine; ITok (TBar 0 1 1); nt 65; ITok (TInline (FL 1 4)); nt 66; ITok (TBar 1 1 0)] in
  no_inline_fields_in_repeats is = false /\ readings_differ is = true.
Proof. exact expansion_notes_inline_unit_length_refuted. Qed.
Print Assumptions abc_expansion_notes_inline_unit_length_refuted.

Theorem abc_expansion_notes_inline_key_refuted :
  let is := [ILine; ITok (TBar 0 1 1); nt 70; ITok (TInline (FK [71] [] false [])); nt 70; ITok (TBar 1 1 0)] in
  no_inline_fields_in_repeats is = false /\ readings_differ is = true.
Proof. exact expansion_notes_inline_key_refuted. Qed.
Print Assumptions abc_expansion_notes_inline_key_refuted.

(* A > |: B :|  — the second hypothesis is needed too *)
Theorem abc_expansion_notes_broken_across_boundary_refuted :
  let is := [ILine; nt 65; ITok (TBroken true 1); ITok (TBar 0 1 1); nt 66; ITok (TBar 1 1 0)] in
  broken_between_notes false is = false /\ readings_differ is = true.
Proof. exact expansion_notes_broken_across_boundary_refuted. Qed.
Print Assumptions abc_expansion_notes_broken_across_boundary_refuted.

(* fields right after the opening symbol (written once) and in bodies played once are fine *)
Theorem abc_expansion_notes_fields_outside_bodies_ok :
  expansion_check [ILine; ITok (TBar 0 1 1); ITok (TInline (FQ (QFrac [(1, 4)] 60))); nt 65; nt 66;
                   ITok (TBar 1 1 0); nt 67; ITok (TInline (FL 1 4)); nt 65; ITok (TBar 0 2 0); nt 66] = 1.
Proof. exact expansion_notes_fields_outside_bodies_ok. Qed.
Print Assumptions abc_expansion_notes_fields_outside_bodies_ok.

(** The replay theorem: a field-free body (notes, no-ops, broken rhythm between notes,
    plain bar lines, line starts) run from two parser states with the same key and bar
    accidentals, unit length and tempo, no pending broken rhythm, and clocks differing by
    d succeeds or fails identically, ends in the same musical state, and appends the same
    notes (pitch for pitch) shifted by d — why writing a body out again equals replaying
    its notes later. *)
Theorem abc_body_replay : forall B d a b,
  kacc b = kacc a -> bacc b = bacc a -> unit_len b = unit_len a -> cur_qpm b = cur_qpm a ->
  in_header a = false -> in_header b = false -> broken a = None -> broken b = None ->
  (cur b == cur a + d)%Q ->
  forallb body_item B = true -> broken_between_notes false B = true ->
  match run_items a B, run_items b B with
  | Ok a', Ok b' =>
      kacc b' = kacc a' /\ bacc b' = bacc a' /\ unit_len b' = unit_len a' /\ cur_qpm b' = cur_qpm a' /\
      broken b' = broken a' /\ (cur b' == cur a' + d)%Q /\
      Forall2 (shifted d) (firstn (count_notes B) (notes a')) (firstn (count_notes B) (notes b'))
  | Err e, Err e' => e = e'
  | _, _ => False
  end.
Proof. exact body_replay. Qed.
Print Assumptions abc_body_replay.

(** Complete enumeration in the kernel: every item list of at most 5 tokens over sigma13. *)
Theorem abc_expansion_notes_bounded : forall l,
  (length l <= 5)%nat -> Forall (fun x => In x sigma13) l ->
  let is := ILine :: l in
  no_inline_fields_in_repeats is = true -> broken_between_notes false is = true ->
  forall t, parse_items is = Ok t ->
  exists ids ns t', expand t = Ok (ids, ns) /\ parse_items (unroll_items is) = Ok t' /\
                    notes_eqb ns (t_notes t') = true.
Proof. exact expansion_notes_bounded. Qed.
Print Assumptions abc_expansion_notes_bounded.

Example abc_expansion_notes_bounded_nonvacuous :
  (20000 <=? Z.of_nat (length (filter (fun l => expansion_check (ILine :: l) =? 1) (lists_upto 5)))) = true.
Proof. exact expansion_enumeration_nonvacuous. Qed.
Print Assumptions abc_expansion_notes_bounded_nonvacuous.

(* what the runner's per-tune value means *)
Theorem abc_expansion_check_meaning : forall is,
  expansion_check is <> 2 ->
  no_inline_fields_in_repeats is = true -> broken_between_notes false is = true ->
  forall t, parse_items is = Ok t ->
  exists ids ns t', expand t = Ok (ids, ns) /\ parse_items (unroll_items is) = Ok t' /\
                    notes_eqb ns (t_notes t') = true.
Proof. exact expansion_check_meaning. Qed.
Print Assumptions abc_expansion_check_meaning.
