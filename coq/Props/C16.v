(** Props/C16.v — C16: decoding arbitrary bytes as MIDI fails only with
    MIDIConversionError.  PARTIAL claim: these theorems cover everything
    [midi_to_note_sequence] does after the [pretty_midi.PrettyMIDI] constructor has
    returned, for every abstract PrettyMIDI object [m] satisfying the boolean
    invariant [pm_invb] (monitored by the harness on every object that parses);
    bytes -> PrettyMIDI is fuzzed, not modelled.
    Only statements, [exact], and [Print Assumptions]. *)
From Coq Require Import ZArith List Bool.
From NS Require Import Base.NoteSeq Gen.G16 Model.MidiConvert Proofs.MidiConvert.
Import ListNotations.
Local Open Scope Z_scope.

(** [core] Only the documented exception, and only well-formed results:
    0 <= start <= end <= total_time, pitch / velocity in 0..127, every event time >= 0. *)
Theorem C16_convert_only_documented : forall m,
  pm_invb m = true ->
  convert m = Err MIDIConversionError \/ exists c, convert m = Ok c /\ c16_wf c.
Proof. exact convert_only_documented. Qed.
Print Assumptions C16_convert_only_documented.

(** [core] A non-positive resolution (SMPTE time division) is rejected whatever else the object holds. *)
Theorem C16_nonpositive_resolution_rejected : forall m,
  pm_res m <= 0 -> convert m = Err MIDIConversionError.
Proof. exact convert_rejects_nonpositive_resolution. Qed.
Print Assumptions C16_nonpositive_resolution_rejected.

(** [core] Exactly when it raises: SMPTE/zero division, a denominator that does not fit int32
    (e.g. 2^255), or a key number outside 0..23. *)
Theorem C16_convert_error_iff : forall m,
  pm_invb m = true ->
  (convert m = Err MIDIConversionError <->
   pm_res m <= 0 \/ den_overflows m = true \/ bad_mode m = true).
Proof. exact convert_error_iff. Qed.
Print Assumptions C16_convert_error_iff.

Theorem C16_key_numbers_0_23_accepted : forall m,
  forallb (fun k => (0 <=? pk_number k) && (pk_number k <=? 23)) (pm_keys m) = true -> bad_mode m = false.
Proof. exact bad_mode_false_when_0_23. Qed.
Print Assumptions C16_key_numbers_0_23_accepted.

(** [ext] What a successful conversion contains (both the repaired and the unrepaired code). *)
Theorem C16_convert_ok_content : forall fixed m c,
  convert_gen fixed m = Ok c ->
  s_tpq (c_seq c) = pm_res m /\
  s_tempos (c_seq c) = map conv_tempo (pm_tempos m) /\
  length (s_tsigs (c_seq c)) = length (pm_tsigs m) /\
  length (s_ksigs (c_seq c)) = length (pm_keys m) /\
  map (fun n => (n_start n, n_end n, n_pitch n, n_vel n)) (s_notes (c_seq c)) =
    map (fun n => (pn_start n, pn_end n, pn_pitch n, pn_vel n)) (all_notes m) /\
  s_total (c_seq c) = fold_left upd_total (all_notes m) 0 /\
  c_parser c = SRC_PRETTY_MIDI /\ c_encoding c = ENC_MIDI.
Proof. exact convert_ok_content. Qed.
Print Assumptions C16_convert_ok_content.

(** [ext] Whenever the conversion succeeds its result is exactly the error-free specification [spec]
    (plain maps over the object: instrument index / program / is_drum tags, key = number mod 12, ...). *)
Theorem C16_convert_ok_is_spec : forall fixed m c, convert_gen fixed m = Ok c -> c = spec m.
Proof. exact convert_ok_is_spec. Qed.
Print Assumptions C16_convert_ok_is_spec.

(** [ext] total_time is exactly the latest note end (0 without notes). *)
Theorem C16_total_time_is_max_end : forall m c,
  pm_invb m = true -> convert m = Ok c ->
  s_total (c_seq c) = fold_left (fun t n => Z.max t (pn_end n)) (all_notes m) 0.
Proof. exact convert_total_is_max. Qed.
Print Assumptions C16_total_time_is_max_end.

(** The repair is conservative. *)
Theorem C16_fix_changes_nothing_for_positive_resolution : forall m,
  0 < pm_res m -> convert_legacy m = convert m.
Proof. exact convert_legacy_same_when_positive. Qed.
Print Assumptions C16_fix_changes_nothing_for_positive_resolution.

(** Defect D1: the unrepaired code returns an ill-formed sequence for an object that
    pretty_midi really produces (SMPTE division, tempo change after tick 0). *)
Theorem C16_convert_legacy_refuted :
  exists m, pm_invb m = true /\ exists c, convert_legacy m = Ok c /\ ~ c16_wf c.
Proof. exact convert_legacy_refuted. Qed.
Print Assumptions C16_convert_legacy_refuted.

(** Every hypothesis of [pm_invb] is necessary (16 witnesses, one per dropped hypothesis). *)
Theorem C16_pm_inv_hypotheses_necessary :
  forallb (fun m => negb (pm_invb m) && foreign_or_illformed m) hyp_witnesses = true.
Proof. exact pm_inv_hypotheses_necessary. Qed.
Print Assumptions C16_pm_inv_hypotheses_necessary.

(** ...and none is needed for denominators or key numbers. *)
Example C16_huge_denominator_is_documented_error :
  pm_invb (mkPm 480 [mkPTsig 0 4 (2 ^ 255)] [] [] []) = true /\
  convert (mkPm 480 [mkPTsig 0 4 (2 ^ 255)] [] [] []) = Err MIDIConversionError.
Proof. exact convert_handles_huge_denominator. Qed.
Print Assumptions C16_huge_denominator_is_documented_error.

Example C16_convert_nonvacuous :
  pm_invb nv_pm = true /\
  exists c, convert nv_pm = Ok c /\ length (s_notes (c_seq c)) = 3%nat /\ s_total (c_seq c) = 9 /\
            s_ksigs (c_seq c) = [mkKsig 0 1 KS_MINOR] /\ c_infos c = [mkInfo 0 [112; 105]].
Proof. exact convert_nonvacuous. Qed.
Print Assumptions C16_convert_nonvacuous.

(** Order-independence of the correspondence for constructed objects (false alarm C03-h1):
    whatever either variant of the conversion raises is in the order-independent set
    [exn_possible]; an empty set means success; and on every object satisfying the range
    invariant (all that byte strings parse to) no foreign class is possible at all. *)
Theorem C16_convert_error_in_possible_set : forall fixed m e,
  convert_gen fixed m = Err e -> exn_possible m e = true.
Proof. exact convert_err_possible. Qed.
Print Assumptions C16_convert_error_in_possible_set.

Theorem C16_nothing_possible_means_success : forall fixed m,
  can_mce m = false -> can_value m = false -> can_unicode m = false -> exists c, convert_gen fixed m = Ok c.
Proof. exact convert_ok_when_nothing_possible. Qed.
Print Assumptions C16_nothing_possible_means_success.

Theorem C16_range_invariant_excludes_foreign_classes : forall m,
  pm_rangeb m = true -> INT32_MIN <= pm_res m -> can_value m = false /\ can_unicode m = false.
Proof. exact pm_rangeb_no_foreign_possible. Qed.
Print Assumptions C16_range_invariant_excludes_foreign_classes.

(** Constructor-valid objects ([pm_ctorb]: what pretty_midi's TimeSignature / KeySignature / Note
    constructors enforce, hence all that byte strings parse to; the harness builds and judges constructed
    objects only inside it — false alarm C16-h5): the post-constructor stage raises exactly for a
    non-positive division or a denominator above INT32_MAX. *)
Theorem C16_constructible_error_iff : forall m,
  pm_ctorb m = true -> pm_invb m = true ->
  (convert m = Err MIDIConversionError <->
   pm_res m <= 0 \/ existsb (fun t => INT32_MAX <? pt_den t) (pm_tsigs m) = true).
Proof. exact convert_error_iff_constructible. Qed.
Print Assumptions C16_constructible_error_iff.
