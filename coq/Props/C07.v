(** Props/C07.v — C07: event extraction captures the quantized music it is given, step for step.
    Only statements, [exact], and [Print Assumptions].  The models follow note_seq after
    notes/C07-fix-1..4.diff (see the headers of Model/Fq*.v). *)
From Coq Require Import ZArith List Bool Permutation Sorted.
From NS Require Import Base.NoteSeq Gen.G07 Model.FqCommon Model.FqMelody Model.FqDrums Model.FqChords
  Model.FqPianoroll Model.FqPerformance Model.FqSpec
  Proofs.FqCommon Proofs.FqPianoroll Proofs.FqDrums Proofs.FqChords Proofs.FqPerformance Proofs.FqPerfRound Proofs.FqMelody Proofs.FqExample.
Import ListNotations.
Local Open Scope Z_scope.

(** Performance / MetricPerformance: every TIME_SHIFT is in 1..max_shift_steps and the shifts sum
    to the steps elapsed from start_step to the end of the last extracted note — for all note
    lists, all start steps, bin counts, instrument filters and max_shift_steps >= 1. *)
Theorem C07_perf_shifts : forall p ns,
  1 <= fp_max_shift p -> Forall (fun n => n_qstart n <= n_qend n) ns ->
  (forall e, In e (pf_from_quantized p ns) -> fst e = EV_TIME_SHIFT -> 1 <= snd e <= fp_max_shift p) /\
  sum_shifts (pf_from_quantized p ns) = pf_elapsed p ns.
Proof. exact perf_shifts. Qed.
Print Assumptions C07_perf_shifts.

(** Performance / MetricPerformance: rendering the extracted events back (the model of
    BasePerformance._to_sequence at step level) yields exactly the extracted notes as a multiset:
    pitch, start step, end step, velocity-bin representative (the caller's default velocity when
    num_velocity_bins = 0) — whenever no two extracted notes of one pitch overlap. *)
Theorem C07_perf_notes_roundtrip : forall p dv ns,
  1 <= fp_max_shift p -> (fp_bins p = 0 \/ 1 <= fp_bins p) ->
  Forall (fun n => n_qstart n < n_qend n /\ MIN_MIDI_VELOCITY <= n_vel n) ns ->
  no_pitch_overlap (pf_selected p ns) ->
  Permutation (pf_to_step_notes p dv (pf_from_quantized p ns))
              (map (pf_note_proj (fp_bins p) dv) (pf_selected p ns)).
Proof. exact perf_notes_roundtrip. Qed.
Print Assumptions C07_perf_notes_roundtrip.

(** program / is_drum carried by the performance (what to_sequence stamps on every note) *)
Theorem C07_perf_program_is_drum : forall instr ns,
  let l := filter (fun n => match instr with None => true | Some i => n_instr n =? i end) ns in
  match pf_program_is_drum instr ns with
  | (pr, Some true) => pr = None /\ forall n, In n l -> n_drum n = true
  | (pr, Some false) =>
      (forall n, In n l -> n_drum n = false) /\
      match pr with Some x => l <> [] /\ forall n, In n l -> n_prog n = x | None => True end
  | (pr, None) => pr = None /\ (exists n, In n l /\ n_drum n = true) /\ (exists n, In n l /\ n_drum n = false)
  end.
Proof. exact perf_program_is_drum_spec. Qed.
Print Assumptions C07_perf_program_is_drum.

(** NotePerformance: if extraction succeeds, rendering it back gives exactly the selected notes
    (pitch, start step, end step, velocity-bin representative), and every tuple respects the
    shift and duration limits. *)
Theorem C07_noteperf_roundtrip : forall p md ns evs,
  np_from_quantized p md ns = Ok evs ->
  np_to_step_notes p evs
  = map (fun n => (n_pitch n, n_qstart n, n_qend n, bin_to_vel (vel_to_bin (n_vel n) (fp_bins p)) (fp_bins p)))
        (pf_sorted_notes (fp_start p) (fp_instrument p) ns)
  /\ Forall (fun e => let '(sh, q, b, du) := e in 0 <= sh <= fp_max_shift p /\ 1 <= du <= md) evs.
Proof. exact noteperf_roundtrip. Qed.
Print Assumptions C07_noteperf_roundtrip.

Theorem C07_perf_selected_notes : forall start instr ns,
  Permutation (pf_sorted_notes start instr ns) (filter (pf_keep start instr) ns).
Proof. exact pf_sorted_notes_perm. Qed.
Print Assumptions C07_perf_selected_notes.

(** PianorollSequence: frame i holds exactly the in-range pitches with a note covering step
    start_step + i, minus (split_repeats) those re-struck at the next step — for ALL note lists
    (no non-overlap hypothesis needed once notes are painted in start order). *)
Theorem C07_pianoroll_frames : forall p s r,
  pr_from_quantized p s = Ok r ->
  pe_start r = pp_start p /\
  len (pe_events r) = s_qsteps s - pp_start p /\
  forall i, 0 <= i < s_qsteps s - pp_start p ->
    znth [] i (pe_events r) = pr_spec_frame p (s_notes s) i.
Proof. exact pianoroll_frames. Qed.
Print Assumptions C07_pianoroll_frames.

Theorem C07_pianoroll_frame_is_pitch_set : forall p ns s q,
  In q (pr_spec_frame p ns s) <->
  0 <= q <= pp_max_pitch p - pp_min_pitch p /\ pr_spec_cell p ns s q = true.
Proof. exact pr_spec_frame_In. Qed.
Print Assumptions C07_pianoroll_frame_is_pitch_set.

Theorem C07_pianoroll_errors : forall p s,
  (forall n, In n (s_notes s) -> n_qend n <= s_qsteps s /\ n_qstart n < n_qend n) ->
  pp_min_pitch p <= pp_max_pitch p + 1 ->
  match pr_from_quantized p s with
  | Ok _ => 0 < s_spq s /\ pp_start p <= s_qsteps s
  | Err c => (c = E_QSTATUS /\ s_spq s <= 0) \/ (c = E_VALUE /\ s_qsteps s < pp_start p)
  end.
Proof. exact pianoroll_errors. Qed.
Print Assumptions C07_pianoroll_errors.

(** DrumTrack: starts at the bar of the first accepted hit, keeps the hits up to the gap, the event
    at every step is the list of pitches of the accepted notes starting there. *)
Theorem C07_drums_steps : forall p s r spb,
  steps_per_bar s = Ok spb -> 0 < spb ->
  dr_from_quantized p s = Ok r ->
  de_spb r = spb /\ de_spq r = s_spq s /\
  match keys (dr_sorted_groups p (s_notes s)) with
  | [] => de_events r = [] /\ de_start r = 0 /\ de_end r = 0
  | (k0 :: _) as ks =>
      let last_kept := last (dr_kept_steps (dp_gap_bars p * spb) ks) 0 in
      let L := last_kept - de_start r + 1 in
      de_start r = bar_start k0 (dp_search_start p) spb /\
      len (de_events r) = (if dp_pad_end p then pad_len L spb else L) /\
      de_end r = de_start r + len (de_events r) /\
      forall i, 0 <= i < len (de_events r) ->
        znth [] i (de_events r) = dr_spec_event p (s_notes s) last_kept (de_start r + i)
  end.
Proof. exact drums_steps. Qed.
Print Assumptions C07_drums_steps.

Theorem C07_drums_hit_steps : forall p ns,
  let ks := keys (dr_sorted_groups p ns) in
  StronglySorted Z.lt ks /\
  forall k, In k ks <-> exists n, In n ns /\ dr_keep p n = true /\ n_qstart n = k.
Proof. exact drums_hit_steps. Qed.
Print Assumptions C07_drums_hit_steps.

Theorem C07_drums_gap_cut : forall G ks prev,
  exists rest, ks = dr_cut G prev ks ++ rest /\
    match rest with [] => True | k :: _ => G <= k - (last (prev :: dr_cut G prev ks) 0 + 1) end.
Proof. exact dr_cut_spec. Qed.
Print Assumptions C07_drums_gap_cut.

(** ChordProgression: the event at every step of [start, end) is the chord in force; the two
    error exits are exactly "two different chords on one step of the range" and "empty range". *)
Theorem C07_chords_steps : forall s a b spb r,
  steps_per_bar s = Ok spb -> ch_from_quantized s a b = Ok r ->
  let cs := ch_sorted (s_texts s) in
  a < b /\ ce_start r = a /\ ce_end r = b /\ ce_spb r = spb /\ ce_spq r = s_spq s /\
  len (ce_events r) = b - a /\
  (forall i, 0 <= i < b - a -> znth NO_CHORD i (ce_events r) = ch_in_force cs (a + i)) /\
  ~ ch_clash cs a b.
Proof. exact chords_steps. Qed.
Print Assumptions C07_chords_steps.

Theorem C07_chords_errors : forall s a b spb code,
  steps_per_bar s = Ok spb -> ch_from_quantized s a b = Err code ->
  let cs := ch_sorted (s_texts s) in
  (code = E_COINCIDENT /\ ch_clash cs a b) \/ (code = E_BADCHORD /\ b <= a /\ ~ ch_clash cs a b).
Proof. exact chords_errors. Qed.
Print Assumptions C07_chords_errors.

Theorem C07_chords_clash_reported : forall s a b spb,
  steps_per_bar s = Ok spb -> ch_clash (ch_sorted (s_texts s)) a b ->
  ch_from_quantized s a b = Err E_COINCIDENT.
Proof. exact chords_clash_reported. Qed.
Print Assumptions C07_chords_clash_reported.

Theorem C07_chords_sorted : forall ts,
  Permutation (ch_sorted ts) (filter (fun a => tx_type a =? CHORD_SYMBOL) ts) /\
  StronglySorted (fun x y => tx_qstep x <= tx_qstep y) (ch_sorted ts).
Proof. exact chords_sorted_spec. Qed.
Print Assumptions C07_chords_sorted.

(** Melody.  [cs] = candidates sorted by (start, pitch desc); [acc] = accepted notes (highest
    candidate per start step, cut where a note starts gap_bars bars or more after the previous
    accepted note ended).  The melody starts at the bar of the first accepted note; event i is the
    onset of the accepted note starting at step start+i, NOTE_OFF where the current note ends with
    nothing newer started (the last note's NOTE_OFF only if padding follows), NO_EVENT otherwise. *)
Theorem C07_melody_steps : forall p s spb r,
  steps_per_bar s = Ok spb -> 0 < spb -> Forall mel_wf_note (s_notes s) ->
  mel_from_quantized p s = Ok r ->
  let cs := mel_candidates p (s_notes s) in
  let acc := mel_accepted (mp_gap_bars p * spb) cs in
  me_spb r = spb /\ me_spq r = s_spq s /\
  match cs with
  | [] => me_events r = [] /\ me_start r = 0 /\ me_end r = 0
  | first :: _ =>
      let mss := bar_start (n_qstart first) (mp_search_start p) spb in
      let L := n_qend (last acc first) - mss in
      me_start r = mss /\
      len (me_events r) = (if mp_pad_end p then pad_len L spb else L) /\
      me_end r = mss + len (me_events r) /\
      (forall i, 0 <= i < len (me_events r) ->
         znth MELODY_NO_EVENT i (me_events r) = mel_spec_event acc mss L i) /\
      (mp_ignore_poly p = false -> ~ mel_poly cs acc)
  end.
Proof. exact melody_steps. Qed.
Print Assumptions C07_melody_steps.

(** The only exception on well-formed input is PolyphonicMelodyError, raised exactly when two
    candidates share the start step of an accepted note and ignore_polyphonic_notes is off. *)
Theorem C07_melody_errors : forall p s spb code,
  steps_per_bar s = Ok spb -> 0 < spb -> Forall mel_wf_note (s_notes s) ->
  mel_from_quantized p s = Err code ->
  let cs := mel_candidates p (s_notes s) in
  code = E_POLY /\ mp_ignore_poly p = false /\ mel_poly cs (mel_accepted (mp_gap_bars p * spb) cs).
Proof. exact melody_errors. Qed.
Print Assumptions C07_melody_errors.

Theorem C07_melody_polyphony_reported : forall p s spb,
  steps_per_bar s = Ok spb -> 0 < spb -> Forall mel_wf_note (s_notes s) ->
  let cs := mel_candidates p (s_notes s) in
  mp_ignore_poly p = false -> mel_poly cs (mel_accepted (mp_gap_bars p * spb) cs) ->
  mel_from_quantized p s = Err E_POLY.
Proof. exact melody_polyphony_reported. Qed.
Print Assumptions C07_melody_polyphony_reported.

Theorem C07_melody_candidates : forall p ns,
  let cs := mel_candidates p ns in
  Permutation cs (filter (mel_keep p) ns) /\
  StronglySorted (fun a b => n_qstart a < n_qstart b \/ (n_qstart a = n_qstart b /\ n_pitch b <= n_pitch a)) cs /\
  forall G a n, In a (mel_accepted G cs) -> In n cs -> n_qstart n = n_qstart a -> n_pitch n <= n_pitch a.
Proof. exact melody_candidates_spec. Qed.
Print Assumptions C07_melody_candidates.

(** bar alignment and padding arithmetic used by the statements above *)
Theorem C07_bar_start_spec : forall first ss spb, 0 < spb ->
  bar_start first ss spb <= first < bar_start first ss spb + spb /\ (bar_start first ss spb - ss) mod spb = 0.
Proof. exact bar_start_spec. Qed.
Print Assumptions C07_bar_start_spec.

Theorem C07_pad_len_spec : forall n spb, 0 < spb ->
  n <= pad_len n spb < n + spb /\ (pad_len n spb) mod spb = 0.
Proof. exact pad_len_spec. Qed.
Print Assumptions C07_pad_len_spec.

(** Non-vacuity: a concrete quantized sequence (two abutting C4, an E4 in another instrument, a drum
    hit at step 0; Proofs/FqExample.v) satisfies every hypothesis above, and the extractors return
    non-trivial values. *)
Example C07_nonvacuous :
  steps_per_bar ex_seq = Ok 16 /\
  Forall mel_wf_note ex_notes /\
  Forall (fun n => n_qstart n < n_qend n /\ MIN_MIDI_VELOCITY <= n_vel n) ex_notes /\
  no_pitch_overlap (pf_selected (mkPfParams 0 8 3 None) ex_notes) /\
  (exists r, mel_from_quantized (mkMelParams 0 0 1 false false true) ex_seq = Ok r /\
             me_start r = 32 /\ me_events r = [-2; -2; -2; -2; -2; -2; -2; -2; 60; -2; -2; -2; 60; -2]) /\
  (exists r, pr_from_quantized (mkPrParams 40 21 108 true) ex_seq = Ok r /\
             pe_events r = [[39]; [39]; [39]; []; [39; 43]; [39]]) /\
  (exists r, dr_from_quantized (mkDrParams 0 1 false false) ex_seq = Ok r /\ de_events r = [[36]]) /\
  (exists r, ch_from_quantized ex_seq 0 4 = Ok r /\ ce_events r = [NO_CHORD; NO_CHORD; [67]; [67]]) /\
  sum_shifts (pf_from_quantized (mkPfParams 0 8 3 None) ex_notes) = 46.
Proof. exact c07_nonvacuous. Qed.
Print Assumptions C07_nonvacuous.
