(** Props/C19.v — C19: chord and melody inference return a maximum-likelihood
    path of their model, and what they write is well-formed. *)
From Coq Require Import ZArith List Bool.
From NS Require Import Model.Viterbi Model.InferWrite Proofs.Viterbi Proofs.InferWrite.
Import ListNotations.
Local Open Scope Z_scope.

(** Optimality for ANY score type with a total order and an addition monotone
    in its left argument, any number of states and frames: the returned path
    is a valid state path and no state path of the same length scores higher,
    the score being accumulated exactly as the code accumulates it. *)
Theorem C19_viterbi_optimal_generic :
  forall (S : Type) (le : S -> S -> bool) (add : S -> S -> S) (d : S),
  (forall a, le a a = true) ->
  (forall a b c, le a b = true -> le b c = true -> le a c = true) ->
  (forall a b, le a b = false -> le b a = true) ->
  (forall a b c, le a b = true -> le (add a c) (add b c) = true) ->
  forall n init cols frames,
  shape n cols frames -> length init = n ->
  let best := viterbi_rev le add d init cols frames in
  valid_path n (Datatypes.S (length frames)) best /\
  forall p, valid_path n (Datatypes.S (length frames)) p ->
            le (score add d init cols (rev frames) p) (score add d init cols (rev frames) best) = true.
Proof. exact @viterbi_optimal. Qed.
Print Assumptions C19_viterbi_optimal_generic.

(** The instance the correspondence run executes against the real functions:
    integer log-likelihoods extended with -inf. *)
Theorem C19_viterbi_optimal_extended_integers : forall n init cols frames,
  shape n cols frames -> length init = n ->
  let best := @viterbi_rev (option Z) xle xadd None init cols frames in
  valid_path n (Datatypes.S (length frames)) best /\
  forall p, valid_path n (Datatypes.S (length frames)) p ->
            xle (score_x init cols (rev frames) p) (score_x init cols (rev frames) best) = true.
Proof. exact viterbi_x_optimal. Qed.
Print Assumptions C19_viterbi_optimal_extended_integers.

Theorem C19_viterbi_optimal_integers : forall n (init : list Z) cols frames,
  shape n cols frames -> length init = n ->
  let best := @viterbi_rev Z Z.leb Z.add 0 init cols frames in
  valid_path n (Datatypes.S (length frames)) best /\
  forall p, valid_path n (Datatypes.S (length frames)) p ->
            Z.leb (@score Z Z.add 0 init cols (rev frames) p)
                  (@score Z Z.add 0 init cols (rev frames) best) = true.
Proof. exact viterbi_Z_optimal. Qed.
Print Assumptions C19_viterbi_optimal_integers.

(** Chord annotations written from the path. *)
Theorem C19_chords_at_most_one_per_frame_in_order : forall l cur, sublist (write_chords cur l) l.
Proof. exact write_chords_sublist. Qed.
Print Assumptions C19_chords_at_most_one_per_frame_in_order.

Theorem C19_chords_consecutive_symbols_differ : forall l cur, adjacent_differ cur (write_chords cur l).
Proof. exact write_chords_differ. Qed.
Print Assumptions C19_chords_consecutive_symbols_differ.

Theorem C19_chords_in_force_is_inferred_chord : forall l cur lo,
  strictly_increasing lo l ->
  forall t f, In (t, f) l -> in_force cur (write_chords cur l) t = Some f.
Proof. exact write_chords_in_force. Qed.
Print Assumptions C19_chords_in_force_is_inferred_chord.

(** Melody notes written from the path. *)
Theorem C19_melody_notes_ordered_nonoverlapping_within_sequence : forall l cur lo total ns,
  times_increasing lo l -> cur_ok lo cur ->
  (forall e t, In (e, t) l -> t < total) -> lo < total ->
  write_melody cur l total = Some ns -> notes_ok (cur_start lo cur) total ns.
Proof. exact write_melody_ok. Qed.
Print Assumptions C19_melody_notes_ordered_nonoverlapping_within_sequence.

Theorem C19_melody_notes_start_at_onsets : forall l cur total ns,
  write_melody cur l total = Some ns ->
  forall n, In n ns -> (cur = Some (m_pitch n, m_start n)) \/ In (Onset (m_pitch n), m_start n) l.
Proof. exact write_melody_starts. Qed.
Print Assumptions C19_melody_notes_start_at_onsets.

(** Non-vacuity: a 2-state, 3-frame problem with a tie and a -inf transition. *)
Example C19_nonvacuous :
  let cols := [[Some 0; None]; [Some (-1); Some 0]] in
  let init := [Some (-1); Some (-1)] in
  let frames := [[Some (-2); Some (-2)]; [Some 0; Some (-3)]] in
  shape 2 cols frames /\ viterbi_x init cols frames = [0%nat; 0%nat; 0%nat] /\
  write_melody None [(Onset 60, 0); (Sustain 60, 5); (Rest, 9); (Onset 62, 12)] 20
    = Some [mkM 0 9 60; mkM 12 20 62].
Proof.
  split; [|split; reflexivity].
  unfold shape. cbn. repeat split; auto; repeat constructor.
Qed.
Print Assumptions C19_nonvacuous.
