(** Props/C19.v — C19: chord and melody inference return a maximum-likelihood
    path of their model, and what they write is well-formed.

    Conventions: [viterbi_rev] is the returned path most-recent-state first and
    [score ... (rev frames) p] the log-likelihood of a path [p] (same
    orientation) accumulated in exactly the left-nested order of additions the
    code performs; [viterbi = rev viterbi_rev] is what the functions return. *)
From Coq Require Import ZArith List Bool.
From NS Require Import Model.Viterbi Model.InferWrite Proofs.Viterbi Proofs.InferWrite Proofs.InferMelody Proofs.InferAssert.
Import ListNotations.
Local Open Scope Z_scope.

(** Optimality for ANY score type with a total order and an addition monotone
    in its left argument, any number of states and frames: the returned path
    is a valid state path and no state path of the same length scores higher. *)
Theorem C19_viterbi_optimal :
  forall (S : Type) (le : S -> S -> bool) (add : S -> S -> S) (d : S),
  (forall a, le a a = true) ->
  (forall a b c, le a b = true -> le b c = true -> le a c = true) ->
  (forall a b, le a b = false -> le b a = true) ->
  (forall a b c, le a b = true -> le (add a c) (add b c) = true) ->
  forall n init cols frames,
  shape n cols frames -> length init = n ->
  let best := viterbi_rev le add d init cols frames in
  valid_path n (Datatypes.S (length frames)) best /\
  forall p, valid_path n (Datatypes.S (length frames)) p ->
            le (score add d init cols (rev frames) p) (score add d init cols (rev frames) best) = true.
Proof. exact @viterbi_optimal. Qed.
Print Assumptions C19_viterbi_optimal.

(** Tie-breaking is numpy's: every arg-max the recursion takes (back-pointers and
    the final state) is the FIRST index attaining the maximum. *)
Theorem C19_argmax_is_first_maximal_index :
  forall (S : Type) (le : S -> S -> bool) (d : S),
  (forall a, le a a = true) ->
  (forall a b c, le a b = true -> le b c = true -> le a c = true) ->
  (forall a b, le a b = false -> le b a = true) ->
  forall l, l <> [] ->
  let i := fst (argmax le d l) in let v := snd (argmax le d l) in
  (i < length l)%nat /\ nth i l d = v /\
  (forall k, (k < length l)%nat -> le (nth k l d) v = true) /\
  (forall k, (k < i)%nat -> le v (nth k l d) = false).
Proof. exact @argmax_first_index. Qed.
Print Assumptions C19_argmax_is_first_maximal_index.

(** Instance: integer log-likelihoods extended with -inf (= log 0, which both
    inference functions produce); the instance the correspondence runs execute. *)
Theorem C19_viterbi_optimal_extended_integers : forall n init cols frames,
  shape n cols frames -> length init = n ->
  let best := @viterbi_rev (option Z) xle xadd None init cols frames in
  valid_path n (Datatypes.S (length frames)) best /\
  forall p, valid_path n (Datatypes.S (length frames)) p ->
            xle (score_x init cols (rev frames) p) (score_x init cols (rev frames) best) = true.
Proof. exact viterbi_x_optimal. Qed.
Print Assumptions C19_viterbi_optimal_extended_integers.

(** Instance: plain integers. *)
Theorem C19_viterbi_optimal_integers : forall n (init : list Z) cols frames,
  shape n cols frames -> length init = n ->
  let best := @viterbi_rev Z Z.leb Z.add 0 init cols frames in
  valid_path n (Datatypes.S (length frames)) best /\
  forall p, valid_path n (Datatypes.S (length frames)) p ->
            Z.leb (score_z init cols (rev frames) p) (score_z init cols (rev frames) best) = true.
Proof. exact viterbi_Z_optimal. Qed.
Print Assumptions C19_viterbi_optimal_integers.

(** Chord annotations (and key signatures) written from a path over any strictly
    increasing frame grid: a subsequence of the frames (at most one change per
    frame boundary, on frame boundaries), times strictly increasing, consecutive
    symbols differ, and the symbol in force at every frame is the inferred one. *)
Theorem C19_chords_written_wf : forall times figs lo,
  incr lo times ->
  let frames := combine times figs in
  let w := chords_written times figs in
  sublist w frames /\
  (forall t f, In (t, f) w -> In t times) /\
  strictly_increasing lo w /\
  adjacent_differ None w /\
  (forall t f, In (t, f) frames -> in_force None w t = Some f).
Proof. exact chords_written_wf. Qed.
Print Assumptions C19_chords_written_wf.

(** Quantized sequence: frame k starts at k * seconds_per_chord; no hypothesis
    on the path. *)
Theorem C19_chords_written_wf_quantized : forall spc figs, 0 < spc ->
  let times := frame_times_fixed spc (length figs) in
  length times = length figs /\
  (forall k, (k < length figs)%nat -> nth k times 0 = Z.of_nat k * spc) /\
  chords_wf (-1) times figs.
Proof. exact chords_written_wf_quantized. Qed.
Print Assumptions C19_chords_written_wf_quantized.

(** Beat-annotated sequence: frames start at 0 and at the distinct beat times
    strictly inside the sequence, for ANY list of beat annotations (unsorted,
    repeated, on or outside the boundaries). *)
Theorem C19_chords_written_wf_beats : forall beats total figs,
  let times := frame_times_beats beats total in
  (forall t, In t times <-> t = 0 \/ (In t beats /\ 0 < t < total)) /\
  chords_wf (-1) times figs.
Proof. exact chords_written_wf_beats. Qed.
Print Assumptions C19_chords_written_wf_beats.

(** Melody notes written by infer_melody_for_sequence for any event path on
    which its assertion does not fire: in order, non-overlapping, non-empty,
    inside [0, total_time], each starting where the path has an onset event of
    that pitch.  Hypothesis: note times lie in [0, total_time]. *)
Theorem C19_melody_written_wf : forall evs notes total ns,
  (forall n, In n notes -> 0 <= f_start n /\ 0 <= f_end n <= total) ->
  infer_melody_write evs notes total = Some ns ->
  notes_ok 0 total ns /\
  forall n, In n ns ->
    In (Onset (m_pitch n), m_start n) (combine evs (0 :: note_event_times (frame_notes notes total) total)).
Proof. exact infer_melody_write_wf. Qed.
Print Assumptions C19_melody_written_wf.

(** Reading the melody back: at the start of every frame the written notes sound
    exactly the pitch of that frame's melody event, and nothing on a rest — the
    notes are the path. *)
Theorem C19_melody_reads_back_as_path : forall evs notes total ns,
  (forall n, In n notes -> 0 <= f_start n /\ 0 <= f_end n <= total) ->
  frame_notes notes total <> [] ->
  infer_melody_write evs notes total = Some ns ->
  forall e t, In (e, t) (combine evs (0 :: note_event_times (frame_notes notes total) total)) ->
  sounding ns t = ev_pitches e.
Proof. exact infer_melody_readback. Qed.
Print Assumptions C19_melody_reads_back_as_path.

(** Frame summaries: an onset mark for pitch p in frame f means a real pitched
    note of pitch p starts exactly where frame f starts.  (True of the code with
    notes/C19-fix-1.diff; false without it: [onset_frame_needs_end_filter].) *)
Theorem C19_onset_frame_starts_at_note : forall notes total f p,
  (forall n, In n notes -> 0 <= f_start n /\ 0 <= f_end n <= total) ->
  let ns := frame_notes notes total in
  let et := note_event_times ns total in
  has_onset ns et f p = true ->
  exists n, In n notes /\ melodic total n = true /\ f_pitch n = p /\ nth f (0 :: et) 0 = f_start n.
Proof. exact onset_frame_starts_at_note. Qed.
Print Assumptions C19_onset_frame_starts_at_note.

(** Melody notes start at onsets of real notes of the same pitch: for ANY state
    path of finite log-likelihood (in particular the Viterbi path whenever some
    path is possible at all), given the zero-probability structure of the
    un-modelled _melody_frame_log_likelihood as an explicit hypothesis (an onset
    state is impossible in a frame without an onset of its pitch; checked by the
    harness on every end-to-end case). *)
Theorem C19_melody_notes_start_at_real_notes : forall notes total cols e0 frames path ns,
  (forall n, In n notes -> 0 <= f_start n /\ 0 <= f_end n <= total) ->
  let fn := frame_notes notes total in
  let et := note_event_times fn total in
  let pitches := note_pitches fn in
  (forall f k, (k < length pitches)%nat -> has_onset fn et f (nth k pitches 0) = false ->
               nth (Datatypes.S k) (nth f (e0 :: frames) []) None = None) ->
  length path = Datatypes.S (length frames) ->
  score_x (melody_init cols e0) cols (rev frames) (rev path) <> None ->
  infer_melody_write (map (index_to_event pitches) path) notes total = Some ns ->
  forall n, In n ns ->
    exists r, In r notes /\ melodic total r = true /\ f_pitch r = m_pitch n /\ f_start r = m_start n.
Proof. exact melody_notes_start_at_real_notes. Qed.
Print Assumptions C19_melody_notes_start_at_real_notes.

(** The writer's [assert pitch == note_pitch] never fires on the output of
    _melody_viterbi, for ANY likelihoods (even when every path has likelihood
    zero and the arg-maxima degenerate to index 0), provided a sustain state has
    transition log-probability -inf from every state other than the onset or
    sustain state of its own pitch — the structure _melody_transition_distribution
    builds.  States: 0 rest, 1..np onsets, np+1..2np sustains. *)
Theorem C19_melody_assertion_never_fires : forall pitches cols e0 frames times total,
  let np := length pitches in
  let n := Datatypes.S (2 * np) in
  length cols = n -> Forall (fun c => length c = n) cols ->
  length e0 = n -> Forall (fun e => length e = n) frames ->
  (forall i j, (i < n)%nat -> (j < n)%nat -> safe_step np i j = false -> tr None cols i j = None) ->
  let path := viterbi_x (melody_init cols e0) cols frames in
  write_melody None (combine (map (index_to_event pitches) path) times) total <> None.
Proof. exact viterbi_melody_assert_safe. Qed.
Print Assumptions C19_melody_assertion_never_fires.

(** Witness that the end-of-sequence filter is needed (the defect repaired by
    notes/C19-fix-1.diff): without it a note sitting on the end of the sequence
    marks an onset in a frame that starts earlier. *)
Theorem C19_onset_frame_without_end_filter_refuted :
  exists ns total f p,
    (forall n, In n ns -> 0 <= f_start n /\ 0 <= f_end n <= total) /\
    has_onset ns (note_event_times ns total) f p = true /\
    forall n, In n ns -> f_pitch n = p -> nth f (0 :: note_event_times ns total) 0 <> f_start n.
Proof. exact onset_frame_needs_end_filter. Qed.
Print Assumptions C19_onset_frame_without_end_filter_refuted.

(** Non-vacuity: a 2-state, 3-frame problem with ties and a -inf transition;
    the optimum is attained, a competitor scores strictly less, a path through
    the forbidden transition scores -inf; the writers produce non-trivial output;
    the hypotheses of the frame theorems are satisfiable. *)
Example C19_nonvacuous :
  let cols := [[Some 0; None]; [Some (-1); Some 0]] in
  let init := [Some (-1); Some (-1)] in
  let frames := [[Some (-2); Some (-2)]; [Some 0; Some (-3)]] in
  shape 2 cols frames /\ length init = 2%nat /\
  viterbi_x init cols frames = [0%nat; 0%nat; 0%nat] /\
  score_x init cols (rev frames) [0%nat; 0%nat; 0%nat] = Some (-3) /\
  score_x init cols (rev frames) [1%nat; 1%nat; 0%nat] = Some (-7) /\
  score_x init cols (rev frames) [0%nat; 1%nat; 0%nat] = None /\
  valid_path 2 3 [1%nat; 1%nat; 0%nat] /\
  chords_written (frame_times_fixed 8 5) [3; 3; 0; 3; 3] = [(0, 3); (16, 0); (24, 3)] /\
  frame_times_beats [12; 4; 20; 12; 0; 4] 20 = [0; 4; 12] /\ incr (-1) (frame_times_beats [12; 4; 20; 12; 0; 4] 20) /\
  (let notes := [mkF 60 0 5 false 0; mkF 60 5 9 false 0; mkF 62 12 20 false 0; mkF 36 0 20 true 0; mkF 70 20 20 false 0] in
   (forall n, In n notes -> 0 <= f_start n /\ 0 <= f_end n <= 20) /\
   note_event_times (frame_notes notes 20) 20 = [5; 9; 12] /\
   has_onset (frame_notes notes 20) [5; 9; 12] 3 62 = true /\
   infer_melody_write [Onset 60; Sustain 60; Rest; Onset 62] notes 20 = Some [mkM 0 9 60; mkM 12 20 62] /\
   infer_melody_write [Onset 60; Sustain 62] notes 20 = None).
Proof.
  cbv zeta.
  split. { unfold shape. cbn. repeat split; auto; repeat constructor. }
  split; [reflexivity|]. split; [reflexivity|]. split; [reflexivity|]. split; [reflexivity|].
  split; [reflexivity|]. split. { split; [reflexivity | repeat constructor]. }
  split; [reflexivity|]. split; [reflexivity|]. split. { cbn. Lia.lia. }
  split. { intros n H. repeat (destruct H as [<-|H]; [cbn; Lia.lia|]). destruct H. }
  split; [reflexivity|]. split; [reflexivity|]. split; reflexivity.
Qed.
Print Assumptions C19_nonvacuous.

(** Non-vacuity of the assertion theorem: one pitch, rest -> sustain forbidden;
    a likely path, and the degenerate case where every emission is log 0. *)
Example C19_assertion_nonvacuous :
  let cols := [[Some 0; Some (-2); Some (-2)]; [Some (-1); Some (-3); Some (-3)]; [None; Some 0; Some 0]] in
  (forall i j, (i < 3)%nat -> (j < 3)%nat -> safe_step 1 i j = false -> tr None cols i j = None) /\
  viterbi_x (melody_init cols [Some (-5); Some 0; None]) cols [[Some (-9); None; Some 0]; [Some 0; None; Some (-9)]]
    = [1%nat; 2%nat; 0%nat] /\
  write_melody None (combine (map (index_to_event [60]) [1%nat; 2%nat; 0%nat]) [0; 4; 8]) 12 = Some [mkM 0 8 60] /\
  viterbi_x (melody_init cols [None; None; None]) cols [[None; None; None]] = [0%nat; 0%nat].
Proof.
  cbv zeta. split; [|split; [reflexivity | split; reflexivity]].
  intros i j Hi Hj. do 3 (destruct i as [|i]; [do 3 (destruct j as [|j]; [cbn; congruence|]); Lia.lia|]). Lia.lia.
Qed.
Print Assumptions C19_assertion_nonvacuous.
