(** Props/C10.v — C10: transposition shifts every pitch, key and chord by the
    same interval.  Only statements, [exact], and [Print Assumptions]. *)
From Coq Require Import ZArith List Bool.
From NS Require Import Base.NoteSeq Gen.G10 Model.ChordTranspose Model.Transpose
                       Proofs.TransposeChord Proofs.Transpose.
From NS Require Gen.Tr Proofs.TrEquiv10 Proofs.TrCode10.
Import ListNotations.
Local Open Scope Z_scope.

(** tpc_hom: for EVERY step letter, every alteration (any number of sharps or flats)
    and every k in Z, [_transpose_pitch_class] terminates and moves the MIDI pitch
    class by exactly k modulo 12. *)
Theorem C10_tpc_hom : forall (s : step) (alter k : Z),
  exists q, transpose_pc (s, alter) k = Some q /\
            pc_midi q = (pc_midi (s, alter) + k) mod 12.
Proof. exact tpc_hom. Qed.
Print Assumptions C10_tpc_hom.

(** chord_transpose_hom: for every structured chord symbol (any root/bass spelling,
    any kind index, any modification list) and every k: transposition succeeds; root,
    bass and every pitch class move by k mod 12; kind, modifications, presence of a
    bass and quality are unchanged; chord_symbol_pitches / _quality fail on the
    result iff they fail on the input. *)
Theorem C10_chord_transpose_hom : forall (c : chord) (k : Z),
  exists c', transpose_chord c k = Some c' /\
    chord_root_pc c' = shift_pc k (chord_root_pc c) /\
    chord_bass_pc c' = shift_pc k (chord_bass_pc c) /\
    c_kind c' = c_kind c /\ c_mods c' = c_mods c /\
    (c_bass c' = None <-> c_bass c = None) /\
    chord_pitches c' = option_map (map (shift_pc k)) (chord_pitches c) /\
    chord_quality c' = chord_quality c.
Proof. exact chord_transpose_hom. Qed.
Print Assumptions C10_chord_transpose_hom.

(** k then -k is the identity on root, bass, pitch classes and quality. *)
Theorem C10_chord_transpose_roundtrip : forall (c : chord) (k : Z),
  exists c1 c2, transpose_chord c k = Some c1 /\ transpose_chord c1 (- k) = Some c2 /\
    chord_root_pc c2 = chord_root_pc c /\ chord_bass_pc c2 = chord_bass_pc c /\
    c_kind c2 = c_kind c /\ c_mods c2 = c_mods c /\
    chord_pitches c2 = chord_pitches c /\ chord_quality c2 = chord_quality c.
Proof. exact chord_transpose_roundtrip. Qed.
Print Assumptions C10_chord_transpose_roundtrip.

(** ... and a multiple of 12 does not even change the spelling. *)
Theorem C10_chord_transpose_octave : forall (c : chord) (k : Z),
  k mod 12 = 0 -> transpose_chord c k = Some c.
Proof. exact chord_transpose_octave. Qed.
Print Assumptions C10_chord_transpose_octave.

(** Failure iff the figure does not parse: on figure codes, transposition fails exactly
    on the codes that do not decode; otherwise the result decodes to the transposed chord. *)
Theorem C10_transpose_figure_spec : forall (t : list Z) (k : Z),
  match chord_of_code t with
  | None => transpose_figure t k = None
  | Some c => exists c', transpose_chord c k = Some c' /\
                         transpose_figure t k = Some (code_of_chord c') /\
                         chord_of_code (code_of_chord c') = Some c'
  end.
Proof. exact transpose_figure_spec. Qed.
Print Assumptions C10_transpose_figure_spec.

(** transpose_ns_spec: the pass-by-pass model of transpose_note_sequence equals the
    declarative filter/map specification for every sequence, k, range and flag. *)
Theorem C10_transpose_ns_spec : forall (s : seq) (k lo hi : Z) (tc : bool),
  transpose_ns s k lo hi tc = transpose_ns_decl s k lo hi tc.
Proof. exact transpose_ns_spec. Qed.
Print Assumptions C10_transpose_ns_spec.

(** The property, clause by clause, for every successful call. *)
Theorem C10_transpose_ns_ok : forall (s : seq) (k lo hi : Z) (tc : bool) (r : seq) (deleted : Z),
  transpose_ns s k lo hi tc = Some (r, deleted) ->
  s_notes r = map (note_shift k) (filter (note_keep k lo hi) (s_notes s)) /\
  s_notes r = filter (note_in_range lo hi) (map (note_shift k) (s_notes s)) /\
  deleted = Z.of_nat (length (s_notes s)) - Z.of_nat (length (s_notes r)) /\
  deleted = Z.of_nat (length (filter (note_gone k lo hi) (s_notes s))) /\
  s_ksigs r = map (ksig_transposed k) (s_ksigs s) /\
  s_tempos r = s_tempos s /\ s_tsigs r = s_tsigs s /\ s_ccs r = s_ccs s /\ s_bends r = s_bends s /\
  s_sects r = s_sects s /\ s_qsteps r = s_qsteps s /\ s_spq r = s_spq s /\ s_sps r = s_sps s /\
  s_sub r = s_sub s /\ s_tpq r = s_tpq s /\ s_rest r = s_rest s /\
  s_total r = max_end (s_notes r) /\ (forall n, In n (s_notes r) -> n_end n <= s_total r) /\
  (if tc then map_opt (text_transposed k) (s_texts s) = Some (s_texts r)
   else s_texts r = texts_without_chords (s_texts s)).
Proof. exact transpose_ns_ok. Qed.
Print Assumptions C10_transpose_ns_ok.

(** What [note_shift] does: drums are returned untouched ... *)
Theorem C10_note_shift_drum : forall (k : Z) (n : note), n_drum n = true -> note_shift k n = n.
Proof. exact note_shift_drum. Qed.
Print Assumptions C10_note_shift_drum.

(** ... pitched notes move by exactly k; velocity, times and the rest stay. *)
Theorem C10_note_shift_pitched : forall (k : Z) (n : note), n_drum n = false ->
  n_pitch (note_shift k n) = n_pitch n + k /\ n_vel (note_shift k n) = n_vel n /\
  n_start (note_shift k n) = n_start n /\ n_end (note_shift k n) = n_end n /\
  n_instr (note_shift k n) = n_instr n /\ n_prog (note_shift k n) = n_prog n /\
  n_drum (note_shift k n) = false /\ n_qstart (note_shift k n) = n_qstart n /\ n_qend (note_shift k n) = n_qend n.
Proof. exact note_shift_pitched. Qed.
Print Assumptions C10_note_shift_pitched.

(** Keys: (key + k) mod 12, time and mode untouched. *)
Theorem C10_key_shift : forall (k : Z) (s : ksig),
  ks_key (ksig_transposed k s) = (ks_key s + k) mod 12 /\ ks_time (ksig_transposed k s) = ks_time s /\
  ks_mode (ksig_transposed k s) = ks_mode s /\ 0 <= ks_key (ksig_transposed k s) < 12.
Proof. exact ksig_transposed_spec. Qed.
Print Assumptions C10_key_shift.

(** Chord annotations: each is related to its image by [chord_transpose_hom]
    (NO_CHORD and non-chord annotations untouched; times and types kept). *)
Theorem C10_transpose_ns_texts : forall (s : seq) (k lo hi : Z) (r : seq) (deleted : Z),
  transpose_ns s k lo hi true = Some (r, deleted) -> Forall2 (text_related k) (s_texts s) (s_texts r).
Proof. exact transpose_ns_texts. Qed.
Print Assumptions C10_transpose_ns_texts.

(** ChordSymbolError exactly when chords are transposed and one does not parse. *)
Theorem C10_transpose_ns_error : forall (s : seq) (k lo hi : Z) (tc : bool),
  transpose_ns s k lo hi tc = None <->
  tc = true /\ exists t, In t (s_texts s) /\ tx_type t = CHORD_SYMBOL /\ is_no_chord (tx_text t) = false /\
                         chord_of_code (tx_text t) = None.
Proof. exact transpose_ns_error. Qed.
Print Assumptions C10_transpose_ns_error.

(** total_time never grows on a well-formed input. *)
Theorem C10_transpose_ns_total_le : forall (s : seq) (k lo hi : Z) (tc : bool) (r : seq) (deleted : Z),
  transpose_ns s k lo hi tc = Some (r, deleted) ->
  0 <= s_total s -> (forall n, In n (s_notes s) -> n_end n <= s_total s) ->
  0 <= s_total r <= s_total s.
Proof. exact transpose_ns_total_le. Qed.
Print Assumptions C10_transpose_ns_total_le.

(** [ext] (used by C11) a well-formed sequence stays well-formed: note times inside the new total_time,
    no negative event time. *)
Theorem C10_transpose_ns_wf : forall (s : seq) (k lo hi : Z) (tc : bool) (r : seq) (deleted : Z),
  seq_wf s -> transpose_ns s k lo hi tc = Some (r, deleted) -> seq_wf r.
Proof. exact transpose_ns_wf. Qed.
Print Assumptions C10_transpose_ns_wf.

(** melody_transpose_fold: specials untouched; every pitch keeps pitch class (p + k) mod 12;
    a pitch already in range is exactly p + k; with max - min >= 12 everything lands in [min, max). *)
Theorem C10_melody_transpose_fold : forall (k lo hi : Z) (evs : list Z),
  length (mel_transpose k lo hi evs) = length evs /\
  Forall2 (mel_related k lo hi) evs (mel_transpose k lo hi evs).
Proof. exact melody_transpose_fold. Qed.
Print Assumptions C10_melody_transpose_fold.

Theorem C10_melody_roundtrip : forall (k lo hi : Z) (evs : list Z),
  0 <= lo -> hi - lo >= 12 ->
  Forall2 (fun b e => (b < 0 -> e = b) /\ (0 <= b -> 0 <= e /\ e mod 12 = b mod 12 /\ lo <= e < hi))
          evs (mel_transpose (- k) lo hi (mel_transpose k lo hi evs)).
Proof. exact melody_roundtrip. Qed.
Print Assumptions C10_melody_roundtrip.

Theorem C10_melody_octave : forall (lo hi : Z) (evs : list Z),
  hi - lo >= 12 ->
  Forall2 (fun b e => (b < 0 -> e = b) /\ (0 <= b -> e mod 12 = b mod 12 /\ lo <= e < hi))
          evs (mel_transpose 12 lo hi evs).
Proof. exact melody_octave. Qed.
Print Assumptions C10_melody_octave.

(** squash = transpose by an amount congruent to the key difference, same folding. *)
Theorem C10_squash_spec : forall (lo hi : Z) (key : option Z) (evs : list Z),
  let has_notes := existsb (fun e => (MIN_MIDI_PITCH <=? e) && (e <=? MAX_MIDI_PITCH)) evs in
  let '(amount, evs') := mel_squash lo hi key evs in
  match key with
  | None => amount = 0 /\ evs' = mel_transpose 0 lo hi evs
  | Some to_key =>
      if has_notes
      then evs' = mel_transpose amount lo hi evs /\ (amount - (to_key - major_key evs)) mod 12 = 0
      else amount = 0 /\ evs' = evs
  end.
Proof. exact squash_spec. Qed.
Print Assumptions C10_squash_spec.

(** [ext] squash centres the melody: before folding, the centre of the transposed melody is within
    half an octave of the centre of [min_note, max_note) (centres doubled). *)
Theorem C10_squash_centered : forall (lo hi to_key : Z) (evs : list Z) (x : Z) (rest : list Z),
  filter (fun e => (MIN_MIDI_PITCH <=? e) && (e <=? MAX_MIDI_PITCH)) evs = x :: rest ->
  let amount := fst (mel_squash lo hi (Some to_key) evs) in
  let melody_center2 := zmin_list x rest + zmax_list x rest in
  Z.abs ((lo + hi - 1) - (melody_center2 + 2 * amount)) <= 12.
Proof. exact squash_centered. Qed.
Print Assumptions C10_squash_centered.

(** ChordProgression.transpose: every event related by [chord_transpose_hom]; error iff a figure does not parse. *)
Theorem C10_progression_related : forall (k : Z) (evs evs' : list (list Z)),
  prog_transpose k evs = Some evs' -> Forall2 (figure_related k) evs evs'.
Proof. exact prog_transpose_related. Qed.
Print Assumptions C10_progression_related.

Theorem C10_progression_error : forall (k : Z) (evs : list (list Z)),
  prog_transpose k evs = None <->
  exists t, In t evs /\ is_no_chord t = false /\ chord_of_code t = None.
Proof. exact prog_transpose_error. Qed.
Print Assumptions C10_progression_error.

(** LeadSheet: melody and chords move by the same k. *)
Theorem C10_leadsheet_transpose : forall (k lo hi : Z) (mel : list Z) (chords : list (list Z)),
  match ls_transpose k lo hi mel chords with
  | Some (mel', cs) =>
      mel' = mel_transpose k lo hi mel /\ Forall2 (mel_related k lo hi) mel mel' /\
      Forall2 (figure_related k) chords cs
  | None => exists t, In t chords /\ is_no_chord t = false /\ chord_of_code t = None
  end.
Proof. exact ls_transpose_spec. Qed.
Print Assumptions C10_leadsheet_transpose.

Theorem C10_leadsheet_squash : forall (lo hi key : Z) (mel : list Z) (chords : list (list Z)),
  match ls_squash lo hi key mel chords with
  | Some (amount, mel', cs) =>
      (amount, mel') = mel_squash lo hi (Some key) mel /\ Forall2 (figure_related amount) chords cs
  | None => exists t, In t chords /\ is_no_chord t = false /\ chord_of_code t = None
  end.
Proof. exact ls_squash_spec. Qed.
Print Assumptions C10_leadsheet_squash.

(** clamp_safe: the clamped amount keeps [ns_min, ns_max] inside [lo, hi], lies between 0 and
    the request, and is the request itself when that was already safe. *)
Theorem C10_clamp_safe : forall (amount ns_min ns_max lo hi : Z),
  lo <= ns_min -> ns_min <= ns_max -> ns_max <= hi ->
  let r := clamp_transpose amount ns_min ns_max lo hi in
  lo <= ns_min + r /\ ns_max + r <= hi /\ Z.min 0 amount <= r <= Z.max 0 amount /\
  (lo <= ns_min + amount -> ns_max + amount <= hi -> r = amount).
Proof. exact clamp_safe. Qed.
Print Assumptions C10_clamp_safe.

(** ... hence transposing by it deletes nothing. *)
Theorem C10_clamp_no_delete : forall (s : seq) (amount ns_min ns_max lo hi : Z) (tc : bool) (r : seq) (deleted : Z),
  lo <= ns_min -> ns_max <= hi ->
  (forall n, In n (s_notes s) -> n_drum n = false -> ns_min <= n_pitch n <= ns_max) ->
  transpose_ns s (clamp_transpose amount ns_min ns_max lo hi) lo hi tc = Some (r, deleted) ->
  deleted = 0 /\ length (s_notes r) = length (s_notes s) /\
  forall n, In n (s_notes r) -> n_drum n = false -> lo <= n_pitch n <= hi.
Proof. exact clamp_no_delete. Qed.
Print Assumptions C10_clamp_no_delete.

(** Non-vacuity: concrete values exercising the non-default branches. *)
(* C up a semitone is spelled Db (next letter, flats added), E## up one is F##, B# up one is C#,
   Fb down two is D (flats removed): every branch of the walk *)
Example C10_tpc_nonvacuous :
  transpose_pc (SC, 0) 1 = Some (SD, -1) /\ transpose_pc (SE, 2) 1 = Some (SF, 2) /\
  transpose_pc (SB, 1) 1 = Some (SC, 1) /\ transpose_pc (SF, -1) (-2) = Some (SD, 0) /\
  pc_midi (SE, 2) = 6 /\ pc_midi (SF, 2) = 7 /\ transpose_pc (SG, 0) 127 = Some (SD, 0).
Proof. repeat split; reflexivity. Qed.
Print Assumptions C10_tpc_nonvacuous.

(* F#m7(b5)/A up 3 is Am7(b5)/C: pitch classes {6,9,0,4} -> {9,0,3,7}, diminished before and after
   (kind and modification indices are searched for in the regenerated tables) *)
Example C10_chord_nonvacuous :
  exists kind mi,
    let c := mkChord (SF, 1) kind [(mi, 5)] (Some (SA, 0)) in
    let c' := mkChord (SA, 0) kind [(mi, 5)] (Some (SC, 0)) in
    transpose_chord c 3 = Some c' /\
    chord_pitches c = Some [6; 9; 0; 4] /\ chord_quality c = Some CHORD_QUALITY_DIMINISHED /\
    chord_pitches c' = Some [9; 0; 3; 7] /\ chord_quality c' = Some CHORD_QUALITY_DIMINISHED /\
    chord_of_code (code_of_chord c) = Some c.
Proof. exact chord_example. Qed.
Print Assumptions C10_chord_nonvacuous.

(* the error branch: an added degree that is already present is a ChordSymbolError for the pitch
   query before and after, while the transposition itself succeeds *)
Example C10_chord_error_nonvacuous :
  exists kind mi,
    let c := mkChord (SC, 0) kind [(mi, 3)] None in
    chord_of_code (code_of_chord c) = Some c /\ chord_pitches c = None /\
    transpose_chord c 1 = Some (mkChord (SD, -1) kind [(mi, 3)] None) /\
    chord_pitches (mkChord (SD, -1) kind [(mi, 3)] None) = None.
Proof. exact chord_error_example. Qed.
Print Assumptions C10_chord_error_nonvacuous.

(* one note kept and shifted, one deleted at the upper edge, one drum kept outside the range,
   the key wraps from B to C, total_time shrinks to the latest kept end *)
Example C10_transpose_ns_nonvacuous :
  let n1 := mkNote 72 100 0 4 0 0 false 0 0 0 in
  let n2 := mkNote 73 100 0 9 0 0 false 0 0 0 in
  let d := mkNote 120 100 0 5 9 0 true 0 0 0 in
  let s := mkSeq [n1; n2; d] [] [] [mkKsig 0 11 0] [mkText 0 0 [] CHORD_SYMBOL] [] [] [] 9 0 0 0 (0, 0) 220 0 in
  exists r, transpose_ns s 1 60 73 true = Some (r, 1) /\
            s_notes r = [mkNote 73 100 0 4 0 0 false 0 0 0; d] /\ s_total r = 5 /\
            s_ksigs r = [mkKsig 0 0 0].
Proof. eexists. repeat split; reflexivity. Qed.
Print Assumptions C10_transpose_ns_nonvacuous.

(* folding from below and from above into [48, 60) *)
Example C10_melody_nonvacuous :
  mel_transpose 5 48 60 [MELODY_NO_EVENT; 60; 40; MELODY_NOTE_OFF; 50] = [MELODY_NO_EVENT; 53; 57; MELODY_NOTE_OFF; 55] /\
  mel_squash 61 72 (Some 2) [60; 62; 64] = (2, [62; 64; 66]) /\
  (* centre differences of exactly 6 and 18 semitones: round-half-even gives 0 and 2 octaves *)
  mel_squash 48 89 (Some 0) [60; 62; 64] = (0, [60; 62; 64]) /\
  mel_squash 60 101 (Some 0) [60; 62; 64] = (24, [84; 86; 88]).
Proof. repeat split; reflexivity. Qed.
Print Assumptions C10_melody_nonvacuous.

(** Source-level tie (second kind): the Gallina text re-translated from the SOURCE of
    sequences_lib._clamp_transpose on every run (Gen/Tr.v, harness/vt/pytr.py) equals the
    hand-written model, for all arguments. *)
Theorem C10_source_clamp_transpose : forall a ns_min ns_max lo hi,
  NS.Gen.Tr.tr_clamp_transpose a ns_min ns_max lo hi = Some (clamp_transpose a ns_min ns_max lo hi).
Proof. exact NS.Proofs.TrEquiv10.tr_clamp_transpose_eq. Qed.
Print Assumptions C10_source_clamp_transpose.

(** Melody.transpose is an element-wise loop; the translation of its body from the SOURCE equals the
    hand-written per-event function [mel_event] (of which C10_melody_transpose_fold etc. speak). *)
Theorem C10_source_melody_transpose_event : forall k lo hi e,
  NS.Gen.Tr.tr_melody_transpose_event k lo hi e = Some (mel_event k lo hi e).
Proof. exact NS.Proofs.TrEquiv10.tr_melody_transpose_event_eq. Qed.
Print Assumptions C10_source_melody_transpose_event.

(** The same clauses stated DIRECTLY on the code as it reads now (the Gallina re-translated from the source on every
    run): no hand-written model occurs in these statements. *)
Theorem C10_code_melody_transpose_event : forall k lo hi e,
  exists e', NS.Gen.Tr.tr_melody_transpose_event k lo hi e = Some e' /\
    (e < 0 -> e' = e) /\
    (0 <= e -> e' mod 12 = (e + k) mod 12) /\
    (0 <= e -> hi - lo >= 12 -> lo <= e' < hi /\ (lo <= e + k < hi -> e' = e + k)).
Proof. exact NS.Proofs.TrCode10.code_melody_transpose_event. Qed.
Print Assumptions C10_code_melody_transpose_event.

Theorem C10_code_clamp_transpose : forall a ns_min ns_max lo hi,
  lo <= ns_min -> ns_max <= hi ->
  exists c, NS.Gen.Tr.tr_clamp_transpose a ns_min ns_max lo hi = Some c /\
    lo <= ns_min + c /\ ns_max + c <= hi /\ Z.abs c <= Z.abs a /\ (0 <= a -> 0 <= c) /\ (a < 0 -> c <= 0).
Proof. exact NS.Proofs.TrCode10.code_clamp_transpose. Qed.
Print Assumptions C10_code_clamp_transpose.
