(** Props/C01.v — C01: quantization snaps every event to the nearest step and
    changes nothing else.  Only statements, [exact], and [Print Assumptions].

    Reading guide.  [R_of x] is the real value of a binary64 float, [fin x] says
    it is finite, [q2s t sps] is quantize_to_step (bit-exact), [fdec c] decodes
    the integer code under which times / qpm values are stored in the records.
    [quantize_abs sps s] / [quantize_rel spq s] are quantize_note_sequence_absolute
    / quantize_note_sequence; [result_of q spq sps tempos tsigs s] is the input
    [s] with ONLY the quantized fields written from the step function [q]. *)
From Coq Require Import ZArith List Bool Reals.
From Flocq Require Import Core.
From NS Require Gen.Tr Proofs.TrEquiv01 Gen.TrF Proofs.TrEquivF Proofs.TrCode01.
From NS Require Import Base.Sx Base.NoteSeq Base.FloatBridge Gen.G01 Model.Quantize
                       Proofs.Quantize Proofs.QuantizeFloat Proofs.QuantizeFloatExt Proofs.QuantizeTop.
Import ListNotations.
Local Open Scope Z_scope.

(** ** Float layer: quantize_to_step *)

(** the regenerated QUANTIZE_CUTOFF gives the additive constant exactly 1/2 *)
Theorem C01_one_minus_cutoff_is_half : R_of one_minus_cutoff = (/ 2)%R /\ fin one_minus_cutoff.
Proof. exact omc_R. Qed.
Print Assumptions C01_one_minus_cutoff_is_half.

(** quantize_to_step with its default third argument is the explicit-cutoff function at that constant *)
Theorem C01_q2s_default_cutoff : forall t s, q2s_cut cutoff t s = q2s t s.
Proof. exact q2s_cut_default. Qed.
Print Assumptions C01_q2s_default_cutoff.

(** step assignment is monotone in time (any sign), |t| <= 2^40 s, 0 <= sps <= 2^20 *)
Theorem C01_q2s_monotone : forall t1 t2 s,
  fin t1 -> fin t2 -> fin s ->
  (R_of t1 <= R_of t2)%R -> (Rabs (R_of t1) <= bpow radix2 40)%R -> (Rabs (R_of t2) <= bpow radix2 40)%R ->
  (0 <= R_of s <= bpow radix2 20)%R ->
  q2s t1 s <= q2s t2 s.
Proof. exact q2s_mono_any. Qed.
Print Assumptions C01_q2s_monotone.

(** nearest step: with p the EXACT real product t*sps, if p is further than 2^-50 (p+1) from every
    half-step boundary k + 1/2, the result is floor(p + 1/2) *)
Theorem C01_q2s_nearest : forall t s,
  fin t -> fin s ->
  (0 <= R_of t * R_of s <= bpow radix2 60)%R ->
  (forall k : Z, (Rabs (R_of t * R_of s - (IZR k + / 2)) > bpow radix2 (-50) * (R_of t * R_of s + 1))%R) ->
  q2s t s = Zfloor (R_of t * R_of s + / 2).
Proof. exact q2s_nearest. Qed.
Print Assumptions C01_q2s_nearest.

Example C01_q2s_nearest_nonvacuous :
  let t := f_of_Z 1 in let s := f_of_Z 100 in
  fin t /\ fin s /\ (0 <= R_of t * R_of s <= bpow radix2 60)%R /\
  (forall k : Z, (Rabs (R_of t * R_of s - (IZR k + / 2)) > bpow radix2 (-50) * (R_of t * R_of s + 1))%R) /\
  q2s t s = 100.
Proof. exact q2s_nearest_nonvacuous. Qed.
Print Assumptions C01_q2s_nearest_nonvacuous.

(** exact half-step ties round up *)
Theorem C01_q2s_tie_up : forall t s k,
  fin t -> fin s -> 0 <= k < 2 ^ 51 -> (R_of t * R_of s = IZR k + / 2)%R ->
  q2s t s = k + 1.
Proof. exact q2s_tie_up. Qed.
Print Assumptions C01_q2s_tie_up.

(** non-negative positions give non-negative steps; two or more steps before zero gives a negative step *)
Theorem C01_q2s_nonneg : forall t s,
  fin t -> fin s -> (0 <= R_of t * R_of s <= bpow radix2 60)%R -> 0 <= q2s t s.
Proof. exact q2s_nonneg. Qed.
Print Assumptions C01_q2s_nonneg.

Theorem C01_q2s_two_steps_before_zero : forall t s,
  fin t -> fin s -> (- bpow radix2 60 <= R_of t * R_of s <= -2)%R -> q2s t s < 0.
Proof. exact q2s_negative. Qed.
Print Assumptions C01_q2s_two_steps_before_zero.

(** steps_per_quarter_to_steps_per_second: finite, positive, within 2^-51 relative of spq*qpm/60 *)
Theorem C01_sps_rel_accurate : forall (spq : Z) (qpm : Coq.Floats.PrimFloat.float),
  1 <= spq <= 1024 -> fin qpm -> (1 <= R_of qpm <= 1024)%R ->
  let x := (IZR spq * R_of qpm / 60)%R in
  fin (sps_rel spq qpm) /\ (0 < R_of (sps_rel spq qpm) <= bpow radix2 20)%R /\
  (Rabs (R_of (sps_rel spq qpm) - x) <= bpow radix2 (-51) * x)%R.
Proof. exact sps_rel_R. Qed.
Print Assumptions C01_sps_rel_accurate.

(** the int steps_per_second of absolute quantization is converted exactly *)
Theorem C01_sps_abs_exact : forall sps : Z, 0 <= sps <= 2 ^ 20 ->
  R_of (sps_abs sps) = IZR sps /\ fin (sps_abs sps) /\ (0 <= R_of (sps_abs sps) <= bpow radix2 20)%R.
Proof. exact sps_abs_R. Qed.
Print Assumptions C01_sps_abs_exact.

(** tempo-relative positions are invariant under a uniform stretch (exact arithmetic) *)
Theorem C01_stretch_invariance_exact : forall t f spq qpm : R,
  (f <> 0)%R -> ((t * f) * (spq * (qpm / f) / 60) = t * (spq * qpm / 60))%R.
Proof. exact stretch_invariance_exact. Qed.
Print Assumptions C01_stretch_invariance_exact.

(** ** Sequence layer, for EVERY step function q *)

(** _quantize_notes: NegativeTimeError iff some quantized step is negative, else exactly [quantized q s] *)
Theorem C01_quantize_notes_spec : forall q s,
  quantize_notes q s = if seq_neg q s then Err NegativeTime else Ok (quantized q s).
Proof. exact quantize_notes_eq. Qed.
Print Assumptions C01_quantize_notes_spec.

Theorem C01_negative_iff : forall q s,
  seq_neg q s = true <->
  (exists n, In n (s_notes s) /\ (q (n_start n) < 0 \/ qend q n < 0)) \/
  (exists c, In c (s_ccs s) /\ q (cc_time c) < 0) \/
  (exists t, In t (s_texts s) /\ q (tx_time t) < 0).
Proof. exact seq_neg_true_iff. Qed.
Print Assumptions C01_negative_iff.

(** frame: a quantized note / control change / annotation differs from the input one only in its
    quantized fields *)
Theorem C01_note_frame : forall q n,
  let n' := qnote q n in
  n_pitch n' = n_pitch n /\ n_vel n' = n_vel n /\ n_start n' = n_start n /\ n_end n' = n_end n /\
  n_instr n' = n_instr n /\ n_prog n' = n_prog n /\ n_drum n' = n_drum n /\ n_rest n' = n_rest n /\
  n_qstart n' = q (n_start n) /\ n_qend n' = qend q n.
Proof. exact qnote_frame. Qed.
Print Assumptions C01_note_frame.

Theorem C01_cc_frame : forall q c,
  let c' := qcc q c in
  cc_time c' = cc_time c /\ cc_num c' = cc_num c /\ cc_val c' = cc_val c /\ cc_instr c' = cc_instr c /\
  cc_prog c' = cc_prog c /\ cc_drum c' = cc_drum c /\ cc_qstep c' = q (cc_time c).
Proof. exact qcc_frame. Qed.
Print Assumptions C01_cc_frame.

Theorem C01_text_frame : forall q t,
  let t' := qtext q t in
  tx_time t' = tx_time t /\ tx_text t' = tx_text t /\ tx_type t' = tx_type t /\ tx_qstep t' = q (tx_time t).
Proof. exact qtext_frame. Qed.
Print Assumptions C01_text_frame.

(** the quantized end: the end's own step, or start step + 1 when they coincide *)
Theorem C01_note_end : forall q n,
  (q (n_end n) = q (n_start n) /\ qend q n = q (n_start n) + 1) \/
  (q (n_end n) <> q (n_start n) /\ qend q n = q (n_end n)).
Proof. exact qend_cases. Qed.
Print Assumptions C01_note_end.

(** total_quantized_steps covers the quantized total_time and every note end, and is one of them *)
Theorem C01_total_covers : forall q spq sps tps tss s,
  let s' := result_of q spq sps tps tss s in
  q (s_total s) <= s_qsteps s' /\
  (forall n', In n' (s_notes s') -> n_qend n' <= s_qsteps s') /\
  (s_qsteps s' = q (s_total s) \/ exists n', In n' (s_notes s') /\ s_qsteps s' = n_qend n').
Proof. exact result_total_covers. Qed.
Print Assumptions C01_total_covers.

(** ** quantize_note_sequence_absolute *)
Theorem C01_abs_ok : forall sps s s',
  quantize_abs sps s = Ok s' ->
  seq_neg (abs_q sps) s = false /\
  s' = result_of (abs_q sps) 0 sps (s_tempos s) (s_tsigs s) s.
Proof. exact quantize_abs_ok. Qed.
Print Assumptions C01_abs_ok.

Theorem C01_abs_err : forall sps s e,
  quantize_abs sps s = Err e -> e = NegativeTime /\ seq_neg (abs_q sps) s = true.
Proof. exact quantize_abs_err. Qed.
Print Assumptions C01_abs_err.

(** non-negative in-range times are never rejected *)
Theorem C01_abs_nonneg_accepted : forall sps s,
  0 <= sps <= 2 ^ 20 ->
  (forall n, In n (s_notes s) -> time_ok (n_start n) /\ time_ok (n_end n) /\
                                   (0 <= R_of (fdec (n_start n)))%R /\ (0 <= R_of (fdec (n_end n)))%R) ->
  (forall c, In c (s_ccs s) -> time_ok (cc_time c) /\ (0 <= R_of (fdec (cc_time c)))%R) ->
  (forall t, In t (s_texts s) -> time_ok (tx_time t) /\ (0 <= R_of (fdec (tx_time t)))%R) ->
  quantize_abs sps s = Ok (result_of (abs_q sps) 0 sps (s_tempos s) (s_tsigs s) s).
Proof. exact abs_nonneg_accepted. Qed.
Print Assumptions C01_abs_nonneg_accepted.

(** a note two or more steps before zero is rejected with NegativeTimeError *)
Theorem C01_abs_negative_rejected : forall sps s n,
  0 <= sps <= 2 ^ 20 -> In n (s_notes s) -> time_ok (n_start n) ->
  (R_of (fdec (n_start n)) * IZR sps <= -2)%R ->
  quantize_abs sps s = Err NegativeTime.
Proof. exact abs_negative_rejected. Qed.
Print Assumptions C01_abs_negative_rejected.

(** every note whose end is not before its start is at least one step long *)
Theorem C01_abs_note_min_length : forall sps s n,
  0 <= sps <= 2 ^ 20 -> In n (s_notes s) ->
  time_ok (n_start n) -> time_ok (n_end n) ->
  (R_of (fdec (n_start n)) <= R_of (fdec (n_end n)))%R ->
  let n' := qnote (abs_q sps) n in
  In n' (s_notes (result_of (abs_q sps) 0 sps (s_tempos s) (s_tsigs s) s)) /\
  n_qstart n' + 1 <= n_qend n'.
Proof. exact abs_note_min_length. Qed.
Print Assumptions C01_abs_note_min_length.

Example C01_abs_nonvacuous :
  quantize_abs 2 (ex_seq [mkTempo 0 4633641066610819072] []) =
  Ok (mkSeq [note_with_qsteps (ex_note 4598355363530371236 4598355363530371236) 1 2;
             note_with_qsteps (ex_note 4607182418800017408 4612811918334230528) 2 5]
            [mkTempo 0 4633641066610819072] [] [mkKsig 0 3 0] [mkText 4607182418800017408 2 [67] 1]
            [mkCc 4612811918334230528 5 64 127 0 0 false] [] [] 4613937818241073152 6 0 2 (0, 0) 220 99).
Proof. exact quantize_abs_nonvacuous. Qed.
Print Assumptions C01_abs_nonvacuous.

Example C01_time_ok_nonvacuous : time_ok 4612811918334230528 /\ R_of (fdec 4612811918334230528) = (5 / 2)%R.
Proof. exact time_ok_nonvacuous. Qed.
Print Assumptions C01_time_ok_nonvacuous.

(** ** quantize_note_sequence *)

(** success: one value for all stored time signatures / tempos (default when none), the time-first one at 0
    or default, a valid time signature, no negative step; the result is the input with the single tempo
    and time signature explicit at time 0 and only the quantized fields written *)
Theorem C01_rel_ok : forall spq s s',
  quantize_rel spq s = Ok s' ->
  exists num den qpm,
    (s_tsigs s = [] -> num = 4 /\ den = 4) /\
    (forall t, In t (s_tsigs s) -> ts_num t = num /\ ts_den t = den) /\
    (forall t, In t (s_tsigs s) -> (forall u, In u (s_tsigs s) -> ts_time t <= ts_time u) ->
               ts_time t = 0 \/ (num = 4 /\ den = 4)) /\
    is_pow2 den = true /\ num <> 0 /\
    (s_tempos s = [] -> qpm = DEFAULT_QPM_CODE) /\
    (forall t, In t (s_tempos s) -> tp_qpm t = qpm) /\
    (forall t, In t (s_tempos s) -> (forall u, In u (s_tempos s) -> tp_time t <= tp_time u) ->
               tp_time t = 0 \/ qpm = DEFAULT_QPM_CODE) /\
    seq_neg (rel_q spq qpm) s = false /\
    s' = result_of (rel_q spq qpm) spq 0 [mkTempo 0 qpm] [mkTsig 0 num den] s.
Proof. exact quantize_rel_ok. Qed.
Print Assumptions C01_rel_ok.

(** every error is a documented one, raised for its documented reason *)
Theorem C01_rel_err : forall spq s e,
  quantize_rel spq s = Err e ->
  match e with
  | MultipleTimeSig => check_tsigs false (s_tsigs s) = Err MultipleTimeSig
  | BadTimeSig => exists num den, check_tsigs false (s_tsigs s) = Ok [mkTsig 0 num den] /\
                                  (is_pow2 den = false \/ num = 0)
  | MultipleTempo => check_tempos false (s_tempos s) = Err MultipleTempo
  | NegativeTime => exists qpm, check_tempos false (s_tempos s) = Ok [mkTempo 0 qpm] /\
                                seq_neg (rel_q spq qpm) s = true
  end.
Proof. exact quantize_rel_err. Qed.
Print Assumptions C01_rel_err.

(** the rejection clause: ANY two stored tempos with different qpm (every placement, every storage order) *)
Theorem C01_rejects_tempo_change : forall tps t1 t2,
  In t1 tps -> In t2 tps -> tp_qpm t1 <> tp_qpm t2 -> check_tempos false tps = Err MultipleTempo.
Proof. exact check_tempos_rejects_change. Qed.
Print Assumptions C01_rejects_tempo_change.

Theorem C01_rejects_implicit_tempo_change : forall tps t,
  In t tps -> (forall u, In u tps -> tp_time t <= tp_time u) ->
  tp_time t <> 0 -> tp_qpm t <> DEFAULT_QPM_CODE -> check_tempos false tps = Err MultipleTempo.
Proof. exact check_tempos_rejects_implicit. Qed.
Print Assumptions C01_rejects_implicit_tempo_change.

Theorem C01_accepts_single_tempo : forall tps t,
  In t tps -> (forall u, In u tps -> tp_time t <= tp_time u) ->
  (forall u, In u tps -> tp_qpm u = tp_qpm t) ->
  tp_time t = 0 \/ tp_qpm t = DEFAULT_QPM_CODE ->
  check_tempos false tps = Ok [mkTempo 0 (tp_qpm t)].
Proof. exact check_tempos_accepts. Qed.
Print Assumptions C01_accepts_single_tempo.

Theorem C01_rejects_time_signature_change : forall tss t1 t2,
  In t1 tss -> In t2 tss -> tsig_same t1 t2 = false -> check_tsigs false tss = Err MultipleTimeSig.
Proof. exact check_tsigs_rejects_change. Qed.
Print Assumptions C01_rejects_time_signature_change.

Theorem C01_rejects_implicit_time_signature_change : forall tss t,
  In t tss -> (forall u, In u tss -> ts_time t <= ts_time u) ->
  ts_time t <> 0 -> tsig_default t = false -> check_tsigs false tss = Err MultipleTimeSig.
Proof. exact check_tsigs_rejects_implicit. Qed.
Print Assumptions C01_rejects_implicit_time_signature_change.

Theorem C01_accepts_single_time_signature : forall tss t,
  In t tss -> (forall u, In u tss -> ts_time t <= ts_time u) ->
  (forall u, In u tss -> tsig_same u t = true) ->
  ts_time t = 0 \/ tsig_default t = true ->
  check_tsigs false tss = Ok [mkTsig 0 (ts_num t) (ts_den t)].
Proof. exact check_tsigs_accepts. Qed.
Print Assumptions C01_accepts_single_time_signature.

(** at the top level: a tempo change is never quantized; a time-signature change raises exactly
    MultipleTimeSignatureError; a zero numerator / non-power-of-two denominator is never quantized *)
Theorem C01_rel_rejects_tempo_change : forall spq s t1 t2,
  In t1 (s_tempos s) -> In t2 (s_tempos s) -> tp_qpm t1 <> tp_qpm t2 ->
  exists e, quantize_rel spq s = Err e /\ (e = MultipleTempo \/ e = MultipleTimeSig \/ e = BadTimeSig).
Proof. exact quantize_rel_rejects_tempo_change. Qed.
Print Assumptions C01_rel_rejects_tempo_change.

Theorem C01_rel_tempo_change_exact : forall spq s t1 t2 num den,
  check_tsigs false (s_tsigs s) = Ok [mkTsig 0 num den] -> is_pow2 den = true -> num <> 0 ->
  In t1 (s_tempos s) -> In t2 (s_tempos s) -> tp_qpm t1 <> tp_qpm t2 ->
  quantize_rel spq s = Err MultipleTempo.
Proof. exact quantize_rel_tempo_change_exact. Qed.
Print Assumptions C01_rel_tempo_change_exact.

Theorem C01_rel_rejects_time_signature_change : forall spq s t1 t2,
  In t1 (s_tsigs s) -> In t2 (s_tsigs s) -> tsig_same t1 t2 = false ->
  quantize_rel spq s = Err MultipleTimeSig.
Proof. exact quantize_rel_rejects_tsig_change. Qed.
Print Assumptions C01_rel_rejects_time_signature_change.

Theorem C01_rel_rejects_bad_time_signature : forall spq s t,
  In t (s_tsigs s) -> (ts_num t = 0 \/ is_pow2 (ts_den t) = false) ->
  exists e, quantize_rel spq s = Err e /\ (e = BadTimeSig \/ e = MultipleTimeSig).
Proof. exact quantize_rel_rejects_bad_tsig. Qed.
Print Assumptions C01_rel_rejects_bad_time_signature.

(** _is_power_of_2 is what it says, on all of Z *)
Theorem C01_is_pow2_sound : forall x, is_pow2 x = true -> exists k, 0 <= k /\ x = 2 ^ k.
Proof. exact is_pow2_true. Qed.
Print Assumptions C01_is_pow2_sound.

Theorem C01_is_pow2_complete : forall k, 0 <= k -> is_pow2 (2 ^ k) = true.
Proof. exact is_pow2_spec_pos. Qed.
Print Assumptions C01_is_pow2_complete.

(** notes stay at least one step long; a time two or more steps before zero is not quantized *)
Theorem C01_rel_note_min_length : forall spq qpm n,
  1 <= spq <= 1024 -> fin (fdec qpm) -> (1 <= R_of (fdec qpm) <= 1024)%R ->
  time_ok (n_start n) -> time_ok (n_end n) ->
  (R_of (fdec (n_start n)) <= R_of (fdec (n_end n)))%R ->
  n_qstart (qnote (rel_q spq qpm) n) + 1 <= n_qend (qnote (rel_q spq qpm) n).
Proof. exact rel_note_min_length. Qed.
Print Assumptions C01_rel_note_min_length.

Theorem C01_rel_negative_rejected : forall spq s qpm n,
  1 <= spq <= 1024 -> fin (fdec qpm) -> (1 <= R_of (fdec qpm) <= 1024)%R ->
  check_tempos false (s_tempos s) = Ok [mkTempo 0 qpm] ->
  In n (s_notes s) -> time_ok (n_start n) ->
  (R_of (fdec (n_start n)) * R_of (sps_rel spq (fdec qpm)) <= -2)%R ->
  exists e, quantize_rel spq s = Err e.
Proof. exact rel_negative_rejected. Qed.
Print Assumptions C01_rel_negative_rejected.

Example C01_rel_nonvacuous :
  quantize_rel 4 (ex_seq [mkTempo 4617315517961601024 4633641066610819072; mkTempo 0 4633641066610819072]
                         [mkTsig 0 3 4]) =
  Ok (mkSeq [note_with_qsteps (ex_note 4598355363530371236 4598355363530371236) 1 2;
             note_with_qsteps (ex_note 4607182418800017408 4612811918334230528) 4 10]
            [mkTempo 0 4633641066610819072] [mkTsig 0 3 4] [mkKsig 0 3 0] [mkText 4607182418800017408 4 [67] 1]
            [mkCc 4612811918334230528 10 64 127 0 0 false] [] [] 4613937818241073152 12 4 0 (0, 0) 220 99).
Proof. exact quantize_rel_nonvacuous. Qed.
Print Assumptions C01_rel_nonvacuous.

(** ** The defect repaired by notes/C01-fix-1.diff (DESIGN F1).
    On the repaired model the witness is rejected ... *)
Example C01_F1_witness_rejected :
  quantize_rel 4 (ex_seq [mkTempo 4617315517961601024 4633641066610819072; mkTempo 0 DEFAULT_QPM_CODE] []) =
  Err MultipleTempo.
Proof. exact quantize_rel_rejects_F1_witness. Qed.
Print Assumptions C01_F1_witness_rejected.

(** ... on the model of the code before the repair the rejection theorem is false: *)
Theorem C01_legacy_tempo_change_refuted :
  exists s t1 t2 s', In t1 (s_tempos s) /\ In t2 (s_tempos s) /\ tp_qpm t1 <> tp_qpm t2 /\
                     quantize_rel_legacy 4 s = Ok s'.
Proof. exact quantize_rel_legacy_refuted. Qed.
Print Assumptions C01_legacy_tempo_change_refuted.

Theorem C01_legacy_time_signature_change_refuted :
  exists tss t1 t2 out, In t1 tss /\ In t2 tss /\ tsig_same t1 t2 = false /\ check_tsigs true tss = Ok out.
Proof. exact check_tsigs_legacy_refuted. Qed.
Print Assumptions C01_legacy_time_signature_change_refuted.

(** ** Extensions *)

(** the integer codes under which times and qpm values travel: every code below the infinity pattern
    decodes to a finite float whose value is [code_val]; the integer order on codes is the order on the
    decoded times; code 0 is the only zero (so [sorted(key=time)] / [time != 0] in the code are the
    [Z] comparisons of the model) *)
Theorem C01_code_decodes : forall c, code_ok c -> R_of (fdec c) = code_val c /\ fin (fdec c).
Proof. exact fdec_R. Qed.
Print Assumptions C01_code_decodes.

Theorem C01_code_order_iff : forall c1 c2,
  code_ok c1 -> code_ok c2 -> (c1 <= c2 <-> (R_of (fdec c1) <= R_of (fdec c2))%R).
Proof. exact code_order_iff. Qed.
Print Assumptions C01_code_order_iff.

Theorem C01_code_eq_iff : forall c1 c2,
  code_ok c1 -> code_ok c2 -> (c1 = c2 <-> R_of (fdec c1) = R_of (fdec c2)).
Proof. exact code_eq_iff. Qed.
Print Assumptions C01_code_eq_iff.

Theorem C01_code_zero_is_time_zero : forall c, code_ok c -> (code_val c = 0%R <-> c = 0).
Proof. exact code_val_zero_iff. Qed.
Print Assumptions C01_code_zero_is_time_zero.

(** so the range hypothesis [time_ok] of the theorems above is a condition on the code alone *)
Theorem C01_time_ok_of_code : forall c,
  code_ok c -> (Rabs (code_val c) <= bpow radix2 40)%R -> time_ok c.
Proof. exact time_ok_code. Qed.
Print Assumptions C01_time_ok_of_code.

(** tempo-relative quantization returns the step nearest to the EXACT position t*spq*qpm/60 (all four
    roundings accounted for), outside a 2^-49-relative neighbourhood of a half-step boundary *)
Theorem C01_q2s_rel_nearest : forall t spq qpm,
  fin t -> 1 <= spq <= 1024 -> fin qpm -> (1 <= R_of qpm <= 1024)%R ->
  (0 <= R_of t <= bpow radix2 40)%R ->
  let P := (R_of t * (IZR spq * R_of qpm / 60))%R in
  let k := Zfloor (P + / 2) in
  let D := (bpow radix2 (-49) * (P + 1))%R in
  (IZR k + D < P + / 2 < IZR k + 1 - D)%R ->
  q2s t (sps_rel spq qpm) = k.
Proof. exact q2s_rel_nearest. Qed.
Print Assumptions C01_q2s_rel_nearest.

(** stretch invariance on floats: time * f and qpm / f (one rounding each) give the same step, outside a
    2^-48-relative neighbourhood of a half-step boundary of the exact position *)
Theorem C01_stretch_invariance_float : forall t f spq qpm,
  fin t -> fin f -> fin qpm -> 1 <= spq <= 1024 ->
  (0 <= R_of t <= bpow radix2 38)%R -> (/ 4 <= R_of f <= 4)%R -> (4 <= R_of qpm <= 256)%R ->
  let P := (R_of t * (IZR spq * R_of qpm / 60))%R in
  let k := Zfloor (P + / 2) in
  let M := (bpow radix2 (-48) * (P + 1))%R in
  (IZR k + M < P + / 2 < IZR k + 1 - M)%R ->
  q2s (PrimFloat.mul t f) (sps_rel spq (PrimFloat.div qpm f)) = q2s t (sps_rel spq qpm).
Proof. exact stretch_invariance_float. Qed.
Print Assumptions C01_stretch_invariance_float.

Example C01_stretch_invariance_float_nonvacuous :
  let t := f_of_Z 1 in let f := f_of_Z 2 in let qpm := f_of_Z 60 in let spq := 4 in
  fin t /\ fin f /\ fin qpm /\ 1 <= spq <= 1024 /\
  (0 <= R_of t <= bpow radix2 38)%R /\ (/ 4 <= R_of f <= 4)%R /\ (4 <= R_of qpm <= 256)%R /\
  (let P := (R_of t * (IZR spq * R_of qpm / 60))%R in
   let k := Zfloor (P + / 2) in
   let M := (bpow radix2 (-48) * (P + 1))%R in
   (IZR k + M < P + / 2 < IZR k + 1 - M)%R) /\
  q2s (PrimFloat.mul t f) (sps_rel spq (PrimFloat.div qpm f)) = 4.
Proof. exact stretch_invariance_float_nonvacuous. Qed.
Print Assumptions C01_stretch_invariance_float_nonvacuous.

(** steps_per_quarter * qpm / 60.0 is the correctly rounded exact quotient whenever the int * float
    product is exact (every integer qpm; any qpm with few significant bits) *)
Theorem C01_sps_rel_correctly_rounded : forall (spq : Z) (qpm : Coq.Floats.PrimFloat.float),
  1 <= spq <= 1024 -> fin qpm -> (1 <= R_of qpm <= 1024)%R ->
  generic_format radix2 fexp (IZR spq * R_of qpm) ->
  R_of (sps_rel spq qpm) = rnd (IZR spq * R_of qpm / 60) /\ fin (sps_rel spq qpm).
Proof. exact sps_rel_correctly_rounded. Qed.
Print Assumptions C01_sps_rel_correctly_rounded.

(** exact half-step ties of the EXACT tempo-relative position t*spq*qpm/60 round up, as long as the one
    unavoidable rounding of the resolution (at most ulp(x)/2, scaled by t) is less than half the gap
    below k + 1/2; no caveat when the resolution is exactly representable *)
Theorem C01_q2s_rel_tie_up : forall t spq qpm k,
  fin t -> 1 <= spq <= 1024 -> fin qpm -> (1 <= R_of qpm <= 1024)%R ->
  generic_format radix2 fexp (IZR spq * R_of qpm) ->
  (0 <= R_of t <= bpow radix2 40)%R -> 0 <= k < 2 ^ 40 ->
  let x := (IZR spq * R_of qpm / 60)%R in
  let y := (IZR k + / 2)%R in
  (R_of t * x)%R = y ->
  (R_of t * ulp radix2 fexp x < y - pred radix2 fexp y)%R ->
  q2s t (sps_rel spq qpm) = k + 1.
Proof. exact q2s_rel_tie_up. Qed.
Print Assumptions C01_q2s_rel_tie_up.

Theorem C01_q2s_rel_tie_up_exact : forall t spq qpm k,
  fin t -> 1 <= spq <= 1024 -> fin qpm -> (1 <= R_of qpm <= 1024)%R ->
  generic_format radix2 fexp (IZR spq * R_of qpm) ->
  generic_format radix2 fexp (IZR spq * R_of qpm / 60) ->
  0 <= k < 2 ^ 51 ->
  (R_of t * (IZR spq * R_of qpm / 60) = IZR k + / 2)%R ->
  q2s t (sps_rel spq qpm) = k + 1.
Proof. exact q2s_rel_tie_up_exact. Qed.
Print Assumptions C01_q2s_rel_tie_up_exact.

(** 3 steps per quarter at 72 qpm (3.6 steps per second, not representable), t = 3.75 s = 13.5 steps *)
Example C01_q2s_rel_tie_up_nonvacuous :
  let t := fdec 4615626668101337088 in let qpm := f_of_Z 72 in let spq := 3 in let k := 13 in
  fin t /\ fin qpm /\ (1 <= R_of qpm <= 1024)%R /\
  generic_format radix2 fexp (IZR spq * R_of qpm) /\
  (0 <= R_of t <= bpow radix2 40)%R /\
  (R_of t * (IZR spq * R_of qpm / 60) = IZR k + / 2)%R /\
  (R_of t * ulp radix2 fexp (IZR spq * R_of qpm / 60) < (IZR k + / 2) - pred radix2 fexp (IZR k + / 2))%R /\
  q2s t (sps_rel spq qpm) = 14.
Proof. exact q2s_rel_tie_up_nonvacuous. Qed.
Print Assumptions C01_q2s_rel_tie_up_nonvacuous.

(** Source-level tie (second kind): the Gallina text re-translated from the SOURCE of
    sequences_lib._is_power_of_2 on every run (Gen/Tr.v, harness/vt/pytr.py) equals the
    hand-written model, for all integers. *)
Theorem C01_source_is_power_of_2 : forall x : Z,
  NS.Gen.Tr.tr_is_power_of_2 x = Some (is_pow2 x).
Proof. exact NS.Proofs.TrEquiv01.tr_is_power_of_2_eq. Qed.
Print Assumptions C01_source_is_power_of_2.

(** ... and the two binary64 functions: quantize_to_step and steps_per_quarter_to_steps_per_second re-translated
    from their SOURCE into PrimFloat terms (Gen/TrF.v) are the model's [q2s] and [sps_rel], bit for bit. *)
Theorem C01_source_quantize_to_step : forall t sps,
  NS.Gen.TrF.trf_quantize_to_step t sps cutoff =
  if finb (PrimFloat.add (PrimFloat.mul t sps) one_minus_cutoff) then Some (q2s t sps) else None.
Proof. exact NS.Proofs.TrEquivF.trf_quantize_to_step_eq. Qed.
Print Assumptions C01_source_quantize_to_step.

Theorem C01_source_steps_per_quarter_to_steps_per_second : forall spq qpm,
  NS.Gen.TrF.trf_steps_per_quarter_to_steps_per_second spq qpm = Some (sps_rel spq qpm).
Proof. exact NS.Proofs.TrEquivF.trf_sps_eq. Qed.
Print Assumptions C01_source_steps_per_quarter_to_steps_per_second.

(** The same clauses stated DIRECTLY on the code as it reads now (Gen/Tr.v, Gen/TrF.v, re-translated from the source
    on every run): no hand-written model occurs in these statements. *)
Theorem C01_code_is_power_of_2 : forall x,
  NS.Gen.Tr.tr_is_power_of_2 x = Some true <-> exists k, 0 <= k /\ x = 2 ^ k.
Proof. exact NS.Proofs.TrCode01.code_is_power_of_2. Qed.
Print Assumptions C01_code_is_power_of_2.

Theorem C01_code_quantize_to_step_nearest : forall t s,
  fin t -> fin s -> (0 <= R_of t * R_of s <= bpow radix2 60)%R ->
  (forall k : Z, (Rabs (R_of t * R_of s - (IZR k + / 2)) > bpow radix2 (-50) * (R_of t * R_of s + 1))%R) ->
  NS.Gen.TrF.trf_quantize_to_step t s cutoff = Some (Zfloor (R_of t * R_of s + / 2)).
Proof. exact NS.Proofs.TrCode01.code_quantize_to_step_nearest. Qed.
Print Assumptions C01_code_quantize_to_step_nearest.

Theorem C01_code_quantize_to_step_tie_up : forall t s k,
  fin t -> fin s -> 0 <= k < 2 ^ 51 -> (R_of t * R_of s = IZR k + / 2)%R ->
  NS.Gen.TrF.trf_quantize_to_step t s cutoff = Some (k + 1).
Proof. exact NS.Proofs.TrCode01.code_quantize_to_step_tie_up. Qed.
Print Assumptions C01_code_quantize_to_step_tie_up.
