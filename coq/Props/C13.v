(** Props/C13.v — placeholder while the pipeline is brought up. *)
From Coq Require Import ZArith List Bool.
From NS Require Import Base.NoteSeq Model.TimeOps Proofs.TimeOps.
Local Open Scope Z_scope.

Theorem C13_shift_rejects_nonpositive : forall d s, d <= 0 -> shift d s = Err EValue.
Proof. exact shift_rejects_nonpositive. Qed.
Print Assumptions C13_shift_rejects_nonpositive.
