(** Props/C13.v — C13: shifting, stretching, concatenating, repeating and
    time-mapping move every event consistently.  Only statements, [exact], and
    [Print Assumptions].

    Vocabulary (defined in Proofs/TimeOps*.v, all executable or first-order):
      [moved f s r]      the eight repeated fields of r are those of s, in order, each note/event with its
                         time(s) replaced by [f time] and nothing else changed;
      [same_rest s r]    total_quantized_steps, quantization_info, ticks_per_quarter and the opaque remainder agree;
      [placed get mv ps c]  the events of field [get] of all pieces, piece i moved by c + (durations of pieces < i);
      [tidy_*]           stable sort by time, then drop each event whose value equals its predecessor's;
      [force]            the value in force at a time (scan of the time-ordered list);
      [window_notes d]   notes starting in [0, d), cut at d, in start order;
      [rect_fun xs S]    rectify's beat interpolation in units of 1/S beat.

    The model follows note_seq with notes/C13-fix-1.diff and notes/C13-fix-2.diff applied; on the
    unrepaired code the statements marked (F16) and (fix 2) are false and the check reports a
    VIOLATION with a concrete input. *)
From Coq Require Import ZArith List Bool Sorted.
From NS Require Import Base.NoteSeq Model.TimeOps Proofs.TimeOps Proofs.TimeOpsTidy Proofs.TimeOpsConcat
  Proofs.TimeOpsAdjust Proofs.TimeOpsExamples Proofs.TimeOpsMeta Proofs.TimeOpsExtract.
From NS Require Gen.G02 Model.Extract.   (* C02's model of _extract_subsequences, used qualified as [X.] *)
Import ListNotations.
Local Open Scope Z_scope.

(** ** shift_sequence_times: every time + d, subsequence_info cleared, nothing else touched;
       for ALL sequences and ALL positive shifts. *)
Theorem C13_shift_spec : forall d s,
  0 < d -> is_quantized s = false ->
  exists r, shift d s = Ok r /\
    moved (fun t => t + d) s r /\
    map tp_qpm (s_tempos r) = map tp_qpm (s_tempos s) /\
    s_total r = s_total s + d /\
    s_sub r = (0, 0) /\
    same_rest s r.
Proof. exact shift_spec. Qed.
Print Assumptions C13_shift_spec.

Theorem C13_shift_rejections : forall d s e,
  shift d s = Err e <->
  (d <= 0 /\ e = EValue) \/ (0 < d /\ is_quantized s = true /\ e = EQuant).
Proof. exact shift_error_iff. Qed.
Print Assumptions C13_shift_rejections.

Theorem C13_shift_keeps_well_formed : forall d s r, shift d s = Ok r -> seq_wf s -> seq_wf r.
Proof. exact shift_wf. Qed.
Print Assumptions C13_shift_keeps_well_formed.

Theorem C13_shift_twice_is_shift_by_sum : forall a b s r,
  shift a s = Ok r -> 0 < b -> shift b r = shift (a + b) s.
Proof. exact shift_shift. Qed.
Print Assumptions C13_shift_twice_is_shift_by_sum.

(** ** stretch_note_sequence: every time * fn/fd (section annotations included: F16), every qpm / (fn/fd),
       nothing else touched; for ALL sequences and ALL positive factors fn/fd. *)
Theorem C13_stretch_spec : forall fn fd s,
  0 < fn -> 0 < fd -> is_quantized s = false ->
  exists r, stretch fn fd s = Ok r /\
    moved (mulf fn fd) s r /\
    map tp_qpm (s_tempos r) = map (fun t => divf fn fd (tp_qpm t)) (s_tempos s) /\
    s_total r = mulf fn fd (s_total s) /\
    s_sub r = s_sub s /\
    same_rest s r.
Proof. exact stretch_spec. Qed.
Print Assumptions C13_stretch_spec.

(** [mulf]/[divf] are the exact product and quotient whenever these are representable on the tick grid. *)
Theorem C13_stretch_times_exact : forall fn fd s t,
  0 < fd -> stretch_exact fn fd s = true -> In t (all_times s) -> mulf fn fd t * fd = t * fn.
Proof. exact stretch_exact_times. Qed.
Print Assumptions C13_stretch_times_exact.

Theorem C13_stretch_qpm_exact : forall fn fd s tp,
  0 < fn -> stretch_exact fn fd s = true -> In tp (s_tempos s) -> divf fn fd (tp_qpm tp) * fn = tp_qpm tp * fd.
Proof. exact stretch_exact_qpm. Qed.
Print Assumptions C13_stretch_qpm_exact.

Theorem C13_stretch_rejections : forall fn fd s e,
  stretch fn fd s = Err e <-> is_quantized s = true /\ e = EQuant.
Proof. exact stretch_error_iff. Qed.
Print Assumptions C13_stretch_rejections.

Theorem C13_stretch_order_preserving : forall fn fd a b,
  0 <= fn -> 0 < fd -> a <= b -> mulf fn fd a <= mulf fn fd b.
Proof. exact mulf_monotone. Qed.
Print Assumptions C13_stretch_order_preserving.

(** ** concatenate_sequences, for ALL lists of pieces (any length) with or without explicit durations:
       every note and event of piece i is placed after the summed durations of the pieces before it, every
       note (and text, control change, pitch bend, section annotation) is kept, tempo / time-signature / key
       events go through the redundancy pass, total_time is where the last piece ends. *)
Theorem C13_concat_spec : forall ps,
  Forall piece_ok ps ->
  exists r, concat_pairs ps = Ok r /\
    s_notes r = placed s_notes note_t ps 0 /\
    s_tempos r = tidy_tempos (placed s_tempos tempo_t ps 0) /\
    s_tsigs r = tidy_tsigs (placed s_tsigs tsig_t ps 0) /\
    s_ksigs r = tidy_ksigs (placed s_ksigs ksig_t ps 0) /\
    s_texts r = placed s_texts text_t ps 0 /\
    s_ccs r = placed s_ccs cc_t ps 0 /\
    s_bends r = placed s_bends bend_t ps 0 /\
    s_sects r = placed s_sects sect_t ps 0 /\
    s_total r = end_time ps 0 0 /\
    s_sub r = (0, 0).
Proof. exact concat_pairs_spec. Qed.
Print Assumptions C13_concat_spec.

(** [placed] in words: e is there iff it is an event of some piece i moved by the sum of the durations before i. *)
Theorem C13_concat_placement : forall (get : seq -> list note) mv ps cur e,
  In e (placed get mv ps cur) <->
  exists i p e0 off, nth_error ps i = Some p /\ In e0 (get (fst p)) /\
                     off = cur + offset ps i /\ e = mv (fun t => t + off) e0.
Proof. exact placed_notes_In. Qed.
Print Assumptions C13_concat_placement.

(** The two-list API of the Python function. *)
Theorem C13_concat_api_no_durations : forall ss,
  concatenate ss [] = concat_pairs (map (fun s => (s, None)) ss).
Proof. exact concatenate_no_durations. Qed.
Print Assumptions C13_concat_api_no_durations.

Theorem C13_concat_api_durations : forall ss ds,
  ds <> [] -> length ss = length ds -> concatenate ss ds = concat_pairs (combine ss (map Some ds)).
Proof. exact concatenate_durations. Qed.
Print Assumptions C13_concat_api_durations.

Theorem C13_concat_rejects_length_mismatch : forall ss ds,
  ds <> [] -> length ss <> length ds -> concatenate ss ds = Err EValue.
Proof. exact concatenate_length_mismatch. Qed.
Print Assumptions C13_concat_rejects_length_mismatch.

Theorem C13_concat_rejects_short_duration : forall ps,
  Forall (fun p => is_quantized (fst p) = false) ps -> existsb too_short ps = true ->
  concat_pairs ps = Err EValue.
Proof. exact concat_pairs_short. Qed.
Print Assumptions C13_concat_rejects_short_duration.

(** The composed operation: it drops ONLY tempo / time-signature / key events, and only ones that repeat
    the value in force — everything else is exactly the placed events; the three state lists are
    sub-sequences of the time-ordered placed events with the same value in force at every time. *)
Theorem C13_concat_drops_only_redundant : forall ps,
  Forall piece_ok ps ->
  exists r, concat_pairs ps = Ok r /\
    s_notes r = placed s_notes note_t ps 0 /\ s_texts r = placed s_texts text_t ps 0 /\
    s_ccs r = placed s_ccs cc_t ps 0 /\ s_bends r = placed s_bends bend_t ps 0 /\
    s_sects r = placed s_sects sect_t ps 0 /\
    (let all := sort_by tp_time (placed s_tempos tempo_t ps 0) in
     subseq (s_tempos r) all /\
     forall t, force tp_time tp_qpm None (s_tempos r) t = force tp_time tp_qpm None all t) /\
    (let all := sort_by ts_time (placed s_tsigs tsig_t ps 0) in
     subseq (s_tsigs r) all /\
     forall t, force ts_time (fun e => (ts_num e, ts_den e)) None (s_tsigs r) t =
               force ts_time (fun e => (ts_num e, ts_den e)) None all t) /\
    (let all := sort_by ks_time (placed s_ksigs ksig_t ps 0) in
     subseq (s_ksigs r) all /\
     forall t, force ks_time (fun e => (ks_key e, ks_mode e)) None (s_ksigs r) t =
               force ks_time (fun e => (ks_key e, ks_mode e)) None all t).
Proof. exact concat_drops_only_redundant. Qed.
Print Assumptions C13_concat_drops_only_redundant.

(** The rest of the message (id, filename, reference_number, collection_name, source_info, sequence_metadata,
    instrument_infos, part_infos, section_groups) under concatenation: for each scalar the last non-default
    value wins, repeated fields are appended in piece order, composers and genres keep first occurrences only. *)
Theorem C13_concat_metadata_merge : forall ms,
  let r := concat_meta ms in
  (forall i, nth i (m_scalars r) 0 =
             last (filter (fun x => negb (x =? 0)) (map (fun m => nth i (m_scalars m) 0) ms)) 0) /\
  m_instr r = flat_map m_instr ms /\ m_parts r = flat_map m_parts ms /\ m_groups r = flat_map m_groups ms /\
  (NoDup (m_composers r) /\ subseq (m_composers r) (flat_map m_composers ms) /\
   forall x, In x (m_composers r) <-> In x (flat_map m_composers ms)) /\
  (NoDup (m_genres r) /\ subseq (m_genres r) (flat_map m_genres ms) /\
   forall x, In x (m_genres r) <-> In x (flat_map m_genres ms)).
Proof. exact concat_meta_spec. Qed.
Print Assumptions C13_concat_metadata_merge.

(** The redundancy pass (remove_redundant_data), for ANY event list, generic in the event kind:
    it only drops; it never changes the value in force at any time; the event at a given place of the
    time-ordered list is dropped exactly when the event just before it has the same value; what is left has
    no two neighbours of equal value; the sort is a stable permutation. *)
Theorem C13_tidy_sort_is_stable_permutation : forall (l : list tempo),
  Permutation.Permutation (sort_by tp_time l) l /\ sorted_by tp_time (sort_by tp_time l) /\
  forall k, filter (fun e => tp_time e =? k) (sort_by tp_time l) = filter (fun e => tp_time e =? k) l.
Proof. exact tempo_sort_stable_permutation. Qed.
Print Assumptions C13_tidy_sort_is_stable_permutation.

Theorem C13_tidy_only_drops : forall (l : list tempo), subseq (tidy_tempos l) (sort_by tp_time l).
Proof. exact tidy_tempos_subseq. Qed.
Print Assumptions C13_tidy_only_drops.

Theorem C13_tidy_tempo_in_force_unchanged : forall (l : list tempo) t,
  force tp_time tp_qpm None (tidy_tempos l) t = force tp_time tp_qpm None (sort_by tp_time l) t.
Proof. exact tidy_tempos_force. Qed.
Print Assumptions C13_tidy_tempo_in_force_unchanged.

Theorem C13_tidy_time_signature_in_force_unchanged : forall (l : list tsig) t,
  force ts_time (fun e => (ts_num e, ts_den e)) None (tidy_tsigs l) t =
  force ts_time (fun e => (ts_num e, ts_den e)) None (sort_by ts_time l) t.
Proof. exact tidy_tsigs_force. Qed.
Print Assumptions C13_tidy_time_signature_in_force_unchanged.

Theorem C13_tidy_key_in_force_unchanged : forall (l : list ksig) t,
  force ks_time (fun e => (ks_key e, ks_mode e)) None (tidy_ksigs l) t =
  force ks_time (fun e => (ks_key e, ks_mode e)) None (sort_by ks_time l) t.
Proof. exact tidy_ksigs_force. Qed.
Print Assumptions C13_tidy_key_in_force_unchanged.

Theorem C13_tidy_drops_exactly_repeats : forall (p : tempo) l x l2,
  dedup tempo_same ((p :: l) ++ x :: l2) =
  dedup tempo_same (p :: l) ++ (if tempo_same (last l p) x then [] else [x]) ++ drop_rep tempo_same x l2.
Proof. exact tempo_dedup_drops_exactly_repeats. Qed.
Print Assumptions C13_tidy_drops_exactly_repeats.

Theorem C13_tidy_leaves_nothing_redundant : forall (l : list tempo) a b pre post,
  tidy_tempos l = pre ++ a :: b :: post -> tp_qpm a <> tp_qpm b.
Proof. exact tidy_tempos_adjacent. Qed.
Print Assumptions C13_tidy_leaves_nothing_redundant.

(** ** repeat_sequence_to_duration: n = ceil(d / sd) is the least number of copies covering d; the result is
       the concatenation of n copies cut at d (notes starting before d, ends clipped, state events windowed). *)
Theorem C13_repeat_spec : forall s d osd,
  is_quantized s = false -> 0 < s_total s <= eff_dur s osd -> 0 < d ->
  let sd := eff_dur s osd in
  let n := Z.to_nat (ceil_div d sd) in
  let ps := repeat (s, Some sd) n in
  (n >= 1)%nat /\ (Z.of_nat n - 1) * sd < d <= Z.of_nat n * sd /\
  exists r, repeat_to_duration s d osd = Ok r /\
    s_notes r = window_notes d (placed s_notes note_t ps 0) /\
    s_tempos r = window_state tp_time tempo_t d (tidy_tempos (placed s_tempos tempo_t ps 0)) /\
    s_tsigs r = window_state ts_time tsig_t d (tidy_tsigs (placed s_tsigs tsig_t ps 0)) /\
    s_ksigs r = window_state ks_time ksig_t d (tidy_ksigs (placed s_ksigs ksig_t ps 0)) /\
    s_sects r = placed s_sects sect_t ps 0 /\
    s_total r = max_end (s_notes r) /\ s_total r <= d /\
    s_sub r = (0, 0).
Proof. exact repeat_spec. Qed.
Print Assumptions C13_repeat_spec.

(** The cut IS C02's model of extract_subsequence(·, 0, d) (all fields; subsequence_info cleared afterwards),
    so repeat = extract of the concatenation, stated against Model/Extract.v. *)
Theorem C13_window_is_extract : forall d c,
  window d c = of_xres (X.extract_subsequence G02.DEFAULT_PRESERVE c 0 d).
Proof. exact window_is_extract. Qed.
Print Assumptions C13_window_is_extract.

Theorem C13_repeat_is_extract_of_concat : forall s d osd,
  repeat_to_duration s d osd =
  match repeat_pairs s d osd with
  | Err e => Err e
  | Ok ps => match concat_pairs ps with
             | Err e => Err e
             | Ok c => of_xres (X.extract_subsequence G02.DEFAULT_PRESERVE c 0 d)
             end
  end.
Proof. exact repeat_is_extract_of_concat. Qed.
Print Assumptions C13_repeat_is_extract_of_concat.

(** Through C02's carried-state theorem: at every instant of [0, d) the tempo, time signature, key, chord
    symbol and each preserved pedal (per instrument and control number) in effect in the result is the one in
    effect in the concatenation of the copies. *)
Theorem C13_repeat_state_in_effect : forall s d osd ps c r,
  repeat_pairs s d osd = Ok ps -> concat_pairs ps = Ok c -> repeat_to_duration s d osd = Ok r ->
  forall tau, 0 <= tau < d ->
    X.in_effect tp_time X.tempo_with_time (s_tempos r) tau = X.in_effect tp_time X.tempo_with_time (s_tempos c) tau /\
    X.in_effect ts_time X.tsig_with_time (s_tsigs r) tau = X.in_effect ts_time X.tsig_with_time (s_tsigs c) tau /\
    X.in_effect ks_time X.ksig_with_time (s_ksigs r) tau = X.in_effect ks_time X.ksig_with_time (s_ksigs c) tau /\
    X.in_effect tx_time X.text_with_time (X.chords_of r) tau = X.in_effect tx_time X.text_with_time (X.chords_of c) tau /\
    forall kk, X.in_effect cc_time X.cc_with_time (X.with_key kk (s_ccs r)) tau
               = X.in_effect cc_time X.cc_with_time (X.with_key kk (X.pedals_of G02.DEFAULT_PRESERVE c)) tau.
Proof. exact repeat_state_in_effect. Qed.
Print Assumptions C13_repeat_state_in_effect.

Theorem C13_repeat_copy_k_sits_k_durations_later : forall s sd n (e : note),
  In e (placed s_notes note_t (repeat (s, Some sd) n) 0) <->
  exists k e0 off, (k < n)%nat /\ In e0 (s_notes s) /\ off = Z.of_nat k * sd /\ e = note_t (fun t => t + off) e0.
Proof. exact repeat_notes_In. Qed.
Print Assumptions C13_repeat_copy_k_sits_k_durations_later.

Theorem C13_repeat_cut_keeps_exactly_notes_starting_before_d : forall d l n',
  In n' (window_notes d l) <->
  exists n, In n l /\ 0 <= n_start n < d /\ n' = note_with_times n (n_start n) (Z.min (n_end n) d).
Proof. exact window_notes_In. Qed.
Print Assumptions C13_repeat_cut_keeps_exactly_notes_starting_before_d.

(** All of the above in one statement about the notes of the result. *)
Theorem C13_repeat_result_notes : forall s d osd r,
  is_quantized s = false -> 0 < s_total s <= eff_dur s osd -> 0 < d ->
  repeat_to_duration s d osd = Ok r ->
  let sd := eff_dur s osd in
  let n := Z.to_nat (ceil_div d sd) in
  forall n', In n' (s_notes r) <->
    exists k n0, (k < n)%nat /\ In n0 (s_notes s) /\ 0 <= n_start n0 + Z.of_nat k * sd < d /\
      n' = note_with_times n0 (n_start n0 + Z.of_nat k * sd) (Z.min (n_end n0 + Z.of_nat k * sd) d).
Proof. exact repeat_result_notes. Qed.
Print Assumptions C13_repeat_result_notes.

Theorem C13_repeat_rejects_zero_duration : forall s d osd,
  eff_dur s osd = 0 -> repeat_to_duration s d osd = Err EZeroDiv.
Proof. exact repeat_zero_duration. Qed.
Print Assumptions C13_repeat_rejects_zero_duration.

Theorem C13_repeat_rejects_nonpositive_target : forall s d osd,
  0 < eff_dur s osd -> d <= 0 -> repeat_to_duration s d osd = Err EValue.
Proof. exact repeat_nothing_requested. Qed.
Print Assumptions C13_repeat_rejects_nonpositive_target.

(** ** adjust_notesequence_times, for ALL sequences and ALL functions f : Z -> Z (not only the
       piecewise-linear tables the tests use): accepted iff no retained note is reversed or starts before 0
       and no event (section annotations included: F16) lands before 0; then every retained note and
       every event carries f(time), exactly the collapsed notes are dropped and counted, tempos are deleted. *)
Theorem C13_adjust_spec : forall f s,
  adjust_rejects f s = false ->
  exists r, adjust f None s = Ok (r, Z.of_nat (length (filter (collapsed f) (s_notes s)))) /\
    s_notes r = map (note_t f) (filter (kept f) (s_notes s)) /\
    s_tempos r = [] /\
    s_tsigs r = map (tsig_t f) (s_tsigs s) /\
    s_ksigs r = map (ksig_t f) (s_ksigs s) /\
    s_texts r = map (text_t f) (s_texts s) /\
    s_ccs r = map (cc_t f) (s_ccs s) /\
    s_bends r = map (bend_t f) (s_bends s) /\
    s_sects r = map (sect_t f) (s_sects s) /\
    s_total r = max_end (s_notes r) /\
    s_sub r = s_sub s /\ same_rest s r.
Proof. exact adjust_spec. Qed.
Print Assumptions C13_adjust_spec.

Theorem C13_adjust_rejections : forall f s e,
  adjust f None s = Err e <-> adjust_rejects f s = true /\ e = EAdjust.
Proof. exact adjust_rejects_iff. Qed.
Print Assumptions C13_adjust_rejections.

Theorem C13_adjust_accepts_monotone_maps : forall f s,
  (forall a b, a <= b -> f a <= f b) -> (forall t, 0 <= t -> 0 <= f t) -> seq_wf s ->
  adjust_rejects f s = false.
Proof. exact adjust_monotone_ok. Qed.
Print Assumptions C13_adjust_accepts_monotone_maps.

(** With minimum_duration = m <> 0 nothing is skipped: a collapsed note gets end = f(start) + m. *)
Theorem C13_adjust_min_duration_spec : forall f m s, m <> 0 ->
  adjust_rejects_md f m s = false ->
  exists r, adjust f (Some m) s = Ok (r, 0) /\
    s_notes r = map (note_md f m) (s_notes s) /\
    s_tempos r = [] /\
    s_tsigs r = map (tsig_t f) (s_tsigs s) /\ s_ksigs r = map (ksig_t f) (s_ksigs s) /\
    s_texts r = map (text_t f) (s_texts s) /\ s_ccs r = map (cc_t f) (s_ccs s) /\
    s_bends r = map (bend_t f) (s_bends s) /\ s_sects r = map (sect_t f) (s_sects s) /\
    s_total r = max_end (s_notes r) /\ s_sub r = s_sub s /\ same_rest s r.
Proof. exact adjust_md_spec. Qed.
Print Assumptions C13_adjust_min_duration_spec.

(** ** rectify_beats: the beat map is non-decreasing everywhere (also after total_time: fix 2), sends
       beat i to i beats, is exactly linear in between; the beat list is strictly increasing; a
       well-formed sequence with a beat is never rejected and is adjusted by that map. *)
Theorem C13_rectify_map_monotone : forall xs S t1 t2,
  0 <= S -> increasing xs -> t1 <= t2 -> rect_fun xs S t1 <= rect_fun xs S t2.
Proof. exact rect_fun_monotone. Qed.
Print Assumptions C13_rectify_map_monotone.

Theorem C13_rectify_beat_i_to_i_beats : forall xs S i x,
  increasing xs -> nth_error xs i = Some x -> rect_fun xs S x = Z.of_nat i * S.
Proof. exact rect_fun_beat. Qed.
Print Assumptions C13_rectify_beat_i_to_i_beats.

Theorem C13_rectify_linear_between_beats : forall xs i x y t,
  increasing xs -> nth_error xs i = Some x -> nth_error xs (Datatypes.S i) = Some y -> x <= t < y ->
  (y - x) * (rect_fun xs (prod (deltas xs)) t - Z.of_nat i * prod (deltas xs)) = (t - x) * prod (deltas xs).
Proof. exact rect_fun_linear. Qed.
Print Assumptions C13_rectify_linear_between_beats.

Theorem C13_rectify_spec : forall bpm s,
  seq_wf s -> 0 <= s_total s -> is_quantized s = false -> beat_times s <> [] -> bpm <> 0 ->
  let xs := rect_beats s in
  let S := prod (deltas xs) in
  let f := rect_fun xs S in
  increasing xs /\ 0 < S /\
  exists r, rectify bpm s = Ok (r, xs, S) /\
    s_notes r = map (note_t f) (filter (kept f) (s_notes s)) /\
    s_tempos r = [mkTempo 0 bpm] /\
    s_tsigs r = [] /\
    s_ksigs r = map (ksig_t f) (s_ksigs s) /\
    s_texts r = map (text_t f) (s_texts s) /\
    s_ccs r = map (cc_t f) (s_ccs s) /\
    s_bends r = map (bend_t f) (s_bends s) /\
    s_sects r = map (sect_t f) (s_sects s) /\
    s_total r = max_end (s_notes r) /\
    s_sub r = s_sub s /\ same_rest s r.
Proof. exact rectify_spec. Qed.
Print Assumptions C13_rectify_spec.

Theorem C13_rectify_rejections : forall bpm s e,
  rectify bpm s = Err e ->
  (is_quantized s = true /\ e = EQuant) \/
  (is_quantized s = false /\ beat_times s = [] /\ e = ERectify) \/
  (is_quantized s = false /\ beat_times s <> [] /\ bpm = 0 /\ e = EZeroDiv) \/
  (is_quantized s = false /\ beat_times s <> [] /\ bpm <> 0 /\ e = EAdjust /\
   adjust_rejects (rect_fun (rect_beats s) (prod (deltas (rect_beats s)))) s = true).
Proof. exact rectify_errors. Qed.
Print Assumptions C13_rectify_rejections.

(** ** Non-vacuity: the hypotheses are satisfiable by sequences with every event kind, and the
       interesting branches (redundant tempo dropped, note collapsed, map rejected, time after the last beat) occur. *)
Example C13_shift_nonvacuous :
  is_quantized ex_seq = false /\
  exists r, shift 10 ex_seq = Ok r /\ map sa_time (s_sects r) = [14] /\ map pb_time (s_bends r) = [14] /\
            map n_end (s_notes r) = [18] /\ s_total r = 18 /\ s_sub r = (0, 0).
Proof. exact shift_example. Qed.
Print Assumptions C13_shift_nonvacuous.

Example C13_stretch_nonvacuous :
  is_quantized ex_seq = false /\ stretch_exact 3 1 ex_seq = true /\ stretch_exact 3 2 ex_seq = false /\
  exists r, stretch 3 1 ex_seq = Ok r /\ map sa_time (s_sects r) = [12] /\
            map tp_time (s_tempos r) = [12] /\ map tp_qpm (s_tempos r) = [40] /\ s_total r = 24.
Proof. exact stretch_example. Qed.
Print Assumptions C13_stretch_nonvacuous.

Example C13_concat_nonvacuous :
  let ps := [(ex_piece 120 [], Some 10); (ex_piece 120 [mkTempo 4 60], Some 8); (ex_piece 60 [], Some 8)] in
  Forall piece_ok ps /\
  exists r, concat_pairs ps = Ok r /\
    map n_start (s_notes r) = [0; 10; 18] /\
    s_tempos r = [mkTempo 0 120; mkTempo 14 60] /\
    map sa_time (s_sects r) = [1; 11; 19] /\ s_total r = 26.
Proof. exact concat_example. Qed.
Print Assumptions C13_concat_nonvacuous.

Example C13_repeat_nonvacuous :
  exists r, repeat_to_duration ex_seq 21 (Some 10) = Ok r /\
    map (fun n => (n_start n, n_end n)) (s_notes r) = [(4, 8); (14, 18)] /\ s_total r = 18 /\
    ceil_div 21 10 = 3.
Proof. exact repeat_example. Qed.
Print Assumptions C13_repeat_nonvacuous.

Example C13_adjust_nonvacuous :
  (forall a b, a <= b -> ex_f a <= ex_f b) /\ (forall t, 0 <= t -> 0 <= ex_f t) /\
  let s := mkSeq [mkNote 60 80 4 8 0 0 false 0 0 0; mkNote 61 80 5 6 0 0 false 0 0 0] [mkTempo 0 120] [] []
                 [] [] [] [mkSect 5 7] 8 0 0 0 (0, 0) 220 0 in
  exists r, adjust ex_f None s = Ok (r, 1) /\
    map (fun n => (n_pitch n, n_start n, n_end n)) (s_notes r) = [(60, 8, 16)] /\
    s_sects r = [mkSect 8 7] /\ s_tempos r = [] /\ s_total r = 16.
Proof. exact adjust_example. Qed.
Print Assumptions C13_adjust_nonvacuous.

Example C13_adjust_rejection_nonvacuous :
  adjust_rejects (fun t => 10 - t) ex_seq = true /\ adjust (fun t => 10 - t) None ex_seq = Err EAdjust /\
  adjust_rejects (fun t => t - 5) ex_seq = true.
Proof. exact adjust_reject_example. Qed.
Print Assumptions C13_adjust_rejection_nonvacuous.

Example C13_rectify_nonvacuous :
  seq_wf ex_seq /\ beat_times ex_seq <> [] /\ rect_beats ex_seq = [0; 2; 5; 8] /\
  prod (deltas (rect_beats ex_seq)) = 18 /\
  map (rect_fun [0; 2; 5; 8] 18) [0; 1; 2; 3; 5; 8; 9; 100] = [0; 9; 18; 24; 36; 54; 54; 54] /\
  exists r, rectify 120 ex_seq = Ok (r, [0; 2; 5; 8], 18) /\
    map (fun n => (n_start n, n_end n)) (s_notes r) = [(30, 54)] /\ s_tempos r = [mkTempo 0 120].
Proof. exact rectify_example. Qed.
Print Assumptions C13_rectify_nonvacuous.
