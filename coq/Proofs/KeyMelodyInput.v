(** Proofs/KeyMelodyInput.v — KeyMelodyEncoderDecoder.events_to_input (C08): whenever the call
    returns, the vector has exactly input_size entries (all passes write in place). *)
From Coq Require Import ZArith List Bool Lia ZifyBool.
From NS Require Import Gen.G08 Model.EncDec Model.Lookback Model.KeyMelody Proofs.EncDec Proofs.Lookback
  Proofs.LookbackInput Proofs.KeyMelody.
Import ListNotations.
Local Open Scope Z_scope.
Ltac Zify.zify_post_hook ::= Z.to_euclidean_division_equations.

Lemma pass_flags_length fl : forall st st', pass_flags fl st = Some st' -> zlen (fst st') = zlen (fst st).
Proof.
  induction fl as [|f fl IH]; intros st st' H; cbn [pass_flags] in H.
  - now inversion H.
  - destruct f.
    + destruct (py_set (fst st) (snd st) 1) as [v'|] eqn:Hs; cbn [bind] in H; [|discriminate].
      apply IH in H. cbn [fst] in H. rewrite H. eapply py_set_length; eauto.
    + cbn [bind] in H. apply IH in H. exact H.
Qed.

Lemma pass_counter_length is m0 : forall st st',
  lb_pass_counter is m0 st = Some st' -> zlen (fst st') = zlen (fst st).
Proof.
  induction is as [|i is IH]; intros st st' H; cbn [lb_pass_counter] in H.
  - now inversion H.
  - destruct (py_set (fst st) (snd st) (counter_bit m0 i)) as [v'|] eqn:Hs; cbn [bind] in H; [|discriminate].
    apply IH in H. cbn [fst] in H. rewrite H. eapply py_set_length; eauto.
Qed.

Lemma pass_repeat_length E eqb ds es p : forall st st',
  lb_pass_repeat E eqb ds es p st = Some st' -> zlen (fst st') = zlen (fst st).
Proof.
  induction ds as [|d ds IH]; intros st st' H; cbn [lb_pass_repeat] in H.
  - now inversion H.
  - destruct (lb_repeats E eqb es p d) as [hit|]; cbn [bind] in H; [|discriminate].
    destruct hit.
    + destruct (py_set (fst st) (snd st) 1) as [v'|] eqn:Hs; cbn [bind] in H; [|discriminate].
      apply IH in H. cbn [fst] in H. rewrite H. eapply py_set_length; eauto.
    + cbn [bind] in H. apply IH in H. exact H.
Qed.

(* Full statement wanted (not proved; exercised by the oracle on every generated case):
     0 <= min_note -> min_note + note_range <= 128 -> 0 <= bits -> positive dists ->
     all events of es valid -> 0 <= p < len es ->
     exists v, km_input min_note note_range dists bits es p = Some v /\ zlen v = km_input_size note_range dists bits.
   Proved: the length part, for every call that returns. *)
Theorem keymelody_input_length_any min_note note_range dists bits es p v :
  0 <= km_input_size note_range dists bits ->
  km_input min_note note_range dists bits es p = Some v ->
  zlen v = km_input_size note_range dists bits.
Proof.
  intros Hsz H. unfold km_input in H.
  destruct (km_melody (py_take es (p + 1))) as [sub|]; cbn [bind] in H; [|discriminate].
  set (s := km_scan sub) in *. set (v0 := zeros (km_input_size note_range dists bits)) in *.
  assert (Hv0 : zlen v0 = km_input_size note_range dists bits) by (unfold v0; rewrite zeros_length; lia).
  match type of H with (v1 <- ?X;; _) = _ => destruct X as [v1|] eqn:H1; cbn [bind] in H; [|discriminate] end.
  assert (Hv1 : zlen v1 = zlen v0).
  { destruct (km_cur s) as [c|].
    - destruct (c =? 0); [eapply py_set_length; eauto|].
      destruct (py_set v0 (c - min_note) 1) as [v'|] eqn:Hs; cbn [bind] in H1; [|discriminate].
      apply py_set_length in H1. apply py_set_length in Hs. lia.
    - eapply py_set_length; eauto. }
  match type of H with (s1 <- ?X;; _) = _ => destruct X as [s1|] eqn:H2; cbn [bind] in H; [|discriminate] end.
  apply pass_flags_length in H2. cbn [fst] in H2.
  match type of H with (v2 <- ?X;; _) = _ => destruct X as [v2|] eqn:H3; cbn [bind] in H; [|discriminate] end.
  assert (Hv2 : zlen v2 = zlen (fst s1)).
  { destruct (km_asc s) as [[|]|]; [eapply py_set_length; eauto|eapply py_set_length; eauto|now inversion H3]. }
  match type of H with (s3 <- ?X;; _) = _ => destruct X as [s3|] eqn:H4; cbn [bind] in H; [|discriminate] end.
  apply pass_repeat_length in H4. cbn [fst] in H4.
  match type of H with (s4 <- ?X;; _) = _ => destruct X as [s4|] eqn:H5; cbn [bind] in H; [|discriminate] end.
  apply pass_counter_length in H5.
  match type of H with (s5 <- ?X;; _) = _ => destruct X as [s5|] eqn:H6; cbn [bind] in H; [|discriminate] end.
  apply pass_flags_length in H6.
  match type of H with (s6 <- ?X;; _) = _ => destruct X as [s6|] eqn:H7; cbn [bind] in H; [|discriminate] end.
  apply pass_flags_length in H7.
  destruct (km_melody (km_last3 s)) as [l3|]; cbn [bind] in H; [|discriminate].
  match type of H with (s7 <- ?X;; _) = _ => destruct X as [s7|] eqn:H8; cbn [bind] in H; [|discriminate] end.
  apply pass_flags_length in H8.
  destruct (snd s7 =? km_input_size note_range dists bits); [|discriminate].
  inversion H; subst. lia.
Qed.

(** * Full strength: events_to_input returns, with the documented block structure *)

(* facts about the regenerated constants *)
Lemma K_octave_nonneg : 0 <= K_NOTES_PER_OCTAVE.
Proof. unfold K_NOTES_PER_OCTAVE. lia. Qed.
Lemma K_min_event_le_specials : K_MIN_MELODY_EVENT <= K_NO_EVENT /\ K_MIN_MELODY_EVENT <= K_NOTE_OFF /\
  K_MIN_MELODY_EVENT <= 0 /\ K_NO_EVENT <= K_MAX_MELODY_EVENT /\ K_NOTE_OFF <= K_MAX_MELODY_EVENT.
Proof. unfold K_MIN_MELODY_EVENT, K_MAX_MELODY_EVENT, K_NO_EVENT, K_NOTE_OFF. lia. Qed.

(* the stage lemmas in "re-associated" form: the output state of one is the input state of the next *)
Lemma pass_flags_stage fl : forall pre M, 0 <= M ->
  pass_flags fl (pre ++ zeros (zlen fl + M), zlen pre) =
  Some ((pre ++ map b2z fl) ++ zeros M, zlen (pre ++ map b2z fl)).
Proof.
  induction fl as [|f fl IH]; intros pre M HM.
  - cbn [pass_flags map]. rewrite zlen_nil, app_nil_r. replace (0 + M) with M by lia. reflexivity.
  - cbn [pass_flags fst snd map]. rewrite zlen_cons. pose proof (zlen_nonneg fl).
    replace (1 + zlen fl + M) with (1 + (zlen fl + M)) by lia.
    assert (Hstep : (if f then py_set (pre ++ zeros (1 + (zlen fl + M))) (zlen pre) 1
                     else Some (pre ++ zeros (1 + (zlen fl + M)))) =
                    Some ((pre ++ [b2z f]) ++ zeros (zlen fl + M))).
    { destruct f; cbn [b2z]; [rewrite set_cell by lia|rewrite skip_cell by lia]; now rewrite <- app_assoc. }
    rewrite Hstep. cbn [bind].
    replace (zlen pre + 1) with (zlen (pre ++ [b2z f])) by (rewrite zlen_app; reflexivity).
    rewrite IH by lia. rewrite <- !app_assoc. reflexivity.
Qed.

Lemma pass_counter_stage m0 is pre M : 0 <= M ->
  lb_pass_counter is m0 (pre ++ zeros (zlen is + M), zlen pre) =
  Some ((pre ++ map (counter_bit m0) is) ++ zeros M, zlen (pre ++ map (counter_bit m0) is)).
Proof.
  intros. rewrite pass_counter_spec by lia. rewrite zlen_app, zlen_map, <- app_assoc. reflexivity.
Qed.

Lemma pass_repeat_stage E eqb es p ds fs pre M :
  Forall2 (fun d f => lb_repeats E eqb es p d = Some f) ds fs -> 0 <= M ->
  lb_pass_repeat E eqb ds es p (pre ++ zeros (zlen ds + M), zlen pre) =
  Some ((pre ++ map b2z fs) ++ zeros M, zlen (pre ++ map b2z fs)).
Proof.
  intros Hf HM. rewrite (pass_repeat_spec E eqb es p ds fs Hf) by lia.
  rewrite zlen_app, zlen_map, <- app_assoc.
  replace (zlen fs) with (zlen ds) by (unfold zlen; f_equal; eapply Forall2_len; eauto). reflexivity.
Qed.

Lemma key_flags_length l : zlen (key_flags l) = K_NOTES_PER_OCTAVE.
Proof.
  unfold key_flags, key_hist. rewrite !zlen_map. unfold zlen. rewrite zrange_length.
  pose proof K_octave_nonneg. lia.
Qed.

(* max(histogram) is attained: at least one key is flagged *)
Lemma fold_max_in r : forall x, In (fold_left Z.max r x) (x :: r).
Proof.
  induction r as [|y r IH]; intros x; cbn [fold_left]; [now left|].
  destruct (IH (Z.max x y)) as [H|H]; [|right; now right].
  destruct (Z.max_spec x y) as [[_ Hm]|[_ Hm]]; rewrite Hm in H; [right; left|left]; congruence.
Qed.

Lemma key_flags_some l : existsb (fun b => b) (key_flags l) = true.
Proof.
  unfold key_flags. set (h := key_hist l).
  assert (h <> []) as Hne.
  { intros Heq. assert (zlen h = K_NOTES_PER_OCTAVE) as Hl.
    { unfold h, key_hist. rewrite zlen_map. unfold zlen. rewrite zrange_length. pose proof K_octave_nonneg. lia. }
    rewrite Heq in Hl. unfold K_NOTES_PER_OCTAVE, zlen in Hl. cbn in Hl. lia. }
  destruct h as [|x r]; [congruence|].
  apply existsb_exists. exists true. split; [|reflexivity].
  apply in_map_iff. exists (zmax_list (x :: r)). split; [apply Z.eqb_refl|].
  unfold zmax_list. apply fold_max_in.
Qed.

Lemma In_firstn {A} (x : A) n : forall l, In x (firstn n l) -> In x l.
Proof.
  induction n as [|n IH]; intros [|y l] H; cbn in H; try contradiction.
  destruct H as [H|H]; [now left|right; auto].
Qed.

Section KeyMelodyInput.
  Variables min_note note_range : Z.
  Hypothesis mn_nonneg : 0 <= min_note.
  Hypothesis nr_nonneg : 0 <= note_range.
  Hypothesis max_ok : min_note + note_range <= K_MAX_MELODY_EVENT + 1.

  Let valid a := km_valid min_note note_range a = true.
  Definition pitch_ok (x : Z) : Prop := min_note <= x < min_note + note_range.

  Lemma valid_cases a : valid a -> a = K_NO_EVENT \/ a = K_NOTE_OFF \/ pitch_ok a.
  Proof. unfold valid, km_valid, pitch_ok. intros H. lia. Qed.

  Lemma valid_no_event : valid K_NO_EVENT.
  Proof. unfold valid, km_valid. rewrite Z.eqb_refl. reflexivity. Qed.

  (** ** Melody(events): accepted, same length, still valid *)
  Lemma km_clean_length l : length (km_clean l) = length l.
  Proof. induction l as [|e r IH]; cbn [km_clean]; [reflexivity|]. destruct (km_special e); cbn; auto. Qed.

  Lemma km_clean_valid l : Forall valid l -> Forall valid (km_clean l).
  Proof.
    induction 1 as [|e r He Hr IH]; cbn [km_clean]; [constructor|].
    destruct (km_special e); constructor; auto. apply valid_no_event.
  Qed.

  Lemma km_melody_ok l : Forall valid l -> km_melody l = Some (km_clean l).
  Proof.
    intros Hv. unfold km_melody.
    assert (forallb (fun e => (K_MIN_MELODY_EVENT <=? e) && (e <=? K_MAX_MELODY_EVENT)) l = true) as ->; [|reflexivity].
    apply forallb_forall. intros e He. rewrite Forall_forall in Hv. apply Hv, valid_cases in He.
    pose proof K_min_event_le_specials. unfold pitch_ok in He. lia.
  Qed.

  (** ** the scan over sub_melody keeps current_note and last_3_notes inside the pitch range *)
  Definition scan_inv (s : km_state) : Prop :=
    (forall c, km_cur s = Some c -> pitch_ok c) /\ Forall pitch_ok (km_last3 s).

  Lemma remove_first_Forall (P : Z -> Prop) x l : Forall P l -> Forall P (remove_first x l).
  Proof.
    induction 1 as [|y r Hy Hr IH]; cbn [remove_first]; [constructor|].
    destruct (x =? y); [assumption|constructor; auto].
  Qed.

  Lemma deque3_Forall (P : Z -> Prop) l x : Forall P l -> P x -> Forall P (deque3_append l x).
  Proof.
    intros Hl Hx. unfold deque3_append.
    assert (Forall P (l ++ [x])) as H by (apply Forall_app; split; auto).
    destruct (3 <? zlen (l ++ [x])); [|exact H].
    destruct (l ++ [x]); cbn [tl]; [constructor|]. now inversion H.
  Qed.

  Lemma km_step_inv s note : valid note -> scan_inv s -> scan_inv (km_step s note).
  Proof.
    intros Hv [Hc Hl]. unfold km_step.
    destruct (note =? K_NO_EVENT) eqn:H1; [split; cbn; auto|].
    destruct (note =? K_NOTE_OFF) eqn:H2; [split; cbn; auto; discriminate|].
    assert (pitch_ok note) as Hp by (destruct (valid_cases note Hv) as [?|[?|?]]; [lia|lia|assumption]).
    split; cbn [km_cur km_last3].
    - intros c Hc'. inversion Hc'; subst. exact Hp.
    - apply deque3_Forall; [|exact Hp]. destruct (existsb _ _); [apply remove_first_Forall|]; exact Hl.
  Qed.

  Lemma km_scan_inv sub : Forall valid sub -> scan_inv (km_scan sub).
  Proof.
    unfold km_scan. intros Hv.
    assert (forall s, scan_inv s -> scan_inv (fold_left km_step sub s)) as H.
    { induction Hv as [|e r He _ IH]; intros s Hs; cbn [fold_left]; [exact Hs|]. apply IH. now apply km_step_inv. }
    apply H. split; cbn; [discriminate|constructor].
  Qed.

  Lemma pitch_ok_valid l : Forall pitch_ok l -> Forall valid l.
  Proof.
    apply Forall_impl. intros a Ha. unfold valid, km_valid, pitch_ok in *.
    destruct ((min_note <=? a) && (a <? min_note + note_range)) eqn:?; [|lia]. now rewrite orb_true_r.
  Qed.

  (** ** the first write: pitch cell + "note playing" cell, or the "silence" cell *)
  Lemma km_stage1 cur M :
    0 <= M -> (forall c, cur = Some c -> pitch_ok c) ->
    let v0 := zeros (note_range + (1 + (1 + M))) in
    exists head,
      match cur with
      | Some c => if c =? 0 then py_set v0 (note_range + 1) 1
                  else v <- py_set v0 (c - min_note) 1 ;; py_set v note_range 1
      | None => py_set v0 (note_range + 1) 1
      end = Some (head ++ zeros M) /\
      zlen head = note_range + 2 /\
      ((exists c, cur = Some c /\ c <> 0 /\ head = onehot note_range (c - min_note) ++ [1; 0]) \/
       ((cur = None \/ cur = Some 0) /\ head = zeros note_range ++ [0; 1])).
  Proof.
    intros HM Hc v0.
    assert (Hsil : py_set v0 (note_range + 1) 1 = Some ((zeros note_range ++ [0; 1]) ++ zeros M)).
    { unfold v0. rewrite zeros_split by lia. rewrite skip_cell by lia.
      rewrite app_assoc.
      replace (note_range + 1) with (zlen (zeros note_range ++ [0]))
        by (rewrite zlen_app, zeros_length; change (zlen [0]) with 1; lia).
      rewrite set_cell by lia. rewrite <- !app_assoc. reflexivity. }
    assert (Hlen : zlen (zeros note_range ++ [0; 1]) = note_range + 2).
    { rewrite zlen_app, zeros_length. change (zlen [0; 1]) with 2. lia. }
    destruct cur as [c|].
    - destruct (c =? 0) eqn:Hc0.
      + eexists. split; [exact Hsil|]. split; [exact Hlen|]. right. split; [right; f_equal; lia|reflexivity].
      + pose proof (Hc c eq_refl) as Hp. unfold pitch_ok in Hp.
        exists (onehot note_range (c - min_note) ++ [1; 0]). split.
        * unfold v0. change (zeros (note_range + (1 + (1 + M)))) with ([] ++ zeros (note_range + (1 + (1 + M)))).
          replace (c - min_note) with (zlen (@nil Z) + (c - min_note)) at 1 by (rewrite zlen_nil; lia).
          rewrite set_block by lia. cbn [bind app].
          replace note_range with (zlen (onehot note_range (c - min_note))) at 2 by (apply onehot_length; lia).
          rewrite set_cell by lia. rewrite skip_cell by lia. rewrite <- !app_assoc. reflexivity.
        * split; [rewrite zlen_app, onehot_length by lia; change (zlen [1; 0]) with 2; lia|].
          left. exists c. repeat split; auto. lia.
    - eexists. split; [exact Hsil|]. split; [exact Hlen|]. right. split; [now left|reflexivity].
  Qed.

  Variable dists : list Z.
  Variable bits : Z.
  Hypothesis dists_pos : Forall (fun d => 1 <= d) dists.
  Hypothesis bits_nonneg : 0 <= bits.

  (** The input vector of KeyMelodyEncoderDecoder, for every valid melody and position: the call
      returns, the vector has input_size entries and is, in order:
      [pitch cells (note_range)] [note playing; silence] [attack] [ascending] [repeat flag per lookback]
      [counter bits of the next step] [next step starts a bar] [12 key flags] [12 recent-key flags]. *)
  Theorem keymelody_input_shape es p :
    Forall valid es -> 0 <= p < zlen es ->
    let sub := km_clean (firstn (Z.to_nat (p + 1)) es) in
    let s := km_scan sub in
    exists head asc fs keys1 keys2,
      km_input min_note note_range dists bits es p =
        Some (head ++ [b2z (km_attack s)] ++ [asc] ++ map b2z fs ++
              map (counter_bit (p + 1)) (zrange bits) ++ [b2z ((p + 1) mod K_STEPS_PER_BAR =? 0)] ++
              map b2z keys1 ++ map b2z keys2) /\
      zlen (head ++ [b2z (km_attack s)] ++ [asc] ++ map b2z fs ++
            map (counter_bit (p + 1)) (zrange bits) ++ [b2z ((p + 1) mod K_STEPS_PER_BAR =? 0)] ++
            map b2z keys1 ++ map b2z keys2) = km_input_size note_range dists bits /\
      (* pitch one-hot + exactly one of (playing, silence) *)
      zlen head = note_range + 2 /\
      ((exists c, km_cur s = Some c /\ c <> 0 /\ pitch_ok c /\
                  head = onehot note_range (c - min_note) ++ [1; 0] /\
                  is_one_hot (onehot note_range (c - min_note))) \/
       ((km_cur s = None \/ km_cur s = Some 0) /\ head = zeros note_range ++ [0; 1])) /\
      (asc = 0 \/ asc = 1 \/ asc = -1) /\
      Forall2 (fun d f => f = true <-> lb_match Z es p d) dists fs /\
      Forall (fun x => x = 1 \/ x = -1) (map (counter_bit (p + 1)) (zrange bits)) /\
      zlen keys1 = K_NOTES_PER_OCTAVE /\ zlen keys2 = K_NOTES_PER_OCTAVE /\
      existsb (fun b => b) keys1 = true /\ existsb (fun b => b) keys2 = true.
  Proof.
    intros Hv Hp sub s.
    pose proof (zlen_nonneg dists) as Hk. pose proof K_octave_nonneg as HN.
    assert (Hsubv : Forall valid sub).
    { apply km_clean_valid. rewrite Forall_forall in *. intros x Hx. apply Hv. eapply In_firstn; eauto. }
    assert (Hsublen : zlen sub = p + 1).
    { unfold sub, zlen. rewrite km_clean_length, firstn_length. unfold zlen in Hp. lia. }
    destruct (km_scan_inv sub Hsubv) as [Hcur Hl3]. fold s in Hcur, Hl3.
    destruct (repeat_flags_exist Z Z.eqb Zeqb_spec es p dists dists_pos Hp) as (fs & Hfs1 & Hfs2).
    assert (Hzr : zlen (zrange bits) = bits) by (unfold zlen; rewrite zrange_length; lia).
    set (keys1 := key_flags sub). set (keys2 := key_flags (km_clean (km_last3 s))).
    assert (Hk1 : zlen keys1 = K_NOTES_PER_OCTAVE) by apply key_flags_length.
    assert (Hk2 : zlen keys2 = K_NOTES_PER_OCTAVE) by apply key_flags_length.
    set (bar := (p + 1) mod K_STEPS_PER_BAR =? 0).
    (* the size, written as the nest of stage widths *)
    set (M8 := 0). set (M7 := zlen keys2 + M8). set (M6 := zlen keys1 + M7). set (M5 := zlen [bar] + M6).
    set (M4 := zlen (zrange bits) + M5). set (M3 := zlen dists + M4). set (M2 := 1 + M3).
    set (M1 := zlen [km_attack s] + M2).
    assert (Hsize : km_input_size note_range dists bits = note_range + (1 + (1 + M1))).
    { unfold km_input_size, km_k, M1, M2, M3, M4, M5, M6, M7, M8. rewrite Hk1, Hk2, Hzr.
      change (zlen [km_attack s]) with 1. change (zlen [bar]) with 1. lia. }
    assert (HM : 0 <= M8 /\ 0 <= M7 /\ 0 <= M6 /\ 0 <= M5 /\ 0 <= M4 /\ 0 <= M3 /\ 0 <= M2 /\ 0 <= M1).
    { unfold M1, M2, M3, M4, M5, M6, M7, M8. rewrite Hk1, Hk2, Hzr.
      change (zlen [km_attack s]) with 1. change (zlen [bar]) with 1. lia. }
    destruct HM as (HM8 & HM7 & HM6 & HM5 & HM4 & HM3 & HM2 & HM1).
    destruct (km_stage1 (km_cur s) M1 HM1 Hcur) as (head & Hst1 & Hhlen & Hhead). cbv zeta in Hst1.
    (* ascending cell *)
    set (asc := match km_asc s with Some true => 1 | Some false => -1 | None => 0 end).
    assert (Hasc : forall pre,
      match km_asc s with
      | Some true => py_set (pre ++ zeros (1 + M3)) (zlen pre) 1
      | Some false => py_set (pre ++ zeros (1 + M3)) (zlen pre) (-1)
      | None => Some (pre ++ zeros (1 + M3))
      end = Some ((pre ++ [asc]) ++ zeros M3)).
    { intros pre. unfold asc. destruct (km_asc s) as [[|]|];
        [rewrite set_cell by lia|rewrite set_cell by lia|rewrite skip_cell by lia]; now rewrite <- app_assoc. }
    exists head, asc, fs, keys1, keys2.
    split.
    - unfold km_input.
      assert (Htake : py_take es (p + 1) = firstn (Z.to_nat (p + 1)) es).
      { unfold py_take. destruct (p + 1 <? 0) eqn:?; [lia|reflexivity]. }
      rewrite Htake, km_melody_ok.
      2:{ rewrite Forall_forall in *. intros x Hx. apply Hv. eapply In_firstn; eauto. }
      cbn [bind]. fold sub. fold s. rewrite Hsize, Hst1. cbn [bind].
      replace (note_range + 2) with (zlen head) by lia.
      unfold M1 at 1. rewrite pass_flags_stage by lia. cbn [bind fst snd].
      unfold M2 at 1. rewrite Hasc. cbn [bind].
      replace (zlen (head ++ map b2z [km_attack s]) + 1) with (zlen ((head ++ map b2z [km_attack s]) ++ [asc]))
        by (rewrite (zlen_app _ [asc]); reflexivity).
      unfold M3 at 1. rewrite (pass_repeat_stage Z Z.eqb es p dists fs _ M4 Hfs1) by lia. cbn [bind].
      unfold M4 at 1. rewrite Hsublen, pass_counter_stage by lia. cbn [bind].
      fold bar. unfold M5 at 1. rewrite pass_flags_stage by lia. cbn [bind].
      fold keys1. unfold M6 at 1. rewrite pass_flags_stage by lia. cbn [bind].
      rewrite km_melody_ok by (apply pitch_ok_valid; exact Hl3). cbn [bind].
      fold keys2. unfold M7 at 1. rewrite pass_flags_stage by lia. cbn [bind fst snd].
      match goal with |- (if ?b then _ else _) = _ => destruct b eqn:Hchk end.
      + unfold M8. rewrite app_nil_r. cbn [map]. rewrite <- !app_assoc. reflexivity.
      + exfalso. rewrite !zlen_app, !zlen_map in Hchk.
        unfold M1, M2, M3, M4, M5, M6, M7, M8 in Hchk.
        replace (zlen fs) with (zlen dists) in Hchk by (unfold zlen; f_equal; eapply Forall2_len; eauto).
        change (zlen [asc]) with 1 in Hchk. lia.
    - split.
      { rewrite !zlen_app, !zlen_map, Hsize. unfold M1, M2, M3, M4, M5, M6, M7, M8.
        replace (zlen fs) with (zlen dists) by (unfold zlen; f_equal; eapply Forall2_len; eauto).
        change (zlen [b2z (km_attack s)]) with 1. change (zlen [asc]) with 1.
        change (zlen [b2z ((p + 1) mod K_STEPS_PER_BAR =? 0)]) with 1.
        change (zlen [km_attack s]) with 1. change (zlen [bar]) with 1. change (zlen [b2z bar]) with 1. lia. }
      split; [exact Hhlen|]. split.
      { destruct Hhead as [(c & Hc & Hc0 & Hh)|[Hc Hh]]; [left|right; auto].
        exists c. pose proof (Hcur c Hc) as Hpc.
        split; [exact Hc|]. split; [exact Hc0|]. split; [exact Hpc|]. split; [exact Hh|].
        apply onehot_is_one_hot. unfold pitch_ok in Hpc. lia. }
      split; [unfold asc; destruct (km_asc s) as [[|]|]; auto|].
      split; [exact Hfs2|]. split.
      { apply Forall_forall. intros x Hx. apply in_map_iff in Hx. destruct Hx as (i & <- & _).
        unfold counter_bit. destruct ((p + 1) / 2 ^ i mod 2 =? 0); [now right|now left]. }
      split; [exact Hk1|]. split; [exact Hk2|]. split; apply key_flags_some.
  Qed.
End KeyMelodyInput.

(* a concrete instance (the same vector the real encoder returns for this melody) *)
Example keymelody_input_nonvacuous :
  forallb (km_valid 60 3) [60; -2; 62; 60] = true /\
  km_input 60 3 [1; 2] 2 [60; -2; 62; 60] 3 =
    Some [1; 0; 0; 1; 0; 1; -1; 0; 0; -1; -1; 0; 1; 0; 0; 1; 0; 1; 0; 1; 0;
          0; 1; 0; 1; 0; 0; 1; 0; 1; 0; 1; 0; 0; 1; 0] /\
  km_input_size 3 [1; 2] 2 = 36.
Proof. vm_compute. repeat split. Qed.
