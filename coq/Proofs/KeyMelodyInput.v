(** Proofs/KeyMelodyInput.v — KeyMelodyEncoderDecoder.events_to_input (C08): whenever the call
    returns, the vector has exactly input_size entries (all passes write in place). *)
From Coq Require Import ZArith List Bool Lia ZifyBool.
From NS Require Import Gen.G08 Model.EncDec Model.Lookback Model.KeyMelody Proofs.EncDec.
Import ListNotations.
Local Open Scope Z_scope.

Lemma pass_flags_length fl : forall st st', pass_flags fl st = Some st' -> zlen (fst st') = zlen (fst st).
Proof.
  induction fl as [|f fl IH]; intros st st' H; cbn [pass_flags] in H.
  - now inversion H.
  - destruct f.
    + destruct (py_set (fst st) (snd st) 1) as [v'|] eqn:Hs; cbn [bind] in H; [|discriminate].
      apply IH in H. cbn [fst] in H. rewrite H. eapply py_set_length; eauto.
    + cbn [bind] in H. apply IH in H. exact H.
Qed.

Lemma pass_counter_length is m0 : forall st st',
  lb_pass_counter is m0 st = Some st' -> zlen (fst st') = zlen (fst st).
Proof.
  induction is as [|i is IH]; intros st st' H; cbn [lb_pass_counter] in H.
  - now inversion H.
  - destruct (py_set (fst st) (snd st) (counter_bit m0 i)) as [v'|] eqn:Hs; cbn [bind] in H; [|discriminate].
    apply IH in H. cbn [fst] in H. rewrite H. eapply py_set_length; eauto.
Qed.

Lemma pass_repeat_length E eqb ds es p : forall st st',
  lb_pass_repeat E eqb ds es p st = Some st' -> zlen (fst st') = zlen (fst st).
Proof.
  induction ds as [|d ds IH]; intros st st' H; cbn [lb_pass_repeat] in H.
  - now inversion H.
  - destruct (lb_repeats E eqb es p d) as [hit|]; cbn [bind] in H; [|discriminate].
    destruct hit.
    + destruct (py_set (fst st) (snd st) 1) as [v'|] eqn:Hs; cbn [bind] in H; [|discriminate].
      apply IH in H. cbn [fst] in H. rewrite H. eapply py_set_length; eauto.
    + cbn [bind] in H. apply IH in H. exact H.
Qed.

(* Full statement wanted (not proved; exercised by the oracle on every generated case):
     0 <= min_note -> min_note + note_range <= 128 -> 0 <= bits -> positive dists ->
     all events of es valid -> 0 <= p < len es ->
     exists v, km_input min_note note_range dists bits es p = Some v /\ zlen v = km_input_size note_range dists bits.
   Proved: the length part, for every call that returns. *)
Theorem keymelody_input_length_partial min_note note_range dists bits es p v :
  0 <= km_input_size note_range dists bits ->
  km_input min_note note_range dists bits es p = Some v ->
  zlen v = km_input_size note_range dists bits.
Proof.
  intros Hsz H. unfold km_input in H.
  destruct (km_melody (py_take es (p + 1))) as [sub|]; cbn [bind] in H; [|discriminate].
  set (s := km_scan sub) in *. set (v0 := zeros (km_input_size note_range dists bits)) in *.
  assert (Hv0 : zlen v0 = km_input_size note_range dists bits) by (unfold v0; rewrite zeros_length; lia).
  match type of H with (v1 <- ?X;; _) = _ => destruct X as [v1|] eqn:H1; cbn [bind] in H; [|discriminate] end.
  assert (Hv1 : zlen v1 = zlen v0).
  { destruct (km_cur s) as [c|].
    - destruct (c =? 0); [eapply py_set_length; eauto|].
      destruct (py_set v0 (c - min_note) 1) as [v'|] eqn:Hs; cbn [bind] in H1; [|discriminate].
      apply py_set_length in H1. apply py_set_length in Hs. lia.
    - eapply py_set_length; eauto. }
  match type of H with (s1 <- ?X;; _) = _ => destruct X as [s1|] eqn:H2; cbn [bind] in H; [|discriminate] end.
  apply pass_flags_length in H2. cbn [fst] in H2.
  match type of H with (v2 <- ?X;; _) = _ => destruct X as [v2|] eqn:H3; cbn [bind] in H; [|discriminate] end.
  assert (Hv2 : zlen v2 = zlen (fst s1)).
  { destruct (km_asc s) as [[|]|]; [eapply py_set_length; eauto|eapply py_set_length; eauto|now inversion H3]. }
  match type of H with (s3 <- ?X;; _) = _ => destruct X as [s3|] eqn:H4; cbn [bind] in H; [|discriminate] end.
  apply pass_repeat_length in H4. cbn [fst] in H4.
  match type of H with (s4 <- ?X;; _) = _ => destruct X as [s4|] eqn:H5; cbn [bind] in H; [|discriminate] end.
  apply pass_counter_length in H5.
  match type of H with (s5 <- ?X;; _) = _ => destruct X as [s5|] eqn:H6; cbn [bind] in H; [|discriminate] end.
  apply pass_flags_length in H6.
  match type of H with (s6 <- ?X;; _) = _ => destruct X as [s6|] eqn:H7; cbn [bind] in H; [|discriminate] end.
  apply pass_flags_length in H7.
  destruct (km_melody (km_last3 s)) as [l3|]; cbn [bind] in H; [|discriminate].
  match type of H with (s7 <- ?X;; _) = _ => destruct X as [s7|] eqn:H8; cbn [bind] in H; [|discriminate] end.
  apply pass_flags_length in H8.
  destruct (snd s7 =? km_input_size note_range dists bits); [|discriminate].
  inversion H; subst. lia.
Qed.
