(** Proofs/PermFq.v — C12 for the event-sequence extractors (C07 models):
    PianorollSequence, DrumTrack, ChordProgression, Melody, Performance /
    MetricPerformance.  For the pianoroll, chords, melody and performance the
    extracted object is EQUAL for every storage order; for the drum track every
    event (a set of pitches, a list in the model) is a permutation. *)
From Coq Require Import ZArith List Bool Lia ZifyBool Permutation Sorted.
From NS Require Import Base.NoteSeq Model.PermDefs Proofs.PermTools.
From NS Require Import Gen.G07 Model.FqCommon Model.FqMelody Model.FqDrums Model.FqChords
  Model.FqPianoroll Model.FqPerformance Model.FqSpec
  Proofs.FqCommon Proofs.FqPianoroll Proofs.FqDrums Proofs.FqChords Proofs.FqMelody.
Import ListNotations.
Local Open Scope Z_scope.

Definition fq_rel {A} (R : A -> A -> Prop) (a b : res A) : Prop :=
  match a, b with
  | Ok x, Ok y => R x y
  | Err c, Err c' => c = c'
  | _, _ => False
  end.

(** * the stable sort by a total preorder, on a list whose keys are distinct *)
Lemma isort_perm_invariant {A B} (le : A -> A -> bool) (key : A -> B) l l' :
  (forall a b, le a b = true \/ le b a = true) ->
  (forall a b c, le a b = true -> le b c = true -> le a c = true) ->
  (forall a b, le a b = true -> le b a = true -> key a = key b) ->
  Permutation l l' -> distinct_on key l -> isort le l = isort le l'.
Proof.
  intros Ht Htr Hk P D. apply sorted_perm_unique with (R := fun a b => le a b = true).
  - intros a b Ha Hb H1 H2. apply (distinct_on_inj key l); try assumption.
    + now apply isort_In in Ha.
    + now apply isort_In in Hb.
    + now apply Hk.
  - now apply isort_sorted.
  - now apply isort_sorted.
  - rewrite isort_perm, P. symmetry. apply isort_perm.
Qed.

(** * steps_per_bar reads time_signatures[0] *)
Definition tsigs_agree (s : seq) : Prop :=
  forall a b, In a (s_tsigs s) -> In b (s_tsigs s) -> ts_num a = ts_num b /\ ts_den a = ts_den b.

Lemma steps_per_bar_perm s s' : seq_perm s s' -> tsigs_agree s -> steps_per_bar s' = steps_per_bar s.
Proof.
  intros P H. unfold steps_per_bar. rewrite <- (sp_spq _ _ P).
  destruct (s_spq s <=? 0); [reflexivity|].
  pose proof (sp_tsigs _ _ P) as Pt.
  destruct (s_tsigs s') as [|t' r'] eqn:E'.
  - apply Permutation_sym, Permutation_nil in Pt. now rewrite Pt.
  - destruct (s_tsigs s) as [|t r] eqn:E; [apply Permutation_nil in Pt; discriminate|].
    assert (In t' (t :: r)) by (eapply Permutation_in; [symmetry; exact Pt|now left]).
    destruct (H t' t) as [-> ->]; [rewrite E; exact H0|rewrite E; now left|]. reflexivity.
Qed.

(** * PianorollSequence *)
Lemma pr_notes_perm p ns ns' : Permutation ns ns' -> Permutation (pr_notes p ns) (pr_notes p ns').
Proof.
  intros P. unfold pr_notes. rewrite (isort_perm pr_le), (perm_filter _ _ _ P). symmetry. apply isort_perm.
Qed.

Theorem perm_pianorollseq p s s' : seq_perm s s' -> pr_from_quantized p s' = pr_from_quantized p s.
Proof.
  intros P. unfold pr_from_quantized. rewrite <- (sp_spq _ _ P), <- (sp_qsteps _ _ P).
  destruct (s_spq s <=? 0); [reflexivity|].
  destruct ((s_qsteps s - pp_start p <? 0) || (pp_max_pitch p - pp_min_pitch p + 1 <? 0)); [reflexivity|].
  rewrite (perm_forallb _ _ _ (pr_notes_perm p _ _ (Permutation_sym (sp_notes _ _ P)))).
  destruct (negb (forallb _ (pr_notes p (s_notes s)))); [reflexivity|].
  do 2 f_equal. apply map_ext_in. intros st Hst. apply In_range_from in Hst.
  apply filter_ext. intros q. rewrite !pr_cell_spec by lia. unfold pr_spec_cell.
  rewrite !(perm_existsb _ _ _ (sp_notes _ _ P)). reflexivity.
Qed.

(** * ChordProgression *)
Definition is_chord (t : text) : bool := tx_type t =? CHORD_SYMBOL.

Lemma ch_sorted_perm ts ts' : Permutation ts ts' ->
  distinct_on tx_qstep (filter is_chord ts) -> ch_sorted ts = ch_sorted ts'.
Proof.
  intros P D. unfold ch_sorted. apply (isort_perm_invariant ch_le tx_qstep).
  - apply ch_le_total.
  - apply ch_le_trans.
  - intros a b. unfold ch_le. lia.
  - now apply perm_filter.
  - exact D.
Qed.

Theorem perm_chords s s' a b : seq_perm s s' -> tsigs_agree s ->
  distinct_on tx_qstep (filter is_chord (s_texts s)) ->
  ch_from_quantized s' a b = ch_from_quantized s a b.
Proof.
  intros P Ht D. unfold ch_from_quantized.
  rewrite (steps_per_bar_perm _ _ P Ht), <- (ch_sorted_perm _ _ (sp_texts _ _ P) D), <- (sp_spq _ _ P).
  reflexivity.
Qed.

(** * Melody *)
Definition qstart_pitch (n : note) : Z * Z := (n_qstart n, n_pitch n).

Lemma mel_candidates_perm p ns ns' : Permutation ns ns' -> distinct_on qstart_pitch ns ->
  mel_candidates p ns = mel_candidates p ns'.
Proof.
  intros P D. unfold mel_candidates. apply (isort_perm_invariant mel_le qstart_pitch).
  - apply mel_le_total.
  - apply mel_le_trans.
  - intros x y. unfold mel_le, qstart_pitch. intros H1 H2. f_equal; lia.
  - now apply perm_filter.
  - now apply distinct_on_filter.
Qed.

Theorem perm_melody p s s' : seq_perm s s' -> tsigs_agree s -> distinct_on qstart_pitch (s_notes s) ->
  mel_from_quantized p s' = mel_from_quantized p s.
Proof.
  intros P Ht D. unfold mel_from_quantized.
  rewrite (steps_per_bar_perm _ _ P Ht), <- (mel_candidates_perm p _ _ (sp_notes _ _ P) D), <- (sp_spq _ _ P).
  reflexivity.
Qed.

(** * Performance / MetricPerformance *)
Definition start_pitch (n : note) : Z * Z := (n_start n, n_pitch n).

Lemma pf_le_total a b : pf_le a b = true \/ pf_le b a = true.
Proof. unfold pf_le. lia. Qed.
Lemma pf_le_trans a b c : pf_le a b = true -> pf_le b c = true -> pf_le a c = true.
Proof. unfold pf_le. lia. Qed.

Lemma pf_sorted_notes_perm start instr ns ns' : Permutation ns ns' -> distinct_on start_pitch ns ->
  pf_sorted_notes start instr ns = pf_sorted_notes start instr ns'.
Proof.
  intros P D. unfold pf_sorted_notes. apply (isort_perm_invariant pf_le start_pitch).
  - apply pf_le_total.
  - apply pf_le_trans.
  - intros x y. unfold pf_le, start_pitch. intros H1 H2. f_equal; lia.
  - now apply perm_filter.
  - now apply distinct_on_filter.
Qed.

Theorem perm_performance p ns ns' : Permutation ns ns' -> distinct_on start_pitch ns ->
  pf_from_quantized p ns' = pf_from_quantized p ns.
Proof.
  intros P D. unfold pf_from_quantized. now rewrite <- (pf_sorted_notes_perm _ _ _ _ P D).
Qed.

(** program / is_drum stamped on the performance: needs one program per instrument, which is what
    "a program per instrument" means; without it the first stored note decides *)
Lemma all_same_spec l : all_same l = true <-> forall a b, In a l -> In b l -> a = b.
Proof.
  induction l as [|x [|y r] IH].
  - cbn. split; [intros _ a b []|reflexivity].
  - cbn. split; [intros _ a b [<-|[]] [<-|[]]; reflexivity|reflexivity].
  - change (all_same (x :: y :: r)) with ((x =? y) && all_same (y :: r)). rewrite andb_true_iff, IH. split.
    + intros [E H] a b Ha Hb. apply Z.eqb_eq in E. subst y.
      assert (forall c, In c (x :: x :: r) -> c = x).
      { intros c [<-|Hc]; [reflexivity|]. apply H; [exact Hc|now left]. }
      rewrite (H0 a Ha), (H0 b Hb). reflexivity.
    + intros H. split; [apply Z.eqb_eq, H; [now left|right; now left]|].
      intros a b Ha Hb. apply H; now right.
Qed.

Lemma all_same_perm l l' : Permutation l l' -> all_same l = all_same l'.
Proof.
  intros P. apply eq_true_iff_eq. rewrite !all_same_spec. split; intros H a b Ha Hb; apply H.
  - eapply Permutation_in; [symmetry; exact P|exact Ha].
  - eapply Permutation_in; [symmetry; exact P|exact Hb].
  - eapply Permutation_in; [exact P|exact Ha].
  - eapply Permutation_in; [exact P|exact Hb].
Qed.

Theorem perm_performance_program instr ns ns' : Permutation ns ns' ->
  pf_program_is_drum instr ns' = pf_program_is_drum instr ns.
Proof.
  intros P. unfold pf_program_is_drum.
  set (f := fun n : note => match instr with None => true | Some i => n_instr n =? i end).
  assert (Pf : Permutation (filter f ns) (filter f ns')) by now apply perm_filter.
  rewrite <- (perm_forallb n_drum _ _ Pf), <- (perm_forallb (fun n => negb (n_drum n)) _ _ Pf).
  destruct (forallb n_drum (filter f ns)); [reflexivity|].
  destruct (forallb (fun n => negb (n_drum n)) (filter f ns)); [|reflexivity].
  rewrite <- (all_same_perm _ _ (Permutation_map n_prog Pf)).
  destruct (filter f ns) as [|n r] eqn:E, (filter f ns') as [|n' r'] eqn:E'.
  - reflexivity.
  - apply Permutation_nil in Pf. discriminate.
  - apply Permutation_sym, Permutation_nil in Pf. discriminate.
  - destruct (all_same (map n_prog (n :: r))) eqn:A; [|reflexivity].
    rewrite all_same_spec in A. do 2 f_equal. apply A.
    + apply in_map. eapply Permutation_in; [symmetry; exact Pf|now left].
    + now left.
Qed.

(** * DrumTrack *)
Definition dr_rel (r r' : dr_result) : Prop :=
  Forall2 (@Permutation Z) (de_events r) (de_events r') /\ de_start r = de_start r' /\
  de_end r = de_end r' /\ de_spb r = de_spb r' /\ de_spq r = de_spq r'.

Lemma zlt_sorted_ext (l1 l2 : list Z) :
  StronglySorted Z.lt l1 -> StronglySorted Z.lt l2 -> (forall t, In t l1 <-> In t l2) -> l1 = l2.
Proof.
  intros S1 S2 H.
  assert (ND : forall l, StronglySorted Z.lt l -> NoDup l).
  { induction 1 as [|x r _ IH F]; constructor; [|exact IH].
    intros Hin. rewrite Forall_forall in F. specialize (F x Hin). lia. }
  apply (sorted_perm_unique Z.lt); [intros; lia|exact S1|exact S2|].
  apply NoDup_Permutation; [now apply ND|now apply ND|exact H].
Qed.

Lemma dr_keys_perm p ns ns' : Permutation ns ns' ->
  keys (dr_sorted_groups p ns) = keys (dr_sorted_groups p ns').
Proof.
  intros P. destruct (drums_hit_steps p ns) as [S1 M1]. destruct (drums_hit_steps p ns') as [S2 M2].
  apply zlt_sorted_ext; [exact S1|exact S2|]. intros t. rewrite M1, M2.
  split; intros (n & Hn & H); exists n; (split; [|exact H]).
  - eapply Permutation_in; [exact P|exact Hn].
  - eapply Permutation_in; [symmetry; exact P|exact Hn].
Qed.

Lemma dr_ok p s spb : steps_per_bar s = Ok spb -> exists r, dr_from_quantized p s = Ok r.
Proof.
  intros H. unfold dr_from_quantized. rewrite H. cbn [bind].
  destruct (dr_sorted_groups p (s_notes s)) as [|[k0 ps] r]; [eauto|].
  destruct (dr_loop _ _ _ _ _); eauto.
Qed.

Lemma dr_spec_event_perm p ns ns' last st : Permutation ns ns' ->
  Permutation (dr_spec_event p ns last st) (dr_spec_event p ns' last st).
Proof.
  intros P. unfold dr_spec_event. destruct (st <=? last); [|reflexivity].
  now apply Permutation_map, perm_filter.
Qed.

Theorem perm_drums p s s' : seq_perm s s' -> tsigs_agree s ->
  (forall spb, steps_per_bar s = Ok spb -> 0 < spb) ->
  fq_rel dr_rel (dr_from_quantized p s) (dr_from_quantized p s').
Proof.
  intros P Ht Hpos. pose proof (steps_per_bar_perm _ _ P Ht) as Hs.
  destruct (steps_per_bar s) as [spb|c] eqn:E.
  2:{ unfold dr_from_quantized. rewrite Hs, E. reflexivity. }
  specialize (Hpos spb eq_refl).
  destruct (dr_ok p s spb E) as [r Hr]. destruct (dr_ok p s' spb Hs) as [r' Hr'].
  rewrite Hr, Hr'. cbn [fq_rel].
  pose proof (drums_steps p s r spb E Hpos Hr) as (B1 & Q1 & M1).
  pose proof (drums_steps p s' r' spb Hs Hpos Hr') as (B2 & Q2 & M2).
  rewrite <- (dr_keys_perm p _ _ (sp_notes _ _ P)) in M2.
  unfold dr_rel. rewrite B1, B2, Q1, Q2, (sp_spq _ _ P).
  destruct (keys (dr_sorted_groups p (s_notes s))) as [|k0 ks].
  - destruct M1 as (-> & -> & ->), M2 as (-> & -> & ->). repeat split. constructor.
  - cbv zeta in M1, M2.
    destruct M1 as (S1 & L1 & E1 & N1), M2 as (S2 & L2 & E2 & N2).
    assert (ES : de_start r = de_start r') by congruence.
    assert (EL : len (de_events r) = len (de_events r')) by (rewrite L1, L2, ES; reflexivity).
    split; [|repeat split; congruence].
    apply (Forall2_nth _ []); [unfold len in EL; lia|].
    intros i Hi.
    change (nth i (de_events r) []) with (nth i (de_events r) []).
    assert (Hz : 0 <= Z.of_nat i < len (de_events r)) by (unfold len; lia).
    pose proof (N1 _ Hz) as A1. rewrite EL in Hz. pose proof (N2 _ Hz) as A2.
    unfold znth in A1, A2. rewrite Nat2Z.id in A1, A2. rewrite A1, A2, ES.
    apply dr_spec_event_perm, (sp_notes _ _ P).
Qed.
