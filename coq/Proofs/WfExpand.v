(** Proofs/WfExpand.v — C11 for expand_section_groups (Model/WfOps.v): a composition of
    extract_subsequence (C02 model) and concatenate_sequences (C13 model).  The two
    developments define clashing names ([res], [Ok], [sort_by], [is_quantized], ...), so
    nothing of them is imported here: every name is qualified. *)
From Coq Require Import ZArith List Bool Lia ZifyBool.
From NS Require Import Base.Sx Base.NoteSeq Model.Wf Proofs.WfBase Gen.G02 Model.WfOps.
From NS Require Model.TimeOps Model.Extract Proofs.WfTime Proofs.WfExtract.
Import ListNotations.
Local Open Scope Z_scope.

Lemma is_quantized_same : forall s, TimeOps.is_quantized s = Extract.is_quantized s.
Proof. intros s. unfold TimeOps.is_quantized, Extract.is_quantized. lia. Qed.

Lemma wf_with_sects : forall p l, wf p -> Forall (fun t => 0 <= sa_time t) l -> wf (with_sects p l).
Proof.
  intros p l (W0 & Wn & W1 & W2 & W3 & W4 & W5 & W6 & W7) Hl. apply wf_intro; cbn; auto.
Qed.

(** a table entry: the piece is well-formed, unquantized, not longer than its duration, and
    each of its notes is an input note that starts in the section, shifted and clipped *)
Definition entry_ok (s : seq) (e : Z * (seq * Z)) : Prop :=
  let p := fst (snd e) in let d := snd (snd e) in
  wf p /\ TimeOps.is_quantized p = false /\ s_total p <= d /\
  came_from WfExtract.from_piece (s_notes s) (s_notes p).

Lemma section_pieces_ok : forall s sects tbl,
  wf s -> section_pieces s sects = EOk tbl -> Forall (entry_ok s) tbl.
Proof.
  intros s. induction sects as [|a r IH]; intros tbl W H; cbn [section_pieces] in H.
  - injection H as <-. constructor.
  - set (e := match r with b :: _ => sa_time b | [] => s_total s end) in *.
    destruct (Extract.extract_subsequence DEFAULT_PRESERVE s (sa_time a) e) as [p|] eqn:E; [|discriminate].
    destruct (section_pieces s r) as [l|] eqn:R; [|discriminate]. injection H as <-.
    constructor; [|apply IH; auto].
    destruct (WfExtract.extract_subsequence_piece _ _ _ _ _ W E) as (Wp & Q1 & Q2 & Q & T).
    unfold entry_ok. cbn [fst snd]. split; [|split; [|split]].
    + apply wf_with_sects; [exact Wp|]. repeat constructor. cbn. lia.
    + rewrite is_quantized_same. rewrite <- Q. unfold Extract.is_quantized. cbn. rewrite Q1, Q2. reflexivity.
    + cbn. exact T.
    + cbn [with_sects s_notes]. intros n' Hn'.
      destruct (WfExtract.inv_extract_subsequence _ _ _ _ _ E n' Hn') as (n & Hn & Hp & ->).
      exists n. split; [exact Hn|]. exists (sa_time a), e. auto.
Qed.

Lemma lookup_last_In : forall {A} id (l : list (Z * A)) v, lookup_last id l = Some v -> exists k, In (k, v) l.
Proof.
  induction l as [|[k x] r IH]; intros v H; cbn [lookup_last] in H; [discriminate|].
  destruct (lookup_last id r) as [y|] eqn:E.
  - injection H as <-. destruct (IH y eq_refl) as (k' & Hk). exists k'. now right.
  - destruct (k =? id); [|discriminate]. injection H as <-. exists k. now left.
Qed.

Lemma lookup_all_In : forall {A} (tbl : list (Z * A)) ids l, lookup_all tbl ids = Some l ->
  forall v, In v l -> exists k, In (k, v) tbl.
Proof.
  intros A tbl. induction ids as [|i r IH]; intros l H v Hv; cbn [lookup_all] in H.
  - injection H as <-. contradiction.
  - destruct (lookup_last i tbl) as [x|] eqn:E; [|discriminate].
    destruct (lookup_all tbl r) as [l'|] eqn:R; [|discriminate]. injection H as <-.
    destruct Hv as [<-|Hv]; [eapply lookup_last_In; eauto | eapply IH; eauto].
Qed.

Lemma expand_ok_inv : forall s ids r,
  wf s -> expand_section_groups s true ids = EOk r ->
  exists l, TimeOps.concatenate (map fst l) (map snd l) = TimeOps.Ok r /\
            Forall (fun v => entry_ok s (0, v)) l.
Proof.
  intros s ids r W H. unfold expand_section_groups in H. cbn [negb] in H.
  destruct (section_pieces s (s_sects s)) as [tbl|] eqn:T; [|discriminate].
  destruct (lookup_all tbl ids) as [l|] eqn:L; [|discriminate].
  destruct (TimeOps.concatenate (map fst l) (map snd l)) as [c|] eqn:C; [|discriminate].
  injection H as <-. exists l. split; [exact C|].
  pose proof (section_pieces_ok s _ _ W T) as F. rewrite Forall_forall in *.
  intros v Hv. destruct (lookup_all_In tbl ids l L v Hv) as (k & Hk). exact (F _ Hk).
Qed.

(** expand_section_groups returns a well-formed sequence. *)
Lemma wf_expand : forall s has_groups ids r,
  wf s -> expand_section_groups s has_groups ids = EOk r -> wf r.
Proof.
  intros s hg ids r W H. destruct hg.
  - destruct (expand_ok_inv s ids r W H) as (l & C & F).
    apply (WfTime.wf_concatenate (map fst l) (map snd l) r); [| |exact C].
    + apply Forall_map_iff. eapply Forall_impl; [|exact F]. intros v E. apply E.
    + apply Forall_map_iff. eapply Forall_impl; [|exact F]. intros v E. apply E.
  - unfold expand_section_groups in H. cbn in H. injection H as <-. exact W.
Qed.

(** every note of the expansion is an input note: clipped to its section, moved to the
    section's origin, then moved forward to where a copy of the section is placed *)
Lemma inv_expand : forall s ids r,
  wf s -> expand_section_groups s true ids = EOk r ->
  came_from (fun n n' => exists m off, WfExtract.from_piece n m /\ 0 <= off /\
                                       n' = TimeOps.note_t (fun t => t + off) m)
            (s_notes s) (s_notes r).
Proof.
  intros s ids r W H. destruct (expand_ok_inv s ids r W H) as (l & C & F).
  assert (I := WfTime.inv_concatenate (map fst l) (map snd l) r).
  intros n' Hn'. destruct I with (n' := n') as (m & Hm & off & Hoff & E); auto.
  - apply Forall_map_iff. eapply Forall_impl; [|exact F]. intros v Ev. apply Ev.
  - apply Forall_map_iff. eapply Forall_impl; [|exact F]. intros v Ev. apply Ev.
  - unfold all_notes in Hm. apply in_flat_map in Hm. destruct Hm as (p & Hp & Hm).
    apply in_map_iff in Hp. destruct Hp as (v & <- & Hv). rewrite Forall_forall in F.
    destruct (F v Hv) as (_ & _ & _ & CF). cbn [fst snd] in CF.
    destruct (CF m Hm) as (n & Hn & Fp). exists n. split; [exact Hn|]. exists m, off. auto.
Qed.

(** [ext] Which errors escape: on a well-formed input the concatenation step never rejects
    the pieces (every section piece is unquantized and not longer than its duration), so the
    only failures are those of extract_subsequence (quantized input: QuantizationStatusError;
    section annotations out of time order or at/after total_time: ValueError) and a section
    group naming an id without annotation (KeyError). *)
Lemma combine_fst_snd : forall {A B} (l : list (A * B)),
  combine (map fst l) (map Some (map snd l)) = map (fun v => (fst v, Some (snd v))) l.
Proof. induction l as [|[a b] r IH]; cbn; [reflexivity|]. rewrite IH. reflexivity. Qed.

Lemma concatenate_entries_ok : forall s (l : list (seq * Z)),
  Forall (fun v => entry_ok s (0, v)) l ->
  exists r, TimeOps.concatenate (map fst l) (map snd l) = TimeOps.Ok r.
Proof.
  intros s l F. unfold TimeOps.concatenate, TimeOps.pair_durations.
  assert (P : forall ps, ps = map (fun v : seq * Z => (fst v, Some (snd v))) l -> Forall TimeOpsConcat.piece_ok ps).
  { intros ps ->. apply Forall_map_iff. eapply Forall_impl; [|exact F]. intros v (W & Q & T & _).
    cbn [fst snd] in *. split; [exact Q|]. split; [apply W|exact T]. }
  destruct l as [|v l'].
  - cbn. destruct (TimeOpsConcat.concat_pairs_spec [] (Forall_nil _)) as (r & E & _). exists r. exact E.
  - remember (v :: l') as l. assert (L : map snd l <> []) by (subst l; discriminate).
    destruct (map snd l) as [|d ds] eqn:Ed; [congruence|]. rewrite <- Ed.
    rewrite !map_length, Nat.eqb_refl, combine_fst_snd.
    destruct (TimeOpsConcat.concat_pairs_spec _ (P _ eq_refl)) as (r & E & _). exists r. exact E.
Qed.

Lemma expand_errors : forall s ids e,
  wf s -> expand_section_groups s true ids = EErr e ->
  section_pieces s (s_sects s) = EErr e \/
  (e = XKey /\ exists tbl, section_pieces s (s_sects s) = EOk tbl /\ lookup_all tbl ids = None).
Proof.
  intros s ids e W H. unfold expand_section_groups in H. cbn [negb] in H.
  destruct (section_pieces s (s_sects s)) as [tbl|x] eqn:T; [|left; congruence].
  destruct (lookup_all tbl ids) as [l|] eqn:L.
  - exfalso. assert (F : Forall (fun v => entry_ok s (0, v)) l).
    { pose proof (section_pieces_ok s _ _ W T) as F. rewrite Forall_forall in *.
      intros v Hv. destruct (lookup_all_In tbl ids l L v Hv) as (k & Hk). exact (F _ Hk). }
    destruct (concatenate_entries_ok s l F) as (r & E). rewrite E in H. discriminate.
  - right. injection H as <-. split; [reflexivity|]. exists tbl. auto.
Qed.

(** the errors of the section loop are errors of extract_subsequence *)
Lemma section_pieces_errors : forall s sects e, section_pieces s sects = EErr e ->
  exists a b x, Extract.extract_subsequence DEFAULT_PRESERVE s a b = Extract.Err x /\ e = of_xerr x.
Proof.
  intros s. induction sects as [|a r IH]; intros e H; cbn [section_pieces] in H; [discriminate|].
  set (en := match r with b :: _ => sa_time b | [] => s_total s end) in *.
  destruct (Extract.extract_subsequence DEFAULT_PRESERVE s (sa_time a) en) as [p|x] eqn:E.
  - destruct (section_pieces s r) as [l|y] eqn:R; [discriminate|]. injection H as <-. apply IH. reflexivity.
  - injection H as <-. exists (sa_time a), en, x. auto.
Qed.
