(** Proofs/TimeOpsAdjust.v — adjust_notesequence_times and rectify_beats (C13). *)
From Coq Require Import ZArith List Bool Lia ZifyBool Permutation Sorted.
From NS Require Import Base.Sx Base.NoteSeq Model.TimeOps Proofs.TimeOps Proofs.TimeOpsTidy.
Import ListNotations.
Local Open Scope Z_scope.

(** * adjust_notesequence_times, for an ARBITRARY time map f *)

(** A note whose mapped start and end coincide (dropped when no minimum duration is given). *)
Definition collapsed (f : Z -> Z) (n : note) : bool := f (n_start n) =? f (n_end n).
Definition kept (f : Z -> Z) (n : note) : bool := negb (collapsed f n).

(** A note that makes the map invalid: not collapsed, and reversed or starting before 0. *)
Definition bad_note (f : Z -> Z) (n : note) : bool :=
  kept f n && ((f (n_end n) <? f (n_start n)) || (f (n_start n) <? 0)).

(** The rejection condition of the code, as a checkable predicate. *)
Definition adjust_rejects (f : Z -> Z) (s : seq) : bool :=
  existsb (bad_note f) (s_notes s) ||
  (any_neg f cc_time (s_ccs s) || any_neg f pb_time (s_bends s) || any_neg f ts_time (s_tsigs s)
   || any_neg f ks_time (s_ksigs s) || any_neg f tx_time (s_texts s) || any_neg f sa_time (s_sects s)).

Definition max_from (tot : Z) (l : list note) : Z := fold_left (fun m n => Z.max m (n_end n)) l tot.

Lemma adjust_notes_ok : forall f l acc tot sk,
  existsb (bad_note f) l = false ->
  adjust_notes f None l acc tot sk =
  Ok (rev acc ++ map (note_t f) (filter (kept f) l),
      max_from tot (map (note_t f) (filter (kept f) l)),
      sk + Z.of_nat (length (filter (collapsed f) l))).
Proof.
  induction l as [|n r IH]; intros acc tot sk Hb.
  - cbn. rewrite app_nil_r, Z.add_0_r. reflexivity.
  - cbn [existsb] in Hb. apply orb_false_iff in Hb. destruct Hb as [Hn Hr].
    assert (Hk : kept f n = negb (f (n_start n) =? f (n_end n))) by reflexivity.
    assert (Hc : collapsed f n = (f (n_start n) =? f (n_end n))) by reflexivity.
    cbn [adjust_notes filter]. unfold bad_note in Hn. rewrite Hk in *. rewrite Hc.
    destruct (f (n_start n) =? f (n_end n)) eqn:E; cbn [negb andb].
    + rewrite IH by exact Hr. cbn [length]. rewrite Nat2Z.inj_succ. f_equal. f_equal. lia.
    + cbn [negb andb] in Hn. apply orb_false_iff in Hn. destruct Hn as [H1 H2].
      rewrite H1, H2. destruct (f (n_end n) <? 0) eqn:H3; [lia|].
      rewrite IH by exact Hr. cbn [map rev]. rewrite <- app_assoc. cbn [app].
      unfold max_from. cbn [fold_left]. reflexivity.
Qed.

Lemma adjust_notes_err : forall f l acc tot sk,
  existsb (bad_note f) l = true -> adjust_notes f None l acc tot sk = Err EAdjust.
Proof.
  induction l as [|n r IH]; intros acc tot sk Hb; [discriminate|].
  cbn [existsb] in Hb. cbn [adjust_notes]. unfold bad_note, kept, collapsed in Hb.
  destruct (f (n_start n) =? f (n_end n)) eqn:E; cbn [negb andb orb] in *.
  - apply IH. exact Hb.
  - destruct (f (n_end n) <? f (n_start n)) eqn:H1; [reflexivity|].
    destruct (f (n_start n) <? 0) eqn:H2; [reflexivity|].
    destruct (f (n_end n) <? 0) eqn:H3; [reflexivity|].
    cbn [orb] in Hb. apply IH. exact Hb.
Qed.

(** What an accepted adjustment returns. *)
Lemma adjust_spec : forall f s,
  adjust_rejects f s = false ->
  exists r, adjust f None s = Ok (r, Z.of_nat (length (filter (collapsed f) (s_notes s)))) /\
    s_notes r = map (note_t f) (filter (kept f) (s_notes s)) /\
    s_tempos r = [] /\
    s_tsigs r = map (tsig_t f) (s_tsigs s) /\
    s_ksigs r = map (ksig_t f) (s_ksigs s) /\
    s_texts r = map (text_t f) (s_texts s) /\
    s_ccs r = map (cc_t f) (s_ccs s) /\
    s_bends r = map (bend_t f) (s_bends s) /\
    s_sects r = map (sect_t f) (s_sects s) /\
    s_total r = max_end (s_notes r) /\
    s_sub r = s_sub s /\ same_rest s r.
Proof.
  intros f s H. unfold adjust_rejects in H. apply orb_false_iff in H. destruct H as [Hn He].
  unfold adjust. rewrite adjust_notes_ok by exact Hn. rewrite He.
  eexists; split; [cbn [rev app]; rewrite Z.add_0_l; reflexivity|].
  unfold same_rest; cbn [s_notes s_tempos s_tsigs s_ksigs s_texts s_ccs s_bends s_sects s_total s_sub
    s_qsteps s_spq s_sps s_tpq s_rest rev app].
  repeat split; reflexivity.
Qed.

(** Rejected exactly when the condition holds, and only ever with InvalidTimeAdjustmentError. *)
Lemma adjust_rejects_iff : forall f s e,
  adjust f None s = Err e <-> adjust_rejects f s = true /\ e = EAdjust.
Proof.
  intros f s e. destruct (adjust_rejects f s) eqn:R.
  - unfold adjust_rejects in R. unfold adjust.
    destruct (existsb (bad_note f) (s_notes s)) eqn:Hn.
    + rewrite adjust_notes_err by exact Hn. split; [intro H; inversion H; auto|intros [_ ->]; reflexivity].
    + cbn [orb] in R. rewrite adjust_notes_ok by exact Hn. rewrite R.
      split; [intro H; inversion H; auto|intros [_ ->]; reflexivity].
  - destruct (adjust_spec f s R) as (r & Hr & _). rewrite Hr. split; [discriminate|intros [H _]; discriminate].
Qed.

Lemma existsb_false : forall {A} (p : A -> bool) l, (forall x, In x l -> p x = false) -> existsb p l = false.
Proof.
  intros A p l H. destruct (existsb p l) eqn:E; [|reflexivity].
  apply existsb_exists in E. destruct E as (x & Hin & Hp). rewrite (H x Hin) in Hp. discriminate.
Qed.

(** A monotone map that keeps non-negative times non-negative is never rejected
    on a well-formed sequence. *)
Lemma adjust_monotone_ok : forall f s,
  (forall a b, a <= b -> f a <= f b) -> (forall t, 0 <= t -> 0 <= f t) -> seq_wf s ->
  adjust_rejects f s = false.
Proof.
  intros f s Hm Hp (Wn & W1 & W2 & W3 & W4 & W5 & W6 & W7).
  rewrite Forall_forall in *.
  unfold adjust_rejects, any_neg. repeat (apply orb_false_iff; split); apply existsb_false; intros x Hin.
  - specialize (Wn x Hin). destruct Wn as (A & B & C). unfold bad_note.
    pose proof (Hm _ _ B). pose proof (Hp _ A). destruct (kept f x); cbn; lia.
  - specialize (W5 x Hin). cbv beta in W5. specialize (Hp _ W5). lia.
  - specialize (W6 x Hin). cbv beta in W6. specialize (Hp _ W6). lia.
  - specialize (W2 x Hin). cbv beta in W2. specialize (Hp _ W2). lia.
  - specialize (W3 x Hin). cbv beta in W3. specialize (Hp _ W3). lia.
  - specialize (W4 x Hin). cbv beta in W4. specialize (Hp _ W4). lia.
  - specialize (W7 x Hin). cbv beta in W7. specialize (Hp _ W7). lia.
Qed.

(** * rectify_beats: the beat map *)
Definition increasing (xs : list Z) : Prop := StronglySorted Z.lt xs.

Lemma interp_cons2 : forall x y r j S t,
  interp (x :: y :: r) j S t =
  if t <? y then j * S + (t - x) * (S / (y - x)) else interp (y :: r) (j + 1) S t.
Proof. reflexivity. Qed.
Lemma interp_single : forall x j S t, interp [x] j S t = j * S.
Proof. reflexivity. Qed.

Lemma interp_lower : forall r x j S t, 0 <= S -> x <= t -> increasing (x :: r) ->
  j * S <= interp (x :: r) j S t.
Proof.
  induction r as [|y r' IH]; intros x j S t HS Ht Hinc; [rewrite interp_single; lia|].
  rewrite interp_cons2. inversion Hinc as [|? ? Hinc' F]; subst. inversion F; subst.
  destruct (t <? y) eqn:E.
  - assert (0 <= S / (y - x)) by (apply Z.div_pos; lia). nia.
  - assert (Hy : y <= t) by lia. specialize (IH y (j + 1) S t HS Hy Hinc'). nia.
Qed.

Lemma interp_monotone : forall xs j S t1 t2, 0 <= S -> increasing xs ->
  match xs with [] => True | x :: _ => x <= t1 end -> t1 <= t2 ->
  interp xs j S t1 <= interp xs j S t2.
Proof.
  induction xs as [|x r IH]; intros j S t1 t2 HS Hinc H1 H12; [cbn; lia|].
  destruct r as [|y r']; [rewrite !interp_single; lia|]. rewrite !interp_cons2.
  inversion Hinc as [|? ? Hinc' F]; subst. inversion F; subst.
  assert (Hq : 0 <= S / (y - x)) by (apply Z.div_pos; lia).
  assert (Hle : (y - x) * (S / (y - x)) <= S) by (apply Z.mul_div_le; lia).
  destruct (t1 <? y) eqn:E1, (t2 <? y) eqn:E2.
  - nia.
  - assert (Hy : y <= t2) by lia. pose proof (interp_lower r' y (j + 1) S t2 HS Hy Hinc') as L. nia.
  - lia.
  - apply IH; auto. lia.
Qed.

(** The map of rectify_beats is non-decreasing (everywhere, also beyond the last beat). *)
Lemma rect_fun_monotone : forall xs S t1 t2, 0 <= S -> increasing xs -> t1 <= t2 ->
  rect_fun xs S t1 <= rect_fun xs S t2.
Proof.
  intros [|x r] S t1 t2 HS Hinc H12; unfold rect_fun; [lia|].
  destruct (t1 <? x) eqn:E1, (t2 <? x) eqn:E2; try lia.
  - assert (Hx : x <= t2) by lia. pose proof (interp_lower r x 0 S t2 HS Hx Hinc) as L. lia.
  - apply interp_monotone; auto. lia.
Qed.

Lemma rect_fun_nonneg : forall xs S t, 0 <= S -> increasing xs -> 0 <= rect_fun xs S t.
Proof.
  intros [|x r] S t HS Hinc; unfold rect_fun; [lia|].
  destruct (t <? x) eqn:E; [lia|].
  assert (Hx : x <= t) by lia. pose proof (interp_lower r x 0 S t HS Hx Hinc) as L. lia.
Qed.

Lemma increasing_head_le : forall x r y i, increasing (x :: r) -> nth_error (x :: r) i = Some y -> x <= y.
Proof.
  intros x r y i Hinc Hn. destruct i; cbn in Hn; [inversion Hn; lia|].
  inversion Hinc as [|? ? _ F]; subst. apply nth_error_In in Hn.
  rewrite Forall_forall in F. specialize (F y Hn). lia.
Qed.

Lemma interp_nth : forall xs i j S x, increasing xs -> nth_error xs i = Some x ->
  interp xs j S x = (j + Z.of_nat i) * S.
Proof.
  induction xs as [|a r IH]; intros i j S x Hinc Hn; [destruct i; discriminate|].
  destruct r as [|y r'].
  - rewrite interp_single. destruct i as [|[|]]; cbn in Hn; try discriminate. lia.
  - rewrite interp_cons2. inversion Hinc as [|? ? Hinc' F]; subst. inversion F; subst.
    destruct i as [|i]; cbn [nth_error] in Hn.
    + inversion Hn; subst. destruct (x <? y) eqn:E; [lia|lia].
    + pose proof (increasing_head_le _ _ _ _ Hinc' Hn). destruct (x <? y) eqn:E; [lia|].
      rewrite (IH i (j + 1) S x Hinc' Hn). lia.
Qed.

(** Beat i (0-based, in the de-duplicated list that starts at 0) lands exactly on i beats. *)
Lemma rect_fun_beat : forall xs S i x, increasing xs -> nth_error xs i = Some x ->
  rect_fun xs S x = Z.of_nat i * S.
Proof.
  intros [|a r] S i x Hinc Hn; [destruct i; discriminate|]. unfold rect_fun.
  pose proof (increasing_head_le _ _ _ _ Hinc Hn). destruct (x <? a) eqn:E; [lia|].
  rewrite (interp_nth _ i 0 S x Hinc Hn). lia.
Qed.

(** Between two consecutive beats the map is exactly linear (when the interval divides S). *)
Lemma interp_segment : forall xs i j S x y t, increasing xs ->
  nth_error xs i = Some x -> nth_error xs (Datatypes.S i) = Some y -> x <= t < y ->
  interp xs j S t = (j + Z.of_nat i) * S + (t - x) * (S / (y - x)).
Proof.
  induction xs as [|a r IH]; intros i j S x y t Hinc Hx Hy Ht; [destruct i; discriminate|].
  destruct r as [|b r']; [destruct i as [|[|]]; discriminate|]. rewrite interp_cons2.
  inversion Hinc as [|? ? Hinc' F]; subst.
  destruct i as [|i]; cbn [nth_error] in Hx, Hy.
  - inversion Hx; inversion Hy; subst. destruct (t <? y) eqn:E; [|lia]. f_equal. lia.
  - pose proof (increasing_head_le _ _ _ _ Hinc' Hx). destruct (t <? b) eqn:E; [lia|].
    rewrite (IH i (j + 1) S x y t Hinc' Hx Hy Ht). lia.
Qed.

Lemma deltas_nth : forall xs i x y, nth_error xs i = Some x -> nth_error xs (Datatypes.S i) = Some y ->
  In (y - x) (deltas xs).
Proof.
  induction xs as [|a r IH]; intros i x y Hx Hy; [destruct i; discriminate|].
  destruct r as [|b r']; [destruct i as [|[|]]; discriminate|].
  destruct i as [|i]; cbn [nth_error] in Hx, Hy.
  - inversion Hx; inversion Hy; subst. cbn. auto.
  - cbn [deltas]. right. eapply IH; eauto.
Qed.

Lemma prod_divide : forall l d, In d l -> (d | prod l).
Proof.
  induction l as [|a r IH]; intros d Hd; [destruct Hd|].
  destruct Hd as [->|Hin]; unfold prod; cbn [fold_right].
  - apply Z.divide_factor_l.
  - apply Z.divide_mul_r. apply IH. exact Hin.
Qed.

Lemma deltas_pos : forall xs, increasing xs -> Forall (fun d => 0 < d) (deltas xs).
Proof.
  induction xs as [|a r IH]; intro Hinc; [constructor|].
  destruct r as [|b r']; [constructor|].
  inversion Hinc as [|? ? Hinc' F]; subst. inversion F; subst.
  cbn [deltas]. constructor; [lia|]. apply IH. exact Hinc'.
Qed.

Lemma prod_pos : forall l, Forall (fun d => 0 < d) l -> 0 < prod l.
Proof.
  induction l as [|a r IH]; intro F; unfold prod; cbn [fold_right]; [lia|].
  inversion F; subst. specialize (IH H2). unfold prod in IH. nia.
Qed.

(** With S the product of the beat intervals, interpolation is exact:
    interval * (image - i*S) = (t - beat_i) * S. *)
Lemma rect_fun_linear : forall xs i x y t, increasing xs ->
  nth_error xs i = Some x -> nth_error xs (Datatypes.S i) = Some y -> x <= t < y ->
  (y - x) * (rect_fun xs (prod (deltas xs)) t - Z.of_nat i * prod (deltas xs)) = (t - x) * prod (deltas xs).
Proof.
  intros xs i x y t Hinc Hx Hy Ht. set (S := prod (deltas xs)).
  destruct xs as [|a r]; [destruct i; discriminate|]. unfold rect_fun.
  pose proof (increasing_head_le _ _ _ _ Hinc Hx). destruct (t <? a) eqn:E; [lia|].
  rewrite (interp_segment _ i 0 S x y t Hinc Hx Hy Ht).
  assert (Hd : (y - x | S)) by (apply prod_divide; eapply deltas_nth; eauto).
  destruct Hd as (k & Hk). rewrite Hk. rewrite Z.div_mul by lia. nia.
Qed.

(** * rectify_beats: the beat list *)
Lemma strict_filter_increasing : forall l p, StronglySorted Z.le (p :: l) ->
  increasing (strict_filter p l) /\ Forall (fun x => p < x) (strict_filter p l).
Proof.
  induction l as [|x r IH]; intros p S; cbn [strict_filter]; [split; constructor|].
  inversion S as [|? ? S' F]; subst. inversion F; subst.
  destruct (IH x S') as [I1 I2].
  destruct (p <? x) eqn:E.
  - split.
    + constructor; [exact I1|exact I2].
    + constructor; [lia|]. eapply Forall_impl; [|exact I2]. cbv beta; intros; lia.
  - assert (p = x) by lia. subst x. split; assumption.
Qed.

Lemma unique_beats_increasing : forall l, StronglySorted Z.le l -> increasing (unique_beats l).
Proof.
  intros [|x r] S; cbn [unique_beats]; [constructor|].
  destruct (strict_filter_increasing r x S). constructor; assumption.
Qed.

Lemma sorted_snoc : forall l x, StronglySorted Z.le l -> Forall (fun y => y <= x) l ->
  StronglySorted Z.le (l ++ [x]).
Proof.
  induction l as [|a r IH]; intros x S F; cbn; [constructor; constructor|].
  inversion S; subst. inversion F; subst. constructor; [apply IH; assumption|].
  apply Forall_app. split; [assumption|constructor; [lia|constructor]].
Qed.

Lemma rect_beats_increasing : forall s, seq_wf s -> 0 <= s_total s -> increasing (rect_beats s).
Proof.
  intros s W Ht. unfold rect_beats. apply unique_beats_increasing.
  assert (Hb : forall t, In t (beat_times s) -> 0 <= t <= s_total s).
  { intros t Hin. unfold beat_times in Hin. apply in_map_iff in Hin. destruct Hin as (a & <- & Ha).
    apply filter_In in Ha. destruct Ha as [Ha Hc].
    destruct W as (_ & _ & _ & _ & W4 & _). rewrite Forall_forall in W4. specialize (W4 a Ha). cbv beta in W4. lia. }
  cbn [app]. constructor.
  - apply sorted_snoc.
    + pose proof (sort_by_sorted (fun t : Z => t) (beat_times s)) as S.
      unfold sorted_by, le_key in S. exact S.
    + apply Forall_forall. intros y Hy. apply sort_by_In in Hy. apply Hb in Hy. lia.
  - apply Forall_app. split; [|constructor; [lia|constructor]].
    apply Forall_forall. intros y Hy. apply sort_by_In in Hy. apply Hb in Hy. lia.
Qed.

(** * rectify_beats as a whole *)
Lemma rectify_spec : forall bpm s,
  seq_wf s -> 0 <= s_total s -> is_quantized s = false -> beat_times s <> [] -> bpm <> 0 ->
  let xs := rect_beats s in
  let S := prod (deltas xs) in
  let f := rect_fun xs S in
  increasing xs /\ 0 < S /\
  exists r, rectify bpm s = Ok (r, xs, S) /\
    s_notes r = map (note_t f) (filter (kept f) (s_notes s)) /\
    s_tempos r = [mkTempo 0 bpm] /\
    s_tsigs r = [] /\
    s_ksigs r = map (ksig_t f) (s_ksigs s) /\
    s_texts r = map (text_t f) (s_texts s) /\
    s_ccs r = map (cc_t f) (s_ccs s) /\
    s_bends r = map (bend_t f) (s_bends s) /\
    s_sects r = map (sect_t f) (s_sects s) /\
    s_total r = max_end (s_notes r) /\
    s_sub r = s_sub s /\ same_rest s r.
Proof.
  intros bpm s W Ht Hq Hb Hbpm xs S f.
  assert (Hinc : increasing xs) by (apply rect_beats_increasing; assumption).
  assert (HS : 0 < S) by (apply prod_pos, deltas_pos; exact Hinc).
  split; [exact Hinc|]. split; [exact HS|].
  assert (Hrej : adjust_rejects f s = false).
  { apply adjust_monotone_ok; [| |exact W].
    - intros; apply rect_fun_monotone; auto; lia.
    - intros; apply rect_fun_nonneg; auto; lia. }
  destruct (adjust_spec f s Hrej) as (a & Ha & A1 & A2 & A3 & A4 & A5 & A6 & A7 & A8 & A9 & A10 & A11).
  unfold rectify. rewrite Hq. destruct (beat_times s) eqn:Eb; [congruence|].
  destruct (bpm =? 0) eqn:E0; [lia|].
  fold xs. fold S. fold f. rewrite Ha.
  eexists; split; [reflexivity|].
  unfold same_rest in *; cbn [s_notes s_tempos s_tsigs s_ksigs s_texts s_ccs s_bends s_sects s_total s_sub
    s_qsteps s_spq s_sps s_tpq s_rest].
  rewrite A1 in *. repeat split; try assumption; try reflexivity; try apply A11.
Qed.

Lemma rectify_errors : forall bpm s e,
  rectify bpm s = Err e ->
  (is_quantized s = true /\ e = EQuant) \/
  (is_quantized s = false /\ beat_times s = [] /\ e = ERectify) \/
  (is_quantized s = false /\ beat_times s <> [] /\ bpm = 0 /\ e = EZeroDiv) \/
  (is_quantized s = false /\ beat_times s <> [] /\ bpm <> 0 /\ e = EAdjust /\
   adjust_rejects (rect_fun (rect_beats s) (prod (deltas (rect_beats s)))) s = true).
Proof.
  intros bpm s e H. unfold rectify in H.
  destruct (is_quantized s); [inversion H; auto|].
  destruct (beat_times s) eqn:Eb; [inversion H; right; left; auto|].
  destruct (bpm =? 0) eqn:E0; [inversion H; right; right; left; repeat split; auto; [congruence|lia]|].
  destruct (adjust _ None s) as [[a sk]|e'] eqn:Ea; [discriminate|].
  inversion H; subst e'. apply adjust_rejects_iff in Ea. destruct Ea as [Ea ->].
  right; right; right. repeat split; auto; [congruence|lia].
Qed.

(** * adjust_notesequence_times with a minimum duration (m <> 0): no note is
      skipped; a collapsed note gets end = mapped start + m. *)
Definition adj_end (f : Z -> Z) (m : Z) (n : note) : Z :=
  if collapsed f n then f (n_end n) + m else f (n_end n).
Definition bad_note_md (f : Z -> Z) (m : Z) (n : note) : bool :=
  (adj_end f m n <? f (n_start n)) || (f (n_start n) <? 0) || (adj_end f m n <? 0).
Definition adjust_rejects_md (f : Z -> Z) (m : Z) (s : seq) : bool :=
  existsb (bad_note_md f m) (s_notes s) ||
  (any_neg f cc_time (s_ccs s) || any_neg f pb_time (s_bends s) || any_neg f ts_time (s_tsigs s)
   || any_neg f ks_time (s_ksigs s) || any_neg f tx_time (s_texts s) || any_neg f sa_time (s_sects s)).
Definition note_md (f : Z -> Z) (m : Z) (n : note) : note :=
  note_with_times n (f (n_start n)) (adj_end f m n).

Lemma adjust_notes_md_ok : forall f m l acc tot sk, m <> 0 ->
  existsb (bad_note_md f m) l = false ->
  adjust_notes f (Some m) l acc tot sk =
  Ok (rev acc ++ map (note_md f m) l, max_from tot (map (note_md f m) l), sk).
Proof.
  induction l as [|n r IH]; intros acc tot sk Hm Hb.
  - cbn. rewrite app_nil_r. reflexivity.
  - cbn [existsb] in Hb. apply orb_false_iff in Hb. destruct Hb as [Hn Hr].
    cbn [adjust_notes]. unfold bad_note_md, adj_end, collapsed in Hn.
    assert (Hnm : (m =? 0) = false) by lia. rewrite Hnm. cbn [negb]. rewrite andb_false_r.
    apply orb_false_iff in Hn. destruct Hn as [Hn H3]. apply orb_false_iff in Hn. destruct Hn as [H1 H2].
    rewrite H1, H2, H3.
    rewrite IH by assumption. cbn [map rev]. rewrite <- app_assoc. cbn [app].
    unfold max_from. cbn [fold_left]. unfold note_md at 3 5, adj_end, collapsed. cbn [n_end note_with_times].
    reflexivity.
Qed.

Lemma adjust_md_spec : forall f m s, m <> 0 ->
  adjust_rejects_md f m s = false ->
  exists r, adjust f (Some m) s = Ok (r, 0) /\
    s_notes r = map (note_md f m) (s_notes s) /\
    s_tempos r = [] /\
    s_tsigs r = map (tsig_t f) (s_tsigs s) /\ s_ksigs r = map (ksig_t f) (s_ksigs s) /\
    s_texts r = map (text_t f) (s_texts s) /\ s_ccs r = map (cc_t f) (s_ccs s) /\
    s_bends r = map (bend_t f) (s_bends s) /\ s_sects r = map (sect_t f) (s_sects s) /\
    s_total r = max_end (s_notes r) /\ s_sub r = s_sub s /\ same_rest s r.
Proof.
  intros f m s Hm H. unfold adjust_rejects_md in H. apply orb_false_iff in H. destruct H as [Hn He].
  unfold adjust. rewrite adjust_notes_md_ok by assumption. rewrite He.
  eexists; split; [reflexivity|].
  unfold same_rest; cbn [s_notes s_tempos s_tsigs s_ksigs s_texts s_ccs s_bends s_sects s_total s_sub
    s_qsteps s_spq s_sps s_tpq s_rest rev app].
  repeat split; reflexivity.
Qed.
