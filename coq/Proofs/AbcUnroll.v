(** Proofs/AbcUnroll.v — C04, note-level repeat expansion:
    (a) refutations: an information field inside a body that is played more than
        once makes the expanded notes differ from the unrolled reading (the
        expansion replays what the first pass computed; the unrolled reading keeps
        the changed tempo / unit length / key for the second pass);
    (b) the replay theorem: a field-free body run from two parser states with the
        same musical state (key and bar accidentals, unit length, tempo, no pending
        broken rhythm) and clocks differing by d succeeds or fails identically,
        ends in the same musical state and appends the same notes shifted by d. *)
From Coq Require Import ZArith QArith List Bool Lia Lqa.
From NS Require Import Gen.G04 Model.Abc Model.AbcUnroll Proofs.AbcTime.
Import ListNotations.
Local Open Scope Z_scope.

(** ** (a) Refutations *)
Definition readings_differ (is : list item) : bool :=
  match parse_items is, parse_items (unroll_items is) with
  | Ok t, Ok t' =>
      match expand t with Ok (_, ns) => negb (notes_eqb ns (t_notes t')) | Err _ => false end
  | _, _ => false
  end.

Definition nt (l : Z) : item := ITok (TNote ANone l [] (mkLen None 0 None)).

(* |: A [Q:1/4=60] B :|   — second pass: A at 120 qpm in the expansion, at 60 qpm unrolled *)
Lemma expansion_notes_inline_tempo_refuted :
  let is := [ILine; ITok (TBar 0 1 1); nt 65; ITok (TInline (FQ (QFrac [(1, 4)] 60))); nt 66; ITok (TBar 1 1 0)] in
  no_inline_fields_in_repeats is = false /\ broken_between_notes false is = true /\ readings_differ is = true.
Proof. vm_compute. repeat split. Qed.

(* |: A [L:1/4] B :| *)
Lemma expansion_notes_inline_unit_length_refuted :
  let is := [ILine; ITok (TBar 0 1 1); nt 65; ITok (TInline (FL 1 4)); nt 66; ITok (TBar 1 1 0)] in
  no_inline_fields_in_repeats is = false /\ readings_differ is = true.
Proof. vm_compute. repeat split. Qed.

(* |: F [K:G] F :|   — second pass: first F natural in the expansion, sharp unrolled *)
Lemma expansion_notes_inline_key_refuted :
  let is := [ILine; ITok (TBar 0 1 1); nt 70; ITok (TInline (FK [71] [] false [])); nt 70; ITok (TBar 1 1 0)] in
  no_inline_fields_in_repeats is = false /\ readings_differ is = true.
Proof. vm_compute. repeat split. Qed.

(* the same fields are harmless right after the opening symbol (written once) and in a
   body played once *)
Lemma expansion_notes_fields_outside_bodies_ok :
  expansion_check [ILine; ITok (TBar 0 1 1); ITok (TInline (FQ (QFrac [(1, 4)] 60))); nt 65; nt 66;
                   ITok (TBar 1 1 0); nt 67; ITok (TInline (FL 1 4)); nt 65; ITok (TBar 0 2 0); nt 66] = 1.
Proof. vm_compute. reflexivity. Qed.

(* A > |: B :|  — a broken rhythm reaching across a boundary: the readings differ as well *)
Lemma expansion_notes_broken_across_boundary_refuted :
  let is := [ILine; nt 65; ITok (TBroken true 1); ITok (TBar 0 1 1); nt 66; ITok (TBar 1 1 0)] in
  broken_between_notes false is = false /\ readings_differ is = true.
Proof. vm_compute. repeat split. Qed.

(** ** (b) Replaying a field-free body from a shifted clock *)
Local Open Scope Q_scope.

Definition shifted (d : Q) (x y : nnote) : Prop :=
  n_pitch y = n_pitch x /\ n_start y == n_start x + d /\ n_end y == n_end x + d.

(* [k] = number of notes appended since the start of the body *)
Record Sim (d : Q) (k : nat) (a b : st) : Prop := mkSim {
  sm_k : kacc b = kacc a;
  sm_b : bacc b = bacc a;
  sm_u : unit_len b = unit_len a;
  sm_q : cur_qpm b = cur_qpm a;
  sm_ha : in_header a = false;
  sm_hb : in_header b = false;
  sm_br : broken b = broken a;
  sm_c : cur b == cur a + d;
  sm_n : Forall2 (shifted d) (firstn k (notes a)) (firstn k (notes b));
  sm_la : (k <= length (notes a))%nat;
  sm_lb : (k <= length (notes b))%nat }.

Definition body_item (i : item) : bool :=
  match i with
  | ITok (TNote _ _ _ _) | ITok TNop | ITok (TBroken _ _) | ITok (TUnsup _) | ILine => true
  | ITok (TBar lc bl rc) => (lc =? 0)%Z && (bl =? 1)%Z && (rc =? 0)%Z
  | _ => false
  end.

Definition same_result (d : Q) (k : nat) (ra rb : res st) : Prop :=
  match ra, rb with
  | Ok a', Ok b' => Sim d k a' b'
  | Err e, Err e' => e = e'
  | _, _ => False
  end.

Ltac prjs := cbn [cur kacc bacc unit_len expected in_header htempo_unit htempo_rate notes tempos tsigs
                  ksigs sects groups refnum broken cur_qpm
                  set_cur set_kacc set_bacc set_unit set_expected set_in_header set_htempo set_notes
                  set_tempos set_tsigs set_ksigs set_sects set_groups set_refnum set_broken] in *.

Lemma qeqb_compat : forall a b a' b', a == a' -> b == b' -> qeqb a b = qeqb a' b'.
Proof.
  intros a b a' b' Ha Hb. destruct (qeqb a b) eqn:E; symmetry.
  - apply qeqb_iff. apply qeqb_iff in E. rewrite <- Ha, <- Hb. exact E.
  - destruct (qeqb a' b') eqn:E'; [|reflexivity]. apply qeqb_iff in E'.
    assert (X : qeqb a b = true) by (apply qeqb_iff; rewrite Ha, Hb; exact E'). congruence.
Qed.

Lemma sim_apply_broken : forall d k a b br, Sim d k a b -> (2 <= k)%nat ->
  same_result d k (apply_broken a br) (apply_broken b br).
Proof.
  intros d k a b br S K. destruct S. unfold apply_broken.
  destruct (notes a) as [|a2 [|a1 ra]] eqn:NA; cbn [length] in *; try lia.
  destruct (notes b) as [|b2 [|b1 rb]] eqn:NB; cbn [length] in *; try lia.
  destruct k as [|[|k]]; try lia. cbn [firstn] in sm_n0.
  inversion sm_n0 as [|? ? ? ? S2 T2]; subst. inversion T2 as [|? ? ? ? S1 T1]; subst.
  destruct S2 as [P2 [B2 E2]]. destruct S1 as [P1 [B1 E1]].
  assert (L1 : qsub (n_end b1) (n_start b1) == qsub (n_end a1) (n_start a1)) by (rewrite !qsub_eq, B1, E1; ring).
  assert (L2 : qsub (n_end b2) (n_start b2) == qsub (n_end a2) (n_start a2)) by (rewrite !qsub_eq, B2, E2; ring).
  rewrite (qeqb_compat _ _ _ _ L1 L2).
  destruct (negb (qeqb (qsub (n_end a1) (n_start a1)) (qsub (n_end a2) (n_start a2)))); cbn [same_result]; [reflexivity|].
  set (adja := qsub (qsub (n_end a1) (n_start a1)) (qdiv (qsub (n_end a1) (n_start a1)) (qpow2 (snd br)))).
  set (adjb := qsub (qsub (n_end b1) (n_start b1)) (qdiv (qsub (n_end b1) (n_start b1)) (qpow2 (snd br)))).
  assert (ADJ : adjb == adja).
  { assert (L1' : n_end b1 - n_start b1 == n_end a1 - n_start a1) by (rewrite B1, E1; ring).
    subst adja adjb. repeat (rewrite qsub_eq || rewrite qdiv_eq). rewrite L1'. reflexivity. }
  destruct (fst br); cbn [same_result]; constructor; prjs; try assumption;
    try (rewrite NA; cbn [length]; lia); try (rewrite NB; cbn [length]; lia).
  all: cbn [firstn length] in *; try lia.
  all: (constructor; [|constructor; [|try assumption]]); unfold shifted; cbn [n_pitch n_start n_end];
    try ((split; [assumption|]); split; rewrite ?qadd_eq, ?qsub_eq, ?ADJ, ?B1, ?B2, ?E1, ?E2; ring).

Qed.

Lemma sim_step : forall d k a b i, Sim d k a b -> body_item i = true ->
  (broken a <> None -> (1 <= k)%nat) ->
  same_result d (if is_note i then S k else k) (step_item a i) (step_item b i).
Proof.
  intros d k a b i SM BI BR. destruct i as [f| |t]; cbn [body_item] in BI; try discriminate.
  - (* ILine *)
    cbn [step_item is_note]. rewrite (sm_ha _ _ _ _ SM), (sm_hb _ _ _ _ SM). cbn [bind same_result].
    destruct SM. constructor; prjs; first [assumption | reflexivity].
  - destruct t as [ac l octs len|lc bl rc|n|gt kk|f| |u]; cbn [body_item] in BI; try discriminate;
      cbn [step_item step_token is_note].
    + (* note *)
      unfold step_note. rewrite (sm_k _ _ _ _ SM), (sm_b _ _ _ _ SM), (sm_u _ _ _ _ SM), (sm_q _ _ _ _ SM), (sm_br _ _ _ _ SM).
      destruct (note_pitch (kacc a) (bacc a) ac l octs) as [[p b']|e]; cbn [bind same_result]; [|reflexivity].
      destruct (unit_len a) as [u|]; cbn [same_result]; [|reflexivity].
      destruct (note_length u len) as [ln|e]; cbn [bind same_result]; [|reflexivity].
      destruct (qzero (cur_qpm a)); cbn [same_result]; [reflexivity|].
      set (sec := note_seconds (cur_qpm a) ln).
      match goal with |- same_result _ _ (match _ with Some _ => do _ <- apply_broken ?A _; _ | None => _ end)
                                         (match _ with Some _ => do _ <- apply_broken ?B _; _ | None => _ end) =>
        assert (S1 : Sim d (S k) A B) end.
      { destruct SM. constructor; prjs; try assumption; try reflexivity; try (cbn [length]; lia).
        - rewrite !qadd_eq, sm_c0. ring.
        - cbn [firstn]. constructor; [|assumption]. unfold shifted. cbn [n_pitch n_start n_end].
          split; [reflexivity|]. split; [assumption|]. rewrite !qadd_eq, sm_c0. ring. }
      destruct (broken a) as [br|] eqn:BRK.
      * pose proof (sim_apply_broken d (S k) _ _ br S1 ltac:(specialize (BR ltac:(discriminate)); lia)) as AB.
        match type of AB with same_result _ _ ?X ?Y => destruct X as [a2|ea]; destruct Y as [b2|eb] end;
          cbn [same_result bind] in *; try contradiction; [|assumption].
        destruct AB. constructor; prjs; first [assumption | reflexivity].
      * cbn [same_result]. exact S1.
    + (* plain bar *)
      apply andb_prop in BI. destruct BI as [BI R0]. apply andb_prop in BI. destruct BI as [L0 B1].
      apply Z.eqb_eq in L0. apply Z.eqb_eq in B1. apply Z.eqb_eq in R0. subst.
      unfold step_bar. cbn [Z.ltb Z.compare orb Z.leb]. cbn [same_result].
      destruct SM. constructor; prjs; try assumption. reflexivity.
    + (* broken *)
      rewrite (sm_br _ _ _ _ SM). destruct (broken a); cbn [same_result]; [reflexivity|].
      destruct SM. constructor; prjs; try assumption. reflexivity.
    + cbn [same_result]. exact SM.
    + destruct u; reflexivity.
Qed.

Fixpoint count_notes (is : list item) : nat :=
  match is with [] => O | i :: r => ((if is_note i then 1 else 0) + count_notes r)%nat end.

Lemma sim_run : forall B d k a b prev,
  Sim d k a b -> forallb body_item B = true -> broken_between_notes prev B = true ->
  (broken a <> None -> (1 <= k)%nat) -> (prev = true -> (1 <= k)%nat) ->
  same_result d (k + count_notes B) (run_items a B) (run_items b B).
Proof.
  induction B as [|i r IH]; intros d k a b prev SM BI BB BR PV; cbn [run_items count_notes].
  - rewrite Nat.add_0_r. exact SM.
  - cbn [forallb] in BI. apply andb_prop in BI. destruct BI as [B1 B2].
    pose proof (sim_step d k a b i SM B1 BR) as ST.
    destruct (step_item a i) as [a1|ea] eqn:EA; destruct (step_item b i) as [b1|eb] eqn:EB;
      cbn [same_result bind] in *; try contradiction; [|assumption].
    replace (k + ((if is_note i then 1 else 0) + count_notes r))%nat
      with ((if is_note i then S k else k) + count_notes r)%nat by (destruct (is_note i); lia).
    assert (NXT : exists prev', broken_between_notes prev' r = true /\
                    (broken a1 <> None -> (1 <= (if is_note i then S k else k))%nat) /\
                    (prev' = true -> (1 <= (if is_note i then S k else k))%nat)).
    { destruct i as [f| |t]; cbn [body_item] in B1; try discriminate.
      - cbn [broken_between_notes is_note] in *. exists false. split; [assumption|].
        cbn [step_item] in EA. rewrite (sm_ha _ _ _ _ SM) in EA. cbn [bind] in EA. injection EA as <-. prjs.
        split; [intros X; now contradiction X|discriminate].
      - destruct t as [ac l octs len|lc bl rc|n|gt kk|f| |u]; cbn [body_item] in B1; try discriminate;
          cbn [broken_between_notes is_note] in *.
        + exists true. split; [assumption|]. split; intros; lia.
        + exists false. split; [assumption|]. split; [|discriminate].
          cbn [step_item step_token] in EA.
          assert (X : broken a1 = broken a).
          { unfold step_bar in EA. apply andb_prop in B1. destruct B1 as [B1 R0]. apply andb_prop in B1.
            destruct B1 as [L0 B1']. apply Z.eqb_eq in L0. apply Z.eqb_eq in B1'. apply Z.eqb_eq in R0. subst.
            cbn in EA. injection EA as <-. reflexivity. }
          rewrite X. assumption.
        + apply andb_prop in BB. destruct BB as [BB1 BB3]. apply andb_prop in BB1. destruct BB1 as [PT NX].
          exists false. split; [assumption|]. split; [|discriminate]. intros _. apply PV. exact PT.
        + exists false. split; [assumption|]. split; [|discriminate].
          cbn [step_item step_token] in EA. injection EA as <-. assumption.
        + destruct u; cbn [step_item step_token] in EA; discriminate. }
    destruct NXT as [prev' [N1 [N2 N3]]]. eapply IH; eassumption.
Qed.

(** The replay theorem.  [base] notes are untouched: only the notes appended by the body
    are compared. *)
Lemma body_replay : forall B d a b,
  kacc b = kacc a -> bacc b = bacc a -> unit_len b = unit_len a -> cur_qpm b = cur_qpm a ->
  in_header a = false -> in_header b = false -> broken a = None -> broken b = None ->
  cur b == cur a + d ->
  forallb body_item B = true -> broken_between_notes false B = true ->
  match run_items a B, run_items b B with
  | Ok a', Ok b' =>
      kacc b' = kacc a' /\ bacc b' = bacc a' /\ unit_len b' = unit_len a' /\ cur_qpm b' = cur_qpm a' /\
      broken b' = broken a' /\ cur b' == cur a' + d /\
      Forall2 (shifted d) (firstn (count_notes B) (notes a')) (firstn (count_notes B) (notes b'))
  | Err e, Err e' => e = e'
  | _, _ => False
  end.
Proof.
  intros B d a b K1 K2 K3 K4 HA HB BA BBr C BI BB.
  assert (S0 : Sim d 0 a b).
  { constructor; try assumption; try (cbn; lia).
    - now rewrite BA, BBr.
    - cbn [firstn]. constructor. }
  pose proof (sim_run B d 0 a b false S0 BI BB) as R.
  specialize (R ltac:(intros X; now contradiction X) ltac:(discriminate)).
  cbn [Nat.add] in R.
  destruct (run_items a B) as [a'|ea]; destruct (run_items b B) as [b'|eb]; cbn [same_result] in R;
    try contradiction; [|assumption].
  destruct R. repeat split; assumption.
Qed.

(** ** (c) The note-level statement, as far as it is established

    Full statement (NOT proved in general; see notes/C04.md for what is missing):

      forall is,
        no_inline_fields_in_repeats is = true -> broken_between_notes false is = true ->
        forall t, parse_items is = Ok t ->
        exists ids ns t', expand t = Ok (ids, ns) /\ parse_items (unroll_items is) = Ok t' /\
                          notes_eqb ns (t_notes t') = true.

    i.e. [expansion_check is <> 2].  It is (1) evaluated by the model runner on every
    generated tune of every check run (a value 2 is reported as a divergence), and
    (2) proved here by complete enumeration in the kernel for every item list of at most
    5 tokens over a 13-symbol alphabet (4 notes incl. an accidental and the same letter
    without one, a broken-rhythm sign, plain / double bars, simple and counted repeat
    symbols, `:|:` and `::`). *)
Local Open Scope Z_scope.

Lemma expansion_check_meaning : forall is,
  expansion_check is <> 2 ->
  no_inline_fields_in_repeats is = true -> broken_between_notes false is = true ->
  forall t, parse_items is = Ok t ->
  exists ids ns t', expand t = Ok (ids, ns) /\ parse_items (unroll_items is) = Ok t' /\
                    notes_eqb ns (t_notes t') = true.
Proof.
  intros is H H1 H2 t P. unfold expansion_check in H. rewrite H1, H2, P in H. cbn [andb] in H.
  destruct (expand t) as [[ids ns]|e]; [|now contradiction H].
  destruct (parse_items (unroll_items is)) as [t'|e]; [|now contradiction H].
  destruct (notes_eqb ns (t_notes t')) eqn:E; [|now contradiction H].
  exists ids, ns, t'. repeat split; assumption.
Qed.

Definition sigma13 : list item :=
  [ITok (TNote ANone 65 [] (mkLen None 0 None)); ITok (TNote ASharp 70 [] (mkLen None 0 None));
   ITok (TNote ANone 70 [] (mkLen None 1 None)); ITok (TNote ANone 99 [] (mkLen (Some 2) 0 None));
   ITok (TBroken true 1); ITok (TBar 0 1 0); ITok (TBar 0 2 0); ITok (TBar 0 1 1); ITok (TBar 1 1 0);
   ITok (TBar 1 1 1); ITok (TColons 2); ITok (TBar 0 1 2); ITok (TBar 2 1 0)].

Fixpoint lists_upto (n : nat) : list (list item) :=
  match n with
  | O => [[]]
  | S k => [] :: flat_map (fun l => map (fun x => x :: l) sigma13) (lists_upto k)
  end.

Lemma lists_upto_complete : forall n l, (length l <= n)%nat -> Forall (fun x => In x sigma13) l ->
  In l (lists_upto n).
Proof.
  induction n as [|n IH]; intros l L F.
  - destruct l; [now left|cbn in L; lia].
  - destruct l as [|x r]; [now left|]. right. cbn [length] in L.
    inversion F as [|? ? Fx Fr]; subst.
    apply in_flat_map. exists r. split; [apply IH; [lia|assumption]|].
    apply in_map_iff. exists x. split; [reflexivity|assumption].
Qed.

Lemma expansion_enumeration :
  forallb (fun l => negb (expansion_check (ILine :: l) =? 2)) (lists_upto 5) = true.
Proof. vm_compute. reflexivity. Qed.

Lemma expansion_notes_bounded : forall l,
  (length l <= 5)%nat -> Forall (fun x => In x sigma13) l ->
  let is := ILine :: l in
  no_inline_fields_in_repeats is = true -> broken_between_notes false is = true ->
  forall t, parse_items is = Ok t ->
  exists ids ns t', expand t = Ok (ids, ns) /\ parse_items (unroll_items is) = Ok t' /\
                    notes_eqb ns (t_notes t') = true.
Proof.
  intros l L F is. apply expansion_check_meaning.
  pose proof expansion_enumeration as E. rewrite forallb_forall in E.
  specialize (E l (lists_upto_complete 5 l L F)). apply negb_true_iff in E. apply Z.eqb_neq in E. exact E.
Qed.

(* how many of the enumerated lists satisfy every hypothesis and parse (so the conclusion
   is not vacuous): at least 20000 *)
Lemma expansion_enumeration_nonvacuous :
  (20000 <=? Z.of_nat (length (filter (fun l => expansion_check (ILine :: l) =? 1) (lists_upto 5)))) = true.
Proof. vm_compute. reflexivity. Qed.
